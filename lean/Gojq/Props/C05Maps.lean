/-
  C05, last clause: "nothing depends on Go map iteration order" (DESIGN C05.3 `map_order_irrelevant`,
  C05.4 `facts_covered` for the map-range sites).

  Model (Gojq/Model/MapEnum.lean): an object is its member list with strictly increasing keys
  (`kvSorted`, the shared model) and every function of /repo that TRAVERSES a map takes the order
  in which `range` delivers the entries as an extra argument `enum` — any rearrangement
  (`List.Perm`) of the members.  Each theorem below says: the result is the same for every
  enumeration, and equals what the shared model computes.  The sorting routine (`sort.Strings`,
  `sort.Slice`) is a parameter too: any function returning an increasing rearrangement.
  The theorems are about one traversal with an arbitrary body (`cmpV`, `body`, `g`, `f`: the
  nested calls); a nested call traverses other maps with its own enumerations and is a function
  of its arguments by the same theorem one level down, so the statements compose over the depth
  of a value.

  Tie to the source: `verifgen maprange` (harness/cmd/verifgen/maprange.go) lists, from the
  type-checked AST of packages gojq and cli on every run, each `range` over a map and each call of
  `maps.Keys/Values/All/Clone/Copy/Insert/Collect/DeleteFunc/Equal/EqualFunc`, `reflect` map
  traversals, with a structural class: S = collected into one slice that is sorted before any
  other use, C = stores at the range key only, U = anything else.  `facts_covered` (decided by the
  kernel over the regenerated table) says: every S site sorts with the built-in string order or
  with one of the comparison functions transliterated here, and every U site is in `handTable`
  with the class it was given by hand.  A new traversal that neither sorts nor stores at its own
  key breaks `facts_covered`.

  FINDING (class D below): the four loops of `cli.runInternal` over `--arg`, `--argjson`, `--slurpfile`,
  `--rawfile` return the first error IN TRAVERSAL ORDER: with two invalid `--argjson` values the
  error message of the command names either one, depending on the run
  (`args_error_depends_on_enumeration`; observed on the real command).  Successful runs do not
  depend on the order (`args_enum_irrelevant`).
-/
import Gojq.Proofs.MapEnum
import Gojq.Generated.MapRange
namespace Gojq.C05Maps
open Gojq Gojq.MapEnum Gojq.KeyOrder Gojq.Generated

/-! ## 1. sorting forgets the enumeration -/

/-- **`sort_of_perm`.** Under an antisymmetric relation (`R a b → R b a → a = b`; for a strict
    order this holds vacuously) a list has at most one arrangement: two routines (or one routine
    on two inputs) that return `R`-arranged rearrangements of rearrangements of one list return
    the same list.  So the slice left by `sort.Strings` / `sort.Slice` does not depend on the
    order in which `range` filled it, nor on the algorithm. -/
theorem sort_of_perm {α : Type} (R : α → α → Prop) (anti : ∀ a b, R a b → R b a → a = b)
    (s : List α → List α) (l₁ l₂ : List α)
    (h1 : (s l₁).Perm l₁ ∧ (s l₁).Pairwise R) (h2 : (s l₂).Perm l₂ ∧ (s l₂).Pairwise R) (hp : l₁.Perm l₂) :
    s l₁ = s l₂ :=
  pairwise_perm_unique R anti _ _ h1.2 h2.2 (h1.1.trans (hp.trans h2.1.symm))

/-- the same for keys compared bytewise (Go's `<` on strings, the C11 order on strings) and
    pairwise distinct: every correct sorting routine maps every enumeration to one list -/
theorem sort_of_perm_keys {α : Type} (key : α → Bytes) (s : List α → List α) (hs : SortsOn key s) (l₁ l₂ : List α)
    (hp : l₁.Perm l₂) (hd : DistinctOn key l₁) : s l₁ = s l₂ :=
  sort_of_perm_on hs hp hd

/-- insertion sort is a routine of that kind (so the hypothesis `SortsOn` is satisfiable) -/
theorem insertion_sort_sorts {α : Type} (key : α → Bytes) : SortsOn key (sortOn key) := sortOn_sorts key

/-! ## 2. class S — collect, then sort -/

/-- **`keys_enum_irrelevant`** (func.go `keys`; through it `funcKeys`, `values`, `to_entries`,
    `has`-free consumers and compare.go): whatever order the traversal delivers the entries in,
    the sorted slice is the key list of the model, i.e. what `keys` returns. -/
theorem keys_enum_irrelevant (sortStrings : List Bytes → List Bytes) (hs : SortsOn (fun k : Bytes => k) sortStrings)
    (es enum : List (Bytes × JV)) (hk : kvSorted es = true) (hp : enum.Perm es) :
    keysGo sortStrings enum = es.map (·.1) ∧
    keys (.obj es) = .ok (.arr ((keysGo sortStrings enum).map .str)) := by
  have hl : SortedOn (fun k : Bytes => k) (es.map (·.1)) := by
    unfold SortedOn
    exact List.pairwise_map.mpr (sorted_of_kvSorted es hk)
  have h1 : keysGo sortStrings enum = es.map (·.1) := sort_eq_sorted hs hl (hp.map _)
  refine ⟨h1, ?_⟩
  rw [h1]
  simp [keys, List.map_map]

/-- func.go `values` (object case, built on `keys`): the values in key order -/
theorem values_enum_irrelevant (sortStrings : List Bytes → List Bytes) (hs : SortsOn (fun k : Bytes => k) sortStrings)
    (es enum : List (Bytes × JV)) (hk : kvSorted es = true) (hp : enum.Perm es) :
    valuesGo sortStrings enum = es.map (·.2) := by
  have hd : Distinct es := sorted_distinct (sorted_of_kvSorted es hk)
  unfold valuesGo
  rw [(keys_enum_irrelevant sortStrings hs es enum hk hp).1, List.map_map]
  apply List.map_congr_left
  intro kv hkv
  have : kvLookup kv.1 enum = kvLookup kv.1 es :=
    kvLookup_perm hp (DistinctOn.of_perm (key := fun kv : Bytes × JV => kv.1) hp.symm hd) kv.1
  simp only [Function.comp, this, kvLookup_of_mem es kv.1 kv.2 hd hkv, Option.getD_some]

/-- **`opiter_enum_irrelevant`** (execute.go `opiter` on an object): the slice of path/value
    pairs after `sort.Slice` is the member list of the model, so `.[]` emits the values (and
    records the paths) in key order — `iterValues` of the shared model. -/
theorem opiter_enum_irrelevant (sortSlice : List (Bytes × JV) → List (Bytes × JV))
    (hs : SortsOn (fun kv : Bytes × JV => kv.1) sortSlice)
    (es enum : List (Bytes × JV)) (hk : kvSorted es = true) (hp : enum.Perm es) :
    opiterGo sortSlice enum = es ∧
    iterValues (.obj es) = .ok (.arr ((opiterGo sortSlice enum).map (·.2))) := by
  have h1 : opiterGo sortSlice enum = es := sort_eq_sorted hs (sorted_of_kvSorted es hk) hp
  exact ⟨h1, by rw [h1]; rfl⟩

/-- **`encode_enum_irrelevant`, library encoder** (encoder.go `encodeObject`; `tojson`, `@json`,
    `Marshal`): for every enumeration the bytes written are those of the model encoder (whose
    member order is C11's `encode_key_order`). -/
theorem encode_enum_irrelevant (sortSlice : List (Bytes × JV) → List (Bytes × JV))
    (hs : SortsOn (fun kv : Bytes × JV => kv.1) sortSlice)
    (es enum : List (Bytes × JV)) (hk : kvSorted es = true) (hp : enum.Perm es) :
    MapEnum.encodeObjectGo sortSlice enum = Encode.encodeValue (.obj es) := by
  unfold MapEnum.encodeObjectGo
  rw [sort_eq_sorted hs (sorted_of_kvSorted es hk) hp]

/-- **`encode_enum_irrelevant`, command encoder** (cli/encoder.go `encodeObject`), every mode
    (indent, tabs, colours) and every buffer state: the buffer after the object is the model's. -/
theorem encode_enum_irrelevant_cli (sortSlice : List (Bytes × JV) → List (Bytes × JV))
    (hs : SortsOn (fun kv : Bytes × JV => kv.1) sortSlice) (o : Encode.Cli.Opts) (depth : Int) (b : Encode.Cli.Buf)
    (es enum : List (Bytes × JV)) (hk : kvSorted es = true) (hp : enum.Perm es) :
    cliEncodeObjectGo sortSlice o depth enum b = Encode.Cli.enc o depth (.obj es) b := by
  unfold cliEncodeObjectGo
  rw [sort_eq_sorted hs (sorted_of_kvSorted es hk) hp]

/-- **`compare_enum_irrelevant`** (compare.go, the object callback; its traversals are the two
    calls of `keys`): for every pair of enumerations and every comparison `cmpV` of the member
    values the result is the one computed from the sorted member lists. -/
theorem compare_enum_irrelevant (sortStrings : List Bytes → List Bytes) (hs : SortsOn (fun k : Bytes => k) sortStrings)
    (cmpV : JV → JV → Ordering) (ls rs lenum renum : List (Bytes × JV))
    (hl : kvSorted ls = true) (hr : kvSorted rs = true) (hpl : lenum.Perm ls) (hpr : renum.Perm rs) :
    compareObjectsGo sortStrings cmpV lenum renum = compareObjectsGo sortStrings cmpV ls rs := by
  have hdl : Distinct ls := sorted_distinct (sorted_of_kvSorted ls hl)
  have hdr : Distinct rs := sorted_distinct (sorted_of_kvSorted rs hr)
  unfold compareObjectsGo
  rw [(keys_enum_irrelevant sortStrings hs ls lenum hl hpl).1, (keys_enum_irrelevant sortStrings hs rs renum hr hpr).1,
    (keys_enum_irrelevant sortStrings hs ls ls hl (List.Perm.refl _)).1,
    (keys_enum_irrelevant sortStrings hs rs rs hr (List.Perm.refl _)).1]
  dsimp only
  rw [firstNonEq_congr cmpV
    (fun k => kvLookup_perm hpl (DistinctOn.of_perm (key := fun kv : Bytes × JV => kv.1) hpl.symm hdl) k)
    (fun k => kvLookup_perm hpr (DistinctOn.of_perm (key := fun kv : Bytes × JV => kv.1) hpr.symm hdr) k)]

/-- **`builtins_enum_irrelevant`** (compiler.go `funcBuiltins`): the three function tables are
    traversed into ONE slice which is sorted by (name, arity).  Equal pairs may occur (a custom
    function with the name and arity of a builtin), so the order is not strict — but it is
    antisymmetric on the pairs, and the output `name/arity` is a function of the pair: the list
    returned by `builtins` does not depend on any of the three enumerations. -/
theorem builtins_enum_irrelevant (sortSlice : List (Bytes × Nat) → List (Bytes × Nat))
    (hs : ∀ l, (sortSlice l).Perm l ∧ (sortSlice l).Pairwise (fun a b => builtinLess b a = false))
    (defs defs' : List (Bytes × List (Bytes × Nat))) (internal internal' custom custom' : List (Bytes × Nat))
    (h1 : defs'.Perm defs) (h2 : internal'.Perm internal) (h3 : custom'.Perm custom) :
    builtinsGo sortSlice defs' internal' custom' = builtinsGo sortSlice defs internal custom := by
  unfold builtinsGo
  exact sort_of_perm _ (fun a b hab hba => builtinLess_anti a b hab hba) sortSlice _ _ (hs _) (hs _)
    (((h1.flatMap_right _).append (h2.flatMap_right _)).append (h3.flatMap_right _))

/-! ## 3. class C — every iteration stores at its own key -/

/-- **`fold_at_key_enum_irrelevant`**: a loop `for k, v := range src { m[k] = g(k, m[k], v) }` —
    each iteration reads and writes the destination at the range key only — leaves the same map
    for every enumeration of `src` (a Go map: distinct keys), whatever `g` is. -/
theorem fold_at_key_enum_irrelevant (g : Bytes → Option JV → JV → JV) (m es enum : List (Bytes × JV))
    (hm : kvSorted m = true) (hd : Distinct es) (hp : enum.Perm es) :
    foldAtKey g m enum = foldAtKey g m es ∧ kvSorted (foldAtKey g m enum) = true :=
  ⟨foldAtKey_perm g m (sorted_of_kvSorted m hm) hp hd,
   kvSorted_of_sorted _ (foldAtKey_sorted g m enum (sorted_of_kvSorted m hm))⟩

/-- `maps.Copy(m, src)` (func.go `add`, `updateObject`; operator.go `funcOpAdd`, `deepMergeObjects`):
    the shared model's `objMerge`, for every enumeration of `src` -/
theorem copy_enum_irrelevant (m es enum : List (Bytes × JV)) (hm : kvSorted m = true) (hd : Distinct es)
    (hp : enum.Perm es) : copyGo m enum = objMerge m es :=
  (foldAtKey_perm _ m (sorted_of_kvSorted m hm) hp hd).trans (copyGo_eq_objMerge m es)

/-- `maps.Clone(src)` is the map itself -/
theorem clone_enum_irrelevant (es enum : List (Bytes × JV)) (hk : kvSorted es = true) (hp : enum.Perm es) :
    cloneGo enum = es := by
  have hs := sorted_of_kvSorted es hk
  unfold cloneGo
  rw [show copyGo [] enum = copyGo [] es from foldAtKey_perm _ [] List.Pairwise.nil hp (sorted_distinct hs)]
  simpa using copyGo_nil_sorted es [] (by simpa using hs)

/-- **`add_objects_enum_irrelevant`** (operator.go `funcOpAdd` on two non-empty objects):
    `maps.Copy(m, l); maps.Copy(m, r)` gives the model's `l + r` for every pair of enumerations. -/
theorem add_objects_enum_irrelevant (ls rs lenum renum : List (Bytes × JV))
    (hl : kvSorted ls = true) (hr : kvSorted rs = true) (hpl : lenum.Perm ls) (hpr : renum.Perm rs) :
    opAdd (.obj ls) (.obj rs) = .ok (.obj (opAddObjectsGo lenum renum)) := by
  unfold opAddObjectsGo
  have h1 : copyGo [] lenum = ls := clone_enum_irrelevant ls lenum hl hpl
  rw [h1, copy_enum_irrelevant ls rs renum hl (sorted_distinct (sorted_of_kvSorted rs hr)) hpr]
  rfl

/-- func.go `add` on an array of objects (`maps.Clone` of the first, `maps.Copy` of the others
    into it): one enumeration per element, all irrelevant. -/
theorem add_all_objects_enum_irrelevant (enums ess : List (List (Bytes × JV))) (h : EnumsOf enums ess) :
    addObjectsGo enums = addObjectsGo ess := by
  match enums, ess, h with
  | [], [], _ => rfl
  | [], _ :: _, h => simp [EnumsOf] at h
  | _ :: _, [], h => simp [EnumsOf] at h
  | e :: es, s :: ss, h =>
    simp only [EnumsOf] at h
    simp only [addObjectsGo, cloneGo]
    rw [show copyGo [] e = copyGo [] s from foldAtKey_perm _ [] List.Pairwise.nil h.1 h.2.1]
    exact foldl_copy_perm es ss h.2.2 _ (foldAtKey_sorted _ _ _ List.Pairwise.nil)

/-- func.go `updateObject`, copying branch: `maps.Copy(w, v); w[k] = u` is the model's insertion -/
theorem update_object_enum_irrelevant (es enum : List (Bytes × JV)) (k : Bytes) (u : JV)
    (hk : kvSorted es = true) (hp : enum.Perm es) : updateObjectGo enum k u = kvInsert k u es := by
  unfold updateObjectGo
  rw [show copyGo [] enum = es from clone_enum_irrelevant es enum hk hp]

/-- **`deep_merge_enum_irrelevant`** (operator.go `deepMergeObjects`, `*` on objects): the copy of
    `l` and the merging loop over `r` give the shared model's `deepMerge l r` for every pair of
    enumerations; the nested calls are `mergeVal`'s, one level down. -/
theorem deep_merge_enum_irrelevant (ls rs lenum renum : List (Bytes × JV))
    (hl : kvSorted ls = true) (hr : kvSorted rs = true) (hpl : lenum.Perm ls) (hpr : renum.Perm rs) :
    deepMergeObjectsGo lenum renum = deepMerge ls rs := by
  unfold deepMergeObjectsGo
  rw [show copyGo [] lenum = ls from clone_enum_irrelevant ls lenum hl hpl, deepMerge_eq_fold]
  exact foldAtKey_perm _ ls (sorted_of_kvSorted ls hl) hpr (sorted_distinct (sorted_of_kvSorted rs hr))

/-- **`normalize_enum_irrelevant`** (cli/marshaler.go `normalizeNumbers`, cli/inputs.go
    `normalizeYAMLNumbers`): `u[k] = f(v)` for every member — the same map for every enumeration
    and every `f` (the recursive call). -/
theorem normalize_enum_irrelevant (f : JV → JV) (es enum : List (Bytes × JV)) (hd : Distinct es) (hp : enum.Perm es) :
    mapValuesGo f enum = mapValuesGo f es :=
  foldAtKey_perm _ [] List.Pairwise.nil hp hd

/-- **`sweep_enum_irrelevant`** (func.go `deleteEmpty`, object case): every member is either
    deleted (`struct{}{}` marker, `f w = none`) or replaced by its swept value at its own key; the
    map that is left is the same for every enumeration and every `f` (the recursive call). -/
theorem sweep_enum_irrelevant (f : JV → Option JV) (es enum : List (Bytes × JV)) (hd : Distinct es) (hp : enum.Perm es) :
    sweepGo f enum = sweepGo f es := by
  rw [sweepGo_eq, sweepGo_eq]
  exact foldl_stepO_perm f hp (DistinctOn.of_perm (key := fun kv : Bytes × JV => kv.1) hp.symm hd) [] List.Pairwise.nil

/-! ## 4. class E — early exit -/

/-- **`contains_enum_irrelevant`** (func.go `funcContains`, object callback): the loop leaves
    with `false` at the first member of `r` that is missing from `l` or not contained; which
    member is met first does not matter — the result is the conjunction.  (Errors of the nested
    call are values `!= true`, so there is no second outcome that could depend on the order.) -/
theorem contains_enum_irrelevant (body : JV → JV → Option Bool) (l rs renum : List (Bytes × JV)) (hp : renum.Perm rs) :
    containsObjectsGo body l renum = containsObjectsGo body l rs := by
  unfold containsObjectsGo
  rw [hp.length_eq, allExit_perm _ hp]

/-- with the shared model's `contains` as the nested call this is the shared model's `contains` -/
theorem contains_is_model (l rs renum : List (Bytes × JV)) (hp : renum.Perm rs) :
    contains (.obj l) (.obj rs) = some (containsObjectsGo contains l renum) := by
  rw [contains_enum_irrelevant contains l rs renum hp]
  simp only [contains, containsObjectsGo, allExit_eq_all]
  congr 1
  by_cases h : l.length < rs.length
  · simp [h]
  · simp only [h, decide_false, Bool.not_false, Bool.true_and, if_false]
    apply List.all_congr rfl
    intro kv
    rw [containsKey_eq]
    cases kvLookup kv.1 l <;> rfl

/-! ## 5. the command's named arguments: pairs appended in traversal order -/

/-- **`args_enum_irrelevant`** (cli/cli.go `runInternal`, the loops over `opts.Arg`,
    `opts.ArgJSON`, `opts.SlurpFile`, `opts.RawFile`): when the loop succeeds for one enumeration
    it succeeds for every other one, the (name, value) pairs appended are a rearrangement, and —
    names being distinct (flags.go keeps the first occurrence of a name) — every `$name` is bound
    to the same value and `$ARGS.named` is the same map. -/
theorem args_enum_irrelevant {ε : Type} (conv : Bytes → Bytes → Except ε JV) (acc : List (Bytes × JV))
    (es enum : List (Bytes × Bytes)) (hp : enum.Perm es) (r : List (Bytes × JV))
    (hr : argLoopGo conv acc es = .ok r) :
    ∃ r', argLoopGo conv acc enum = .ok r' ∧ r'.Perm r ∧
      (Distinct r → (∀ k, kvLookup k r' = kvLookup k r) ∧ namedGo r' = namedGo r) := by
  obtain ⟨h1, h2⟩ := argLoop_ok conv es acc r hr
  have hall : ∀ kv ∈ enum, (convPair conv kv).isSome = true := fun kv hkv => h2 kv (hp.subset hkv)
  have hperm : (acc ++ enum.filterMap (convPair conv)).Perm r := by
    rw [h1]
    exact (hp.filterMap _).append_left acc
  refine ⟨_, argLoop_all_ok conv enum acc hall, hperm, fun hd => ?_⟩
  have hd' := DistinctOn.of_perm (key := fun kv : Bytes × JV => kv.1) hperm.symm hd
  exact ⟨fun k => kvLookup_perm hperm hd' k, foldAtKey_perm (fun _ _ v => v) [] List.Pairwise.nil hperm hd⟩

/-- **Witness (finding): the ERROR of these loops depends on the enumeration.**  With two
    members whose conversion fails, the loop returns the error of whichever the traversal meets
    first.  Observed on the real command: `gojq -n --argjson a '{' --argjson b '[1,' .` prints
    `invalid json: $a` on some runs and `invalid json: $b` on others (exit status 5 both times). -/
theorem args_error_depends_on_enumeration :
    let conv : Bytes → Bytes → Except Bytes JV := fun k v => if v = [0x7B] then .error k else .ok (.str v)
    [([0x62], [0x7B]), ([0x61], [0x7B])].Perm [([0x61], [0x7B]), ([0x62], ([0x7B] : Bytes))] ∧
    argLoopGo conv [] [([0x61], [0x7B]), ([0x62], [0x7B])] = .error [0x61] ∧
    argLoopGo conv [] [([0x62], [0x7B]), ([0x61], [0x7B])] = .error [0x62] :=
  ⟨List.Perm.swap _ _ _, rfl, rfl⟩

/-! ## 6. the regenerated table of traversal sites -/

/-- comparison functions of `sort.Slice` calls that are transliterated above, as printed from the
    source: (file, function, comparison) -/
def acceptedComparators : List (String × String × String) := [
  ("encoder.go", "encoder.encodeObject", "{ return kvs[i].key < kvs[j].key }"),
  ("cli/encoder.go", "encoder.encodeObject", "{ return kvs[i].key < kvs[j].key }"),
  ("execute.go", "env.Next", "{ return xs[i].path.(string) < xs[j].path.(string) }"),
  ("compiler.go", "compiler.funcBuiltins",
    "{ return xs[i].name < xs[j].name || xs[i].name == xs[j].name && xs[i].arity < xs[j].arity }")]

/-- sites the generator cannot classify by shape, classified by hand: (file, function, ordinal, kind, class).
    E = early exit computing a conjunction (`contains_enum_irrelevant`);
    A = the body only deletes addresses from the allocator (a set; the recursive calls delete
        further addresses): no value depends on it;
    P = (name, value) pairs appended in traversal order, consumed by name only (`args_enum_irrelevant`);
    D = P, and additionally the first error in traversal order is returned: order-DEPENDENT when
        two members fail (`args_error_depends_on_enumeration`, a finding). -/
def handTable : List (String × String × Nat × String × String) := [
  ("func.go", "funcContains", 1, "range-kv", "E"),
  ("func.go", "allocator.release", 1, "range-v", "A"),
  ("cli/cli.go", "cli.runInternal", 1, "range-kv", "P"),
  ("cli/cli.go", "cli.runInternal", 2, "range-kv", "D"),
  ("cli/cli.go", "cli.runInternal", 3, "range-kv", "D"),
  ("cli/cli.go", "cli.runInternal", 4, "range-kv", "D")]

/-- the class of a site: the structural one, or the hand-given one, or "unknown" -/
def classOf (s : MapRange.Site) : String :=
  if s.cls = "S" then
    if s.less = "" ∧ (s.sorter = "sort.Strings" ∨ s.sorter = "slices.Sort" ∨ s.sorter = "slices.Sorted") then "S"
    else if (s.file, s.fn, s.less) ∈ acceptedComparators ∧ s.sorter = "sort.Slice" then "S"
    else "unknown"
  else if s.cls = "C" then "C"
  else match handTable.find? (fun h => h.1 = s.file ∧ h.2.1 = s.fn ∧ h.2.2.1 = s.ord ∧ h.2.2.2.1 = s.kind) with
    | some h => h.2.2.2.2
    | none => "unknown"

/-- **`facts_covered`** (C05.4, map-range part): every traversal of a map that `verifgen maprange`
    finds in the working tree is collect-then-sort with a known comparison, a store at the range
    key, or one of the six hand-classified sites; the type checker resolved every import (no
    traversal hidden behind an untyped operand), and it walked the whole of both packages. -/
theorem facts_covered :
    (MapRange.sites.all fun s => classOf s != "unknown") = true ∧
    MapRange.stubbedImports = [] ∧
    (handTable.all fun h => MapRange.sites.any fun s =>
      h.1 = s.file ∧ h.2.1 = s.fn ∧ h.2.2.1 = s.ord ∧ h.2.2.2.1 = s.kind ∧ s.cls = "U") = true ∧
    MapRange.functionsWalked ≥ 500 := by
  decide

/-- **`map_order_irrelevant`** (C05.3): every site of the regenerated table is of a class for
    which order-independence is a theorem of this file — S: `keys_/opiter_/encode_/compare_/
    builtins_enum_irrelevant`; C: `fold_at_key_/copy_/clone_/add_/update_object_/deep_merge_/
    normalize_enum_irrelevant`; E: `contains_enum_irrelevant`; P: `args_enum_irrelevant` — except
    the sites of class A (allocator bookkeeping only: `allocator.release`, argued, not proved)
    and of class D (`cli.runInternal`'s error: proved order-DEPENDENT, a finding), which are
    exactly the four listed. -/
theorem map_order_irrelevant :
    (MapRange.sites.all fun s => classOf s ∈ ["S", "C", "E", "P", "A", "D"]) = true ∧
    (MapRange.sites.filter fun s => classOf s = "A" ∨ classOf s = "D").map (fun s => (s.fn, s.ord)) =
      [("allocator.release", 1), ("cli.runInternal", 2), ("cli.runInternal", 3), ("cli.runInternal", 4)] := by
  decide

/-! ## non-vacuity: concrete maps, concrete enumerations -/

section
/-- `{"a":1,"b":{"d":null,"c":2}}` as a member list, and the enumeration `b, a` -/
def exObj : List (Bytes × JV) := [([97], .num (.int 1)), ([98], .obj [([99], .num (.int 2)), ([100], .null)])]
def exEnum : List (Bytes × JV) := [([98], .obj [([99], .num (.int 2)), ([100], .null)]), ([97], .num (.int 1))]

example : kvSorted exObj = true := by decide
example : exEnum.Perm exObj := List.Perm.swap _ _ _
example : exEnum.map (·.1) ≠ exObj.map (·.1) := by decide
example : keysGo (sortOn fun k => k) exEnum = [[97], [98]] := by decide
example : (opiterGo (sortOn (·.1)) exEnum).map (·.1) = [[97], [98]] := by decide
example : MapEnum.encodeObjectGo (sortOn (·.1)) exEnum = Bytes.ofString "{\"a\":1,\"b\":{\"c\":2,\"d\":null}}" := by
  decide +kernel
example : compareObjectsGo (sortOn fun k => k) cmp exEnum exEnum = .eq := by decide +kernel
/-- without the sort the enumeration shows: the hypothesis `SortsOn` matters -/
example : keysGo id exEnum ≠ keysGo id exObj := by decide
/-- `{"a":1} + {"b":2,"a":3}` with the right operand enumerated `b, a` -/
example : (opAddObjectsGo [([97], .num (.int 1))] [([98], .num (.int 2)), ([97], .num (.int 3))]).map (·.1) = [[97], [98]] := by
  decide
/-- `deleteEmpty` on `{"b": <marker>, "a": 1}` (the marker modelled by `null`): `a` is kept -/
example : sweepGo (fun v => match v with | .null => none | v => some v) [([98], .null), ([97], .num (.int 1))] =
    [([97], .num (.int 1))] := rfl
example : EnumsOf [exEnum, exEnum] [exObj, exObj] :=
  ⟨List.Perm.swap _ _ _, by unfold Distinct exObj; decide, List.Perm.swap _ _ _, by unfold Distinct exObj; decide, trivial⟩
example : containsObjectsGo contains exObj [([98], .obj []), ([97], .num (.int 1))] = true := by decide +kernel
/-- `builtins` with a custom function `f/1` that is also a builtin: equal pairs, one result -/
example : builtinsGo (sortOn fun p => p.1) [([102], [([102], 1)])] [] [([102], 2)] = [([102], 1), ([102], 1)] := by decide
example : builtinLess ([102], 1) ([102], 2) = true ∧ builtinLess ([101], 5) ([102], 0) = true := by decide
example : argLoopGo (ε := Bytes) (fun _ v => .ok (.str v)) [] [([98], [1]), ([97], [2])] = .ok [([98], .str [1]), ([97], .str [2])] := rfl
example : MapRange.sites.length ≥ 20 := by decide
end

end Gojq.C05Maps

/-
  C13 — documented inverse pairs are exact inverses: the NATIVE codecs and the calendar core.
  Property theorems only; helper lemmas are in Gojq/Proofs/Codec.lean and Gojq/Proofs/Calendar.lean.
  The models (Gojq/Model/Codec.lean, Gojq/Model/Calendar.lean) transliterate func.go's
  funcExplode/funcImplode, funcSplit/funcJoin, funcToBase64/funcToBase64d, funcToURI/funcToURId,
  funcToString/funcToNumber on integers, funcGmtime/funcMktime and the fixed date layout of
  builtin.jq's todate/fromdate; they are tied to the code by the correspondence stream `codec`.
  (`tojson|fromjson` is C12's; the jq-defined pairs — fromstream/tostream, entries, paths — are
  stated over the generated AST of builtin.jq elsewhere.)
-/
import Gojq.Proofs.Codec
import Gojq.Proofs.Calendar
namespace Gojq.C13
open Gojq Gojq.Codec Gojq.Calendar

/-! ## explode / implode -/

/-- `explode | implode` returns its input on every valid UTF-8 string. -/
theorem implode_explode (s : Bytes) (h : Utf8.valid s = true) :
    implode ((explode s).map Int.ofNat) = s := by
  unfold implode explode Utf8.runes
  rw [List.flatMap_map]
  exact implode_runesAux s.length s (Nat.le_refl _) h

/-- on a valid UTF-8 string `explode` yields Unicode scalar values only (so the two laws compose). -/
theorem explode_scalars (s : Bytes) (h : Utf8.valid s = true) : ∀ c ∈ explode s, isScalar c = true :=
  runesAux_scalar s.length s h

/-- `implode | explode` returns its input on every list of Unicode scalar values
    (code points ≤ U+10FFFF that are not surrogates). -/
theorem explode_implode (cs : List Nat) (h : ∀ c ∈ cs, isScalar c = true) :
    explode (implode (cs.map Int.ofNat)) = cs := by
  have e : implode (cs.map Int.ofNat) = Utf8.encodeRunes cs := by
    unfold implode Utf8.encodeRunes
    rw [List.flatMap_map]
    exact flatMap_congr_mem cs _ _ (fun c hc => implodeRune_scalar c (h c hc))
  rw [e]
  exact runesAux_encode cs h _ (Nat.le_refl _)

/-- funcImplode rejects no integer: surrogates, negative and too large numbers silently become
    U+FFFD, so `implode | explode` is NOT the identity outside the scalar values (the scalar
    hypothesis of `explode_implode` is necessary). -/
theorem explode_implode_needs_scalar : explode (implode [0xD800]) = [0xFFFD] ∧
    explode (implode [-1]) = [0xFFFD] ∧ explode (implode [0x110000]) = [0xFFFD] := by decide

/-! ## split / join -/

/-- `split($s) | join($s)` returns its input for every non-empty separator `$s`. -/
theorem join_split (sep s : Bytes) (h : sep ≠ []) : join sep (splitOn sep s) = s :=
  join_splitOn sep s h

/-! ## @base64 / @base64d -/

/-- `@base64 | @base64d` returns its input on every byte string (all three padding cases). -/
theorem b64_roundtrip (bs : Bytes) : b64dec (b64enc bs) = some bs := b64dec_enc bs

/-! ## @uri / @urid -/

/-- `@uri | @urid` returns its input on every byte string (including `+`, space and `%`). -/
theorem uri_roundtrip (bs : Bytes) : uriDec (uriEnc bs) = some bs := uriDec_enc bs

/-! ## tostring / tonumber on integers -/

/-- `tostring | tonumber` returns its input on every integer, of any magnitude. -/
theorem tostring_tonumber_int (z : Int) : parseIntString (intToString z) = some z :=
  parseIntString_intToString z

/-! ## gmtime / mktime, todate / fromdate -/

/-- the day-number ↦ civil-date ↦ day-number round trip is the identity on every day. -/
theorem days_civil_roundtrip (d : Int) :
    daysFromCivil (civilFromDays d).1 (civilFromDays d).2.1 (civilFromDays d).2.2 = d :=
  daysFromCivil_civilFromDays d

/-- `gmtime | mktime` returns its input on every whole number of seconds (in particular within
    years 1–9999, negative epochs included). -/
theorem mktime_gmtime (t : Int) : mktime (gmtime t) = t := Calendar.mktime_gmtime t

/-- "within years 1–9999" as a range of seconds: every instant from 0001-01-01T00:00:00Z to
    9999-12-31T23:59:59Z has its year in 1..9999. -/
theorem year_range (t : Int) (h0 : -62135596800 ≤ t) (h1 : t ≤ 253402300799) :
    1 ≤ (gmtime t).year ∧ (gmtime t).year ≤ 9999 := Calendar.year_range t h0 h1

/-- The fixed layout `%Y-%m-%dT%H:%M:%SZ` parses back to the instant it was printed from, for
    every whole second within years 1–9999 — for the layout parse WITHOUT funcStrptime's
    zero-time test. -/
theorem todate_parseDate (t : Int) (h0 : 1 ≤ (gmtime t).year) (h1 : (gmtime t).year ≤ 9999) :
    parseDate (todate t) = some (some t) :=
  parseDate_todate t ⟨by omega, h1⟩

/-- The full statement for the code as written: `todate | fromdate` returns its input on every
    whole second within years 1–9999. -/
def todate_fromdate_statement : Prop :=
  ∀ t : Int, 1 ≤ (gmtime t).year → (gmtime t).year ≤ 9999 → fromdate (todate t) = some (some t)

/-- It is FALSE of the current code (finding D10, key `todate-fromdate-year1-zero-time`):
    at t = -62135596800 (0001-01-01T00:00:00Z, the first instant of year 1) funcStrptime takes the
    parse result, equal to Go's zero `time.Time`, for a failed parse and reports an error. -/
theorem todate_fromdate_counterexample : ¬ todate_fromdate_statement := by
  intro h
  have := h zeroTime (by decide) (by decide)
  revert this
  decide

/-- … and that instant is the only exception: everywhere else within years 1–9999
    `todate | fromdate` returns its input. -/
theorem todate_fromdate_partial (t : Int) (h0 : 1 ≤ (gmtime t).year) (h1 : (gmtime t).year ≤ 9999)
    (hz : t ≠ zeroTime) : fromdate (todate t) = some (some t) := by
  unfold fromdate
  rw [todate_parseDate t h0 h1]
  simp only [if_neg hz]

/-! ## Non-vacuity: concrete inputs at the boundaries the property names. -/
/-- "aé漢😀": one string with a 1-, 2-, 3- and 4-byte sequence -/
def sample : Bytes := [97, 195, 169, 230, 188, 162, 240, 159, 152, 128]
example : Utf8.valid sample = true ∧ explode sample = [97, 233, 28450, 128512] ∧
    implode ((explode sample).map Int.ofNat) = sample := by decide
example : isScalar 0x10FFFF = true ∧ isScalar 0xD7FF = true ∧ isScalar 0xE000 = true ∧ isScalar 0xD800 = false := by decide
example : splitOn [97, 97] [97, 97, 97, 88, 97, 97] = [[], [97, 88], []] := by decide
example : b64enc [0xff] = [47, 119, 61, 61] ∧ b64enc [0xff, 0xfe] = [47, 47, 52, 61] ∧
    b64enc [0xff, 0xfe, 0xfd] = [47, 47, 55, 57] := by decide
example : uriEnc [32, 43, 37, 126] = [37, 50, 48, 37, 50, 66, 37, 50, 53, 126] := by decide
/-- "-9223372036854775809" -/
example : intToString (-9223372036854775809) = [45, 57, 50, 50, 51, 51, 55, 50, 48, 51, 54, 56, 53, 52, 55, 55, 53, 56, 48, 57] := by decide
example : (gmtime 253402300799).year = 9999 ∧ (gmtime (-62135596800)).year = 1 ∧ (gmtime (-1)).year = 1969 := by decide
/-- "2024-02-29T00:00:00Z" -/
example : todate 1709164800 = [50, 48, 50, 52, 45, 48, 50, 45, 50, 57, 84, 48, 48, 58, 48, 48, 58, 48, 48, 90] := by decide
example : fromdate (todate zeroTime) = some none ∧ parseDate (todate zeroTime) = some (some zeroTime) := by decide

end Gojq.C13

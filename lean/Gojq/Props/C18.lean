/-
  C18 — modules behave as textual inclusion with namespacing.
  Property theorems only; helper lemmas are in Gojq/Proofs/Modules.lean, the model
  (module_loader.go + the import part of compiler.go) in Gojq/Model/Modules.lean.

  `Cfg.isolate = true` is the compiler as it is now (scope boundary at `import … as a`,
  repair of D9); `isolate = false` is the compiler before the repair and is used only to
  keep the counter-example.
-/
import Gojq.Proofs.Modules
namespace Gojq.C18
open Gojq.Modules

/-! ## 1. file-system resolution -/

/-- `lookupModule` returns the first existing candidate in the stated order — for each
    search directory in order (the `search` entry of the import first, if it is a string that
    resolves), `name.ext` and then `name/<basename>.ext` — for every search-path list, name,
    metadata and file system. -/
theorem lookup_first_match (env : Env) (fs : FS) (paths : List Path) (name ext : String) (m : Meta) :
    lookupModule env fs paths name ext m =
      (candidates name ext (searchPaths env paths m)).find? (fun p => (fs.stat env p).isSome) := by
  simp only [lookupModule, lookupIn_eq_find]

/-- … so a found file exists, is a candidate, and every candidate before it does not exist. -/
theorem lookup_found (env : Env) (fs : FS) (paths : List Path) (name ext : String) (m : Meta) (p : Path)
    (h : lookupModule env fs paths name ext m = some p) :
    (fs.stat env p).isSome = true ∧
      ∃ before after, candidates name ext (searchPaths env paths m) = before ++ p :: after ∧
        ∀ q ∈ before, (fs.stat env q).isSome = false := by
  rw [lookup_first_match, List.find?_eq_some_iff_append] at h
  obtain ⟨h1, as, bs, h2, h3⟩ := h
  exact ⟨h1, as, bs, h2, fun q hq => by simpa using h3 q hq⟩

/-- … and "module not found" is reported exactly when no candidate exists. -/
theorem lookup_not_found (env : Env) (fs : FS) (paths : List Path) (name ext : String) (m : Meta) :
    lookupModule env fs paths name ext m = none ↔
      ∀ q ∈ candidates name ext (searchPaths env paths m), (fs.stat env q).isSome = false := by
  rw [lookup_first_match, List.find?_eq_none]
  constructor <;> intro h q hq <;> simpa using h q hq

/-- the `search` entry comes first, then the loader's directories in order; a `search` value
    that is not a string, or does not resolve, is ignored -/
theorem search_entry_first (env : Env) (paths : List Path) (kvs : List (String × MetaVal)) (s : String)
    (h : findLast (fun kv => kv.1 == "search") kvs = some ("search", .str s)) (hr : resolvePath env s "" ≠ "") :
    searchPaths env paths (some kvs) = resolvePath env s "" :: paths := by
  simp [searchPaths, searchOf, h, hr]

/-- a relative `search` entry of a module file is resolved against that file's directory
    (`parseModule`), `~/` against the home directory -/
theorem search_relative_to_importing_file (env : Env) (d : Path) (s : String)
    (hrel : isAbsL s.toList = false) (h1 : hasPrefixL ['~', '/'] s.toList = false)
    (h2 : hasPrefixL "$ORIGIN/".toList s.toList = false) (hne : join [d, s] ≠ "") :
    rewriteMeta env d (some [("search", .str s)]) = some [("search", .str (join [d, s]))] := by
  have hr := resolvePath_relative env s d hrel h1 h2
  simp only [rewriteMeta, List.map, hr]
  simp [hne]

example : candidates "m" ".jq" ["/l1", "/l2"] = ["/l1/m.jq", "/l1/m/m.jq", "/l2/m.jq", "/l2/m/m.jq"] := by decide
example : candidates "sub/m" ".json" ["/l1"] = ["/l1/sub/m.json", "/l1/sub/m/m.json"] := by decide
example : lookupModule ⟨"/cwd", none, none⟩ [("/l2/m.jq", .bad), ("/l1/m/m.jq", .bad)] ["/l1", "/l2"] "m" ".jq" none
    = some "/l1/m/m.jq" := by decide
example : rewriteMeta ⟨"/cwd", some "/home/u", none⟩ "/lib/a" (some [("search", .str "../b"), ("search", .str "~/x")])
    = some [("search", .str "/lib/b"), ("search", .str "/home/u/x")] := by decide

/-! ## 2. what is in scope -/

/-- After an import header the importing file can call exactly: what it could call before,
    the definitions of included files (with whatever their own headers spliced in), and
    `a::f` for the definitions `f` of a file imported as `a` — in this order, later entries
    shadowing earlier ones.  Of variables, only the header's own data imports (`$d`, `$d::d`)
    are added: data imported by a module never reaches its importer. -/
theorem visible_names (cfg : Cfg) (hiso : cfg.isolate = true) (imps : List ITree) (sc sc' : Scope)
    (h : compileImports cfg imps sc = .ok sc') :
    sc'.funcs.map nameArity = sc.funcs.map nameArity ++ visibleImports imps
      ∧ sc'.variables = sc.variables ++ dataVars sc.depth imps := by
  have := compileImports_spec cfg hiso imps sc sc' h
  exact ⟨this.1, this.2.1⟩

/-- the file's own definitions follow, in order -/
theorem visible_names_own_defs (cfg : Cfg) (ds : List Def) (sc sc' : Scope) (h : compileDefs cfg ds sc = .ok sc') :
    sc'.funcs.map nameArity = sc.funcs.map nameArity ++ ds.map (fun d => (d.name, d.arity))
      ∧ sc'.variables = sc.variables := by
  have := compileDefs_spec h
  exact ⟨this.1, this.2.1⟩

/-- Everything `import … as a` adds is spelled `a::…`; in particular what the module itself
    imported as `y` arrives as `a::y::f`, which is not a token of the language, so a module's
    imports do not leak into its importer. -/
theorem imported_names_are_prefixed (alias : String) (t : MTree) (rest : List ITree) (ha : alias ≠ "") :
    visibleImports (.mod alias t :: rest) = (visibleMod t).map (prefixNA alias) ++ visibleImports rest := by
  simp [visibleImports, ha, prefixNA]

example : visibleImports [.mod "a" (.node "m" [.mod "y" (.node "x" [] [⟨"f", 0, "x.f", []⟩]), .data "d" "j"] [⟨"g", 1, "m.g", []⟩]),
      .mod "" (.node "i" [] [⟨"h", 0, "i.h", []⟩])]
    = [("a::y::f", 0), ("a::g", 1), ("h", 0)] := by decide

/-- While a module imported with an alias is compiled, nothing of its importer is in scope:
    whatever functions, aliases and data imports the importer has (two arbitrary importer
    scopes that agree only on the `WithVariables` names), the block of definitions the module
    contributes — names, arities and what every call inside resolves to — is the same, and so
    is the outcome (success or the same error). -/
theorem importer_names_not_visible_in_module (cfg : Cfg) (hiso : cfg.isolate = true)
    (t : MTree) (alias : String) (ha : alias ≠ "") (sc₁ sc₂ : Scope)
    (hg : sc₁.variables.take (min cfg.globalcnt sc₁.variables.length)
        = sc₂.variables.take (min cfg.globalcnt sc₂.variables.length))
    (hd : sc₁.depth = sc₂.depth) :
    (compileMod cfg t alias sc₁).map (fun s => s.funcs.drop sc₁.funcs.length)
      = (compileMod cfg t alias sc₂).map (fun s => s.funcs.drop sc₂.funcs.length) := by
  cases t with
  | node file imps defs =>
    simp only [compileMod, ha, hiso, if_false, if_true, hg, hd]
    split
    · rfl
    · split
      · rfl
      · simp [Except.map]

/-- and the importer's scope is handed back unchanged apart from the appended block -/
theorem import_only_appends (cfg : Cfg) (hiso : cfg.isolate = true) (t : MTree) (alias : String) (ha : alias ≠ "")
    (sc sc' : Scope) (h : compileMod cfg t alias sc = .ok sc') :
    sc'.funcs.take sc.funcs.length = sc.funcs ∧ sc'.variables = sc.variables ∧ sc'.depth = sc.depth := by
  cases t with
  | node file imps defs =>
    simp only [compileMod, ha, hiso, if_false, if_true] at h
    split at h
    · cases h
    · split at h
      · cases h
      · cases h; simp

/-- the shape of D9: `import "m1" as a; import "m2" as b; b::g` with m1 = `def f: …;`,
    m2 = `def g: a::f;` -/
def d9 : MTree :=
  .node "<main>"
    [.mod "a" (.node "m1" [] [⟨"f", 0, "m1.f", []⟩]),
     .mod "b" (.node "m2" [] [⟨"g", 0, "m2.g", [.fn "a::f" 0]⟩])] []

/-- second shape: `include "m1"; import "m4" as d; d::h` with m4 = `def h: f;` -/
def d9' : MTree :=
  .node "<main>"
    [.mod "" (.node "m1" [] [⟨"f", 0, "m1.f", []⟩]),
     .mod "d" (.node "m4" [] [⟨"h", 0, "m4.h", [.fn "f" 0]⟩])] []

/-- third shape: the importer's data import seen from inside a module -/
def d9'' : MTree :=
  .node "<main>" [.data "d" "d.json", .mod "x" (.node "m5" [] [⟨"k", 0, "m5.k", [.var "d"]⟩])] []

/-- Before the repair the statement above was false: the importer's names were in scope
    inside imported modules (defect D9, key `module-sees-importer-names`). -/
theorem d9_before_repair :
    compileMain false [] [] [] d9 (.fn "b::g" 0) = .ok "m2.g(m1.f())"
      ∧ compileMain false [] [] [] d9' (.fn "d::h" 0) = .ok "m4.h(m1.f())"
      ∧ compileMain false [] [] [] d9'' (.fn "x::k" 0) = .ok "m5.k(D:d.json)" := by decide

/-- With the scope boundary the same programs are rejected, as the property demands. -/
theorem d9_repaired :
    compileMain true [] [] [] d9 (.fn "b::g" 0) = .error (.undefinedFunc "a::f" 0)
      ∧ compileMain true [] [] [] d9' (.fn "d::h" 0) = .error (.undefinedFunc "f" 0)
      ∧ compileMain true [] [] [] d9'' (.fn "x::k" 0) = .error (.undefinedVar "d") := by decide

/-- `WithVariables` names stay visible inside modules (they are global, as in jq), and a
    module's own imports are in scope for its bodies. -/
example : compileMain true [] ["$v"] []
    (.node "<main>" [.mod "a" (.node "m" [.mod "y" (.node "x" [] [⟨"f", 0, "x.f", []⟩]), .data "d" "j"]
        [⟨"g", 0, "m.g", [.fn "y::f" 0, .var "d", .var "d::d", .var "v"]⟩])] [])
    (.fn "a::g" 0) = .ok "m.g(x.f(),D:j,D:j,G:$v)" := by decide

/-! ## 3. import = textual inclusion with renaming -/

/-- FULL statement: compiling an import header is compiling the inlined-and-renamed text.
    As it stands it is false, for two reasons that are not defects of the code: plain textual
    renaming is not hygienic for the free names of a module (builtins such as `length`, see
    `inline_needs_closed` below), and a data import has no textual counterpart among
    definitions. -/
def import_eq_inline_statement : Prop :=
  ∀ (cfg : Cfg) (imps : List ITree) (sc : Scope), cfg.isolate = true →
    compileImports cfg imps sc = compileDefs cfg (inlineImports imps) sc

/-- PROVED part: for module trees without data imports in which the text of every module
    imported with an alias refers only to its own names (every call is to the definition being
    made or to an earlier one of that module's text, at every depth), compiling the import
    header `import`/`include` by `import`/`include` yields exactly the scope — names, arities,
    what every call resolves to, or the same error — that compiling the flat text does in which
    every `include` is replaced by the file's text and every `import … as a` by the file's text
    with its names prefixed `a::`.  Gap to the full statement: hygiene of free names (builtins)
    and data imports; both sides of the gap are exercised by the harness's inline oracle. -/
theorem import_eq_inline_partial (cfg : Cfg) (hiso : cfg.isolate = true) (imps : List ITree) (sc : Scope)
    (hpure : pureImports imps = true) (hclosed : closedImports imps = true)
    (hv : sc.variables.length ≤ cfg.globalcnt) :
    compileImports cfg imps sc = compileDefs cfg (inlineImports imps) sc :=
  compileImports_inline cfg hiso imps sc hpure hclosed hv

/-- a diamond with a nested alias and an include, closed and pure: the hypotheses hold -/
def inlineExample : List ITree :=
  [.mod "" (.node "i" [] [⟨"h", 0, "i.h", []⟩]),
   .mod "a" (.node "m" [.mod "y" (.node "x" [] [⟨"f", 0, "x.f", []⟩, ⟨"f", 1, "x.f1", [.fn "f" 0]⟩])]
      [⟨"g", 0, "m.g", [.fn "y::f" 1]⟩, ⟨"h", 0, "m.h", [.fn "g" 0, .fn "h" 0]⟩]),
   .mod "b" (.node "x" [] [⟨"f", 0, "x.f", []⟩, ⟨"f", 1, "x.f1", [.fn "f" 0]⟩])]

example : pureImports inlineExample = true ∧ closedImports inlineExample = true := by decide
example : (inlineImports inlineExample).map (fun d => (d.name, d.calls)) =
    [("h", []), ("a::y::f", []), ("a::y::f", [.fn "a::y::f" 0]), ("a::g", [.fn "a::y::f" 1]),
     ("a::h", [.fn "a::g" 0, .fn "a::h" 0]), ("b::f", []), ("b::f", [.fn "b::f" 0])] := by decide
example : (compileImports {} inlineExample {}).map (·.funcs.map (·.res)) =
    .ok ["i.h()", "x.f()", "x.f1(x.f())", "m.g(x.f1(x.f()))", "m.h(m.g(x.f1(x.f())),self)", "x.f()", "x.f1(x.f())"] := by decide

/-- the closedness hypothesis is needed: a module calling the builtin `length` — the modular
    program reaches the builtin; in the inlined text the call is renamed with the block
    (`renameDefs` prefixes every call) and dangles.  Renaming only the module's own names, as
    the harness's inlined program text does, would instead let the importer's `length` capture
    the call: plain textual renaming is not hygienic for free names either way. -/
theorem inline_needs_closed :
    let imps : List ITree :=
      [.mod "" (.node "i" [] [⟨"length", 0, "i.length", []⟩]),
       .mod "a" (.node "m" [] [⟨"g", 0, "m.g", [.fn "length" 0]⟩])]
    let cfg : Cfg := { builtins := [("length", 0)] }
    (compileImports cfg imps {}).map (·.funcs.map (·.res)) = .ok ["i.length()", "m.g(B:length/0)"]
      ∧ (compileDefs cfg (inlineImports imps) {}).map (·.funcs.map (·.res)) = .error (.undefinedFunc "a::length" 0)
      ∧ ¬ import_eq_inline_statement := by
  refine ⟨by decide, by decide, ?_⟩
  intro h
  have := h { builtins := [("length", 0)] }
    [.mod "" (.node "i" [] [⟨"length", 0, "i.length", []⟩]),
     .mod "a" (.node "m" [] [⟨"g", 0, "m.g", [.fn "length" 0]⟩])] {} rfl
  revert this
  decide

/-! ## 4. data imports, modulemeta -/

/-- `import "d" as $d;` binds `$d` and `$d::d`, both to the array of the file's values. -/
theorem data_import_binding (cfg : Cfg) (alias id : String) (sc : Scope) :
    compileImports cfg [.data alias id] sc = .ok (pushData sc alias id)
      ∧ lookupVar (pushData sc alias id).variables ("$" ++ alias) = some ⟨"$" ++ alias, sc.depth, "D:" ++ id⟩
      ∧ lookupVar (pushData sc alias id).variables ("$" ++ alias ++ "::" ++ alias)
          = some ⟨"$" ++ alias ++ "::" ++ alias, sc.depth, "D:" ++ id⟩ := by
  exact ⟨by simp [compileImports], (lookupVar_pushData sc alias id).1, (lookupVar_pushData sc alias id).2⟩

/-- `modulemeta`: the definition list holds exactly the module's definitions whose name does
    not start with `_`, as name/arity pairs, sorted by name and then arity; the dependency list
    has one entry per import, in order, with the path as written, the alias without `$`, the
    data flag and the import's metadata. -/
theorem modulemeta_spec (m : Module) :
    (listModuleDefs m).Pairwise (fun x y => defLt y x = false)
      ∧ (∀ x, x ∈ listModuleDefs m ↔ x ∈ (m.defs.filter fun d => !startsWithUnderscore d.name).map fun d => (d.name, d.arity))
      ∧ (listModuleDefs m).length = (m.defs.filter fun d => !startsWithUnderscore d.name).length
      ∧ (listModuleDeps m).map (fun d => (d.relpath, d.isData)) = m.imports.map (fun i => (i.path, i.isData))
      ∧ (listModuleDeps m).map (·.md) = m.imports.map (·.md) := by
  refine ⟨sortDefs_sorted _, fun x => sortDefs_mem x _, ?_, ?_, ?_⟩
  · simp [listModuleDefs, sortDefs_length]
  · simp [listModuleDeps]
  · simp [listModuleDeps]

example : listModuleDefs ⟨[], [⟨"g", 1, "", []⟩, ⟨"f", 2, "", []⟩, ⟨"_p", 0, "", []⟩, ⟨"f", 0, "", []⟩, ⟨"g", 1, "", []⟩]⟩
    = [("f", 0), ("f", 2), ("g", 1), ("g", 1)] := by decide
example : (listModuleDeps ⟨[⟨"x", "y", false, none⟩, ⟨"d", "$d", true, none⟩, ⟨"i", "", false, none⟩], []⟩).map (fun d => (d.relpath, d.as, d.isData))
    = [("x", some "y", false), ("d", some "d", true), ("i", none, false)] := by decide

/-! non-vacuity of the hypotheses used above -/
example : compileImports {} [.mod "a" (.node "m" [] [⟨"f", 0, "m.f", []⟩]), .data "d" "j"] {}
    = .ok { funcs := [⟨"a::f", 0, "m.f()"⟩], variables := [⟨"$d", 0, "D:j"⟩, ⟨"$d::d", 0, "D:j"⟩], depth := 0 } := by decide
example : compileMod {} (.node "m" [] [⟨"f", 0, "m.f", []⟩]) "a" { funcs := [⟨"x", 0, "r"⟩], variables := [⟨"$d", 0, "D:1"⟩] }
    = .ok { funcs := [⟨"x", 0, "r"⟩, ⟨"a::f", 0, "m.f()"⟩], variables := [⟨"$d", 0, "D:1"⟩], depth := 0 } := by decide
example : searchPaths ⟨"/cwd", none, none⟩ ["/l"] (some [("search", .str "./nowhere"), ("search", .str "../x")]) = ["../x", "/l"] := by decide

end Gojq.C18

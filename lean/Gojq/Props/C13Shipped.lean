/-
  C13 — the jq-defined pairs, END TO END about the SHIPPED definitions: the universal tie of `..` /
  `recurse`, `path(..)`, `paths`, `tostream` to the text of builtin.jq, and the laws composed with it.

  Every `…_is_shipped` theorem here is a statement about `Spec.eval` (Model/Spec.lean, the reference
  evaluator) running the definitions REGENERATED from /repo/builtin.jq on this run
  (Generated/BuiltinDefs.lean; `definitions_are_shipped` is `rfl` against it, so an edit of
  builtin.jq breaks the build) — for EVERY input value, EVERY fuel from an explicit bound on (the
  bound is linear in the nesting depth `depth v`; the statements are "for all fuel ≥ bound", hence
  monotone and composable), and EVERY calling environment that does not shadow the builtin.
  Props/C13Pairs.lean proves the same agreements only on a finite set of documents (kernel
  evaluation); its value-level laws are composed here with the ties.

  Hypotheses, and why each is there:
    * `IntsOK v` (every integer of `v` fits a Go `int`) wherever paths are tracked (`path(..)`, `paths`,
      `tostream`): gojq's `pathIntact` compares `*big.Int` values by POINTER; the reference evaluator
      has no pointer identity for numbers and stops with `unmodelled` — witness
      `path_recurse_big_int_unmodelled`.  `..` / `recurse` without `path(…)` need no hypothesis.
    * `nodup v` (distinct keys, any order) and `Indexable v` (arrays no longer than a Go `int`) for
      `tostream`: it reads every node back with `getpath($p)`, which finds the FIRST member with a key
      (witness `tostream_needs_distinct_keys`) and truncates indices to a Go `int`.
    * `JV.wf v` (keys strictly increasing — every value the library holds) and `Rebuildable v` (arrays of
      at most 2^29 elements, `setpath`'s limit: C13Pairs.`setpath_index_limit`) for `fromstream(tostream)`.
    * fuel: `10 * depth v + c`; too little fuel ends in the explicit outcome `fuel`, never in a wrong
      value (witness `recurse_needs_fuel`).
  Not shipped by gojq: `leaf_paths` (builtin.jq has no such definition).
-/
import Gojq.Proofs.PairsShippedLaws
import Gojq.Proofs.PairsShippedPathsF
import Gojq.Proofs.PairsShippedReplay
namespace Gojq.C13Shipped
open Gojq Gojq.Spec Gojq.Stream Gojq.Pairs Gojq.Pairs.Tie

/-- the definitions evaluated below ARE the shipped ones: the regenerated `FuncDef`s of `recurse/0`,
    `recurse/1`, `select/1`, `paths/0`, `paths/1`, `tostream/0` are the ASTs named in Proofs/PairsShipped*.lean -/
theorem definitions_are_shipped :
    Generated.Builtins.go_recurse_a00 = .mk "recurse" [] recurse0Body ∧
    Generated.Builtins.go_recurse_a01 = .mk "recurse" ["f"] recurse1Body ∧
    Generated.Builtins.go_select_a01 = .mk "select" ["f"] selectBody ∧
    Generated.Builtins.go_paths_a00 = .mk "paths" [] pathsBody ∧
    Generated.Builtins.go_paths_a01 = .mk "paths" ["f"] paths1Body ∧
    Generated.Builtins.go_tostream_a00 = .mk "tostream" [] tostreamBody :=
  ⟨shipped_recurse0, shipped_recurse1, shipped_select, shipped_paths, shipped_paths1, shipped_tostream⟩

/-! ## (1) `..`, `recurse`, `path(..)`, `paths` -/

/-- **`..` and `recurse` AS SHIPPED emit every sub-value, depth first, a node before its children**
    (`subvalues`): for every value, no hypothesis on it, every fuel from `10 * depth v + 28` on. -/
theorem recurse_is_shipped (fuel : Nat) (env : Env) (v : JV) (id : Ident) (hf : 10 * depth v + 28 ≤ fuel)
    (h : lookupCall "recurse" 0 env.bs = .none) :
    (eval fuel cfgGo env recurseQ { v := v, id := id }).outs.map (·.v) = subvalues v ∧
    (eval fuel cfgGo env recurseQ { v := v, id := id }).stop = .done ∧
    eval fuel cfgGo env recurseCallQ { v := v, id := id } = eval fuel cfgGo env recurseQ { v := v, id := id } := by
  have ht : Trk { v := v, id := id } := ⟨rfl, fun c hc => by cases hc⟩
  rw [eval_recurseQ fuel env _ ht hf h, eval_recurseCallQ fuel env _ ht hf h]
  refine ⟨?_, rfl, rfl⟩
  simp only [subvalues, List.map_map]
  rfl

/-- **`..` in path-tracking mode** (inside `path(…)`, from a state whose value is the value last
    navigated to, at a known location): the same nodes, each with its path recorded and itself as the
    value last navigated to — `desc` of its relative path.  (The statement both `path(..)` and
    `tostream`'s post-order walk are instances of.) -/
theorem recurse_is_shipped_both_modes (fuel : Nat) (env : Env) (s : Spec.St) (hs : Trk s) (hf : 10 * depth s.v + 28 ≤ fuel)
    (h : lookupCall "recurse" 0 env.bs = .none) :
    eval fuel cfgGo env recurseQ s = ⟨(nodes false [] s.v).map fun nd => desc s nd.1 nd.2, .done⟩ :=
  eval_recurseQ fuel env s hs hf h

/-- the nodes `..` visits are `[path(..)]` of Model/Pairs.lean paired with the values found there:
    their paths are `recPaths v`, and — distinct keys, indexable arrays — `getpath` of each path is
    the node's value -/
theorem recurse_nodes_are_locations (v : JV) :
    (nodes false [] v).map (·.1) = recPaths v ∧ (nodes false [] v).map (·.2) = subvalues v ∧
    (nodup v → Indexable v → ∀ nd ∈ nodes false [] v, getpathV v nd.1 = .ok nd.2) :=
  ⟨nodes_paths v [], rfl, fun hn hs nd h => nodes_getpathV false v hn hs nd h⟩

/-- **`path(..)` AS SHIPPED emits exactly `recPaths v`, in order** — every value whose integers fit
    a Go `int`, every fuel from `10 * depth v + 32` on. -/
theorem path_recurse_is_shipped (fuel : Nat) (env : Env) (v : JV) (id : Ident) (hv : IntsOK v)
    (hf : 10 * depth v + 32 ≤ fuel)
    (hP : lookupCall "path" 1 env.bs = .none) (hR : lookupCall "recurse" 0 env.bs = .none) :
    (eval fuel cfgGo env pathRecurseQ { v := v, id := id }).outs.map (·.v) = (recPaths v).map .arr ∧
    (eval fuel cfgGo env pathRecurseQ { v := v, id := id }).stop = .done := by
  rw [eval_pathRecurseQ fuel env _ hv hf hP hR]
  refine ⟨?_, rfl⟩
  simp only [List.map_map]
  rfl

/-- **`paths` AS SHIPPED (`path(..) | select(. != [])`) emits exactly `allPaths v`, in order** —
    every value whose integers fit a Go `int`, every fuel from `10 * depth v + 45` on. -/
theorem paths_is_shipped (fuel : Nat) (env : Env) (v : JV) (id : Ident) (hv : IntsOK v)
    (hf : 10 * depth v + 45 ≤ fuel) (h : lookupCall "paths" 0 env.bs = .none) :
    (eval fuel cfgGo env pathsQ { v := v, id := id }).outs.map (·.v) = (allPaths v).map .arr ∧
    (eval fuel cfgGo env pathsQ { v := v, id := id }).stop = .done := by
  rw [eval_pathsQ fuel env _ hv hf h]
  refine ⟨?_, rfl⟩
  simp only [List.map_map]
  rfl

/-- `[paths]` and `[path(..)]` AS SHIPPED, in the form Props/C13Pairs.lean checks on 14 documents
    (`Tie.qPaths`, `Tie.qPathRecurse`), now for every value -/
theorem paths_array_is_shipped (fuel : Nat) (env : Env) (v : JV) (id : Ident) (hv : IntsOK v)
    (hf : 10 * depth v + 50 ≤ fuel) (h : lookupCall "paths" 0 env.bs = .none)
    (hP : lookupCall "path" 1 env.bs = .none) (hR : lookupCall "recurse" 0 env.bs = .none) :
    Agrees (eval fuel cfgGo env qPaths { v := v, id := id }) (some (pathsJV (allPaths v))) ∧
    Agrees (eval fuel cfgGo env qPathRecurse { v := v, id := id }) (some (pathsJV (recPaths v))) := by
  rw [eval_qPaths fuel env _ hv hf h, eval_qPathRecurse fuel env _ hv (by simp only; omega) hP hR]
  exact ⟨⟨rfl, rfl⟩, ⟨rfl, rfl⟩⟩

/-- **`paths(f)` AS SHIPPED (`path(.. | select(f)) | select(. != [])`) for every `f` that is a TEST**
    (`IsTest env f N φ`: run without path tracking with `N` units of fuel or more, on any value, `f`
    yields exactly one boolean, `φ` of the value): it emits the non-empty paths of the nodes whose value
    passes `φ` (`pathsWhere`), in order — every fuel from `10 * depth v + 55 + N` on. -/
theorem paths_test_is_shipped (fuel : Nat) (env : Env) (fq : Query) (N : Nat) (φ : JV → Bool) (ht : IsTest env fq N φ)
    (v : JV) (id : Ident) (hv : IntsOK v) (hf : 10 * depth v + 55 + N ≤ fuel) (h : lookupCall "paths" 1 env.bs = .none) :
    (eval fuel cfgGo env (Query.term [] (Term.mk (TermCore.func "paths" [fq]) [])) { v := v, id := id }).outs.map (·.v) =
      (pathsWhere φ v).map .arr ∧
    (eval fuel cfgGo env (Query.term [] (Term.mk (TermCore.func "paths" [fq]) [])) { v := v, id := id }).stop = .done := by
  obtain ⟨n, rfl⟩ : ∃ n, fuel = n + 3 := ⟨fuel - 3, by omega⟩
  simp only [eval_term, Env.defs, List.foldl_nil, evalTerm_succ, evalTermRev, List.reverse_nil, evalCore_succ]
  rw [evalCall_paths1_test n env fq N φ ht _ hv (by simp only; omega) h]
  refine ⟨?_, rfl⟩
  simp only [List.map_map]
  rfl

/-- a test exists, and it is the manual's example: `type == "number"` is a test in every environment
    that does not shadow `type`, so `paths(type == "number")` AS SHIPPED emits the paths of the numbers -/
theorem paths_numbers_is_shipped (fuel : Nat) (env : Env) (v : JV) (id : Ident) (hv : IntsOK v)
    (hf : 10 * depth v + 62 ≤ fuel) (h : lookupCall "paths" 1 env.bs = .none) (hT : lookupCall "type" 0 env.bs = .none) :
    IsTest env (typeEqQ (B "number")) 6 (fun w => opEq (.str (B w.typeName)) (.str (B "number"))) ∧
    (eval fuel cfgGo env pathsNumbersQ { v := v, id := id }).outs.map (·.v) =
      (pathsWhere (fun w => opEq (.str (B w.typeName)) (.str (B "number"))) v).map .arr ∧
    (eval fuel cfgGo env pathsNumbersQ { v := v, id := id }).stop = .done := by
  rw [eval_pathsNumbersQ fuel env _ hv hf h hT]
  refine ⟨isTest_typeEq env _ hT, ?_, rfl⟩
  simp only [List.map_map]
  rfl

/-- why `IntsOK`: on `2^63` (a `*big.Int` in gojq) the reference evaluator cannot decide
    `pathIntact` (a pointer comparison in the code) and `path(..)` ends `unmodelled` — not with a value -/
theorem path_recurse_big_int_unmodelled :
    isUnmodelled (eval 100 cfgGo .empty pathRecurseQ { v := bigInt, id := .known 0 [] }).stop = true ∧
    ¬ IntsOK bigInt := by
  refine ⟨by decide +kernel, ?_⟩
  simp only [bigInt, IntsOK, InRange, maxInt]
  omega

/-- why the fuel bound grows with the depth: 30 units do not suffice for six nested arrays, the run
    ends in the explicit outcome `fuel`; 88 = `10 * depth + 28` do (by `recurse_is_shipped`) -/
theorem recurse_needs_fuel :
    isFuel (eval 30 cfgGo .empty recurseQ { v := deep6, id := .known 0 [] }).stop = true ∧
    10 * depth deep6 + 28 = 88 := by
  refine ⟨by decide +kernel, by decide⟩

/-! ## (2) `tostream` -/

/-- **`Stream.streamSpec` IS the shipped `tostream`, on EVERY value** with distinct keys, indexable
    arrays and integers that fit a Go `int`: `tostream`, run by `Spec.eval` from the regenerated
    definition with any fuel from `10 * depth v + 60` on, emits exactly the events `streamSpec v`, in
    order, and ends normally. -/
theorem tostream_is_shipped (fuel : Nat) (env : Env) (v : JV) (id : Ident) (hn : nodup v) (hs : Indexable v)
    (hv : IntsOK v) (hf : 10 * depth v + 60 ≤ fuel) (h : lookupCall "tostream" 0 env.bs = .none) :
    (eval fuel cfgGo env tostreamQ { v := v, id := id }).outs.map (·.v) = streamSpec v ∧
    (eval fuel cfgGo env tostreamQ { v := v, id := id }).stop = .done := by
  rw [eval_tostreamQ fuel env v id hn hs hv hf h]
  refine ⟨?_, rfl⟩
  rw [List.map_map]
  exact List.map_id _

/-- why distinct keys: on an association list with a repeated key the shipped `tostream` reads the
    FIRST member twice (`getpath`), `streamSpec` lists both members -/
theorem tostream_needs_distinct_keys :
    ((eval 200 cfgGo .empty tostreamQ { v := dupObj, id := .known 0 [] }).vals == streamSpec dupObj) = false ∧
    ¬ nodup dupObj := by
  refine ⟨by decide +kernel, ?_⟩
  simp [dupObj, nodup, nodupM]

/-! ## (3) the laws, about the shipped definitions end to end -/

/-- **`fromstream(tostream)` AS SHIPPED yields exactly the value**: the program
    `fromstream(tostream)`, both definitions regenerated from builtin.jq, run by `Spec.eval` on `v`
    with any fuel from `10 * depth v + 80` on, emits `v` and nothing else and ends normally — every
    value with strictly increasing keys, arrays of at most 2^29 elements, integers that fit a Go `int`. -/
theorem shipped_fromstream_tostream (fuel : Nat) (env : Env) (v : JV) (id : Ident) (hw : v.wf = true)
    (hs : Rebuildable v) (hv : IntsOK v) (hf : 10 * depth v + 80 ≤ fuel)
    (hF : lookupCall "fromstream" 1 env.bs = .none) (hT : lookupCall "tostream" 0 env.bs = .none) :
    (eval fuel cfgGo env fromstreamTostreamQ { v := v, id := id }).outs.map (·.v) = [v] ∧
    (eval fuel cfgGo env fromstreamTostreamQ { v := v, id := id }).stop = .done :=
  eval_fromstreamTostreamQ_id fuel env v id hw hs hv hf hF hT

/-- the same with distinct keys in ANY member order: whatever `fromstreamSpec` makes of the events
    (`C13.fromstream_tostream_any_order`: the canonical form), the shipped pair emits -/
theorem shipped_fromstream_tostream_any_order (fuel : Nat) (env : Env) (v : JV) (id : Ident) (hn : nodup v)
    (hs : Rebuildable v) (hv : IntsOK v) (hf : 10 * depth v + 80 ≤ fuel)
    (hF : lookupCall "fromstream" 1 env.bs = .none) (hT : lookupCall "tostream" 0 env.bs = .none) :
    (eval fuel cfgGo env fromstreamTostreamQ { v := v, id := id }).outs.map (·.v) = [canon v] ∧
    (eval fuel cfgGo env fromstreamTostreamQ { v := v, id := id }).stop = .done := by
  have h := eval_fromstreamTostreamQ fuel env v id hn hs hv hf hF hT
  have hspec : fromstreamSpec (streamSpec v) = .ok [canon v] := by
    have := rebuild_docs [v] (by intro w hw'; rw [List.mem_singleton.mp hw']; exact hn) ⟨.null, false⟩ (Or.inr rfl) []
    simpa [fromstreamSpec, streamSpecDocs] using this
  rw [hspec] at h
  obtain ⟨res, hres, hvals⟩ := h
  rw [hres]
  exact ⟨hvals, rfl⟩

/-- **`[paths] == [path(..)] - [[]]` AS SHIPPED**: both programs, run by `Spec.eval` with the shipped
    builtins on any value whose integers fit a Go `int`, emit the same single array (and it is
    `pathsJV (allPaths v)`). -/
theorem shipped_paths_eq_path_recurse (fuel : Nat) (v : JV) (id : Ident) (hv : IntsOK v) (hf : 10 * depth v + 50 ≤ fuel) :
    (eval fuel cfgGo .empty qPaths { v := v, id := id }).outs.map (·.v) = [pathsJV (allPaths v)] ∧
    (eval fuel cfgGo .empty qPathRecurseMinusRoot { v := v, id := id }).outs.map (·.v) = [pathsJV (allPaths v)] ∧
    (eval fuel cfgGo .empty qPaths { v := v, id := id }).stop = .done ∧
    (eval fuel cfgGo .empty qPathRecurseMinusRoot { v := v, id := id }).stop = .done := by
  obtain ⟨i, hi⟩ := eval_qPathRecurseMinusRoot fuel .empty v id hv hf rfl rfl
  rw [eval_qPaths fuel .empty _ hv hf rfl, hi]
  have : recPathsMinusRoot v = pathsJV (allPaths v) := by
    simp only [pathsJV, recPathsMinusRoot, recPaths_eq, arraySub_root_cons (allPaths v) (allPaths_ne_nil v)]
  rw [this]
  exact ⟨rfl, rfl, rfl, rfl⟩

/-- **every two-element event `[p, leaf]` the SHIPPED `tostream` emits satisfies `getpath(p) == leaf`**,
    with `getpath` as `Spec.eval` runs it (`$p` bound to the event's path): one output, the leaf. -/
theorem shipped_tostream_event_getpath (fuel : Nat) (v : JV) (id : Ident) (hn : nodup v) (hs : Indexable v)
    (hv : IntsOK v) (hf : 10 * depth v + 60 ≤ fuel) (p : List JV) (leaf : JV) (pid : Ident)
    (h : JV.arr [.arr p, leaf] ∈ (eval fuel cfgGo .empty tostreamQ { v := v, id := id }).outs.map (·.v)) :
    eval fuel cfgGo (.mk [.var "$p" (.arr p) pid]) getpQ { v := v, id := id } =
      .one { v := leaf, id := p.foldl childIdent id } := by
  rw [(tostream_is_shipped fuel .empty v id hn hs hv hf rfl).1] at h
  exact eval_getpQ fuel (by omega) _ v id p pid leaf rfl rfl (streamSpec_getpathV v hn hs p leaf h)

/-- **replaying the two-element events with `setpath` rebuilds the value, AS SHIPPED**: the program
    `reduce (tostream | select(length == 2)) as [$p, $x] (null; setpath($p; $x))` (`Tie.qReplay`, the
    AST the real parser dumps), run by `Spec.eval` with the shipped `tostream` and `select` and the
    evaluator's `setpath`, yields exactly one value: `canon v` — which is `v` itself when the keys are
    strictly increasing.  Every value with distinct keys, arrays of at most 2^29 elements and
    integers that fit a Go `int`; every fuel from `10 * depth v + 90` on. -/
theorem shipped_tostream_replay_setpath (fuel : Nat) (env : Env) (v : JV) (id : Ident) (hn : nodup v) (hs : Rebuildable v)
    (hv : IntsOK v) (hf : 10 * depth v + 90 ≤ fuel)
    (hT : lookupCall "tostream" 0 env.bs = .none) (hSel : lookupCall "select" 1 env.bs = .none)
    (hL : lookupCall "length" 0 env.bs = .none) (hSet : lookupCall "setpath" 2 env.bs = .none) :
    Agrees (eval fuel cfgGo env qReplay { v := v, id := id }) (some (canon v)) ∧ (v.wf = true → canon v = v) := by
  obtain ⟨i, hi⟩ := eval_qReplay fuel env v id hn hs hv hf hT hSel hL hSet
  rw [hi]
  exact ⟨⟨rfl, rfl⟩, canon_wf v⟩

/-! ## non-vacuity: instances of the hypotheses, and the theorems at work on nested documents -/

example : IntsOK exNested := by simp [exNested, Tie.s, IntsOK, IntsOKL, IntsOKM, jvInt, InRange, minInt, maxInt]
example : IntsOK exDoc := by simp [exDoc, IntsOK, IntsOKL, IntsOKM]
example : depth exNested = 4 := by decide
example : nodup exDoc := by simp [exDoc, nodup, nodupM, nodupL]
example : exDoc.wf = true := by decide
example : Rebuildable exDoc := by simp [exDoc, ArrLe, ArrLeM, ArrLeL, setpathLimit]
example : Trk { v := exDoc, id := .known 0 [] } := ⟨rfl, fun c hc => by cases hc⟩
example : Trk (pathStart 7 { v := exDoc }) := trk_pathStart 7 _
example : (subvalues (.arr [.arr [.null], .bool true]) ==
    [.arr [.arr [.null], .bool true], .arr [.null], .null, .bool true]) = true := by
  decide +kernel
example : ((eval 68 cfgGo .empty recurseQ { v := exNested, id := .known 0 [] }).vals == subvalues exNested) = true := by
  decide +kernel
example : ((eval 100 cfgGo .empty tostreamQ { v := exNested, id := .known 0 [] }).vals == streamSpec exNested) = true := by
  decide +kernel
example : (eval 120 cfgGo .empty fromstreamTostreamQ { v := exDoc, id := .known 0 [] }).outs.map (·.v) = [exDoc] :=
  (shipped_fromstream_tostream 120 .empty exDoc _ (by decide) (by simp [exDoc, ArrLe, ArrLeM, ArrLeL, setpathLimit])
    (by simp [exDoc, IntsOK, IntsOKL, IntsOKM]) (by decide) rfl rfl).1
example : (pathsWhere (fun w => opEq (.str (B w.typeName)) (.str (B "number"))) exNested == [[jvInt 0], [jvInt 3]]) = true := by
  decide +kernel
example : ((eval 110 cfgGo .empty pathsNumbersQ { v := exNested, id := .known 0 [] }).vals ==
    [.arr [jvInt 0], .arr [jvInt 3]]) = true := by
  decide +kernel
example : Agrees (eval 130 cfgGo .empty qReplay { v := exDoc, id := .known 0 [] }) (some (canon exDoc)) :=
  (shipped_tostream_replay_setpath 130 .empty exDoc _ (by simp [exDoc, nodup, nodupM, nodupL])
    (by simp [exDoc, ArrLe, ArrLeM, ArrLeL, setpathLimit]) (by simp [exDoc, IntsOK, IntsOKL, IntsOKM]) (by decide)
    rfl rfl rfl rfl).1
example : JV.arr [.arr [.str [98], .str [], idxJV 0], .arr []] ∈
    (eval 100 cfgGo .empty tostreamQ { v := exDoc, id := .known 0 [] }).outs.map (·.v) := by
  rw [(tostream_is_shipped 100 .empty exDoc _ (by simp [exDoc, nodup, nodupM, nodupL])
    (Rebuildable.indexable (by simp [exDoc, ArrLe, ArrLeM, ArrLeL, setpathLimit]))
    (by simp [exDoc, IntsOK, IntsOKL, IntsOKM]) (by decide) rfl).1]
  simp [streamSpec, spec, specM, specL, exDoc, leafEv, closeEv, pathJV]

end Gojq.C13Shipped

/-
  C06 — a compiled query can be run from many goroutines at once.

  What Lean carries is the logic that makes concurrent runs safe (DESIGN §6, C06): write confinement
  implies that interleaved runs commute; code constants are never written; the one intentionally shared
  mutable structure, the regexp cache, returns the sequential answers under every interleaving.
  Schedules of the Go runtime, the Go memory model and the race detector are runtime behaviour and are
  covered by the `-race` search of harness/cmd/c06 only (evidence: `partial`).
  Models: Gojq/Model/Conc.lean, Gojq/Model/Heap.lean.
-/
import Gojq.Model.Conc
import Gojq.Proofs.HeapChain
namespace Gojq.C06
open Gojq Gojq.Conc

variable {L V : Type}

/-- shared cells are never changed, by any schedule -/
theorem shared_never_changes (S : Sys L V) (hw : S.WriteConfined) :
    ∀ (sch : List Nat) (g : (Nat → L) × (Nat → V)) (a : Nat), S.shared a → (S.exec sch g).2 a = g.2 a := by
  intro sch
  induction sch with
  | nil => intro g a _; rfl
  | cons i sch ih =>
    intro g a ha
    simp only [Sys.exec]
    rw [ih _ a ha]
    exact hw i (g.1 i) g.2 a (ha i)

/-- **Confined runs commute.**  If every run writes only cells of its own allocation region and reads
    only those and the shared cells, then under EVERY interleaving of the steps of any number of runs
    each run ends in the local state (its outputs) and with the own cells it has when it runs alone for
    the same number of steps; shared cells (code constants, input, variables) are unchanged. -/
theorem confined_runs_commute (S : Sys L V) (hw : S.WriteConfined) (hr : S.ReadConfined) (hd : S.Disjoint)
    (sch : List Nat) (ls : Nat → L) (h : Nat → V) (i : Nat) :
    (S.exec sch (ls, h)).1 i = (S.solo i (sch.count i) (ls i, h)).1 ∧
    (∀ a, S.own i a → (S.exec sch (ls, h)).2 a = (S.solo i (sch.count i) (ls i, h)).2 a) ∧
    (∀ a, S.shared a → (S.exec sch (ls, h)).2 a = h a) := by
  refine ⟨?_, ?_, fun a ha => shared_never_changes S hw sch (ls, h) a ha⟩
  all_goals
    have key : ∀ (sch : List Nat) (g : (Nat → L) × (Nat → V)) (g0 : L × (Nat → V)),
        g.1 i = g0.1 → (∀ a, S.own i a ∨ S.shared a → g.2 a = g0.2 a) →
        (S.exec sch g).1 i = (S.solo i (sch.count i) g0).1 ∧
        ∀ a, S.own i a ∨ S.shared a → (S.exec sch g).2 a = (S.solo i (sch.count i) g0).2 a := by
      intro sch
      induction sch with
      | nil => intro g g0 h1 h2; exact ⟨h1, h2⟩
      | cons j sch ih =>
        intro g g0 h1 h2
        simp only [Sys.exec]
        by_cases hji : j = i
        · subst hji
          simp only [List.count_cons_self, Sys.solo]
          obtain ⟨r1, r2⟩ := hr j (g.1 j) g.2 g0.2 h2
          apply ih
          · simp only [if_true]; rw [r1, h1]
          · intro a ha
            rcases ha with ha | ha
            · rw [r2 a ha, h1]
            · rw [hw j (g.1 j) g.2 a (ha j), hw j g0.1 g0.2 a (ha j)]
              exact h2 a (Or.inr ha)
        · have hc : (j :: sch).count i = sch.count i := by
            simp only [List.count_cons]
            have : ¬ (j == i) = true := by simpa using hji
            simp [this]
          rw [hc]
          apply ih
          · have : ¬ i = j := fun e => hji e.symm
            simp only [this, if_false]; exact h1
          · intro a ha
            have hnot : ¬ S.own j a := by
              rcases ha with ha | ha
              · intro hj; exact hji (hd j i a hj ha)
              · exact ha j
            rw [hw j (g.1 j) g.2 a hnot]
            exact h2 a ha
  · exact (key sch (ls, h) (ls i, h) rfl (fun a _ => rfl)).1
  · intro a ha
    exact (key sch (ls, h) (ls i, h) rfl (fun a _ => rfl)).2 a (Or.inl ha)

/-- data-race freedom by construction: a cell changed by a step of run `j` lies outside what any other
    run `i` reads or writes -/
theorem no_conflicting_access (S : Sys L V) (hw : S.WriteConfined) (hd : S.Disjoint)
    (i j : Nat) (hij : i ≠ j) (s : L) (h : Nat → V) (a : Nat) (hch : (S.step j s h).2 a ≠ h a) :
    ¬ S.own i a ∧ ¬ S.shared a := by
  have hown : S.own j a := Classical.byContradiction fun hn => hch (hw j s h a hn)
  exact ⟨fun hi => hij (hd i j a hi hown), fun hs => hs j hown⟩

/-- **Code is read-only**, stated over the heap model: a `_modify` reduction starts with an empty
    allocator (`funcAllocator`) and a label counter `f` above every cell in existence — in particular
    above the cells of the constants embedded in the code, of the input and of the variable values.
    Every cell it writes in place, at any of its steps, carries a label `≥ f`: a cell it allocated itself.
    (This is the premise `WriteConfined` of `confined_runs_commute` for the update natives; before
    97b79ee `deleteEmpty` broke it — `del(.a.q)` on a literal stored into the constant's maps.) -/
theorem code_readonly (q : Heap.T → Nat → Heap.T × Nat) (hq : Heap.QOK q) (v : Heap.T) (f : Nat)
    (hv : ∀ j ∈ v.ids, j < f) (p : Heap.Path) (ps : List Heap.Path)
    (r1 : Heap.T × List Nat × Nat) (h1 : Heap.modifyAll q ps (v, [], f) = some r1)
    (v' : Heap.T) (A' : List Nat) (f' : Nat) (log : Heap.Log)
    (h2 : Heap.modifyStep q r1 p = some (v', A', f', log)) :
    ∀ e ∈ log, f ≤ e.1 := by
  obtain ⟨inv1, _, hrange⟩ := Heap.modifyAll_inv q hq ps v [] f r1 (Heap.inv_empty v f hv) h1
  obtain ⟨_, _, hlog, _⟩ := Heap.modifyStep_sound q hq r1.1 r1.2.1 r1.2.2 p v' A' f' log h2 inv1
  intro e he
  rcases hrange e.1 (hlog e he) with h | h
  · cases h
  · exact h.1

/-! ### the regexp cache -/

section cache
variable {K W : Type} [DecidableEq K]

/-- **The regexp cache is grow-only and coherent**, hence invisible: under every interleaving of the
    atomic `Load` / `Store` steps of any number of `compileRegexp` calls, starting from a coherent cache,
    the cache stays coherent and only grows, no call changes its key, and every call that has returned
    returned `comp key` — exactly what it returns when it runs alone. -/
theorem regexp_cache_monotone (comp : K → Option W) (sch : List Nat) (calls : Nat → Call K W) (cache : K → Option W)
    (hc : Coherent comp cache) (hstart : ∀ t, calls t = .start (calls t).key) :
    let g := cacheExec comp sch (calls, cache)
    Coherent comp g.2 ∧ (∀ k v, cache k = some v → g.2 k = some v) ∧
    ∀ t, (g.1 t).key = (calls t).key ∧ ∀ k r, g.1 t = .done k r → r = comp k := by
  have key : ∀ (sch : List Nat) (g : (Nat → Call K W) × (K → Option W)),
      Coherent comp g.2 → (∀ t k r, g.1 t = .done k r → r = comp k) →
      Coherent comp (cacheExec comp sch g).2 ∧ (∀ k v, g.2 k = some v → (cacheExec comp sch g).2 k = some v) ∧
      ∀ t, ((cacheExec comp sch g).1 t).key = (g.1 t).key ∧ ∀ k r, (cacheExec comp sch g).1 t = .done k r → r = comp k := by
    intro sch
    induction sch with
    | nil => intro g hc hd; exact ⟨hc, fun _ _ h => h, fun t => ⟨rfl, hd t⟩⟩
    | cons i sch ih =>
      intro g hc hd
      simp only [cacheExec]
      -- one atomic step keeps coherence, growth, keys and the answers
      have step : Coherent comp (callStep comp g.2 (g.1 i)).2 ∧
          (∀ k v, g.2 k = some v → (callStep comp g.2 (g.1 i)).2 k = some v) ∧
          (callStep comp g.2 (g.1 i)).1.key = (g.1 i).key ∧
          ∀ k r, (callStep comp g.2 (g.1 i)).1 = .done k r → r = comp k := by
        cases hgi : g.1 i with
        | start k =>
          simp only [callStep]
          cases hck : g.2 k with
          | none => exact ⟨hc, fun _ _ h => h, rfl, fun k' r h => by cases h⟩
          | some v =>
            refine ⟨hc, fun _ _ h => h, rfl, ?_⟩
            intro k' r h
            simp only [Call.done.injEq] at h
            obtain ⟨rfl, rfl⟩ := h
            exact (hc k v hck).symm
        | missed k =>
          simp only [callStep]
          cases hcomp : comp k with
          | none =>
            refine ⟨hc, fun _ _ h => h, rfl, ?_⟩
            intro k' r h
            simp only [Call.done.injEq] at h
            obtain ⟨rfl, rfl⟩ := h
            exact hcomp.symm
          | some v =>
            refine ⟨?_, ?_, rfl, ?_⟩
            · intro k' v' h
              by_cases hk : k' = k
              · subst hk; simp only [if_true, Option.some.injEq] at h; subst h; exact hcomp
              · simp only [hk, if_false] at h; exact hc k' v' h
            · intro k' v' h
              by_cases hk : k' = k
              · subst hk; simp only [if_true]; rw [← hc k' v' h, hcomp]
              · simp only [hk, if_false]; exact h
            · intro k' r h
              simp only [Call.done.injEq] at h
              obtain ⟨rfl, rfl⟩ := h
              exact hcomp.symm
        | done k r =>
          simp only [callStep]
          exact ⟨hc, fun _ _ h => h, trivial, fun k' r' h => hd i k' r' (by rw [hgi, h])⟩
      obtain ⟨s1, s2, s3, s4⟩ := step
      have hd' : ∀ t k r, (fun j => if j = i then (callStep comp g.2 (g.1 i)).1 else g.1 j) t = .done k r → r = comp k := by
        intro t k r h
        by_cases ht : t = i
        · subst ht; simp only [if_true] at h; exact s4 k r h
        · simp only [ht, if_false] at h; exact hd t k r h
      obtain ⟨i1, i2, i3⟩ := ih (fun j => if j = i then (callStep comp g.2 (g.1 i)).1 else g.1 j, (callStep comp g.2 (g.1 i)).2) s1 hd'
      refine ⟨i1, fun k v h => i2 k v (s2 k v h), ?_⟩
      intro t
      refine ⟨?_, (i3 t).2⟩
      rw [(i3 t).1]
      by_cases ht : t = i
      · subst ht; simp only [if_true]; exact s3
      · simp only [ht, if_false]
  exact key sch (calls, cache) hc (fun t k r h => by simp only at h; rw [hstart t] at h; cases h)

/-- the sequential reference: a call running alone from a coherent cache returns `comp key` after its
    two steps -/
theorem regexp_sequential (comp : K → Option W) (cache : K → Option W) (hc : Coherent comp cache) (k : K) :
    (callStep comp (callStep comp cache (.start k)).2 (callStep comp cache (.start k)).1).1 = .done k (comp k) := by
  simp only [callStep]
  cases hck : cache k with
  | some v => simp only []; rw [hc k v hck]
  | none =>
    simp only []
    cases comp k <;> rfl

end cache

/-! Non-vacuity: a two-run system in which run `i` owns the addresses `≡ i (mod 2)` and increments its
    own cell 0/1; a cache with one compilable and one non-compilable key. -/
def demo : Sys Nat Nat where
  own i a := a % 2 = i % 2 ∧ i < 2
  step i s h := (s + h i, fun a => if a = i ∧ i < 2 then h a + 1 else h a)

example : demo.WriteConfined := by
  intro i s h a hn
  simp only [demo] at hn ⊢
  split
  · rename_i hh; obtain ⟨rfl, hi⟩ := hh; exact absurd ⟨rfl, hi⟩ hn
  · rfl

example : demo.Disjoint := by
  intro i j a hi hj
  simp only [demo] at hi hj
  omega

example : (demo.exec [0, 1, 1, 0, 1] (fun _ => 0, fun _ => 5)).1 1 = (demo.solo 1 3 (0, fun _ => 5)).1 := by decide

example : (cacheExec (fun k : Nat => if k = 7 then some 49 else none) [0, 1, 1, 0, 2, 2]
    (fun t => .start (if t = 2 then 8 else 7), fun _ => none)).2 7 = some 49 := by decide

end Gojq.C06

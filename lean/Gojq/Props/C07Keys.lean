/-
  C07 — "after an error value has been emitted the iterator can still be advanced without panicking",
  for checker-accepted code, with the null-key hypothesis `KeysOK` of Props/C07Safe.lean replaced by
  the statement that `_index` / `getpath` answer as C03's transliterated natives do
  (`C08Keys.NativesAsModelled`; the facts about null keys are then theorems:
  `C08Keys.funcIndex2_null_key_raises`, `C08Keys.funcGetpath_value_path_shape`).
-/
import Gojq.Props.C07Safe
import Gojq.Props.C08Keys

namespace Gojq.C07Keys
open Gojq Gojq.VM Gojq.SafeVM Gojq.C08VM Gojq.C07 Gojq.C08Keys

/-- the hypotheses of Props/C07Safe.lean from the native-model form of the key assumption -/
theorem safeRun_of_natives (nvars : Nat) (P : Params) (input : V) (vars : List V)
    (hc : safeCheckN nvars P.code = true) (hext : ExtClean P.ext) (hi : vpure input = true)
    (hv : ∀ v ∈ vars, vpure v = true) (hn : vars.length = nvars)
    (hnat : NativesAsModelled P (initSt input vars)) : SafeRun nvars P input vars :=
  ⟨hc, hext, hi, hv, hn, keysOK_of_natives_as_modelled P _ hnat⟩

/-- After the (n+1)-th call of `Next` returned an error (the `n` calls before it having ended
    properly), the next call — same code, context and oracle, any fuel — does not panic at any site:
    for every accepted code, input, variable values, context and clean oracle whose `_index` /
    `getpath` answers are those of the modelled natives. -/
theorem after_error_advancable_natives (nvars : Nat) (P : Params) (input : V) (vars : List V)
    (hc : safeCheckN nvars P.code = true) (hext : ExtClean P.ext) (hi : vpure input = true)
    (hv : ∀ v ∈ vars, vpure v = true) (hn : vars.length = nvars)
    (hnat : NativesAsModelled P (initSt input vars)) (fuel n : Nat)
    (hprev : ∀ j, j < n → Proper (next P fuel (after P fuel j (initSt input vars))).1)
    (e : VM.Err) (s' : St) (h : next P fuel (after P fuel n (initSt input vars)) = (.error e, s')) :
    ∀ fuel' site, (next P fuel' s').1 ≠ .panic site :=
  after_error_advancable_safe_same nvars P input vars
    (safeRun_of_natives nvars P input vars hc hext hi hv hn hnat) fuel n hprev e s' h

end Gojq.C07Keys

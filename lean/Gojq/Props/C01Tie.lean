/-
  C01 — the tie between the two developments of C01.

  (1) `Spec.eval` (Model/Spec.lean) is the full reference evaluator of jq, validated against the real
      implementation on every run by the `eval` stream; Props/C01.lean, Props/C02Path.lean are about it.
  (2) Props/C01Compile.lean proves that the mini compiler (compiler.go's unoptimised instruction
      shapes) followed by the mini VM (the `Next()` loop) yields what a SMALL reference evaluator
      (`MiniVM.eval`, Model/MiniVM.lean) prescribes, on the fragment `.`, constants, `|`, `,`, `.[]`,
      `.name`, `empty`, `[q]`, `error`, `try`, `try … catch`, `if`, `//`, `$x`, `as`, `reduce`,
      `foreach`, top-level recursive functions with one filter parameter.

  This file connects them.  `MiniSpec.toSyntax` (Model/MiniSpec.lean) translates a mini program into
  jq abstract syntax — `def f0(g): …; def f1(g): …; main`, the text the harness prints for it — and
  the theorems say that the small reference evaluator and `Spec.eval` on the translated program
  agree, so that the compiler-correctness theorem of (2) is a theorem about `Spec.eval`.

  COVERAGE is wider than the image of `toSyntax`.  The theorems are stated for the relation
  `TrProg p bodies main` ("the jq program `def f0(g): bodies[0]; …; main` is compiled as the mini
  program `p`", built from `Tr q A` for queries), of which `toSyntax` is one instance
  (`toSyntax_is_reading`).  Besides the one form per construct that `toSyntax` picks, `Tr` reads the
  jq forms for which `Spec.eval` has its own equations but compiler.go emits the instructions of
  another construct of the fragment: parentheses `(q)`, `if` without `else`, `elif` chains,
  `l and r` / `l or r` (compileIf on nested `if`s), the two-argument `foreach`, and the postfix forms
  `t[]`, `t.name`, `t?`, `t[]?`, `t.name?` (compileTermSuffix: `t | .[]`, `t | .name`, `try t`,
  `t | try .[]`, `t | try .name`).  For these the theorems say that `Spec.eval`'s equation for the
  jq form agrees with the mini evaluator on the construct it is compiled as (`exSugar`).
  NOT covered, because the mini development has no counterpart whose code compiler.go would emit:
  objects, natives and arithmetic, `label`/`break` (hence `first`, `limit`, `until`, …), `?//`,
  destructuring patterns, paths and updates, string interpolation, `."str"` / `.[0]` (without the
  index-key optimisation they are `_index` native calls), nested or multi-parameter or `$`-parameter
  functions, jq-defined builtins (`select`, `map`, `recurse` are compiled from builtin.jq into
  separate code; `recurse` has a nested definition), `$`variables read across a closure boundary.

  THE PROJECTION under which the results are equal.  `Spec.eval` carries more than the mini
  evaluator: every output is a state `St` (value, identity `Ident`, path-tracking context, `pend`
  flag) and errors are `Gojq.Err` (kind + arguments).  On the fragment
    * outputs are compared by their VALUES (`Res.vals`); identities are not compared; every output
      of `Spec.eval` has NO tracking context and NO `pend` flag (`spec_outputs_untracked`);
    * the stop is compared through `trStop`: `done ↦ done`; `err e ↦ err (trErr e)` with
      `notIter v ↦ builtin "iterator" [v]`, `user v ↦ user v`, `idx v k ↦` the `builtin` error
      `funcIndex2 v k` returns; `diverge ↦ fuel`;
    * the host-library parameter `IterMsg` of the mini development is instantiated with what
      `Spec.eval` uses (`specMsg`: `funcIndex2`, `errMessage`).

  FUEL.  Both evaluators are fuel-indexed.  `n` is the fuel of the mini evaluator, `N` that of
  `Spec.eval`; they are unrelated except where stated.
    * whenever the mini evaluation is complete (`ND`: it did not run out of fuel), `Spec.eval` with
      ANY fuel emits a PREFIX of its outputs (`spec_prefix_of_mini`), and if it ended definitely
      (normally or by an error) the two results are equal (`mini_eval_eq_spec_eval`);
    * `N ≥ 6·n` is enough fuel: then `Spec.eval` does not run out of fuel (`spec_fuel_bound`) — one
      mini step is at most six nested calls of the mutual evaluator (`.name`: eval, evalTerm,
      evalCore, evalIndex, evalTerm, evalCore);
    * the one outcome `Spec.eval` has on the fragment and the mini evaluator has not is
      `unmodelled "catch: message …"`: the handler of `try … catch` would receive the text of a
      built-in error whose value preview the message model does not compute (a float without
      modelled digits); the theorems state it as an alternative;
    * THE CONVERSE FAILS, and this is the one genuine difference between the two evaluators:
      `Spec.eval` is lazy in the outputs of a sub-evaluation (sequencing processes the outputs
      produced before the fuel ran out; a definite error raised downstream ends the stream), the mini
      evaluator is strict (`guardND`: a sub-evaluation out of fuel makes the whole result
      `diverge`).  `mini_strict_spec_lazy`: on `def f0(g): ., f0(g); f0(.) | error` the mini
      evaluator runs out of fuel for EVERY fuel while `Spec.eval` (fuel ≥ 10) and the mini VM both
      stop with the error `null`.  `Spec.eval` is the side validated against the real code, and the
      machine agrees with it: the mini evaluator is not wrong where it is defined, it is defined on
      fewer programs — `compile_refines_spec_fragment` says nothing about a program whose
      observable behaviour is finite only because an error cuts an infinite generator.  The
      theorems below therefore keep `ND (miniRun …)` as the termination hypothesis; it is discharged
      for programs whose main query calls no function (`compile_refines_Spec_eval_callfree`).

  SIDE CONDITIONS of the translation (`tieOK`, decidable; `Prog.WF` from Model/MiniVM.lean):
  function `i` calls only `f0 … fi` (jq's scoping of top-level definitions; the mini development
  allows any call), every constant has a jq literal that reads back as the constant (exactly `null`,
  booleans, integers, strings, `[]`: `constants_with_a_literal`), every `index` key is a string (`.name`).  The evaluation
  context has no jq-defined builtin called `empty/0` or `error/0` (`NoShadow`; true of the shipped
  builtin.jq: `shipped_builtins_do_not_shadow`).

  Proofs: Proofs/MiniSpec{Rel,Loop,Env,Tie,Lit,Prog,Term}.lean.
-/
import Gojq.Proofs.MiniSpecTerm
import Gojq.Generated.BuiltinDefs
namespace Gojq.C01Tie
open Gojq Gojq.MiniVM Gojq.MiniSpec

attribute [local instance] specMsg

/-- The translation `toSyntax` is one of the readings: for a program that passes the decidable side
    conditions `tieOK`, `toSyntax p` is the program `def f0(g): toQuery defs[0]; …; toQuery main`, it
    is compiled as `p`, and its definitions are ordered. -/
theorem toSyntax_is_reading (p : Prog) (hok : tieOK p = true) :
    TrProg p (p.defs.map toQuery) (toQuery p.main) ∧ ordered p = true ∧
    specRun p = specRunOf (p.defs.map toQuery) (toQuery p.main) :=
  ⟨trProg_toSyntax p hok, tieOK_ordered p hok, rfl⟩

example : tieOK exTie = true ∧ tieOK exProg = true ∧ tieOK exForeach = true := by decide

/-- The side condition on constants is syntactic: a constant has a jq literal that `Spec.eval` reads
    back as that constant exactly when it is `null`, a boolean, an INTEGER (any size:
    `parseNumberLit (toString i) = some (.int i)`), a string or `[]`. -/
theorem constants_with_a_literal (c : V) :
    litOK c = true ↔ (c = .null ∨ (∃ b, c = .bool b) ∨ (∃ i, c = .num (.int i)) ∨ (∃ s, c = .str s) ∨ c = .arr []) :=
  litOK_iff c

/-- The hypothesis `NoShadow` of the theorems below holds of the evaluation context the `eval` stream
    runs `Spec.eval` in: the jq-defined builtins shipped in builtin.go (regenerated on every run,
    Generated/BuiltinDefs.lean) define neither `empty/0` nor `error/0`. -/
theorem shipped_builtins_do_not_shadow : NoShadow ⟨⟨Gojq.Generated.Builtins.builtinGo⟩⟩ :=
  ⟨List.find?_eq_none.mpr (by decide +kernel), List.find?_eq_none.mpr (by decide +kernel)⟩

/-- Agreement.  For every well-scoped mini program `p` with ordered definitions and every jq program
    `def f0(g): bodies[0]; …; main` that is compiled as `p`, every input state without tracking
    context, every fuel `n` for which the mini reference evaluator completes and every fuel `N` for
    which `Spec.eval` on the jq program ends definitely (normally or by an error): the output VALUES
    are the same lists and the stops correspond (`trStop`: same normal end, or the same error). -/
theorem mini_eval_eq_spec_eval (p : Prog) (hwf : p.WF) (hord : ordered p = true) {bodies : List Query} {main : Query}
    (htr : TrProg p bodies main) (cfg : Spec.Cfg) (hc : NoShadow cfg)
    (s : Spec.St) (hs : Clean s) (n N : Nat) (hnd : ND (miniRun p n s.v).stop)
    (hdef : Definite (specRunOf bodies main cfg N s).stop) :
    (specRunOf bodies main cfg N s).vals = (miniRun p n s.v).outs ∧
    (specRunOf bodies main cfg N s).stop = trStop (miniRun p n s.v).stop :=
  (prog_rel p hwf hord htr cfg hc s hs n N false (fun h => by simp at h) hnd).of_definite hdef

example : exTie.WF ∧ tieOK exTie = true ∧ NoShadow Spec.cfg0 ∧ Clean (inputSt exTieInput) :=
  ⟨⟨by intro q hq; simp [exTie] at hq; subst hq; simp [Q.Closed], by simp [Q.Closed, exTie],
    by simp [Q.HasParam, exTie]⟩, by decide, ⟨rfl, rfl⟩, ⟨rfl, rfl⟩⟩

/-- `def f0(g): g | g; [f0(.[])]` on `[[1],[2,3]]`: the mini evaluator completes with fuel 5,
    `Spec.eval` ends normally with fuel 17 (< 6·5), both with the one output `[1,2,3]` -/
example : ND (miniRun exTie 5 exTieInput).stop ∧ Definite (specRun exTie Spec.cfg0 17 (inputSt exTieInput)).stop ∧
    ((specRun exTie Spec.cfg0 17 (inputSt exTieInput)).vals ==
      [.arr [.num (.int 1), .num (.int 2), .num (.int 3)]]) = true := by
  refine ⟨by decide +kernel, Definite.of_isDone (by decide +kernel), by decide +kernel⟩

/-- a program written with forms outside the image of `toSyntax`:
    `[.[] | (if .a and .b then .a elif .b then .b? end)]` is compiled as `exSugar`; on
    `[{"a":1,"b":2}, {"a":null,"b":3}, {"b":false}]` both sides give `[1, 3, {"b":false}]`, and so
    does the machine -/
example : exSugar.WF ∧ ordered exSugar = true ∧ TrProg exSugar [] exSugarMain ∧
    ND (miniRun exSugar 7 exSugarInput).stop ∧
    Definite (specRunOf [] exSugarMain Spec.cfg0 18 (inputSt exSugarInput)).stop ∧
    ((specRunOf [] exSugarMain Spec.cfg0 18 (inputSt exSugarInput)).vals ==
      [.arr [.num (.int 1), .num (.int 3), .obj [(B "b", .bool false)]]]) = true ∧
    (match runProg exSugar 2000 exSugarInput with
      | .finished outs none => outs == (specRunOf [] exSugarMain Spec.cfg0 18 (inputSt exSugarInput)).vals
      | _ => false) = true :=
  ⟨⟨by simp [exSugar], by simp [Q.Closed, exSugar, qTrue, qFalse], by simp [Q.HasParam, exSugar, qTrue, qFalse]⟩,
    by decide, exSugar_tr, by decide +kernel, Definite.of_isDone (by decide +kernel), by decide +kernel,
    by decide +kernel⟩

/-- Prefix.  Whenever the mini evaluation is complete, `Spec.eval` with ANY fuel — also one it runs
    out of — emits a prefix of the mini evaluator's output values: fuel cuts the stream, it never
    changes it. -/
theorem spec_prefix_of_mini (p : Prog) (hwf : p.WF) (hord : ordered p = true) {bodies : List Query} {main : Query}
    (htr : TrProg p bodies main) (cfg : Spec.Cfg) (hc : NoShadow cfg)
    (s : Spec.St) (hs : Clean s) (n N : Nat) (hnd : ND (miniRun p n s.v).stop) :
    (specRunOf bodies main cfg N s).vals <+: (miniRun p n s.v).outs :=
  (prog_rel p hwf hord htr cfg hc s hs n N false (fun h => by simp at h) hnd).prefix

/-- the recursive descent `def f0(g): g, (.[] | f0(g)); f0(.)` on `[[], [[]]]` (4 outputs): with fuel
    30 `Spec.eval` has run out of fuel after 3 of them -/
example : exProg.WF ∧ tieOK exProg = true ∧ ND (miniRun exProg 12 exInput).stop ∧
    (match (specRun exProg Spec.cfg0 30 (inputSt exInput)).stop with | .fuel => true | _ => false) = true ∧
    (specRun exProg Spec.cfg0 30 (inputSt exInput)).vals.length = 3 ∧ (miniRun exProg 12 exInput).outs.length = 4 :=
  ⟨⟨by intro q hq; simp [exProg] at hq; subst hq; simp [Q.Closed, exProg], by simp [Q.Closed, exProg],
    by simp [Q.HasParam, exProg]⟩, by decide, by decide +kernel, by decide +kernel, by decide +kernel,
    by decide +kernel⟩

/-- No output of `Spec.eval` on the fragment carries a path-tracking context or the `pend` flag of
    `?//`: the extra machinery of `Spec.eval` is inert here. -/
theorem spec_outputs_untracked (p : Prog) (hwf : p.WF) (hord : ordered p = true) {bodies : List Query} {main : Query}
    (htr : TrProg p bodies main) (cfg : Spec.Cfg) (hc : NoShadow cfg)
    (s : Spec.St) (hs : Clean s) (n N : Nat) (hnd : ND (miniRun p n s.v).stop) :
    ∀ x ∈ (specRunOf bodies main cfg N s).outs, x.ctx = none ∧ x.pend = false :=
  (prog_rel p hwf hord htr cfg hc s hs n N false (fun h => by simp at h) hnd).clean

/-- Enough fuel.  If the mini evaluator completes with fuel `n` then `Spec.eval` with any fuel
    `N ≥ 6·n` does not run out of fuel: either it stops with the one `unmodelled` outcome of the
    fragment (the handler of a `try … catch` needs an error text the message model does not compute)
    or it ends definitely — and then with the mini evaluator's outputs and stop. -/
theorem spec_fuel_bound (p : Prog) (hwf : p.WF) (hord : ordered p = true) {bodies : List Query} {main : Query}
    (htr : TrProg p bodies main) (cfg : Spec.Cfg) (hc : NoShadow cfg)
    (s : Spec.St) (hs : Clean s) (n N : Nat) (hN : 6 * n ≤ N) (hnd : ND (miniRun p n s.v).stop) :
    (specRunOf bodies main cfg N s).stop = .unmodelled catchWhy ∨
    ((specRunOf bodies main cfg N s).vals = (miniRun p n s.v).outs ∧
      (specRunOf bodies main cfg N s).stop = trStop (miniRun p n s.v).stop) := by
  have h := prog_rel p hwf hord htr cfg hc s hs n N true (fun _ => hN) hnd
  rcases h.definite_or with hu | hd
  · exact .inl hu
  · exact .inr (h.of_definite hd)

/-- `try .[] catch .` on `7`: the handler receives the text of `iteratorError`, the same on both sides -/
example : ND (miniRun exCatchIter 2 (.num (.int 7))).stop ∧
    ((specRun exCatchIter Spec.cfg0 12 (inputSt (.num (.int 7)))).vals == (miniRun exCatchIter 2 (.num (.int 7))).outs) = true ∧
    ((miniRun exCatchIter 2 (.num (.int 7))).outs == [.str (B "cannot iterate over: number (7)")]) = true := by
  refine ⟨by decide +kernel, by decide +kernel, by decide +kernel⟩

/-- THE DIFFERENCE between the two reference evaluators.  The program
    `def f0(g): ., f0(g); f0(.) | error` is in the fragment and satisfies every side condition; the
    mini reference evaluator runs out of fuel on it for EVERY fuel (it needs all outputs of the
    infinite generator `f0(.)` before it looks at `error`), while `Spec.eval` with fuel 10 stops
    definitely with the error value `null` raised on the first output — and so does the mini VM on
    the compiled program (600 steps).  `Spec.eval` is lazy in the outputs of a sub-evaluation, the
    mini evaluator is strict: the latter is defined on fewer programs. -/
theorem mini_strict_spec_lazy :
    exLazy.WF ∧ tieOK exLazy = true ∧
    (∀ n v, (miniRun exLazy n v).stop = .diverge) ∧
    specRun exLazy Spec.cfg0 10 (inputSt .null) = ⟨[], .err (.user .null)⟩ ∧
    (match runProg exLazy 600 .null with
      | .finished [] (some (.plain (.user .null))) => true | _ => false) = true := by
  refine ⟨⟨?_, by simp [Q.Closed, exLazy], by simp [Q.HasParam, exLazy]⟩, by decide,
    fun n v => exLazy_mini_diverges n v, ?_, by decide +kernel⟩
  · intro q hq; simp [exLazy] at hq; subst hq; simp [Q.Closed, exLazy]
  · have h1 : (specRun exLazy Spec.cfg0 10 (inputSt .null)).outs = [] := by decide +kernel
    have h2 : (match (specRun exLazy Spec.cfg0 10 (inputSt .null)).stop with
        | .err (.user .null) => true | _ => false) = true := by decide +kernel
    rcases hr : specRun exLazy Spec.cfg0 10 (inputSt .null) with ⟨o, st⟩
    rw [hr] at h1 h2
    simp only at h1 h2
    subst h1
    split at h2
    · rfl
    · exact absurd h2 (by simp)

/-- Hence a definite result of `Spec.eval` does NOT imply that the mini reference evaluator
    completes with some fuel: the termination hypothesis `ND (miniRun …)` of the theorems of this
    file cannot be replaced by one about `Spec.eval` alone. -/
theorem spec_definite_does_not_imply_mini_complete :
    ¬ ∀ (p : Prog) (v : V) (N : Nat), p.WF → tieOK p = true → Definite (specRun p Spec.cfg0 N (inputSt v)).stop →
        ∃ n, ND (miniRun p n v).stop := by
  intro h
  obtain ⟨hwf, hok, hdiv, hspec, _⟩ := mini_strict_spec_lazy
  obtain ⟨n, hn⟩ := h exLazy .null 10 hwf hok (by rw [hspec]; exact .inr ⟨_, rfl⟩)
  rw [hdiv n .null] at hn
  exact hn

/-- Compiler + VM against `Spec.eval`.  For every well-scoped mini program `p` with ordered definitions
    on which the mini evaluator completes (some fuel `n`) and every jq program compiled as `p`:
    whenever `Spec.eval` on the jq program ends definitely (any fuel `N`), running the compiled
    program — `env.execute`, then `Next()` until exhaustion — returns exactly the output values of
    `Spec.eval`, in order, and then stops with the error `Spec.eval` ended with (`Next` returns it)
    or with none. -/
theorem compile_refines_Spec_eval (p : Prog) (hwf : p.WF) (hord : ordered p = true) {bodies : List Query} {main : Query}
    (htr : TrProg p bodies main) (cfg : Spec.Cfg) (hc : NoShadow cfg)
    (s : Spec.St) (hs : Clean s) (n N : Nat) (hnd : ND (miniRun p n s.v).stop)
    (hdef : Definite (specRunOf bodies main cfg N s).stop) :
    ∃ e : Option MiniVM.Err,
      Run (compileProg p) (initCfg (compileProg p) s.v) (specRunOf bodies main cfg N s).vals e ∧
      (specRunOf bodies main cfg N s).stop = stopOfErr e := by
  obtain ⟨h1, h2⟩ := mini_eval_eq_spec_eval p hwf hord htr cfg hc s hs n N hnd hdef
  refine ⟨(miniRun p n s.v).stop.toErr, ?_, by rw [h2, trStop_toErr _ hnd]⟩
  rw [h1]
  exact prog_refines p hwf s.v n hnd

/-- Without function calls the termination hypothesis is discharged: if the main query of `p` calls
    no function (every loop of the fragment then runs over the finitely many outputs of a
    sub-query: the mini evaluator completes with fuel `depth + 1`), then for EVERY fuel `N` with which
    `Spec.eval` on a jq program compiled as `p` ends definitely, the compiled program run on the
    mini VM returns exactly the output values of `Spec.eval` and then its error or none — a statement
    about `Spec.eval`, the compiler and the machine only — and fuel `6·(depth + 1)` is enough for
    `Spec.eval` not to run out of fuel. -/
theorem compile_refines_Spec_eval_callfree (p : Prog) (hwf : p.WF) (hord : ordered p = true) {bodies : List Query}
    {main : Query} (htr : TrProg p bodies main) (cfg : Spec.Cfg) (hc : NoShadow cfg)
    (s : Spec.St) (hs : Clean s) (hcf : callFree p = true) (N : Nat) :
    (Definite (specRunOf bodies main cfg N s).stop →
      ∃ e : Option MiniVM.Err,
        Run (compileProg p) (initCfg (compileProg p) s.v) (specRunOf bodies main cfg N s).vals e ∧
        (specRunOf bodies main cfg N s).stop = stopOfErr e) ∧
    (6 * (qDepth p.main + 1) ≤ N → (specRunOf bodies main cfg N s).stop ≠ .fuel) := by
  have hnd := miniRun_nd_of_callFree p hcf s.v
  refine ⟨fun hdef => compile_refines_Spec_eval p hwf hord htr cfg hc s hs _ N hnd hdef, fun hN => ?_⟩
  exact (prog_rel p hwf hord htr cfg hc s hs _ N true (fun _ => hN) hnd).nofuel rfl

example : callFree exSugar = true ∧ callFree exForeach = true ∧ callFree exTryCont = true := by decide

/-- The same about the executable interpreter (`runProg`: iterate `step`, collect what `Next()`
    returns), with the fuel bound: if the mini evaluator completes with fuel `n` and `Spec.eval` is
    given fuel `N ≥ 6·n`, then — unless `Spec.eval` stops with the `unmodelled` catch message — with
    enough steps, and with any larger number, the machine finishes with exactly the output values
    of `Spec.eval` and its error; it never gets stuck (no Go panic). -/
theorem compile_refines_Spec_eval_exec (p : Prog) (hwf : p.WF) (hord : ordered p = true) {bodies : List Query}
    {main : Query} (htr : TrProg p bodies main) (cfg : Spec.Cfg)
    (hc : NoShadow cfg) (s : Spec.St) (hs : Clean s) (n N : Nat) (hN : 6 * n ≤ N) (hnd : ND (miniRun p n s.v).stop) :
    (specRunOf bodies main cfg N s).stop = .unmodelled catchWhy ∨
    ∃ e : Option MiniVM.Err, (specRunOf bodies main cfg N s).stop = stopOfErr e ∧
      ∃ fuel, ∀ k, runProg p (fuel + k) s.v = .finished (specRunOf bodies main cfg N s).vals (e.map .plain) := by
  rcases spec_fuel_bound p hwf hord htr cfg hc s hs n N hN hnd with hu | ⟨h1, h2⟩
  · exact .inl hu
  · refine .inr ⟨(miniRun p n s.v).stop.toErr, by rw [h2, trStop_toErr _ hnd], ?_⟩
    obtain ⟨fuel, h⟩ := run_exec (prog_refines p hwf s.v n hnd) []
    refine ⟨fuel, fun k => ?_⟩
    rw [h1]
    exact exec_mono _ _ _ _ _ (by simpa [miniRun] using h) k

/-- `foreach .[] as $v0 (0; $v0, [.]; [$v0, .])` on `[7,8]`: the machine (600 steps), the mini
    evaluator (fuel 4) and `Spec.eval` (fuel 24 = 6·4) give the same four outputs -/
example : exForeach.WF ∧ tieOK exForeach = true ∧ ND (miniRun exForeach 4 exInput2).stop ∧
    ((specRun exForeach Spec.cfg0 24 (inputSt exInput2)).vals == (miniRun exForeach 4 exInput2).outs) = true ∧
    (match runProg exForeach 600 exInput2 with
      | .finished outs none => outs == (specRun exForeach Spec.cfg0 24 (inputSt exInput2)).vals
      | _ => false) = true :=
  ⟨⟨by simp [exForeach], by simp [Q.Closed, exForeach], by simp [Q.HasParam, exForeach]⟩, by decide,
    by decide +kernel, by decide +kernel, by decide +kernel⟩

/-- `(try 1 catch 2) | error` on `[7,8]`: no output, the error value `1` on all three sides -/
example : exTryCont.WF ∧ tieOK exTryCont = true ∧ ND (miniRun exTryCont 3 exInput2).stop ∧
    (match (specRun exTryCont Spec.cfg0 18 (inputSt exInput2)) with
      | ⟨[], .err (.user (.num (.int 1)))⟩ => true | _ => false) = true ∧
    (match runProg exTryCont 400 exInput2 with
      | .finished [] (some (.plain (.user (.num (.int 1))))) => true | _ => false) = true :=
  ⟨⟨by simp [exTryCont], by simp [Q.Closed, exTryCont], by simp [Q.HasParam, exTryCont]⟩, by decide,
    by decide +kernel, by decide +kernel, by decide +kernel⟩

end Gojq.C01Tie

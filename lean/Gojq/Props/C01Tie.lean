/-
  C01 — the tie between the two developments of C01.

  (1) `Spec.eval` (Model/Spec.lean) is the full reference evaluator of jq, validated against the real
      implementation on every run by the `eval` stream; Props/C01.lean, Props/C02Path.lean are about it.
  (2) Props/C01Compile.lean proves that the mini compiler (compiler.go's unoptimised instruction
      shapes) followed by the mini VM (the `Next()` loop) yields what a SMALL reference evaluator
      (`MiniVM.eval`, Model/MiniVM.lean) prescribes, on the fragment `.`, constants, `|`, `,`, `.[]`,
      `.name`, `empty`, `[q]`, `error`, `try`, `try … catch`, `if`, `//`, `$x`, `as`, `reduce`,
      `foreach`, object construction `{(k): v, a: v, …}`, top-level recursive functions with one
      filter parameter.

  This file connects them.  `MiniSpec.toSyntax` (Model/MiniSpec.lean) translates a mini program into
  jq abstract syntax — `def f0(g): …; def f1(g): …; main`, the text the harness prints for it — and
  the theorems say that the small reference evaluator and `Spec.eval` on the translated program
  agree, so that the compiler-correctness theorem of (2) is a theorem about `Spec.eval`.

  COVERAGE is wider than the image of `toSyntax`.  The theorems are stated for the relation
  `TrProg p bodies main` ("the jq program `def f0(g): bodies[0]; …; main` is compiled as the mini
  program `p`", built from `Tr q A` for queries), of which `toSyntax` is one instance
  (`toSyntax_is_reading`).  Besides the one form per construct that `toSyntax` picks, `Tr` reads the
  jq forms for which `Spec.eval` has its own equations but compiler.go emits the instructions of
  another construct of the fragment: parentheses `(q)`, `if` without `else`, `elif` chains,
  `l and r` / `l or r` (compileIf on nested `if`s), the two-argument `foreach`, and the postfix forms
  `t[]`, `t.name`, `t?`, `t[]?`, `t.name?` (compileTermSuffix: `t | .[]`, `t | .name`, `try t`,
  `t | try .[]`, `t | try .name`).  For these the theorems say that `Spec.eval`'s equation for the
  jq form agrees with the mini evaluator on the construct it is compiled as (`exSugar`).
  OBJECT CONSTRUCTION `{e₁, …, eₙ}` (n ≥ 1; entries `(K): V`, `name: V`, `"name": V`, `{name}`, `{"name"}`,
  `{$x}`) is read
  anywhere (rule `Tr.obj`, spelled out by `object_reading`, `object_reading_shorthands`; `exObjTie`,
  `exObjFn`) as the mini query
  `delayN n (obj spine)`: `delay` emits no instruction (`delay_same_code`) and gives the mini reference
  evaluator the unit of fuel `Spec.evalObject` spends per entry, so that the fuel bound `N ≥ 6·n`
  stays true; the object case of the simulation is `object_simulation_step` (with
  `object_built_as_Spec_evalObject` of Props/C01Compile.lean for `opobject`'s loop).  The compiled
  program does not depend on the `delay`s (`delay_emits_no_code` of Props/C01Compile.lean:
  `compileProg p.strip = compileProg p`), so the machine runs the code the `mini` stream compares.  Not
  read: keys with string interpolation `"a\(q)": V`, `$x: V`, and `{}` (a constant).
  NOT covered, because the mini development has no counterpart whose code compiler.go would emit:
  natives and arithmetic, `label`/`break` (hence `first`, `limit`, `until`, …), `?//`,
  destructuring patterns, paths and updates, string interpolation, `."str"` / `.[0]` (without the
  index-key optimisation they are `_index` native calls), nested or multi-parameter or `$`-parameter
  functions, jq-defined builtins (`select`, `map`, `recurse` are compiled from builtin.jq into
  separate code; `recurse` has a nested definition), `$`variables read across a closure boundary.

  THE PROJECTION under which the results are equal.  `Spec.eval` carries more than the mini
  evaluator: every output is a state `St` (value, identity `Ident`, path-tracking context, `pend`
  flag) and errors are `Gojq.Err` (kind + arguments).  On the fragment
    * outputs are compared by their VALUES (`Res.vals`); identities are not compared; every output
      of `Spec.eval` has NO tracking context and NO `pend` flag (`spec_outputs_untracked`);
    * the stop is compared through `trStop`: `done ↦ done`; `err e ↦ err (trErr e)` with
      `notIter v ↦ builtin "iterator" [v]`, `user v ↦ user v`, `idx v k ↦` the `builtin` error
      `funcIndex2 v k` returns, `keyNotStr k ↦ builtin "objectKeyNotString" [k]`; `diverge ↦ fuel`;
    * the host-library parameter `IterMsg` of the mini development is instantiated with what
      `Spec.eval` uses (`specMsg`: `funcIndex2`, `errMessage`).

  FUEL.  Both evaluators are fuel-indexed.  `n` is the fuel of the mini evaluator, `N` that of
  `Spec.eval`; they are unrelated except where stated.
    * whenever the mini evaluation is complete (`ND`: it did not run out of fuel), `Spec.eval` with
      ANY fuel emits a PREFIX of its outputs (`spec_prefix_of_mini`), and if it ended definitely
      (normally or by an error) the two results are equal (`mini_eval_eq_spec_eval`);
    * `N ≥ 6·n` is enough fuel: then `Spec.eval` does not run out of fuel (`spec_fuel_bound`) — one
      mini step is at most six nested calls of the mutual evaluator (`.name`: eval, evalTerm,
      evalCore, evalIndex, evalTerm, evalCore);
    * the one outcome `Spec.eval` has on the fragment and the mini evaluator has not is
      `unmodelled "catch: message …"`: the handler of `try … catch` would receive the text of a
      built-in error whose value preview the message model does not compute (a float without
      modelled digits); the theorems state it as an alternative;
    * THE CONVERSE FAILS, and this is the one genuine difference between the two evaluators:
      `Spec.eval` is lazy in the outputs of a sub-evaluation (sequencing processes the outputs
      produced before the fuel ran out; a definite error raised downstream ends the stream), the mini
      evaluator is strict (`guardND`: a sub-evaluation out of fuel makes the whole result
      `diverge`).  `mini_strict_spec_lazy`: on `def f0(g): ., f0(g); f0(.) | error` the mini
      evaluator runs out of fuel for EVERY fuel while `Spec.eval` (fuel ≥ 10) and the mini VM both
      stop with the error `null`.  `Spec.eval` is the side validated against the real code, and the
      machine agrees with it: the mini evaluator is not wrong where it is defined, it is defined on
      fewer programs — `compile_refines_spec_fragment` says nothing about a program whose
      observable behaviour is finite only because an error cuts an infinite generator.  The
      theorems below therefore keep `ND (miniRun …)` as the termination hypothesis; it is discharged
      for programs whose main query calls no function (`compile_refines_Spec_eval_callfree`).

  SIDE CONDITIONS of the translation (`tieOK`, decidable; `Prog.WF` from Model/MiniVM.lean):
  function `i` calls only `f0 … fi` (jq's scoping of top-level definitions; the mini development
  allows any call), every constant has a jq literal that reads back as the constant (exactly `null`,
  booleans, integers, strings, `[]`: `constants_with_a_literal`), every `index` key is a string (`.name`).  The evaluation
  context has no jq-defined builtin called `empty/0` or `error/0` (`NoShadow`; true of the shipped
  builtin.jq: `shipped_builtins_do_not_shadow`).

  Proofs: Proofs/MiniSpec{Rel,Loop,Env,Tie,Lit,Prog,Term}.lean.
-/
import Gojq.Proofs.MiniSpecTerm
import Gojq.Proofs.MiniVMStrip
import Gojq.Generated.BuiltinDefs
namespace Gojq.C01Tie
open Gojq Gojq.MiniVM Gojq.MiniSpec

attribute [local instance] specMsg

/-- The translation `toSyntax` is one of the readings: for a program that passes the decidable side
    conditions `tieOK`, `toSyntax p` is the program `def f0(g): toQuery defs[0]; …; toQuery main`, it
    is compiled as `p`, and its definitions are ordered. -/
theorem toSyntax_is_reading (p : Prog) (hok : tieOK p = true) :
    TrProg p (p.defs.map toQuery) (toQuery p.main) ∧ ordered p = true ∧
    specRun p = specRunOf (p.defs.map toQuery) (toQuery p.main) :=
  ⟨trProg_toSyntax p hok, tieOK_ordered p hok, rfl⟩

example : tieOK exTie = true ∧ tieOK exProg = true ∧ tieOK exForeach = true := by decide

/-- The side condition on constants is syntactic: a constant has a jq literal that `Spec.eval` reads
    back as that constant exactly when it is `null`, a boolean, an INTEGER (any size:
    `parseNumberLit (toString i) = some (.int i)`), a string or `[]`. -/
theorem constants_with_a_literal (c : V) :
    litOK c = true ↔ (c = .null ∨ (∃ b, c = .bool b) ∨ (∃ i, c = .num (.int i)) ∨ (∃ s, c = .str s) ∨ c = .arr []) :=
  litOK_iff c

/-- The hypothesis `NoShadow` of the theorems below holds of the evaluation context the `eval` stream
    runs `Spec.eval` in: the jq-defined builtins shipped in builtin.go (regenerated on every run,
    Generated/BuiltinDefs.lean) define neither `empty/0` nor `error/0`. -/
theorem shipped_builtins_do_not_shadow : NoShadow ⟨⟨Gojq.Generated.Builtins.builtinGo⟩⟩ :=
  ⟨List.find?_eq_none.mpr (by decide +kernel), List.find?_eq_none.mpr (by decide +kernel)⟩

/-- Agreement.  For every well-scoped mini program `p` with ordered definitions and every jq program
    `def f0(g): bodies[0]; …; main` that is compiled as `p`, every input state without tracking
    context, every fuel `n` for which the mini reference evaluator completes and every fuel `N` for
    which `Spec.eval` on the jq program ends definitely (normally or by an error): the output VALUES
    are the same lists and the stops correspond (`trStop`: same normal end, or the same error). -/
theorem mini_eval_eq_spec_eval (p : Prog) (hwf : p.WF) (hord : ordered p = true) {bodies : List Query} {main : Query}
    (htr : TrProg p bodies main) (cfg : Spec.Cfg) (hc : NoShadow cfg)
    (s : Spec.St) (hs : Clean s) (n N : Nat) (hnd : ND (miniRun p n s.v).stop)
    (hdef : Definite (specRunOf bodies main cfg N s).stop) :
    (specRunOf bodies main cfg N s).vals = (miniRun p n s.v).outs ∧
    (specRunOf bodies main cfg N s).stop = trStop (miniRun p n s.v).stop :=
  (prog_rel p hwf hord htr cfg hc s hs n N false (fun h => by simp at h) hnd).of_definite hdef

example : exTie.WF ∧ tieOK exTie = true ∧ NoShadow Spec.cfg0 ∧ Clean (inputSt exTieInput) :=
  ⟨⟨by intro q hq; simp [exTie] at hq; subst hq; simp [Q.Closed], by simp [Q.Closed, exTie],
    by simp [Q.HasParam, exTie]⟩, by decide, ⟨rfl, rfl⟩, ⟨rfl, rfl⟩⟩

/-- `def f0(g): g | g; [f0(.[])]` on `[[1],[2,3]]`: the mini evaluator completes with fuel 5,
    `Spec.eval` ends normally with fuel 17 (< 6·5), both with the one output `[1,2,3]` -/
example : ND (miniRun exTie 5 exTieInput).stop ∧ Definite (specRun exTie Spec.cfg0 17 (inputSt exTieInput)).stop ∧
    ((specRun exTie Spec.cfg0 17 (inputSt exTieInput)).vals ==
      [.arr [.num (.int 1), .num (.int 2), .num (.int 3)]]) = true := by
  refine ⟨by decide +kernel, Definite.of_isDone (by decide +kernel), by decide +kernel⟩

/-- a program written with forms outside the image of `toSyntax`:
    `[.[] | (if .a and .b then .a elif .b then .b? end)]` is compiled as `exSugar`; on
    `[{"a":1,"b":2}, {"a":null,"b":3}, {"b":false}]` both sides give `[1, 3, {"b":false}]`, and so
    does the machine -/
example : exSugar.WF ∧ ordered exSugar = true ∧ TrProg exSugar [] exSugarMain ∧
    ND (miniRun exSugar 7 exSugarInput).stop ∧
    Definite (specRunOf [] exSugarMain Spec.cfg0 18 (inputSt exSugarInput)).stop ∧
    ((specRunOf [] exSugarMain Spec.cfg0 18 (inputSt exSugarInput)).vals ==
      [.arr [.num (.int 1), .num (.int 3), .obj [(B "b", .bool false)]]]) = true ∧
    (match runProg exSugar 2000 exSugarInput with
      | .finished outs none => outs == (specRunOf [] exSugarMain Spec.cfg0 18 (inputSt exSugarInput)).vals
      | _ => false) = true :=
  ⟨⟨by simp [exSugar], by simp [Q.Closed, exSugar, qTrue, qFalse], by simp [Q.HasParam, exSugar, qTrue, qFalse]⟩,
    by decide, exSugar_tr, by decide +kernel, Definite.of_isDone (by decide +kernel), by decide +kernel,
    by decide +kernel⟩

/-- Prefix.  Whenever the mini evaluation is complete, `Spec.eval` with ANY fuel — also one it runs
    out of — emits a prefix of the mini evaluator's output values: fuel cuts the stream, it never
    changes it. -/
theorem spec_prefix_of_mini (p : Prog) (hwf : p.WF) (hord : ordered p = true) {bodies : List Query} {main : Query}
    (htr : TrProg p bodies main) (cfg : Spec.Cfg) (hc : NoShadow cfg)
    (s : Spec.St) (hs : Clean s) (n N : Nat) (hnd : ND (miniRun p n s.v).stop) :
    (specRunOf bodies main cfg N s).vals <+: (miniRun p n s.v).outs :=
  (prog_rel p hwf hord htr cfg hc s hs n N false (fun h => by simp at h) hnd).prefix

/-- the recursive descent `def f0(g): g, (.[] | f0(g)); f0(.)` on `[[], [[]]]` (4 outputs): with fuel
    30 `Spec.eval` has run out of fuel after 3 of them -/
example : exProg.WF ∧ tieOK exProg = true ∧ ND (miniRun exProg 12 exInput).stop ∧
    (match (specRun exProg Spec.cfg0 30 (inputSt exInput)).stop with | .fuel => true | _ => false) = true ∧
    (specRun exProg Spec.cfg0 30 (inputSt exInput)).vals.length = 3 ∧ (miniRun exProg 12 exInput).outs.length = 4 :=
  ⟨⟨by intro q hq; simp [exProg] at hq; subst hq; simp [Q.Closed, exProg], by simp [Q.Closed, exProg],
    by simp [Q.HasParam, exProg]⟩, by decide, by decide +kernel, by decide +kernel, by decide +kernel,
    by decide +kernel⟩

/-- No output of `Spec.eval` on the fragment carries a path-tracking context or the `pend` flag of
    `?//`: the extra machinery of `Spec.eval` is inert here. -/
theorem spec_outputs_untracked (p : Prog) (hwf : p.WF) (hord : ordered p = true) {bodies : List Query} {main : Query}
    (htr : TrProg p bodies main) (cfg : Spec.Cfg) (hc : NoShadow cfg)
    (s : Spec.St) (hs : Clean s) (n N : Nat) (hnd : ND (miniRun p n s.v).stop) :
    ∀ x ∈ (specRunOf bodies main cfg N s).outs, x.ctx = none ∧ x.pend = false :=
  (prog_rel p hwf hord htr cfg hc s hs n N false (fun h => by simp at h) hnd).clean

/-- Enough fuel.  If the mini evaluator completes with fuel `n` then `Spec.eval` with any fuel
    `N ≥ 6·n` does not run out of fuel: either it stops with the one `unmodelled` outcome of the
    fragment (the handler of a `try … catch` needs an error text the message model does not compute)
    or it ends definitely — and then with the mini evaluator's outputs and stop. -/
theorem spec_fuel_bound (p : Prog) (hwf : p.WF) (hord : ordered p = true) {bodies : List Query} {main : Query}
    (htr : TrProg p bodies main) (cfg : Spec.Cfg) (hc : NoShadow cfg)
    (s : Spec.St) (hs : Clean s) (n N : Nat) (hN : 6 * n ≤ N) (hnd : ND (miniRun p n s.v).stop) :
    (specRunOf bodies main cfg N s).stop = .unmodelled catchWhy ∨
    ((specRunOf bodies main cfg N s).vals = (miniRun p n s.v).outs ∧
      (specRunOf bodies main cfg N s).stop = trStop (miniRun p n s.v).stop) := by
  have h := prog_rel p hwf hord htr cfg hc s hs n N true (fun _ => hN) hnd
  rcases h.definite_or with hu | hd
  · exact .inl hu
  · exact .inr (h.of_definite hd)

/-- `try .[] catch .` on `7`: the handler receives the text of `iteratorError`, the same on both sides -/
example : ND (miniRun exCatchIter 2 (.num (.int 7))).stop ∧
    ((specRun exCatchIter Spec.cfg0 12 (inputSt (.num (.int 7)))).vals == (miniRun exCatchIter 2 (.num (.int 7))).outs) = true ∧
    ((miniRun exCatchIter 2 (.num (.int 7))).outs == [.str (B "cannot iterate over: number (7)")]) = true := by
  refine ⟨by decide +kernel, by decide +kernel, by decide +kernel⟩

/-- THE DIFFERENCE between the two reference evaluators.  The program
    `def f0(g): ., f0(g); f0(.) | error` is in the fragment and satisfies every side condition; the
    mini reference evaluator runs out of fuel on it for EVERY fuel (it needs all outputs of the
    infinite generator `f0(.)` before it looks at `error`), while `Spec.eval` with fuel 10 stops
    definitely with the error value `null` raised on the first output — and so does the mini VM on
    the compiled program (600 steps).  `Spec.eval` is lazy in the outputs of a sub-evaluation, the
    mini evaluator is strict: the latter is defined on fewer programs. -/
theorem mini_strict_spec_lazy :
    exLazy.WF ∧ tieOK exLazy = true ∧
    (∀ n v, (miniRun exLazy n v).stop = .diverge) ∧
    specRun exLazy Spec.cfg0 10 (inputSt .null) = ⟨[], .err (.user .null)⟩ ∧
    (match runProg exLazy 600 .null with
      | .finished [] (some (.plain (.user .null))) => true | _ => false) = true := by
  refine ⟨⟨?_, by simp [Q.Closed, exLazy], by simp [Q.HasParam, exLazy]⟩, by decide,
    fun n v => exLazy_mini_diverges n v, ?_, by decide +kernel⟩
  · intro q hq; simp [exLazy] at hq; subst hq; simp [Q.Closed, exLazy]
  · have h1 : (specRun exLazy Spec.cfg0 10 (inputSt .null)).outs = [] := by decide +kernel
    have h2 : (match (specRun exLazy Spec.cfg0 10 (inputSt .null)).stop with
        | .err (.user .null) => true | _ => false) = true := by decide +kernel
    rcases hr : specRun exLazy Spec.cfg0 10 (inputSt .null) with ⟨o, st⟩
    rw [hr] at h1 h2
    simp only at h1 h2
    subst h1
    split at h2
    · rfl
    · exact absurd h2 (by simp)

/-- Hence a definite result of `Spec.eval` does NOT imply that the mini reference evaluator
    completes with some fuel: the termination hypothesis `ND (miniRun …)` of the theorems of this
    file cannot be replaced by one about `Spec.eval` alone. -/
theorem spec_definite_does_not_imply_mini_complete :
    ¬ ∀ (p : Prog) (v : V) (N : Nat), p.WF → tieOK p = true → Definite (specRun p Spec.cfg0 N (inputSt v)).stop →
        ∃ n, ND (miniRun p n v).stop := by
  intro h
  obtain ⟨hwf, hok, hdiv, hspec, _⟩ := mini_strict_spec_lazy
  obtain ⟨n, hn⟩ := h exLazy .null 10 hwf hok (by rw [hspec]; exact .inr ⟨_, rfl⟩)
  rw [hdiv n .null] at hn
  exact hn

/-- Compiler + VM against `Spec.eval`.  For every well-scoped mini program `p` with ordered definitions
    on which the mini evaluator completes (some fuel `n`) and every jq program compiled as `p`:
    whenever `Spec.eval` on the jq program ends definitely (any fuel `N`), running the compiled
    program — `env.execute`, then `Next()` until exhaustion — returns exactly the output values of
    `Spec.eval`, in order, and then stops with the error `Spec.eval` ended with (`Next` returns it)
    or with none. -/
theorem compile_refines_Spec_eval (p : Prog) (hwf : p.WF) (hord : ordered p = true) {bodies : List Query} {main : Query}
    (htr : TrProg p bodies main) (cfg : Spec.Cfg) (hc : NoShadow cfg)
    (s : Spec.St) (hs : Clean s) (n N : Nat) (hnd : ND (miniRun p n s.v).stop)
    (hdef : Definite (specRunOf bodies main cfg N s).stop) :
    ∃ e : Option MiniVM.Err,
      Run (compileProg p) (initCfg (compileProg p) s.v) (specRunOf bodies main cfg N s).vals e ∧
      (specRunOf bodies main cfg N s).stop = stopOfErr e := by
  obtain ⟨h1, h2⟩ := mini_eval_eq_spec_eval p hwf hord htr cfg hc s hs n N hnd hdef
  refine ⟨(miniRun p n s.v).stop.toErr, ?_, by rw [h2, trStop_toErr _ hnd]⟩
  rw [h1]
  exact prog_refines p hwf s.v n hnd

/-- Without function calls the termination hypothesis is discharged: if the main query of `p` calls
    no function (every loop of the fragment then runs over the finitely many outputs of a
    sub-query: the mini evaluator completes with fuel `depth + 1`), then for EVERY fuel `N` with which
    `Spec.eval` on a jq program compiled as `p` ends definitely, the compiled program run on the
    mini VM returns exactly the output values of `Spec.eval` and then its error or none — a statement
    about `Spec.eval`, the compiler and the machine only — and fuel `6·(depth + 1)` is enough for
    `Spec.eval` not to run out of fuel. -/
theorem compile_refines_Spec_eval_callfree (p : Prog) (hwf : p.WF) (hord : ordered p = true) {bodies : List Query}
    {main : Query} (htr : TrProg p bodies main) (cfg : Spec.Cfg) (hc : NoShadow cfg)
    (s : Spec.St) (hs : Clean s) (hcf : callFree p = true) (N : Nat) :
    (Definite (specRunOf bodies main cfg N s).stop →
      ∃ e : Option MiniVM.Err,
        Run (compileProg p) (initCfg (compileProg p) s.v) (specRunOf bodies main cfg N s).vals e ∧
        (specRunOf bodies main cfg N s).stop = stopOfErr e) ∧
    (6 * (qDepth p.main + 1) ≤ N → (specRunOf bodies main cfg N s).stop ≠ .fuel) := by
  have hnd := miniRun_nd_of_callFree p hcf s.v
  refine ⟨fun hdef => compile_refines_Spec_eval p hwf hord htr cfg hc s hs _ N hnd hdef, fun hN => ?_⟩
  exact (prog_rel p hwf hord htr cfg hc s hs _ N true (fun _ => hN) hnd).nofuel rfl

example : callFree exSugar = true ∧ callFree exForeach = true ∧ callFree exTryCont = true := by decide

/-- The same about the executable interpreter (`runProg`: iterate `step`, collect what `Next()`
    returns), with the fuel bound: if the mini evaluator completes with fuel `n` and `Spec.eval` is
    given fuel `N ≥ 6·n`, then — unless `Spec.eval` stops with the `unmodelled` catch message — with
    enough steps, and with any larger number, the machine finishes with exactly the output values
    of `Spec.eval` and its error; it never gets stuck (no Go panic). -/
theorem compile_refines_Spec_eval_exec (p : Prog) (hwf : p.WF) (hord : ordered p = true) {bodies : List Query}
    {main : Query} (htr : TrProg p bodies main) (cfg : Spec.Cfg)
    (hc : NoShadow cfg) (s : Spec.St) (hs : Clean s) (n N : Nat) (hN : 6 * n ≤ N) (hnd : ND (miniRun p n s.v).stop) :
    (specRunOf bodies main cfg N s).stop = .unmodelled catchWhy ∨
    ∃ e : Option MiniVM.Err, (specRunOf bodies main cfg N s).stop = stopOfErr e ∧
      ∃ fuel, ∀ k, runProg p (fuel + k) s.v = .finished (specRunOf bodies main cfg N s).vals (e.map .plain) := by
  rcases spec_fuel_bound p hwf hord htr cfg hc s hs n N hN hnd with hu | ⟨h1, h2⟩
  · exact .inl hu
  · refine .inr ⟨(miniRun p n s.v).stop.toErr, by rw [h2, trStop_toErr _ hnd], ?_⟩
    obtain ⟨fuel, h⟩ := run_exec (prog_refines p hwf s.v n hnd) []
    refine ⟨fuel, fun k => ?_⟩
    rw [h1]
    exact exec_mono _ _ _ _ _ (by simpa [miniRun] using h) k

/-- `foreach .[] as $v0 (0; $v0, [.]; [$v0, .])` on `[7,8]`: the machine (600 steps), the mini
    evaluator (fuel 4) and `Spec.eval` (fuel 24 = 6·4) give the same four outputs -/
example : exForeach.WF ∧ tieOK exForeach = true ∧ ND (miniRun exForeach 4 exInput2).stop ∧
    ((specRun exForeach Spec.cfg0 24 (inputSt exInput2)).vals == (miniRun exForeach 4 exInput2).outs) = true ∧
    (match runProg exForeach 600 exInput2 with
      | .finished outs none => outs == (specRun exForeach Spec.cfg0 24 (inputSt exInput2)).vals
      | _ => false) = true :=
  ⟨⟨by simp [exForeach], by simp [Q.Closed, exForeach], by simp [Q.HasParam, exForeach]⟩, by decide,
    by decide +kernel, by decide +kernel, by decide +kernel⟩

/-- `(try 1 catch 2) | error` on `[7,8]`: no output, the error value `1` on all three sides -/
example : exTryCont.WF ∧ tieOK exTryCont = true ∧ ND (miniRun exTryCont 3 exInput2).stop ∧
    (match (specRun exTryCont Spec.cfg0 18 (inputSt exInput2)) with
      | ⟨[], .err (.user (.num (.int 1)))⟩ => true | _ => false) = true ∧
    (match runProg exTryCont 400 exInput2 with
      | .finished [] (some (.plain (.user (.num (.int 1))))) => true | _ => false) = true :=
  ⟨⟨by simp [exTryCont], by simp [Q.Closed, exTryCont], by simp [Q.HasParam, exTryCont]⟩, by decide,
    by decide +kernel, by decide +kernel, by decide +kernel⟩

/-! ## jq-defined forms that are inside the fragment through their definitions -/

/-- `def select(g): if g then . else empty end;` (builtin.jq's definition, as function `f0`) -/
def selectBody : Q := .ite .param .id .empty
/-- `def map(g): [.[] | g];` (as `f1`) -/
def mapBody : Q := .arr (.pipe .iter .param)
/-- `def recurse(g): ., (g | recurse(g));` (as `f2`; builtin.jq writes it with a nested definition:
    `def recurse(f): def r: ., (f | r); r;` — not the same instructions) -/
def recurseBody : Q := .comma .id (.pipe .param (.call1 2 .param))

/-- `def f0(g): if g then . else empty end; def f1(g): [.[] | g]; def f2(g): ., (g | f2(g)); main` -/
def withPrelude (main : Q) : Prog := ⟨[selectBody, mapBody, recurseBody], main⟩

/-- `select`, `map`, `recurse(f)` written as ordinary one-parameter definitions ARE programs of the
    proved fragment: with them in front, every main query of the fragment that calls `f0 f1 f2` is
    a well-scoped program … -/
theorem prelude_wf (main : Q) (hc : main.Closed 3 []) (hp : ¬ main.HasParam) : (withPrelude main).WF := by
  refine ⟨?_, hc, hp⟩
  intro q hq
  simp only [withPrelude, List.mem_cons, List.not_mem_nil, or_false] at hq
  rcases hq with rfl | rfl | rfl <;> simp [selectBody, mapBody, recurseBody, Q.Closed, withPrelude]

/-- … that passes the side conditions of the translation whenever the main query does … -/
theorem prelude_tieOK (main : Q) (h1 : qLitOK main = true) :
    tieOK (withPrelude main) = true := by
  simp [tieOK, ordered, orderedFrom, withPrelude, selectBody, mapBody, recurseBody, callsBelow, qLitOK, h1]

/-- … so that compile-then-run returns exactly what `Spec.eval` prescribes for the jq program
    `def f0(g): if g then . else empty end; def f1(g): [.[] | g]; def f2(g): ., (g | f2(g)); main`
    (the instance of `compile_refines_Spec_eval`). -/
theorem select_map_recurse_refine_Spec_eval (main : Q) (hc : main.Closed 3 []) (hp : ¬ main.HasParam)
    (hl : qLitOK main = true) (cfg : Spec.Cfg) (hcfg : NoShadow cfg)
    (s : Spec.St) (hs : Clean s) (n N : Nat) (hnd : ND (miniRun (withPrelude main) n s.v).stop)
    (hdef : Definite (specRun (withPrelude main) cfg N s).stop) :
    ∃ e : Option MiniVM.Err,
      Run (compileProg (withPrelude main)) (initCfg (compileProg (withPrelude main)) s.v)
        (specRun (withPrelude main) cfg N s).vals e ∧
      (specRun (withPrelude main) cfg N s).stop = stopOfErr e := by
  obtain ⟨htr, hord, _⟩ := toSyntax_is_reading (withPrelude main) (prelude_tieOK main hl)
  exact compile_refines_Spec_eval (withPrelude main) (prelude_wf main hc hp) hord htr cfg hcfg s hs n N hnd hdef

/-- `f1(f0(.)), [f2(try .[])]`, i.e. `map(select(.)), [recurse(.[]?)]` (= `[..]`) -/
def exPrelude : Prog := withPrelude (.comma (.call1 1 (.call1 0 .id)) (.arr (.call1 2 (.try_ .iter))))
def exInput3 : V := .arr [.arr [.num (.int 7)], .bool false]

/-- on `[[7], false]`: `[[7]]` and `[[[7],false],[7],7,false]` — the machine, the mini evaluator
    (fuel 16) and `Spec.eval` (fuel 96 = 6·16) agree -/
example : exPrelude.WF ∧ tieOK exPrelude = true ∧ ND (miniRun exPrelude 16 exInput3).stop ∧
    ((specRun exPrelude Spec.cfg0 96 (inputSt exInput3)).vals == (miniRun exPrelude 16 exInput3).outs) = true ∧
    (match runProg exPrelude 2000 exInput3 with
      | .finished [.arr [.arr [.num (.int 7)]],
                   .arr [.arr [.arr [.num (.int 7)], .bool false], .arr [.num (.int 7)], .num (.int 7), .bool false]] none => true
      | _ => false) = true :=
  ⟨prelude_wf _ (by simp [Q.Closed]) (by simp [Q.HasParam]), by decide, by decide +kernel, by decide +kernel, by decide +kernel⟩


/-- what `select(a)` means: the input, once for every output of `a` that is neither `null` nor `false` -/
theorem select_law [IterMsg] (defs : Name → Q) (h0 : defs 0 = selectBody) (n : Nat) (g : Ctx) (ρ : Env) (a : Q) (v : V) :
    eval defs (n+3) g ρ (.call1 0 a) v =
      (eval defs n ⟨g.fn, []⟩ ⟨ρ.clo, []⟩ a v).bindG fun w => if falsy w then ⟨[], .done⟩ else ⟨[v], .done⟩ := by
  simp only [eval, h0, selectBody]
  rfl

/-- what `map(a)` means on an array: the array of all outputs of `a` on the elements, in order;
    the first error ends it -/
theorem map_law [IterMsg] (defs : Name → Q) (h1 : defs 1 = mapBody) (n : Nat) (g : Ctx) (ρ : Env) (a : Q) (xs : List V) :
    eval defs (n+5) g ρ (.call1 1 a) (.arr xs) =
      match Res.bindL (eval defs (n+1) ⟨g.fn, []⟩ ⟨ρ.clo, []⟩ a) xs .done with
      | ⟨o, .done⟩ => ⟨[.arr o], .done⟩
      | ⟨_, st⟩ => ⟨[], st⟩ := by
  simp only [eval, h1, mapBody, iterItems]
  rfl

/-! ## object construction -/

/-- `delay` emits no instruction: the code of `delayN m q` is the code of `q` -/
theorem delay_same_code [IterMsg] (entry : Name → Nat) (g : Ctx) (e p : Nat) (q : Q) (m : Nat) :
    compile entry g e p (delayN m q) = compile entry g e p q := by
  induction m with
  | zero => rfl
  | succ m ih => simpa [delayN, compile] using ih

/-- How `Tr` reads an object term, spelled out for two entries `{(K1): V1, name: V2}`: it is compiled
    as `obj (objSnocC (objSnoc objStart k1 v1) "name" v2)` — instructions `store r; load r; k1; load r;
    v1; push "name"; load r; v2; object 2` — and the mini reference evaluator gets 2 more units of
    fuel (`delay`, no instruction). -/
theorem object_reading {k1 v1 v2 : Q} {K1 V1 V2 : Query} (nm : Bytes) (h1 : Tr k1 K1) (h2 : Tr v1 V1) (h3 : Tr v2 V2) :
    Tr (delayN 2 (.obj (.objSnocC (.objSnoc .objStart k1 v1) (.str nm) v2)))
      (T (.object [.mk (.query K1) (some V1), .mk (.name nm) (some V2)])) :=
  .obj (.objSnocC nm (.objSnoc .objStart h1 h2) h3) (by simp [Q.IsSpine]) (by simp) (by simp [Q.entries])

/-- The object case of the simulation (what `mini_eval_eq_spec_eval` uses for `{…}`), by itself: if
    every key and value query of the entries is simulated at every `Spec` fuel (`≥ lo` when the
    claim includes "does not run out of fuel"; `Hidx`, `Hvar`: the values `.name` / `$x` of the shorthand
    entries `{name}` / `{$x}`, which `Spec.evalObject` evaluates by its own equations), then `Spec.evalObject` — with fuel above `lo` + the
    number of entries — is simulated by the mini evaluator's `evalEntries`: same nesting of the
    loops (first key outermost, each key before its value), same accumulated pairs, same final
    object or key error. -/
theorem object_simulation_step {b : Bool} (cfg : Spec.Cfg) (env : Spec.Env) (s : Spec.St) (hs : Clean s)
    (ev : Q → V → MiniVM.Res) (lo : Nat) (Pq : Q → Prop)
    (H : ∀ (M : Nat) (q : Q) (A : Query) (s' : Spec.St), Tr q A → Pq q → Clean s' → s'.v = s.v → (b = true → lo ≤ M) →
      ND (ev q s.v).stop → Rel b (Spec.eval M cfg env A s') (ev q s.v))
    (Hidx : ∀ (nm : Bytes) (s' : Spec.St), Clean s' → s'.v = s.v → ND (ev (.index (.str nm)) s.v).stop →
      Rel b (Spec.navStep s' (.str nm)) (ev (.index (.str nm)) s.v))
    (Hvar : ∀ (M : Nat) (x : Nat) (s' : Spec.St), Pq (.var x) → Clean s' → s'.v = s.v → (b = true → lo ≤ M) →
      ND (ev (.var x) s.v).stop → Rel b (Spec.evalCall M cfg env (vname x) [] s') (ev (.var x) s.v))
    (es : List (EKey × Q)) (kvs : List ObjKV) (htr : TrEntries Pq es kvs) (fuel : Nat) (acc : List (V × V))
    (hf : b = true → lo + es.length < fuel) (hnd : ND (evalEntries ev s.v es acc).stop) :
    Rel b (Spec.evalObject fuel cfg env kvs acc s none) (evalEntries ev s.v es acc) :=
  rel_evalObject env s hs ev lo Pq H Hidx Hvar es kvs htr fuel acc none rfl hf hnd

/-- The shorthand entries and the quoted key are read too: `{"k": V, name, "name", $v3}` is compiled as
    `"k": V, name: .name, name: .name, v3: $v3` (entries with a constant key: `push key; load r; value`). -/
theorem object_reading_shorthands {v : Q} {V : Query} (k nm nm' : Bytes) (x : Nat) (h : Tr v V) :
    Tr (delayN 4 (.obj (.objSnocC (.objSnocC (.objSnocC (.objSnocC .objStart (.str k) v) (.str nm) (.index (.str nm)))
          (.str nm') (.index (.str nm'))) (.str (B (Spec.dropFirst (vname x)))) (.var x))))
      (T (.object [.mk (.str (.lit k)) (some V), .mk (.name nm) none, .mk (.str (.lit nm')) none, .mk (.var (vname x)) none])) :=
  .obj (.objVar x (.objShortS nm' (.objShort nm (.objSnocS k .objStart h)))) (by simp [Q.IsSpine]) (by simp) (by simp [Q.entries])

/-- `{(("a","b")): .[], c: .}` with the two units of extra fuel -/
def exObjTie : Prog :=
  ⟨[], delayN 2 (.obj (.objSnocC (.objSnoc .objStart (.comma (.const (.str [97])) (.const (.str [98]))) .iter) (.str [99]) .id))⟩

def exObjTieSyntax : Query :=
  T (.object [.mk (.query (.binop [] .comma (T (.str (.lit [97]))) (T (.str (.lit [98]))))) (some (.term [] (.mk .identity [.iter]))),
              .mk (.name [99]) (some (T .identity))])

/-- the jq program `{("a","b"): .[], c: .}` is read as `exObjTie`; on `[7,8]` the machine (800 steps),
    the mini evaluator (fuel 5) and `Spec.eval` (fuel 30 = 6·5) give the same four objects -/
example : exObjTie.WF ∧ TrProg exObjTie [] exObjTieSyntax ∧ ND (miniRun exObjTie 5 exInput2).stop ∧
    ((specRunOf [] exObjTieSyntax Spec.cfg0 30 (inputSt exInput2)).vals == (miniRun exObjTie 5 exInput2).outs) = true ∧
    (miniRun exObjTie 5 exInput2).outs.length = 4 ∧
    (match runProg exObjTie 800 exInput2 with
      | .finished outs none => outs == (specRunOf [] exObjTieSyntax Spec.cfg0 30 (inputSt exInput2)).vals
      | _ => false) = true :=
  ⟨⟨by simp [exObjTie], by simp [Q.Closed, Q.IsSpine, exObjTie, delayN], by simp [Q.HasParam, exObjTie, delayN]⟩,
   ⟨rfl, fun i h => by simp [exObjTie] at h,
    object_reading [99] (.comma (.const (.str [97]) rfl) (.const (.str [98]) rfl)) .iter .id⟩,
   by decide +kernel, by decide +kernel, by decide +kernel, by decide +kernel⟩


/-- `compile_refines_Spec_eval` about the program WITHOUT its `delay`s — the mini program whose
    instruction list the `mini` stream compares with the real compiler's for the jq text: if the jq
    program `def f0(g): bodies[0]; …; main` is read as `p` (objects as `delayN n (obj …)`), then running
    the compiled `p.strip` returns exactly the output values of `Spec.eval` and then its error or none,
    whenever the mini evaluator completes on `p` and `Spec.eval` ends definitely. -/
theorem compile_refines_Spec_eval_stripped (p : Prog) (hwf : p.WF) (hord : ordered p = true) {bodies : List Query}
    {main : Query} (htr : TrProg p bodies main) (cfg : Spec.Cfg) (hc : NoShadow cfg)
    (s : Spec.St) (hs : Clean s) (n N : Nat) (hnd : ND (miniRun p n s.v).stop)
    (hdef : Definite (specRunOf bodies main cfg N s).stop) :
    ∃ e : Option MiniVM.Err,
      Run (compileProg p.strip) (initCfg (compileProg p.strip) s.v) (specRunOf bodies main cfg N s).vals e ∧
      (specRunOf bodies main cfg N s).stop = stopOfErr e := by
  rw [compileProg_strip p hwf]
  exact compile_refines_Spec_eval p hwf hord htr cfg hc s hs n N hnd hdef

example : exObjTie.strip = ⟨[], .obj (.objSnocC (.objSnoc .objStart (.comma (.const (.str [97])) (.const (.str [98]))) .iter) (.str [99]) .id)⟩ :=
  rfl

/-- `def f0(g): {a: g}; f0(.[])`: an object construction inside a function body, its value the
    parameter -/
def exObjFn : Prog := ⟨[delayN 1 (.obj (.objSnocC .objStart (.str [97]) .param))], .call1 0 .iter⟩

example : exObjFn.WF ∧ ordered exObjFn = true ∧
    TrProg exObjFn [T (.object [.mk (.name [97]) (some (T (.func pname [])))])] (T (.func (fname 0) [.term [] (.mk .identity [.iter])])) ∧
    ND (miniRun exObjFn 6 exInput2).stop ∧
    ((specRunOf [T (.object [.mk (.name [97]) (some (T (.func pname [])))])] (T (.func (fname 0) [.term [] (.mk .identity [.iter])]))
        Spec.cfg0 36 (inputSt exInput2)).vals == (miniRun exObjFn 6 exInput2).outs) = true ∧
    (match runProg exObjFn 800 exInput2 with
      | .finished [.obj [([97], .num (.int 7))], .obj [([97], .num (.int 8))]] none => true
      | _ => false) = true ∧
    (match runProg exObjFn.strip 800 exInput2 with
      | .finished [.obj [([97], .num (.int 7))], .obj [([97], .num (.int 8))]] none => true
      | _ => false) = true :=
  ⟨⟨by simp [exObjFn, delayN, Q.Closed, Q.IsSpine], by simp [Q.Closed, exObjFn], by simp [Q.HasParam, exObjFn]⟩,
   by decide,
   ⟨rfl, fun i h => by
      have : i = 0 := by simp [exObjFn] at h; omega
      subst this
      exact .obj (.objSnocC [97] .objStart .param) (by simp [Q.IsSpine]) (by simp) rfl,
    .call1 0 .iter⟩,
   by decide +kernel, by decide +kernel, by decide +kernel, by decide +kernel⟩

/-- objects do not need the termination hypothesis either: `{("a","b"): .[], c: .}` calls no function -/
example : callFree exObjTie = true := by decide


/-- `. as $v0 | {"k": .[], a, "b", $v0}` -/
def exObjShort : Prog :=
  ⟨[], .bind 0 .id (delayN 4 (.obj (.objSnocC (.objSnocC (.objSnocC (.objSnocC .objStart (.str [107]) .iter) (.str [97]) (.index (.str [97])))
          (.str [98]) (.index (.str [98]))) (.str (B (Spec.dropFirst (vname 0)))) (.var 0))))⟩

def exObjShortSyntax : Query :=
  .bind [] (T .identity) [.var (vname 0)]
    (T (.object [.mk (.str (.lit [107])) (some (.term [] (.mk .identity [.iter]))), .mk (.name [97]) none,
                 .mk (.str (.lit [98])) none, .mk (.var (vname 0)) none]))

def exInput4 : V := .obj [([97], .num (.int 1)), ([98], .num (.int 2))]

/-- on `{"a":1,"b":2}`: two objects `{"a":1,"b":2,"k":1|2,"v0":{"a":1,"b":2}}` — the machine, the mini
    evaluator (fuel 8) and `Spec.eval` (fuel 48) agree -/
example : exObjShort.WF ∧ TrProg exObjShort [] exObjShortSyntax ∧ ND (miniRun exObjShort 8 exInput4).stop ∧
    ((specRunOf [] exObjShortSyntax Spec.cfg0 48 (inputSt exInput4)).vals == (miniRun exObjShort 8 exInput4).outs) = true ∧
    (miniRun exObjShort 8 exInput4).outs.length = 2 ∧
    (match runProg exObjShort 1000 exInput4 with
      | .finished outs none => outs == (specRunOf [] exObjShortSyntax Spec.cfg0 48 (inputSt exInput4)).vals
      | _ => false) = true :=
  ⟨⟨by simp [exObjShort], by simp [Q.Closed, Q.IsSpine, exObjShort, delayN], by simp [Q.HasParam, exObjShort, delayN]⟩,
   ⟨rfl, fun i h => by simp [exObjShort] at h, .bind 0 .id (object_reading_shorthands [107] [97] [98] 0 .iter)⟩,
   by decide +kernel, by decide +kernel, by decide +kernel, by decide +kernel⟩


end Gojq.C01Tie

/-
  C18 — a module's variables never reach its importer: the slice mechanism of `compileModule`.

  `compileModule` (compiler.go) compiles an aliased module with the importer's variable list cut down
  to the global variables: `scope.variables = variables[:n:n]` — a THREE-index slice expression, which also
  cuts the capacity.  The module compiler then appends the module's own data-import variables to that
  slice.  Props/C18.lean argues at the level of NAMES (`importer_names_not_visible_in_module`); what
  keeps the importer's list intact in memory is the capacity cap, and this file proves it on a model of
  Go slices (memory cells, base / len / cap, `append` writing in place while `len < cap` and
  reallocating otherwise):

    * `capped_appends_leave_memory` : after `s[:n:n]`, ANY sequence of appends leaves every cell that
                                      was allocated before unchanged — in particular every element of
                                      the importer's slice `s` (`capped_appends_leave_importer`);
    * `uncapped_append_overwrites`  : after `s[:n]` with `n < len s` (the seeded change C18_r6m1:
                                      `variables[:min(globalcnt, len)]`), the FIRST append overwrites
                                      the importer's element `n`.
  The tie to the code is C18's module-tree stream (importer and module both with data imports, compared
  with the inlined program), which is what caught the seeded change.
-/
namespace Gojq.C18Slice

/-- memory: cells by address, and the next free address -/
structure Mem (α : Type) where
  cell : Nat → α
  next : Nat

/-- a Go slice header -/
structure Sl where
  base : Nat
  len : Nat
  cap : Nat

def Sl.get {α : Type} (m : Mem α) (s : Sl) (i : Nat) : α := m.cell (s.base + i)

/-- `s[:n:n]` -/
def Sl.capped (s : Sl) (n : Nat) : Sl := { base := s.base, len := n, cap := n }
/-- `s[:n]` -/
def Sl.prefix (s : Sl) (n : Nat) : Sl := { base := s.base, len := n, cap := s.cap }

/-- `append(s, x)`: in place while there is spare capacity, else a fresh array (growth `2·cap + 1`;
    only "strictly larger" matters) with the elements copied -/
def gappend {α : Type} (m : Mem α) (s : Sl) (x : α) : Mem α × Sl :=
  if s.len < s.cap then
    ({ m with cell := fun a => if a = s.base + s.len then x else m.cell a }, { s with len := s.len + 1 })
  else
    let nb := m.next
    ({ cell := fun a => if nb ≤ a ∧ a < nb + s.len then m.cell (s.base + (a - nb))
                        else if a = nb + s.len then x else m.cell a,
       next := nb + (2 * s.cap + 1) },
     { base := nb, len := s.len + 1, cap := 2 * s.cap + 1 })

def appends {α : Type} : Mem α → Sl → List α → Mem α × Sl
  | m, s, [] => (m, s)
  | m, s, x :: xs => appends (gappend m s x).1 (gappend m s x).2 xs

/-- the invariant: the slice is full or lies above the old memory; nothing below `N` has changed -/
def Inv {α : Type} (N : Nat) (m0 m : Mem α) (t : Sl) : Prop :=
  (t.len = t.cap ∨ N ≤ t.base) ∧ N ≤ m.next ∧ t.len ≤ t.cap ∧ ∀ a, a < N → m.cell a = m0.cell a

theorem gappend_inv {α : Type} (N : Nat) (m0 m : Mem α) (t : Sl) (x : α) (h : Inv N m0 m t) :
    Inv N m0 (gappend m t x).1 (gappend m t x).2 := by
  obtain ⟨h1, h2, h3, h4⟩ := h
  unfold gappend
  by_cases hc : t.len < t.cap
  · rw [if_pos hc]
    have hb : N ≤ t.base := by
      cases h1 with
      | inl h => omega
      | inr h => exact h
    refine ⟨.inr hb, h2, by simp; omega, ?_⟩
    intro a ha
    simp only
    rw [if_neg (by omega)]
    exact h4 a ha
  · rw [if_neg hc]
    refine ⟨.inr h2, by simp; omega, by simp; omega, ?_⟩
    intro a ha
    simp only
    rw [if_neg (by omega), if_neg (by omega)]
    exact h4 a ha

theorem appends_inv {α : Type} (N : Nat) (m0 : Mem α) : ∀ (xs : List α) (m : Mem α) (t : Sl), Inv N m0 m t →
    Inv N m0 (appends m t xs).1 (appends m t xs).2
  | [], _, _, h => h
  | x :: xs, m, t, h => appends_inv N m0 xs _ _ (gappend_inv N m0 m t x h)

/-- after `s[:n:n]` any sequence of appends leaves every previously allocated cell unchanged -/
theorem capped_appends_leave_memory {α : Type} (m : Mem α) (s : Sl) (n : Nat) (xs : List α) :
    ∀ a, a < m.next → (appends m (s.capped n) xs).1.cell a = m.cell a :=
  (appends_inv m.next m xs m (s.capped n) ⟨.inl rfl, Nat.le_refl _, Nat.le_refl _, fun _ _ => rfl⟩).2.2.2

/-- … in particular every element of the importer's list -/
theorem capped_appends_leave_importer {α : Type} (m : Mem α) (s : Sl) (hs : s.base + s.cap ≤ m.next)
    (hl : s.len ≤ s.cap) (n : Nat) (xs : List α) (i : Nat) (hi : i < s.len) :
    s.get (appends m (s.capped n) xs).1 i = s.get m i :=
  capped_appends_leave_memory m s n xs (s.base + i) (by omega)

/-- without the capacity cap the first append lands in the importer's element `n` -/
theorem uncapped_append_overwrites {α : Type} (m : Mem α) (s : Sl) (hl : s.len ≤ s.cap) (n : Nat)
    (hn : n < s.len) (x : α) : s.get (gappend m (s.prefix n) x).1 n = x := by
  unfold gappend Sl.prefix Sl.get
  simp only
  rw [if_pos (by omega)]
  simp

/-- the hypotheses are met and the two outcomes differ: importer list `[10, 20]` (cap 2), module
    variable `99` appended after cutting to one global -/
example :
    let m : Mem Nat := { cell := fun a => if a = 0 then 10 else if a = 1 then 20 else 0, next := 2 }
    let s : Sl := { base := 0, len := 2, cap := 2 }
    s.get (gappend m (s.capped 1) 99).1 1 = 20 ∧ s.get (gappend m (s.prefix 1) 99).1 1 = 99 := by
  decide

end Gojq.C18Slice

/-
  C13 — documented inverse pairs are exact inverses: the pairs DEFINED IN jq (builtin.jq):
  `fromstream(tostream)`, `tostream` events / `getpath` / replay with `setpath`, `setpath`/`getpath`,
  `to_entries | from_entries`, `with_entries(.)`, `[paths] == [path(..)] - [[]]`.
  Property theorems only; helper lemmas are in Gojq/Proofs/Pairs*.lean (and, for `fromstream`,
  C16's Gojq/Proofs/Fromstream.lean).

  Level of the statements.  `tostream` / `fromstream` are `Stream.streamSpec` / `Stream.fromstreamSpec`
  (Model/Cli/Stream.lean); `to_entries`, `from_entries`, `with_entries`, `[paths]`, `[path(..)]`
  are the value-level functions of Model/Pairs.lean; `getpath` / `setpath` are the TRANSLITERATED
  NATIVES `funcGetpath` / `funcSetpath` of Model/Native/Path.lean (`getp`, `setp`).
  Tie to the shipped text: the `…_is_shipped` theorems evaluate the regenerated ASTs of builtin.jq
  (Generated/BuiltinDefs.lean) with `Spec.eval` on the inputs of Proofs/PairsTie.lean and compare
  with these functions in the kernel; the correspondence stream `pairs` (Driver/C13.lean) compares
  them with the real library on the value universe and random values.

  Hypotheses, and why each is there (a witness theorem follows each law):
    * objects have distinct keys (`nodup` / `DistinctKeys`) — every value the library holds does
      (Go maps); with `JV.wf` (keys strictly increasing, the library's iteration order) results are
      equal to the input, with distinct keys in any order they are its canonical form;
    * `Indexable` (arrays no longer than a Go `int`) where an index is turned into a path element;
    * `Rebuildable` (arrays of at most 2^29 elements) where an array is rebuilt element by element
      with `setpath`: func.go rejects an index ≥ 2^29 beyond the end (`setpath_index_limit`);
    * key/index paths (`KIPath`) for `getpath(setpath)`: it is false for slices.
-/
import Gojq.Proofs.PairsReplay
import Gojq.Proofs.PairsEntries
import Gojq.Proofs.PairsTie
import Gojq.Proofs.PairsEval
import Gojq.Proofs.PairsEvalStream
namespace Gojq.C13
open Gojq Gojq.Stream Gojq.Pairs

/-! ## (1) fromstream(tostream) == . -/

/-- `fromstream(tostream)` yields exactly the value: for EVERY value whose objects have strictly
    increasing keys (`JV.wf`, every value the library holds) — scalars and empty containers at the
    root and at any depth included — folding the shipped `fromstream` state machine over the
    `tostream` events emits one value, the input.  (C16's `rebuild_docs`, restated for C13.) -/
theorem fromstream_tostream (v : JV) (hv : v.wf = true) : fromstreamSpec (streamSpec v) = .ok [v] := by
  have := rebuild_docs [v] (by intro w hw; rw [List.mem_singleton.mp hw]; exact nodup_wf v hv)
    ⟨.null, false⟩ (Or.inr rfl) []
  simpa [fromstreamSpec, streamSpecDocs, canon_wf v hv] using this

/-- with distinct keys in ANY member order the result is the value in canonical member order -/
theorem fromstream_tostream_any_order (v : JV) (hv : nodup v) : fromstreamSpec (streamSpec v) = .ok [canon v] := by
  have := rebuild_docs [v] (by intro w hw; rw [List.mem_singleton.mp hw]; exact hv)
    ⟨.null, false⟩ (Or.inr rfl) []
  simpa [fromstreamSpec, streamSpecDocs] using this

/-- several documents in a row (`fromstream(inputs | tostream)`): each is emitted, in order, and
    the state machine starts afresh after each — whatever the documents are (a scalar after an
    array, an empty container after a scalar, …). -/
theorem fromstream_tostream_docs (vs : List JV) (hvs : ∀ v ∈ vs, v.wf = true) :
    fromstreamSpec (streamSpecDocs vs) = .ok vs := by
  have := rebuild_docs vs (fun v hv => nodup_wf v (hvs v hv)) ⟨.null, false⟩ (Or.inr rfl) []
  have hmap : vs.map canon = vs := by
    conv => rhs; rw [← List.map_id vs]
    exact List.map_congr_left fun v hv => canon_wf v (hvs v hv)
  simpa [fromstreamSpec, hmap] using this

/-- why distinct keys: an association list with a repeated key is not a value of the library; its
    events rebuild the map a decoder would have built (the later member wins). -/
theorem fromstream_tostream_needs_distinct_keys :
    fromstreamSpec (streamSpec (.obj [([97], jvInt 1), ([97], jvInt 2)])) = .ok [.obj [([97], jvInt 2)]] := by
  rfl

/-- `Stream.streamSpec` IS the shipped `tostream`: `[tostream]` evaluated from the regenerated AST
    of builtin.jq equals it on every value of `Tie.tieValues`. -/
theorem tostream_is_shipped :
    (Tie.tieValues.all fun v => Tie.agrees (Tie.run 300 Tie.qTostream v) (some (.arr (streamSpec v)))) = true := by
  decide +kernel

/-- the definition evaluated below IS the shipped one: the regenerated `FuncDef` of `fromstream`
    is the `foreach` whose parts are named in Proofs/PairsEvalStream.lean (`:= rfl` against
    Generated/BuiltinDefs.lean: an edit of builtin.jq breaks it) -/
theorem fromstream_definition_is_shipped :
    Generated.Builtins.go_fromstream_a01 = .mk "fromstream" ["f"] fromstreamBody :=
  shipped_fromstream

/-- **`Stream.fromstreamSpec` IS the shipped `fromstream`, on EVERY list of modelled events**
    (`eventOK`: well-formed `[path, leaf]` / `[path]` events whose path elements are strings,
    integers `0 ≤ i < 2^29` or elements every `setpath` rejects): `[fromstream(.[])]`, run by
    `Spec.eval` from the regenerated definition with any fuel from 60 on, emits exactly the array of
    the values `fromstreamSpec` emits — and is an error exactly when `fromstreamSpec` is. -/
theorem fromstream_is_shipped (fuel : Nat) (hf : 60 ≤ fuel) (env : Spec.Env) (evs : List JV) (id : Spec.Ident)
    (hev : evs.all eventOK = true) (h : Spec.lookupCall "fromstream" 1 env.bs = .none) :
    Tie.Agrees (Spec.eval fuel Tie.cfgGo env Tie.qFromstreamIter { v := .arr evs, id := id })
      (Tie.ofFOut (fromstreamSpec evs)) :=
  eval_fromstream_iter fuel hf env evs id hev h

/-- the evaluator's own `setpath` (`Spec.setpathV`, what `Spec.eval` runs for `setpath(p; x)`) against
    C16's `Stream.setpath`, on modelled paths: the same value, and an error exactly when the fragment
    has none -/
theorem evaluator_setpath_is_stream_setpath (p : List JV) (x v : JV) (hp : p.all elemOK = true) :
    match Stream.setpath p x v with
    | some w => Spec.setpathV v p x = .ok w
    | none => ∃ e, Spec.setpathV v p x = .error e := by
  have h := setpathV_stream p x v hp
  cases hs : Stream.setpath p x v with
  | some w => rw [hs] at h; exact h
  | none => rw [hs] at h; obtain ⟨e, he, _⟩ := h; exact ⟨e, he⟩

/-- the `tostream` events of a value whose arrays have at most 2^29 elements are modelled events -/
theorem tostream_events_modelled (v : JV) (hs : Rebuildable v) : (streamSpec v).all eventOK = true :=
  streamSpec_ok v hs

/-- **`fromstream` AS SHIPPED rebuilds the value from its `tostream` events**: the program
    `[fromstream(.[])]`, run by `Spec.eval` with the builtins as shipped on the event list
    `streamSpec v`, emits exactly `[v]` and ends normally — for every value with strictly
    increasing keys and arrays of at most 2^29 elements. -/
theorem fromstream_tostream_eval (fuel : Nat) (hf : 60 ≤ fuel) (v : JV) (hv : v.wf = true) (hs : Rebuildable v)
    (id : Spec.Ident) :
    (Spec.eval fuel Tie.cfgGo .empty Tie.qFromstreamIter { v := .arr (streamSpec v), id := id }).outs.map (·.v) = [.arr [v]] ∧
    (Spec.eval fuel Tie.cfgGo .empty Tie.qFromstreamIter { v := .arr (streamSpec v), id := id }).stop = .done := by
  have := eval_fromstream_iter fuel hf .empty (streamSpec v) id (streamSpec_ok v hs) rfl
  rw [fromstream_tostream v hv] at this
  exact this

/-- several documents in a row through the shipped `fromstream` -/
theorem fromstream_tostream_docs_eval (fuel : Nat) (hf : 60 ≤ fuel) (vs : List JV) (hvs : ∀ v ∈ vs, v.wf = true)
    (hs : ∀ v ∈ vs, Rebuildable v) (id : Spec.Ident) :
    (Spec.eval fuel Tie.cfgGo .empty Tie.qFromstreamIter { v := .arr (streamSpecDocs vs), id := id }).outs.map (·.v) = [.arr vs] ∧
    (Spec.eval fuel Tie.cfgGo .empty Tie.qFromstreamIter { v := .arr (streamSpecDocs vs), id := id }).stop = .done := by
  have := eval_fromstream_iter fuel hf .empty (streamSpecDocs vs) id (streamSpecDocs_ok vs hs) rfl
  rw [fromstream_tostream_docs vs hvs] at this
  exact this

/-- the same agreement evaluated by the kernel on `Tie.tieEvents` — which also holds event lists
    OUTSIDE `eventOK` that happen to agree (truncated, reversed, a non-array event) -/
theorem fromstream_shipped_examples :
    (Tie.tieEvents.all fun evs =>
      Tie.agrees (Tie.run 400 Tie.qFromstreamIter (.arr evs)) (Tie.ofFOut (fromstreamSpec evs))) = true := by
  decide +kernel

/-- the law itself through the shipped definitions: `[fromstream(tostream)]` is `[.]` -/
theorem fromstream_tostream_shipped :
    (Tie.tieValues.all fun v => Tie.agrees (Tie.run 400 Tie.qFromstreamTostream v) (some (.arr [v]))) = true := by
  decide +kernel

/-! ## (2) tostream events are real locations; replaying them rebuilds the value -/

/-- every two-element event `[p, leaf]` of `tostream` satisfies `getpath(p) == leaf` — with the
    native `funcGetpath`.  (Empty arrays and objects are leaves.) -/
theorem tostream_event_getpath (v : JV) (hv : nodup v) (hs : Indexable v) (p : List JV) (leaf : JV)
    (h : JV.arr [.arr p, leaf] ∈ streamSpec v) : getp v p = .ok leaf := by
  obtain ⟨q, hq, hl⟩ := spec_loc v [] p leaf h hv hs
  simp only [List.reverse_nil, List.nil_append] at hq
  subst hq
  exact (funcGetpath_ok (KIPath_of_Loc _ _ _ hl)).mpr (getKI_of_Loc _ _ _ hl)

/-- why distinct keys: `getpath` finds the first member with the key -/
theorem tostream_event_getpath_needs_distinct_keys :
    JV.arr [.arr [.str [97]], jvInt 2] ∈ streamSpec (.obj [([97], jvInt 1), ([97], jvInt 2)]) ∧
    getp (.obj [([97], jvInt 1), ([97], jvInt 2)]) [.str [97]] = .ok (jvInt 1) := by
  refine ⟨?_, rfl⟩
  simp [streamSpec, spec, specM, leafEv, pathJV, jvInt]

/-- **replaying the two-element events with `setpath` on `null` rebuilds the value**
    (`reduce (tostream | select(length == 2)) as [$p, $x] (null; setpath($p; $x)) == .`) — with the
    native `funcSetpath`: null is turned into the right container by the first event below it, arrays
    grow by one element at a time, empty containers arrive as leaves. -/
theorem tostream_replay_setpath (v : JV) (hv : v.wf = true) (hs : Rebuildable v) :
    replayEvents (streamSpec v) .null = .ok v := by
  rw [replayEvents_doc v (nodup_wf v hv) hs, canon_wf v hv]

/-- with distinct keys in any member order: the canonical form -/
theorem tostream_replay_setpath_any_order (v : JV) (hv : nodup v) (hs : Rebuildable v) :
    replayEvents (streamSpec v) .null = .ok (canon v) :=
  replayEvents_doc v hv hs

/-- why `Rebuildable`: `setpath([2^29]; x)` on an array of exactly 2^29 elements is an error
    (func.go `updateArrayIndex`: arrayIndexTooLargeError), so the last element of a longer array
    cannot be put back by a replay.  (Not reachable in practice: 8 GiB of array headers.) -/
theorem setpath_index_limit (xs : List JV) (h : xs.length = 536870912) (x : JV) :
    ∃ e, setp (.arr xs) [idxJV 536870912] x = .error e :=
  setpath_at_limit_fails xs h x

/-- C16's `Stream.setpath` (the fragment of `setpath` inside `fromstreamSpec`) is the native
    `funcSetpath` on every path whose indices are below that limit. -/
theorem fromstream_setpath_is_native (p : List JV) (x v w : JV) (h : Stream.setpath p x v = some w)
    (hs : SmallPath p) : setp v p x = .ok w := by
  obtain ⟨h1, h2⟩ := stream_setpath_setKI p x v w h hs
  exact (funcSetpath_ok h2).mpr h1

/-- the replay through the shipped definitions and `Spec.eval`'s own `setpath` is `replayEvents` -/
theorem replay_is_shipped :
    (Tie.tieValues.all fun v =>
      Tie.agrees (Tie.run 400 Tie.qReplay v) (Tie.ofNRes (replayEvents (streamSpec v) .null))) = true := by
  decide +kernel

/-- the event law through the shipped definitions: all `true`, one per two-element event -/
theorem events_getpath_shipped :
    (Tie.tieValues.all fun v => Tie.agrees (Tie.run 400 Tie.qEventsGetpath v)
      (some (.arr (((streamSpec v).filter isLeafEvent).map fun _ => .bool true)))) = true := by
  decide +kernel

/-! ## (3) setpath / getpath -/

/-- **`setpath(p; x) | getpath(p) == x`** whenever `setpath` succeeds — for the natives
    `funcSetpath` / `funcGetpath`, every value and every key/index path: keys that are missing,
    `null` turned into an object or array, arrays extended with nulls, negative indices, fractional
    indices (truncated) and indices beyond a Go `int` (saturated).  No hypothesis on the value.
    (C02Heap's `getpath_setpath` is the same law for the heap model's own `setpath` on `Heap.Path`;
    this one is about the transliteration of func.go that the evaluator calls.) -/
theorem getpath_setpath (v : JV) (p : List JV) (x w : JV) (hp : KIPath p) (h : setp v p x = .ok w) :
    getp w p = .ok x :=
  (funcGetpath_ok hp).mpr (getKI_setKI x p v w ((funcSetpath_ok hp).mp h))

/-- why key/index paths: through a slice the law is false —
    `[0,1,2] | setpath([{"start":1,"end":2}]; [9,9])` is `[0,9,9,2]`, and `.[1:2]` of that is `[9]`. -/
theorem getpath_setpath_slice_counterexample :
    Tie.okIs (setp (.arr [jvInt 0, jvInt 1, jvInt 2]) [.obj [(B "end", jvInt 2), (B "start", jvInt 1)]] (.arr [jvInt 9, jvInt 9]))
      (.arr [jvInt 0, jvInt 9, jvInt 9, jvInt 2]) = true ∧
    Tie.okIs (getp (.arr [jvInt 0, jvInt 9, jvInt 9, jvInt 2]) [.obj [(B "end", jvInt 2), (B "start", jvInt 1)]])
      (.arr [jvInt 9]) = true := by
  decide +kernel

/-- every path of `[path(..)]` (so every path of `[paths]`, and the root) is a real location:
    `getpath` succeeds on it -/
theorem path_getpath_defined (v : JV) (hv : nodup v) (hs : Indexable v) (p : List JV) (hp : p ∈ recPaths v) :
    ∃ x, getp v p = .ok x := by
  obtain ⟨q, x, hq, hl⟩ := recPathsFrom_loc v [] p hp hv hs
  simp only [List.reverse_nil, List.nil_append] at hq
  subst hq
  exact ⟨x, (funcGetpath_ok (KIPath_of_Loc _ _ _ hl)).mpr (getKI_of_Loc _ _ _ hl)⟩

/-- **`setpath(p; getpath(p)) == .` at every real location** (`Loc p v x`: every step of `p` finds an
    existing key, or an existing array element — by a non-negative, a negative (from the end) or a
    fractional index): `getpath(p)` is what the location holds, and writing it back gives the value
    itself.  Natives `funcGetpath` / `funcSetpath`; objects with strictly increasing keys.
    (C02Heap's `setpath_getpath` is this law for the heap model's `setpath` and `validPath`.) -/
theorem setpath_getpath_at_location (v : JV) (hv : v.wf = true) (p : List JV) (x : JV) (hl : Loc p v x) :
    getp v p = .ok x ∧ setp v p x = .ok v :=
  have hki := KIPath_of_Loc _ _ _ hl
  ⟨(funcGetpath_ok hki).mpr (getKI_of_Loc _ _ _ hl), (funcSetpath_ok hki).mpr (setKI_of_Loc _ _ _ hv hl)⟩

/-- why a real location: below a missing key `getpath` answers `null`, and writing that back
    creates the key — `{} | setpath(["a"]; getpath(["a"]))` is `{"a":null}`. -/
theorem setpath_getpath_missing_key_counterexample :
    getp (.obj []) [.str [97]] = .ok .null ∧ setp (.obj []) [.str [97]] .null = .ok (.obj [([97], .null)]) :=
  ⟨rfl, rfl⟩

/-- **`setpath(p; getpath(p)) == .` for every `p` in `paths`** (and for the root path): every path
    of `[path(..)]` is a real location. -/
theorem setpath_getpath_id (v : JV) (hv : v.wf = true) (hs : Indexable v) (p : List JV) (hp : p ∈ recPaths v) :
    ∃ x, getp v p = .ok x ∧ setp v p x = .ok v := by
  obtain ⟨q, x, hq, hl⟩ := recPathsFrom_loc v [] p hp (nodup_wf v hv) hs
  simp only [List.reverse_nil, List.nil_append] at hq
  subst hq
  exact ⟨x, setpath_getpath_at_location v hv _ x hl⟩

/-- the same, stated for `paths` -/
theorem setpath_getpath_id_paths (v : JV) (hv : v.wf = true) (hs : Indexable v) (p : List JV) (hp : p ∈ allPaths v) :
    ∃ x, getp v p = .ok x ∧ setp v p x = .ok v :=
  setpath_getpath_id v hv hs p (by rw [recPaths_eq]; exact List.mem_cons_of_mem _ hp)

/-- the law through the shipped `paths` and `Spec.eval`'s `setpath`/`getpath`: all `true` -/
theorem setpath_getpath_id_shipped :
    (Tie.tieValues.all fun v => Tie.agrees (Tie.run 400 Tie.qPathsSetGet v)
      (some (.arr ((allPaths v).map fun _ => .bool true)))) = true := by
  decide +kernel

/-! ## (4) to_entries / from_entries / with_entries -/

/-- what `to_entries` yields on an object with distinct keys: one `{"key":k,"value":v}` per member,
    in member order -/
theorem to_entries_spec (kvs : List (Bytes × JV)) (h : DistinctKeys kvs) :
    toEntries (.obj kvs) = some (.arr (kvs.map fun kv => entry (.str kv.1) kv.2)) :=
  toEntries_obj kvs h

/-- what `from_entries` makes of such a list: the members assigned one after the other -/
theorem from_entries_spec (kvs : List (Bytes × JV)) :
    fromEntries (.arr (kvs.map fun kv => entry (.str kv.1) kv.2)) = some (JV.mkObj kvs) :=
  fromEntries_entries kvs

/-- **`to_entries | from_entries == .`** on every object (keys strictly increasing: `kvSorted`) —
    any keys: empty, `"key"`, `"value"`, `"name"`, non-UTF-8; any member values. -/
theorem to_entries_from_entries (kvs : List (Bytes × JV)) (h : kvSorted kvs = true) :
    (toEntries (.obj kvs)).bind fromEntries = some (.obj kvs) := by
  rw [toEntries_obj kvs (distinct_of_sorted kvs h)]
  simp [fromEntries_entries, addPairs_sorted kvs h]

/-- with distinct keys in any member order: the object in canonical member order -/
theorem to_entries_from_entries_any_order (kvs : List (Bytes × JV)) (h : DistinctKeys kvs) :
    (toEntries (.obj kvs)).bind fromEntries = some (JV.mkObj kvs) := by
  rw [toEntries_obj kvs h]
  simp [fromEntries_entries, addPairs_eq_mkObj]

/-- **`with_entries(.) == .`** on every object -/
theorem with_entries_id (kvs : List (Bytes × JV)) (h : kvSorted kvs = true) :
    withEntries some (.obj kvs) = some (.obj kvs) := by
  simp only [withEntries, toEntries_obj kvs (distinct_of_sorted kvs h), mapOpt_some, Option.bind_some]
  rw [fromEntries_entries, addPairs_sorted kvs h]

/-- the other composition: `from_entries | to_entries` gives back a list of `{"key","value"}`
    entries whose keys are strings in strictly increasing order -/
theorem from_entries_to_entries (kvs : List (Bytes × JV)) (h : kvSorted kvs = true) :
    (fromEntries (.arr (kvs.map fun kv => entry (.str kv.1) kv.2))).bind toEntries =
      some (.arr (kvs.map fun kv => entry (.str kv.1) kv.2)) := by
  rw [fromEntries_entries, addPairs_sorted kvs h]
  exact toEntries_obj kvs (distinct_of_sorted kvs h)

/-- why distinct keys: with a repeated key `.[$k]` finds the first member both times -/
theorem to_entries_from_entries_needs_distinct_keys :
    ((toEntries (.obj [([97], jvInt 1), ([97], jvInt 2)])).bind fromEntries == some (.obj [([97], jvInt 1)])) = true := by
  decide +kernel

/-- why objects: `to_entries` also accepts arrays (keys are the indices), and then the round trip
    is not the identity — `[] | to_entries | from_entries` is `{}`, on `[1]` it is an error (a
    number is not an object key). -/
theorem to_entries_from_entries_array_counterexample :
    ((toEntries (.arr [])).bind fromEntries == some (.obj [])) = true ∧
    (toEntries (.arr [jvInt 1]) == some (.arr [entry (jvInt 0) (jvInt 1)])) = true ∧
    ((toEntries (.arr [jvInt 1])).bind fromEntries).isNone = true := by
  decide +kernel

/-! ### the tie of (4) to the shipped definitions is a THEOREM for every input

  `Spec.eval` run on the regenerated ASTs of builtin.jq (`Generated/BuiltinDefs.lean`), by symbolic
  evaluation for an arbitrary input value, any sufficient fuel and any calling environment that
  does not shadow the builtin.  `Tie.Agrees r o`: `r` emits exactly the value `o` and ends normally —
  or, for `o = none`, emits nothing and ends with a jq error. -/

/-- the definitions evaluated below ARE the shipped ones: the regenerated `FuncDef`s of
    `to_entries`, `from_entries`, `with_entries`, `map` are the bodies named in Proofs/PairsEval.lean
    (an edit of builtin.jq breaks this `rfl`) -/
theorem entries_definitions_are_shipped :
    Generated.Builtins.go_to_uentries_a00 = .mk "to_entries" [] toEntriesBody ∧
    Generated.Builtins.go_from_uentries_a00 = .mk "from_entries" [] fromEntriesBody ∧
    Generated.Builtins.go_with_uentries_a01 = .mk "with_entries" ["f"] withEntriesBody ∧
    Generated.Builtins.go_map_a01 = .mk "map" ["f"] mapBody :=
  ⟨rfl, rfl, rfl, rfl⟩

/-- **`toEntries` IS the shipped `to_entries`, on EVERY value** (objects, arrays — and the error on
    everything else) -/
theorem to_entries_is_shipped (fuel : Nat) (hf : 40 ≤ fuel) (env : Spec.Env) (v : JV) (id : Spec.Ident)
    (h : Spec.lookupCall "to_entries" 0 env.bs = .none) :
    Tie.Agrees (Spec.eval fuel Tie.cfgGo env Tie.qToEntries { v := v, id := id }) (toEntries v) :=
  eval_to_entries fuel hf env v id h

/-- **`fromEntries` IS the shipped `from_entries`, on EVERY value**: every key spelling (`key`, `Key`,
    `name`, `Name`), `false`/`null` keys falling through to the next spelling, `value` / `Value` /
    neither, and every error (a key that is no string, an entry that is no object, an input that
    cannot be iterated) -/
theorem from_entries_is_shipped (fuel : Nat) (hf : 45 ≤ fuel) (env : Spec.Env) (v : JV) (id : Spec.Ident)
    (h : Spec.lookupCall "from_entries" 0 env.bs = .none) :
    Tie.Agrees (Spec.eval fuel Tie.cfgGo env Tie.qFromEntries { v := v, id := id }) (fromEntries v) :=
  eval_from_entries fuel hf env v id h

/-- **`withEntries some` IS the shipped `with_entries(.)`, on EVERY value** -/
theorem with_entries_is_shipped (fuel : Nat) (hf : 60 ≤ fuel) (env : Spec.Env) (v : JV) (id : Spec.Ident)
    (h : Spec.lookupCall "with_entries" 1 env.bs = .none) :
    Tie.Agrees (Spec.eval fuel Tie.cfgGo env Tie.qWithEntriesId { v := v, id := id }) (withEntries some v) :=
  eval_with_entries_id fuel hf env v id h

/-- the composition `to_entries | from_entries` through the shipped definitions, on EVERY value -/
theorem to_entries_from_entries_is_shipped (fuel : Nat) (hf : 46 ≤ fuel) (env : Spec.Env) (v : JV) (id : Spec.Ident)
    (h1 : Spec.lookupCall "to_entries" 0 env.bs = .none) (h2 : Spec.lookupCall "from_entries" 0 env.bs = .none) :
    Tie.Agrees (Spec.eval fuel Tie.cfgGo env Tie.qToFrom { v := v, id := id }) ((toEntries v).bind fromEntries) :=
  eval_to_from fuel hf env v id h1 h2

/-- **the law on the shipped definitions**: the program `to_entries | from_entries`, run by
    `Spec.eval` with the builtins as shipped, emits exactly its input and ends normally — for every
    object (keys strictly increasing), with any fuel from 46 on. -/
theorem to_entries_from_entries_eval (fuel : Nat) (hf : 46 ≤ fuel) (kvs : List (Bytes × JV)) (h : kvSorted kvs = true)
    (id : Spec.Ident) :
    (Spec.eval fuel Tie.cfgGo .empty Tie.qToFrom { v := .obj kvs, id := id }).outs.map (·.v) = [.obj kvs] ∧
    (Spec.eval fuel Tie.cfgGo .empty Tie.qToFrom { v := .obj kvs, id := id }).stop = .done := by
  have := eval_to_from fuel hf .empty (.obj kvs) id rfl rfl
  rw [to_entries_from_entries kvs h] at this
  exact this

/-- **`with_entries(.)` on the shipped definitions** emits exactly its input, for every object -/
theorem with_entries_id_eval (fuel : Nat) (hf : 60 ≤ fuel) (kvs : List (Bytes × JV)) (h : kvSorted kvs = true)
    (id : Spec.Ident) :
    (Spec.eval fuel Tie.cfgGo .empty Tie.qWithEntriesId { v := .obj kvs, id := id }).outs.map (·.v) = [.obj kvs] ∧
    (Spec.eval fuel Tie.cfgGo .empty Tie.qWithEntriesId { v := .obj kvs, id := id }).stop = .done := by
  have := eval_with_entries_id fuel hf .empty (.obj kvs) id rfl
  rw [with_entries_id kvs h] at this
  exact this

/-- the same agreement evaluated by the kernel on the tie inputs (a second, independent check of
    the symbolic evaluation: the entry lists of `Tie.tieEntryLists` exercise every branch) -/
theorem entries_shipped_examples :
    ((Tie.tieValues ++ Tie.tieEntryLists).all fun v =>
      Tie.agrees (Tie.run 200 Tie.qToEntries v) (toEntries v) &&
      Tie.agrees (Tie.run 200 Tie.qFromEntries v) (fromEntries v) &&
      Tie.agrees (Tie.run 300 Tie.qWithEntriesId v) (withEntries some v) &&
      Tie.agrees (Tie.run 300 Tie.qToFrom v) ((toEntries v).bind fromEntries)) = true := by
  decide +kernel

/-! ## (5) [paths] == [path(..)] - [[]] -/

/-- `[path(..)]` is the root path followed by `[paths]` -/
theorem path_recurse_root (v : JV) : recPaths v = [] :: allPaths v := recPaths_eq v

/-- no path of `[paths]` is the empty path (so the filter `select(. != [])` of the shipped
    definition removes the root and nothing else) -/
theorem paths_nonempty (v : JV) (p : List JV) (hp : p ∈ allPaths v) : p ≠ [] := allPaths_ne_nil v p hp

/-- **`[paths] == [path(..)] - [[]]`** for every value — `-` is the native array subtraction
    (`Compare`-based), `allPaths` is written without the filter. -/
theorem paths_eq_path_recurse (v : JV) : pathsJV (allPaths v) = recPathsMinusRoot v := by
  simp only [pathsJV, recPathsMinusRoot, recPaths_eq, arraySub_root_cons (allPaths v) (allPaths_ne_nil v)]

/-- `allPaths` IS the shipped `[paths]` -/
theorem paths_is_shipped :
    (Tie.tieValues.all fun v => Tie.agrees (Tie.run 300 Tie.qPaths v) (some (pathsJV (allPaths v)))) = true := by
  decide +kernel

/-- `recPaths` IS `[path(..)]`, and `recPathsMinusRoot` IS `[path(..)] - [[]]` -/
theorem path_recurse_is_shipped :
    (Tie.tieValues.all fun v =>
      Tie.agrees (Tie.run 300 Tie.qPathRecurse v) (some (pathsJV (recPaths v))) &&
      Tie.agrees (Tie.run 300 Tie.qPathRecurseMinusRoot v) (some (recPathsMinusRoot v))) = true := by
  decide +kernel

/-! ## non-vacuity: instances of the hypotheses -/

example : Tie.exDoc.wf = true := by decide
example : nodup Tie.exDoc := by simp [Tie.exDoc, nodup, nodupM, nodupL]
example : nodup (.obj [([98], .null), ([97], .null)]) := by simp [nodup, nodupM]
example : Rebuildable Tie.exDoc := by simp [Tie.exDoc, ArrLe, ArrLeM, ArrLeL, setpathLimit]
example : Indexable Tie.exDoc := Rebuildable.indexable (by simp [Tie.exDoc, ArrLe, ArrLeM, ArrLeL, setpathLimit])
example : fromstreamSpec (streamSpec Tie.exDoc) = .ok [Tie.exDoc] := fromstream_tostream Tie.exDoc (by decide)
/-- top-level scalars and empty containers, and several documents in a row -/
example : fromstreamSpec (streamSpecDocs [.null, .arr [], Tie.exDoc, .str [], .obj [], .bool false]) =
    .ok [.null, .arr [], Tie.exDoc, .str [], .obj [], .bool false] :=
  fromstream_tostream_docs _ (by decide)
example : JV.arr [.arr [.str [98], .str [], idxJV 0], .arr []] ∈ streamSpec Tie.exDoc := by
  simp [Tie.exDoc, streamSpec, spec, specM, specL, leafEv, closeEv, pathJV, idxJV]
example : getp Tie.exDoc [.str [98], .str [], idxJV 0] = .ok (.arr []) :=
  tostream_event_getpath Tie.exDoc (by simp [Tie.exDoc, nodup, nodupM, nodupL])
    (Rebuildable.indexable (by simp [Tie.exDoc, ArrLe, ArrLeM, ArrLeL, setpathLimit])) _ _
    (by simp [Tie.exDoc, streamSpec, spec, specM, specL, leafEv, closeEv, pathJV, idxJV])
example : replayEvents (streamSpec Tie.exDoc) .null = .ok Tie.exDoc :=
  tostream_replay_setpath Tie.exDoc (by decide) (by simp [Tie.exDoc, ArrLe, ArrLeM, ArrLeL, setpathLimit])
example : KIPath [.str [97], jvInt (-1), .num (.flt (3/2))] := by
  intro e he
  simp only [List.mem_cons, List.not_mem_nil, or_false] at he
  rcases he with rfl | rfl | rfl
  · exact Or.inl ⟨_, rfl⟩
  · exact Or.inr ⟨_, rfl⟩
  · exact Or.inr ⟨_, rfl⟩
/-- `setpath` below null, with a negative index into an existing array, extending an array -/
example : setp .null [.str [97], jvInt 2] (.bool true) = .ok (.obj [([97], .arr [.null, .null, .bool true])]) := by
  rfl
example : setp (.arr [jvInt 1, jvInt 2]) [jvInt (-1)] (.bool true) = .ok (.arr [jvInt 1, .bool true]) := by rfl
/-- a negative index is a real location: `[1,2] | getpath([-1])` -/
example : Loc [jvInt (-1)] (.arr [jvInt 1, jvInt 2]) (jvInt 2) := by
  rw [jvInt, Loc_num]
  refine ⟨by decide, by decide, jvInt 2, rfl, rfl⟩
example : SmallPath [.str [97], idxJV 3] := by
  intro i hi
  simp only [idxJV, List.mem_cons, List.not_mem_nil, or_false] at hi
  rcases hi with hi | hi
  · cases hi
  · simp only [JV.num.injEq, Num.int.injEq] at hi; omega
example : [.str [98], .str []] ∈ allPaths Tie.exDoc := by
  simp [Tie.exDoc, allPaths, recPathsM, recPathsFrom, recPathsL, idxJV]
example : DistinctKeys [([98], JV.null), ([97], JV.null)] := by simp [DistinctKeys]
example : kvSorted [([], JV.null), ([97], JV.null), ([97, 0], JV.null)] = true := by decide

end Gojq.C13

/-
  C10 — integer arithmetic is exact and number literals are not degraded.
  Property theorems only; helper lemmas are in Gojq/Proofs/Arith.lean.
  The model `Gojq/Model/Arith.lean` transliterates operator.go's callbacks; the int fast
  paths are stated over `wrap64`, i.e. over what the wrapping Go expression computes.
-/
import Gojq.Proofs.Arith
import Gojq.Model.Compare
namespace Gojq.C10
open Gojq

/-- `+` on integers of any magnitude is the exact sum (fast path and *big.Int path). -/
theorem add_exact (l r : Int) : opAddNum (.int l) (.int r) = .int (l + r) := by
  simp only [opAddNum]
  split
  · rename_i h; rw [addInt_exact h.1 h.2]
  · rfl

/-- `-` on integers of any magnitude is the exact difference. -/
theorem sub_exact (l r : Int) : opSubNum (.int l) (.int r) = .int (l - r) := by
  simp only [opSubNum]
  split
  · rename_i h; rw [subInt_exact h.1 h.2]
  · rfl

/-- `*` on integers of any magnitude is the exact product: the test `r == 0 || v/r == l`
    on the wrapped product accepts exactly the products that did not overflow. -/
theorem mul_exact (l r : Int) : opMulNum (.int l) (.int r) = .int (l * r) := by
  simp only [opMulNum]
  split
  · rename_i h; rw [mulInt_exact h.1 h.2]
  · rfl

/-- unary minus is exact (MinInt64 promotes instead of wrapping). -/
theorem neg_exact (z : Int) : opNegNum (.int z) = .int (-z) := by
  simp only [opNegNum]
  split
  · rename_i h; rw [negateInt_exact h]
  · rfl

/-- `abs` / numeric `length` is the exact absolute value. -/
theorem abs_exact (z : Int) : absNum (.int z) = .int z.natAbs := by
  simp only [absNum]
  split
  · rename_i h
    split
    · congr 1; omega
    · rw [negateInt_exact h]; congr 1; omega
  · rfl

/-- division is exact whenever the quotient is integral -/
theorem div_exact_when_divisible (l r : Int) (hr : r ≠ 0) (hd : r ∣ l) :
    opDivNum (.int l) (.int r) = .ok (.int (l / r)) := by
  simp only [opDivNum]
  have hmod : Int.emod l r = 0 := Int.emod_eq_zero_of_dvd hd
  have htmod : Int.tmod l r = 0 := Int.tmod_eq_zero_of_dvd hd
  have htdiv : Int.tdiv l r = l / r := Int.tdiv_eq_ediv_of_dvd hd
  split
  · rename_i h
    split
    · rename_i h1; subst h1; rw [negateInt_exact h.1]; simp
    · rename_i h1
      unfold goMod; rw [if_pos htmod]
      unfold goDiv; rw [wrap64_of_inRange (tdiv_inRange h.1 h1), htdiv]
  · first | rfl | (simp only [hmod, if_true]; rfl)

/-- modulo takes the sign of the dividend: it is Go/C truncated remainder for all integers -/
theorem mod_sign_of_dividend (l r : Int) (hr : r ≠ 0) :
    opModNum (.int l) (.int r) = .ok (.int (Int.tmod l r)) := by
  simp only [opModNum]
  split
  · split
    · rename_i h1; subst h1; simp
    · rfl
  · rfl

/-- the truncated remainder has the sign of the dividend and magnitude below the divisor -/
theorem tmod_sign (l r : Int) (hr : r ≠ 0) :
    (0 ≤ l → 0 ≤ Int.tmod l r) ∧ (l ≤ 0 → Int.tmod l r ≤ 0) ∧ (Int.tmod l r).natAbs < r.natAbs := by
  refine ⟨fun h => Int.tmod_nonneg r h, fun h => ?_, ?_⟩
  · have := Int.natAbs_tmod l r
    rcases Int.le_total 0 (Int.tmod l r) with h1 | h1
    · have h2 : Int.tmod (-l) r = -(Int.tmod l r) := Int.neg_tmod l r
      have h3 : 0 ≤ Int.tmod (-l) r := Int.tmod_nonneg r (by omega)
      omega
    · exact h1
  · rw [Int.natAbs_tmod]; exact Nat.mod_lt _ (by omega)

/-- division and modulo by (integer) zero are errors, never a value -/
theorem div_mod_zero_error (l : Int) :
    opDivNum (.int l) (.int 0) = .error .zeroDivision ∧ opModNum (.int l) (.int 0) = .error .zeroModulo := by
  simp only [opDivNum, opModNum]
  constructor <;> (split <;> simp)

/-- the fast paths never leave the int64 range silently: whenever the result is produced by the
    wrapping expression it is in range, otherwise it is the promoted exact value. -/
theorem fast_paths_in_range_or_promoted (l r : Int) (hl : InRange l) (hr : InRange r) :
    addInt l r = l + r ∧ subInt l r = l - r ∧ mulInt l r = l * r ∧ negateInt l = -l :=
  ⟨addInt_exact hl hr, subInt_exact hl hr, mulInt_exact hl hr, negateInt_exact hl⟩

/-- comparisons between integers of any magnitude are exact: `Compare` on two integers is the
    order of the integers (never a comparison of rounded floats, never a wrapped difference). -/
theorem cmp_int_exact (l r : Int) :
    (cmpNum (.int l) (.int r) = .lt ↔ l < r) ∧ (cmpNum (.int l) (.int r) = .eq ↔ l = r) ∧
    (cmpNum (.int l) (.int r) = .gt ↔ r < l) := by
  simp only [cmpNum, cmpInt]
  by_cases h1 : l < r
  · simp [h1]; omega
  · by_cases h2 : l = r
    · simp [h2]
    · simp [h1, h2]; omega

/-- `==` on integers is equality of the integers -/
theorem eq_int_exact (l r : Int) : opEq (.num (.int l)) (.num (.int r)) = decide (l = r) := by
  simp only [opEq, cmp, cmpNum, cmpInt]
  by_cases h1 : l < r
  · have : l ≠ r := by omega
    simp [h1, this]
  · by_cases h2 : l = r
    · simp [h2]
    · simp [h1, h2]

/-! Non-vacuity: concrete operands at the boundaries the property names. -/
example : opAddNum (.int maxInt) (.int 1) = .int 9223372036854775808 := by decide
example : opMulNum (.int 3037000500) (.int 3037000500) = .int 9223372037000250000 := by decide
example : opMulNum (.int minInt) (.int (-1)) = .int 9223372036854775808 := by decide
example : opSubNum (.int minInt) (.int 1) = .int (-9223372036854775809) := by decide
example : opModNum (.int (-7)) (.int 2) = .ok (.int (-1)) := by rfl
example : opDivNum (.int minInt) (.int (-1)) = .ok (.int 9223372036854775808) := by rfl

example : cmpNum (.int 9007199254740993) (.int 9007199254740992) = .gt := by decide
example : cmpNum (.int minInt) (.int (-9223372036854775808)) = .eq := by decide

end Gojq.C10

/-
  C03 — every builtin computes its documented function on all argument types.
  Property theorems only; helper lemmas are in Gojq/Proofs/Native.lean.

  The model `Gojq/Model/Native.lean` (+ Model/Native/*.lean) transliterates func.go / operator.go
  native by native, including which error is raised and its text; `callNative` is the table
  `internalFuncs`.  Numbers have ONE representation in the model (`Num.int` for int, *big.Int and
  integer-literal json.Number; the float64 otherwise), so statements about "all argument types"
  quantify over the six JSON types and, inside numbers, over integers of any size and all float64
  values including NaN, ±Inf and −0.

  Sections: 1 builtin.go = builtin.jq · 2 the native table is covered · 3 operator dispatch
  tables · 4 declarative descriptions of the natives · 5 no index leaves its bounds
  (native_total) · 6 ill-typed calls raise the documented error · 7 carrier independence ·
  8 gmtime.
-/
import Gojq.Proofs.Native
import Gojq.Generated.BuiltinDefs
import Gojq.Generated.NativeTable
namespace Gojq.C03
open Gojq Gojq.Native

/-! ## 1. the shipped precompiled definitions are the published source -/

/-- The definitions compiled into the binary (`builtinFuncDefs` of builtin.go, dumped from the built
    package) are, definition by definition, the AST the real parser produces from builtin.jq of
    the working tree (without `_assign`/`_modify`/`_last`, which are hand-assembled bytecode and
    shipped as empty entries). Both sides are regenerated on every run. -/
theorem builtin_go_eq_builtin_jq : Generated.Builtins.builtinGo = Generated.Builtins.builtinJq := rfl

/-! ## 2. every entry of `internalFuncs` is modelled or explicitly listed as not modelled -/

/-- natives `callNative` answers `none` for on EVERY input, with the reason:
    `empty path env builtins input modulemeta debug _match` — `argFuncN(nil)`: the compiler emits
    its own code for these names, the table entry only reserves name and arity (`_match` is called
    with the regexp cache, C14); `env builtins input modulemeta debug` are ambient (C19);
    `now` reads the clock. -/
def unmodelledNatives : List String :=
  ["empty", "path", "env", "builtins", "input", "modulemeta", "debug", "_match", "now"]

/-- natives of which only the TYPE DISPATCH is modelled (a wrongly typed argument raises the
    modelled error; on well-typed arguments `callNative` answers `none`): the transcendental math
    functions (their float64 value is a parameter of the model — `math.Sin` etc. are not
    specified bit by bit), `localtime`/`strflocaltime` (read `time.Local`), `strftime`/`strptime`
    (timefmt-go's formatting). -/
def valueUnmodelled : List String :=
  ["sin", "cos", "tan", "asin", "acos", "atan", "sinh", "cosh", "tanh", "asinh", "acosh", "atanh",
   "sqrt", "cbrt", "exp", "exp10", "exp2", "expm1", "log", "log10", "log1p", "log2", "gamma", "tgamma",
   "lgamma", "erf", "erfc", "j0", "j1", "y0", "y1", "atan2", "hypot", "jn", "yn", "pow",
   "localtime", "strflocaltime", "strftime", "strptime"]

/-- does the model dispatch this name at this arity (it answers for the all-null call)? -/
def probe (p : String × Nat) : Bool :=
  (callNative p.1 .null (List.replicate p.2 .null)).isSome

theorem native_table_covered_aux :
    (Generated.NativeTable.arities.all fun p => probe p || unmodelledNatives.contains p.1) = true := by
  decide +kernel

/-- Every (name, arity) the regenerated table of func.go accepts is dispatched by `callNative`, or
    the name is in `unmodelledNatives`. A native added to func.go, or one whose arity mask changed,
    breaks this theorem until the model follows. -/
theorem native_table_covered :
    ∀ p ∈ Generated.NativeTable.arities, probe p = true ∨ p.1 ∈ unmodelledNatives := by
  intro p hp
  have := List.all_eq_true.mp native_table_covered_aux p hp
  simpa [Bool.or_eq_true] using this

/-- The two lists of exceptions name natives that exist (no stale entry), and the model answers
    nothing for an unmodelled native. -/
theorem unmodelled_lists_current :
    (unmodelledNatives.all fun n => (Generated.NativeTable.table.any fun e => e.name == n) &&
        (Generated.NativeTable.arities.all fun p => p.1 != n || !probe p)) = true ∧
    (valueUnmodelled.all fun n => Generated.NativeTable.table.any fun e => e.name == n) = true := by
  constructor <;> decide +kernel

/-- On a NUMBER the value-unmodelled one-argument math functions really are left open (`none`),
    never given a made-up value. -/
theorem transcendental_values_open :
    (["sin", "cos", "tan", "asin", "acos", "atan", "sinh", "cosh", "tanh", "asinh", "acosh", "atanh",
      "sqrt", "cbrt", "exp", "exp10", "exp2", "expm1", "log", "log10", "log1p", "log2", "gamma", "tgamma",
      "lgamma", "erf", "erfc", "j0", "j1", "y0", "y1"].all fun n =>
        (callNative n (.num (.int 1)) []).isNone) = true := by
  decide +kernel

/-! ## 3. operator dispatch: all cells of `binopTypeSwitch` for `+ - * / %` -/

/-- `+`: null is the identity on either side; number+number, string+string, array+array,
    object+object give a value of that type; every other cell is the binopTypeError "add". -/
theorem add_dispatch (l r : JV) : (addTable (tag l) (tag r)).holds "add" l r (opAdd l r) :=
  Native.add_dispatch l r

/-- `-`: numbers and arrays only. -/
theorem sub_dispatch (l r : JV) : (subTable (tag l) (tag r)).holds "subtract" l r (opSub l r) :=
  Native.sub_dispatch l r

/-- `*`: numbers, objects (recursive merge), string×number and number×string (repetition: a
    string, null, or repeatStringTooLargeError); everything else is a type error. -/
theorem mul_dispatch (l r : JV) : (mulTable (tag l) (tag r)).holds "multiply" l r (opMul l r) :=
  Native.mul_dispatch l r

/-- `/`: numbers (a number or zeroDivisionError) and strings (an array: split). -/
theorem div_dispatch (l r : JV) : (divTable (tag l) (tag r)).holds "divide" l r (opDiv l r) :=
  Native.div_dispatch l r

/-- `%`: numbers only (a number or zeroModuloError). -/
theorem mod_dispatch (l r : JV) : (modTable (tag l) (tag r)).holds "modulo" l r (opMod l r) :=
  Native.mod_dispatch l r

/-- null is a left identity of `+` for every value. -/
theorem add_null_left (r : JV) : opAdd .null r = .ok r := opAdd_null_left r
/-- null is a right identity of `+` for every value. -/
theorem add_null_right (l : JV) : opAdd l .null = .ok l := opAdd_null_right l

/-- number + number is `Arith`'s sum (exact on integers: C10 `add_exact`). -/
theorem add_numbers (a b : Num) : opAdd (.num a) (.num b) = .ok (.num (opAddNum a b)) := rfl
/-- string + string is concatenation. -/
theorem add_strings (a b : Bytes) : opAdd (.str a) (.str b) = .ok (.str (a ++ b)) := rfl
/-- array + array is concatenation. -/
theorem add_arrays (a b : List JV) : opAdd (.arr a) (.arr b) = .ok (.arr (a ++ b)) := rfl

/-- object + object: every key of the right operand wins, the other keys keep the left value
    (the right operand has distinct keys, as every object has). -/
theorem add_objects (l r : List (Bytes × JV)) (hr : (r.map (·.1)).Nodup) :
    ∃ m, opAdd (.obj l) (.obj r) = .ok (.obj m) ∧ ∀ k, kvLookup k m = (kvLookup k r <|> kvLookup k l) :=
  ⟨objMerge l r, rfl, fun k => kvLookup_objMerge k r l hr⟩

/-- outside the table `+` is the binopTypeError naming both operands: the types differ and neither
    is null, or both are booleans. -/
theorem add_type_error (l r : JV) (h : addTable (tag l) (tag r) = .typeError) :
    opAdd l r = .error (errBinop "add" l r) := by
  have := Native.add_dispatch l r
  rw [h] at this
  exact this

/-- array − array keeps, in order, the elements of the left operand equal (in jq's order) to no
    element of the right one. -/
theorem sub_arrays (l r : List JV) :
    ∃ d, opSub (.arr l) (.arr r) = .ok (.arr d) ∧ d.Sublist l ∧ ∀ x, x ∈ d ↔ x ∈ l ∧ ∀ y ∈ r, cmp x y ≠ .eq :=
  ⟨arraySub l r, rfl, arraySub_sublist l r, fun _ => mem_arraySub⟩

/-- object * object is deepMergeObjects: for a key of the right operand, two objects are merged
    recursively and anything else is replaced; other keys keep the left value. -/
theorem mul_objects (l r : List (Bytes × JV)) (hr : (r.map (·.1)).Nodup) :
    ∃ m, opMul (.obj l) (.obj r) = .ok (.obj m) ∧ ∀ k, kvLookup k m = match kvLookup k r with
      | none => kvLookup k l
      | some rv => some (mergeVal (kvLookup k l) rv) :=
  ⟨deepMerge l r, rfl, fun k => kvLookup_deepMerge k r l hr⟩

/-- the value stored by the recursive merge. -/
theorem merge_value_cases (lk rv : List (Bytes × JV)) (lv : Option JV) (v : JV) :
    mergeVal (some (.obj lk)) (.obj rv) = .obj (deepMerge lk rv) ∧
    ((∀ o, v ≠ .obj o) → mergeVal lv v = v) ∧
    ((∀ o, lv ≠ some (.obj o)) → mergeVal lv (.obj rv) = .obj rv) :=
  ⟨mergeVal_objects lk rv, mergeVal_right_not_object lv v, mergeVal_left_not_object lv rv⟩

/-- string * number and number * string are the same repetition. -/
theorem mul_string_commutes (s : Bytes) (n : Num) : opMul (.str s) (.num n) = opMul (.num n) (.str s) := rfl

/-- a negative or NaN count gives null (`lt(n, 0)`), for every string. -/
theorem mul_string_negative (s : Bytes) (n : Num) (h : (fltLt n.toFlt (.flt 0) || n.toFlt.isNaN) = true) :
    opMul (.str s) (.num n) = .ok .null := by
  simp [opMul, repeatString, h, pure, Except.pure]

/-- otherwise the result, if it is a string, is the operand repeated `min(n, MaxInt32)` times
    (truncated), and it is only produced when that stays below MaxInt32 bytes (`repeatString`'s
    guard: no allocation beyond 2 GiB, no integer overflow in `strings.Repeat`). -/
theorem mul_string_repeat (s : Bytes) (n : Num) (t : Bytes) (h : opMul (.str s) (.num n) = .ok (.str t)) :
    (s.length : Int) * repeatCount n.toFlt < maxInt32 ∧ t.length = s.length * (repeatCount n.toFlt).toNat :=
  repeatString_guard s n.toFlt t h

/-- string / string splits (`strings.Split`), except that the empty string splits into `[]`. -/
theorem div_strings (a b : Bytes) :
    opDiv (.str a) (.str b) = .ok (.arr (if a = [] then [] else (Codec.splitOn b a).map .str)) := by
  cases a <;> simp [opDiv, pure, Except.pure]

/-- number / number and number % number are `Arith`'s (C10), a zero divisor being the
    zeroDivisionError / zeroModuloError naming both operands as the callback received them. -/
theorem div_mod_numbers (a b : Num) :
    opDiv (.num a) (.num b) = (match opDivNum a b with
      | .ok n => .ok (.num n)
      | .error _ => .error (.builtin "zeroDivision" [(numOperands a b).1, (numOperands a b).2])) ∧
    opMod (.num a) (.num b) = (match opModNum a b with
      | .ok n => .ok (.num n)
      | .error _ => .error (.builtin "zeroModulo" [(numOperands a b).1, (numOperands a b).2])) :=
  ⟨rfl, rfl⟩

/-! ## 4. declarative descriptions of the natives -/

/-- `length`: 0 for null, the absolute value of a number, the number of code points of a string
    (one per invalid byte: it is `explode | length`), the sizes of arrays and objects; booleans are
    a func0TypeError. -/
theorem length_spec (v : JV) : callNative "length" v [] = some (match v with
    | .null => .ok (jvInt 0)
    | .num n => .ok (.num (absNum n))
    | .str s => .ok (jvInt (Codec.explode s).length)
    | .arr xs => .ok (jvInt xs.length)
    | .obj kvs => .ok (jvInt kvs.length)
    | .bool b => .error (errFunc0 "length" (.bool b))) := by
  cases v <;> rfl

/-- `length` of an integer of any size is its exact absolute value. -/
theorem length_int (z : Int) : callNative "length" (jvInt z) [] = some (.ok (jvInt z.natAbs)) := by
  have h : absNum (.int z) = .int z.natAbs := by
    simp only [absNum]
    split
    · rename_i h
      split
      · congr 1; omega
      · rw [negateInt_exact h]; congr 1; omega
    · rfl
  show some (Except.ok (JV.num (absNum (.int z)))) = _
  rw [h]; rfl

/-- `keys`: `0 … n-1` for an array, the keys in strictly increasing (bytewise) order for an object;
    anything else is a func0TypeError. -/
theorem keys_spec (v : JV) : callNative "keys" v [] = some (match v with
    | .arr xs => .ok (.arr ((List.range xs.length).map fun i => jvInt (i : Nat)))
    | .obj kvs => .ok (.arr (kvs.map fun kv => .str kv.1))
    | v => .error (errFunc0 "keys" v)) := by
  cases v <;> rfl

/-- the keys of a well-formed object come out strictly increasing in jq's order. -/
theorem keys_object_sorted (kvs : List (Bytes × JV)) (h : kvSorted kvs = true) :
    (kvs.map fun kv => JV.str kv.1).Pairwise (fun a b => cmp a b = .lt) :=
  kvSorted_keys_pairwise kvs h

/-- `has`: an index is tested after `toInt` (truncation, saturation) against `0 ≤ i < length`;
    a key against the object's keys; null has nothing; every other combination is the
    func1TypeError. -/
theorem has_spec (v x : JV) : callNative "has" v [x] = some (match v, x with
    | .arr vs, x => (match toInt? x with
      | some i => .ok (.bool (decide (0 ≤ i ∧ i < vs.length)))
      | none => .error (errFunc1 "has" v x))
    | .obj kvs, .str k => .ok (.bool (kvs.any fun kv => kv.1 == k))
    | .null, _ => .ok (.bool false)
    | v, x => .error (errFunc1 "has" v x)) := by
  show some (funcHas v x) = _
  congr 1
  cases v with
  | arr vs =>
    simp only [funcHas]
    cases h : toInt? x <;> simp [pure, Except.pure, throw, throwThe, MonadExceptOf.throw]
  | obj kvs => cases x <;> simp [funcHas, pure, Except.pure, throw, throwThe, MonadExceptOf.throw, kvLookup_isSome]
  | null => cases x <;> rfl
  | bool b => cases x <;> rfl
  | num n => cases x <;> rfl
  | str s => cases x <;> rfl

/-- `add` is the left fold of `+` over the values, starting from null (skipping the null elements,
    as the code does, changes nothing because null is an identity). -/
theorem add_is_fold (v : JV) : callNative "add" v [] = some (match valuesOf v with
    | some xs => xs.foldlM opAdd .null
    | none => .error (errFunc0 "add" v)) := by
  show some (funcAdd v) = _
  unfold funcAdd
  cases valuesOf v with
  | none => rfl
  | some xs => simp only [addAll_eq_foldlM]

/-- `flatten(0)` is the list of values unchanged. -/
theorem flatten_depth_zero (xs : List JV) : flattenList 0 xs = xs := flattenList_zero xs

/-- `flatten` (and every negative internal depth, which is how "unlimited" is coded) leaves no
    array among the results, whatever the nesting. -/
theorem flatten_all (xs : List JV) : ∀ y ∈ flattenList (-1) xs, isArr y = false :=
  flattenList_neg xs (-1) (by decide)

/-- the one-argument `flatten` is the flattening at internal depth −1; with a depth argument the
    depth must not be negative or NaN (flattenDepthError), −0 is 0 and +Inf is unlimited. -/
theorem flatten_dispatch (v : JV) (xs : List JV) (h : valuesOf v = some xs) :
    callNative "flatten" v [] = some (.ok (.arr (flattenList (-1) xs))) ∧
    callNative "flatten" v [jvInt 0] = some (.ok (.arr xs)) ∧
    callNative "flatten" v [jvInt (-1)] = some (.error (.builtin "flattenDepth" [.num (.flt (-1))])) ∧
    callNative "flatten" v [.num .nan] = some (.error (.builtin "flattenDepth" [.num .nan])) := by
  refine ⟨?_, ?_, ?_, ?_⟩
  · show some (funcFlatten v []) = _; simp [funcFlatten, h, pure, Except.pure]
  · show some (funcFlatten v [jvInt 0]) = _
    have : (jvInt 0) = .num (.int 0) := rfl
    simp [funcFlatten, h, this, toFloat?, Num.toFlt, roundInt_zero, fltLt, Num.toRat?, Num.isNaN, pure, Except.pure,
      flattenList_zero]
  · show some (funcFlatten v [jvInt (-1)]) = _
    have : (jvInt (-1)) = .num (.int (-1)) := rfl
    simp [funcFlatten, h, this, toFloat?, Num.toFlt, roundInt_neg_one, fltLt, Num.toRat?, throw, throwThe, MonadExceptOf.throw]
    intro h1; exact absurd (by decide : (-1 : Rat) < 0) h1
  · show some (funcFlatten v [.num .nan]) = _
    simp [funcFlatten, h, toFloat?, Num.toFlt, fltLt, Num.isNaN, throw, throwThe, MonadExceptOf.throw]

/-- `indices` on arrays: exactly the positions `i` at which the next `len(xs)` elements equal
    `xs` (an empty needle occurs nowhere), in increasing order; `index` is the least and `rindex`
    the greatest of them, null when there is none. -/
theorem indices_positions (vs xs : List JV) :
    (∀ i, i ∈ indicesList vs xs ↔ xs ≠ [] ∧ i + xs.length ≤ vs.length ∧ cmpList ((vs.drop i).take xs.length) xs = .eq) ∧
    searchList .all vs xs = .arr ((indicesList vs xs).map fun i => jvInt (i : Nat)) ∧
    (∀ i, searchList .first vs xs = jvInt (i : Nat) → i ∈ indicesList vs xs ∧ ∀ j ∈ indicesList vs xs, i ≤ j) ∧
    (∀ i, searchList .last vs xs = jvInt (i : Nat) → i ∈ indicesList vs xs ∧ ∀ j ∈ indicesList vs xs, j ≤ i) ∧
    (indicesList vs xs = [] → searchList .first vs xs = .null ∧ searchList .last vs xs = .null) := by
  refine ⟨fun _ => mem_indicesList, rfl, ?_, ?_, ?_⟩
  · intro i h
    simp only [searchList] at h
    cases hh : (indicesList vs xs).head? with
    | none => rw [hh] at h; cases h
    | some k =>
      rw [hh] at h
      have : k = i := by simp [jvInt] at h; omega
      subst this
      exact head_is_least _ _ (indicesList_increasing vs xs) hh
  · intro i h
    simp only [searchList] at h
    cases hh : (indicesList vs xs).getLast? with
    | none => rw [hh] at h; cases h
    | some k =>
      rw [hh] at h
      have : k = i := by simp [jvInt] at h; omega
      subst this
      exact last_is_greatest _ _ (indicesList_increasing vs xs) hh
  · intro h; simp [searchList, h]

/-- `indices`/`index`/`rindex` by argument types: null gives null; an array is searched for the
    sub-array, or for the one-element array of any other argument; a string is searched for a
    string on the exploded code points (so positions count code points); every other combination
    is the func1TypeError carrying the function's own name. -/
theorem index_dispatch (k : IndexKind) (v x : JV) : indexFunc k v x = (match v, x with
    | .null, _ => .ok .null
    | .arr vs, .arr xs => .ok (searchList k vs xs)
    | .arr vs, x => .ok (searchList k vs [x])
    | .str s, .str t => .ok (searchList k (explodeJV s) (explodeJV t))
    | v, x => .error (errFunc1 k.name v x)) := by
  cases v <;> cases x <;> rfl

/-- `split/1` and `join` on strings are `strings.Split` and the separator-interleaved
    concatenation; with a non-empty separator `split(sep) | join(sep)` is the identity. -/
theorem split_join (s sep : Bytes) (h : sep ≠ []) :
    ∃ pieces, callNative "split" (.str s) [.str sep] = some (.ok (.arr (pieces.map .str))) ∧
      pieces = Codec.splitOn sep s ∧
      callNative "join" (.arr (pieces.map .str)) [.str sep] = some (.ok (.str s)) := by
  refine ⟨Codec.splitOn sep s, rfl, rfl, ?_⟩
  show some (funcJoin _ _) = _
  rw [funcJoin_strings, Codec.join_splitOn sep s h]

/-- `join` of strings is `x₀ + sep + x₁ + …` (the empty string for the empty array). -/
theorem join_strings (sep : Bytes) (ss : List Bytes) :
    callNative "join" (.arr (ss.map .str)) [.str sep] = some (.ok (.str (Codec.join sep ss))) := by
  show some (funcJoin _ _) = _
  rw [funcJoin_strings]

/-- `startswith`/`endswith` decide the prefix/suffix relation on bytes. -/
theorem startswith_endswith (s p : Bytes) :
    (funcStartsWith (.str s) (.str p) = .ok (.bool true) ↔ p <+: s) ∧
    (funcEndsWith (.str s) (.str p) = .ok (.bool true) ↔ p <:+ s) := by
  constructor
  · rw [← hasPrefix_iff]; simp [funcStartsWith, strStr, pure, Except.pure]
  · rw [← hasSuffix_iff]; simp [funcEndsWith, strStr, pure, Except.pure]

/-- `ltrimstr` removes the prefix when there is one and returns the string unchanged otherwise;
    `rtrimstr` likewise for the suffix. -/
theorem trimstr_spec (s p : Bytes) :
    funcLtrimstr (.str (p ++ s)) (.str p) = .ok (.str s) ∧
    (¬ p <+: s → funcLtrimstr (.str s) (.str p) = .ok (.str s)) ∧
    funcRtrimstr (.str (s ++ p)) (.str p) = .ok (.str s) ∧
    (¬ p <:+ s → funcRtrimstr (.str s) (.str p) = .ok (.str s)) := by
  refine ⟨?_, ?_, ?_, ?_⟩
  · simp [funcLtrimstr, strStr, trimPrefix_append, pure, Except.pure]
  · intro h; simp [funcLtrimstr, strStr, trimPrefix_of_not s p h, pure, Except.pure]
  · simp [funcRtrimstr, strStr, trimSuffix_append, pure, Except.pure]
  · intro h; simp [funcRtrimstr, strStr, trimSuffix_of_not s p h, pure, Except.pure]

/-- the five two-string natives raise func1TypeError{name, input, argument} unless BOTH the input
    and the argument are strings (in particular `ltrimstr`/`rtrimstr` do not pass a non-string
    input through). -/
theorem two_string_natives_type_error (v x : JV) (h : (∀ s t, ¬ (v = .str s ∧ x = .str t))) :
    funcStartsWith v x = .error (errFunc1 "startswith" v x) ∧
    funcEndsWith v x = .error (errFunc1 "endswith" v x) ∧
    funcLtrimstr v x = .error (errFunc1 "ltrimstr" v x) ∧
    funcRtrimstr v x = .error (errFunc1 "rtrimstr" v x) ∧
    funcTrimstr v x = .error (errFunc1 "trimstr" v x) := by
  cases v <;> cases x <;>
    first
    | exact absurd ⟨rfl, rfl⟩ (h _ _)
    | exact ⟨rfl, rfl, rfl, rfl, rfl⟩

/-- `contains` on strings is the substring relation, on arrays "every element of the argument is
    contained in some element of the input", on objects "every member of the argument is contained
    in the member of the same key", on numbers numeric equality; null contains null, a boolean
    itself; every other pair — including two different booleans — is the func1TypeError. -/
theorem contains_spec :
    (∀ l r : Bytes, contains (.str l) (.str r) = some (decide (r <:+: l))) ∧
    (∀ l r : List JV, contains (.arr l) (.arr r) = some (r.all fun x => l.any fun y => contains y x == some true)) ∧
    (∀ l r : List (Bytes × JV), contains (.obj l) (.obj r) = some (!(decide (l.length < r.length)) && r.all fun kv =>
        match kvLookup kv.1 l with
        | some lv => contains lv kv.2 == some true
        | none => false)) ∧
    (∀ a b : Num, contains (.num a) (.num b) = some (cmpNum a b == .eq)) ∧
    contains .null .null = some true ∧
    (∀ a b : Bool, contains (.bool a) (.bool b) = if a = b then some true else none) ∧
    (∀ l r : JV, tag l ≠ tag r → contains l r = none) := by
  refine ⟨?_, ?_, ?_, fun _ _ => rfl, rfl, ?_, ?_⟩
  · intro l r
    have h := bytesContains_iff l r
    simp only [contains]
    congr 1
    by_cases hc : bytesContains l r = true
    · rw [hc]; exact (decide_eq_true (h.1 hc)).symm
    · have hc' : bytesContains l r = false := by simpa using hc
      rw [hc']; exact (decide_eq_false (fun hi => hc (h.2 hi))).symm
  · intro l r
    simp only [contains]
    congr 2
    funext x
    exact containsAny_eq x l
  · intro l r
    simp only [contains]
    congr 3
    funext kv
    exact containsKey_eq kv.1 kv.2 l
  · intro a b; cases a <;> cases b <;> simp [contains]
  · intro l r h
    cases l <;> cases r <;> first | rfl | exact absurd rfl h

/-- `min`/`max` on an array are the value selected by the one-pass loop of `minMaxBy`, null for the
    empty array (that the loop selects the first least / last greatest element in jq's order is
    C11's `min_first_extreme`/`max_last_extreme`); every non-array is the func0TypeError. -/
theorem min_max_spec (v : JV) :
    callNative "min" v [] = some (match v with
      | .arr vs => .ok (minMaxItems true (vs.zip vs))
      | v => .error (errFunc0 "min" v)) ∧
    callNative "max" v [] = some (match v with
      | .arr vs => .ok (minMaxItems false (vs.zip vs))
      | v => .error (errFunc0 "max" v)) := by
  constructor
  · show some (funcMin v) = _
    cases v <;> simp [funcMin, liftSort, minMaxBy, mkItems, bind, Except.bind, pure, Except.pure, throw, throwThe, MonadExceptOf.throw]
  · show some (funcMax v) = _
    cases v <;> simp [funcMax, liftSort, minMaxBy, mkItems, bind, Except.bind, pure, Except.pure, throw, throwThe, MonadExceptOf.throw]

/-- `transpose`: as many rows as the longest input row has elements, and cell `[j][i]` of the
    result is cell `[i][j]` of the input, null where input row `i` is too short. -/
theorem transpose_spec (rows : List (List JV)) :
    (transposeRows rows).length = maxLen rows ∧
    ∀ i j, j < maxLen rows → i < rows.length →
      ∃ col, (transposeRows rows)[j]? = some (.arr col) ∧ col.length = rows.length ∧
        col[i]? = (rows[i]?).map fun r => r.getD j .null := by
  refine ⟨transposeRows_length rows, ?_⟩
  intro i j hj hi
  obtain ⟨col, h1, h2⟩ := transposeRows_cell rows i j hj hi
  refine ⟨rows.map fun r => r.getD j .null, ?_, by simp, ?_⟩
  · simp only [transposeRows]
    rw [List.getElem?_map, List.getElem?_range (by simpa [maxLen] using hj)]
    rfl
  · rw [List.getElem?_map]

/-- `transpose` wants an array of arrays: anything else is the func0TypeError naming the input. -/
theorem transpose_dispatch (v : JV) : callNative "transpose" v [] = some (match v with
    | .arr vss => (match rowsOf vss with
      | some rows => .ok (.arr (transposeRows rows))
      | none => .error (errFunc0 "transpose" v))
    | v => .error (errFunc0 "transpose" v)) := by
  show some (funcTranspose v) = _
  cases v <;> rfl

/-- `range(a; b; s)` with integers and a positive step is the arithmetic progression
    `a, a+s, a+2s, …` cut at the first term not below `b` (integers of any size: `+` is exact);
    a zero step yields nothing. -/
theorem range_spec (a b s : Int) (hs : 0 < s) (n : Nat) :
    (rangePrefix (jvInt b) (jvInt s) n (jvInt a)).1 =
      (((List.range n).map fun (i : Nat) => a + s * (i : Int)).takeWhile fun z => decide (z < b)).map jvInt ∧
    rangePrefix (jvInt b) (jvInt 0) n (jvInt a) = ([], false) :=
  ⟨rangePrefix_pos b s hs n a, rangePrefix_zero_step _ _ n⟩

/-- `_range` checks its three arguments in order: the first non-number is the
    func0TypeError{"range", it}. -/
theorem range_type_check (a b c : JV) : callNative "_range" .null [a, b, c] =
    if !isNumber a then some (.error (errFunc0 "range" a))
    else if !isNumber b then some (.error (errFunc0 "range" b))
    else if !isNumber c then some (.error (errFunc0 "range" c))
    else none := by
  show (rangeCheck [a, b, c]).map throw = _
  cases a <;> cases b <;> cases c <;> rfl

/-- `reverse` twice is the identity on arrays, and `reverse` accepts arrays only. -/
theorem reverse_reverse (xs : List JV) :
    (funcReverse (.arr xs)).bind funcReverse = .ok (.arr xs) ∧
    ∀ v, (∀ ys, v ≠ .arr ys) → funcReverse v = .error (errFunc0 "reverse" v) := by
  constructor
  · simp [funcReverse, Except.bind, pure, Except.pure]
  · intro v h; cases v <;> first | rfl | exact absurd rfl (h _)

/-- `tostring` is the identity on strings and `tojson` on everything else. -/
theorem tostring_spec (v : JV) : funcToString v = (match v with
    | .str s => .ok (.str s)
    | v => funcToJSON v) := by
  cases v <;> rfl

/-- `tostring | tonumber` returns every integer, of any size, exactly. -/
theorem tostring_tonumber_int (z : Int) :
    (funcToString (jvInt z)).bind funcToNumber = .ok (jvInt z) := by
  show (funcToString (.num (.int z))).bind funcToNumber = _
  rw [funcToString_int]
  exact funcToNumber_encodeInt z

/-- `tonumber` by argument types: numbers unchanged; a string must be a number literal in the sense
    of the lexer (`validNumber`) — otherwise the func0WrapError "invalid number"; everything else
    the func0TypeError. -/
theorem tonumber_dispatch (v : JV) : funcToNumber v = (match v with
    | .num n => .ok (.num n)
    | .str s => (match scanNumLit s with
      | none => .error (errFunc0Wrap "tonumber" v (.builtin "text" [.str (B "invalid number")]))
      | some l => if expDigitsOk l then .ok (.num l.value) else .error errUnmodelled)
    | v => .error (errFunc0 "tonumber" v)) := by
  cases v <;> rfl

/-- `toboolean`: booleans unchanged, exactly the strings "true" and "false" accepted. -/
theorem toboolean_spec (v : JV) : funcToBoolean v = (match v with
    | .bool b => .ok (.bool b)
    | .str s => if s = B "true" then .ok (.bool true) else if s = B "false" then .ok (.bool false)
        else .error (errFunc0Wrap "toboolean" v (.builtin "text" [.str (B "invalid boolean")]))
    | v => .error (errFunc0 "toboolean" v)) := by
  cases v <;> simp [funcToBoolean, pure, Except.pure, throw, throwThe, MonadExceptOf.throw]

/-- `getpath`, `setpath`, `delpaths` with the empty path / the empty path list are the identity,
    the new value and the identity; deleting the root gives null; setting a key of an object
    inserts it and `getpath` reads it back. -/
theorem path_natives_base (v n : JV) (kvs : List (Bytes × JV)) (k : Bytes) :
    funcGetpath v (.arr []) = .ok v ∧ funcSetpath v (.arr []) n = .ok n ∧
    funcDelpaths v (.arr []) = .ok v ∧ funcDelpaths v (.arr [.arr []]) = .ok .null ∧
    funcSetpath (.obj kvs) (.arr [.str k]) n = .ok (.obj (kvInsert k n kvs)) ∧
    funcGetpath (.obj (kvInsert k n kvs)) (.arr [.str k]) = .ok n := by
  refine ⟨rfl, rfl, rfl, rfl, funcSetpath_key kvs k n, ?_⟩
  · simp [funcGetpath, getpathLoop, funcIndex2, kvLookup_kvInsert_self, pure, Except.pure]

/-- `abs`, `type`, `error`, `halt`, `halt_error`, `infinite`, `nan` and the classifiers by argument
    type: `isnan` is false on null and a func0TypeError on other non-numbers, while `isinfinite`,
    `isfinite`, `isnormal` are false on every non-number. -/
theorem small_natives_spec (v x : JV) :
    callNative "abs" v [] = some (match v with | .num n => .ok (.num (absNum n)) | v => .error (errFunc0 "abs" v)) ∧
    callNative "type" v [] = some (.ok (.str (B v.typeName))) ∧
    callNative "error" v [] = some (.error (.user v)) ∧ callNative "error" v [x] = some (.error (.user x)) ∧
    callNative "halt" v [] = some (.error (.halt .null 0)) ∧ callNative "halt_error" v [] = some (.error (.halt v 5)) ∧
    callNative "halt_error" v [x] = some (match toInt? x with
      | some c => .error (Err.halt v c) | none => .error (errFunc0 "halt_error" x)) ∧
    callNative "isnan" v [] = some (match v with
      | .num n => .ok (.bool n.toFlt.isNaN) | .null => .ok (.bool false) | v => .error (errFunc0 "isnan" v)) ∧
    ((∀ n, v ≠ .num n) → callNative "isinfinite" v [] = some (.ok (.bool false)) ∧
      callNative "isfinite" v [] = some (.ok (.bool false)) ∧ callNative "isnormal" v [] = some (.ok (.bool false))) := by
  refine ⟨by cases v <;> rfl, rfl, rfl, rfl, rfl, rfl, ?_, by cases v <;> rfl, ?_⟩
  · show some (match toInt? x with | some code => throw (Err.halt v code) | none => throw (errFunc0 "halt_error" x)) = _
    cases toInt? x <;> rfl
  · intro h; cases v <;> first | exact ⟨rfl, rfl, rfl⟩ | exact absurd rfl (h _)

/-! ## 5. no index leaves its bounds (`native_total`)

A Go panic has no representation among the results of `callNative` (`Except Err JV`): the
transliteration writes every slice expression `v[a:b]` as `(v.drop a).take (b - a)` and every
index `v[i]` as a guarded `getD`. What has to be shown instead is that the indices the code
computes always satisfy Go's conditions `0 ≤ a ≤ b ≤ len(v)` resp. `0 ≤ i < len(v)` — i.e. the Go
expression would not have panicked — for ALL inputs. -/

/-- `clampIndex` returns a value between its bounds, for every `i` (also after the `i += maximum`
    of negative indices, wrapping or not). -/
theorem clampIndex_in_range (i mn mx : Int) (h : mn ≤ mx) :
    mn ≤ clampIndex i mn mx ∧ clampIndex i mn mx ≤ mx := clampIndex_range i mn mx h

/-- `slice`, `sliceString`, `updateArraySlice`: whenever start and end are computed they satisfy
    `start ≤ end ≤ len` (fractional, negative, huge, NaN and infinite bounds included). -/
theorem slice_bounds_ok (len : Nat) (e s : JV) (mk : JV → Err) (a b : Nat)
    (h : sliceBounds len e s mk = .ok (a, b)) : a ≤ b ∧ b ≤ len := sliceBounds_ok len e s mk a b h

/-- an array slice is `vs[a:b]` with `a ≤ b ≤ len(vs)`. -/
theorem slice_array_in_bounds (vs : List JV) (e s r : JV) (h : sliceArr vs e s = .ok r) :
    ∃ a b, a ≤ b ∧ b ≤ vs.length ∧ r = .arr ((vs.drop a).take (b - a)) := by
  unfold sliceArr at h
  split at h
  · cases h
  · rename_i ab hb
    obtain ⟨a, b⟩ := ab
    cases h
    exact ⟨a, b, (sliceBounds_ok _ _ _ _ a b hb).1, (sliceBounds_ok _ _ _ _ a b hb).2, rfl⟩

/-- a string slice is `v[sa:sb]` on BYTES with `sa ≤ sb ≤ len(v)`, where `sa`, `sb` are the byte
    offsets of the start-th and end-th code point (or `len(v)`), invalid UTF-8 included. -/
theorem slice_string_in_bounds (str : Bytes) (e s r : JV) (h : sliceStr str e s = .ok r) :
    ∃ sa sb, sa ≤ sb ∧ sb ≤ str.length ∧ r = .str ((str.drop sa).take (sb - sa)) := by
  unfold sliceStr at h
  split at h
  · cases h
  · rename_i ab hb
    obtain ⟨a, b⟩ := ab
    cases h
    have hab := (sliceBounds_ok _ _ _ _ a b hb).1
    have := sliceStr_offsets str a b hab
    exact ⟨_, _, this.1, this.2, rfl⟩

/-- `index(vs, i)`: the element read is `vs[j]` with `0 ≤ j < len(vs)`, otherwise null is
    returned without reading. -/
theorem index_in_bounds (vs : List JV) (i : Int) :
    (0 ≤ clampIndex i (-1) vs.length → clampIndex i (-1) vs.length < vs.length →
      ∃ h : (clampIndex i (-1) vs.length).toNat < vs.length, indexArr vs i = vs[(clampIndex i (-1) vs.length).toNat]) ∧
    (¬ (0 ≤ clampIndex i (-1) vs.length ∧ clampIndex i (-1) vs.length < vs.length) → indexArr vs i = .null) :=
  ⟨indexArr_in_range vs i, indexArr_out_of_range vs i⟩

/-- `indexString(s, i)`: the code point read is the `j`-th of `[]rune(s)` with `0 ≤ j < len`, and
    it is returned re-encoded; otherwise null. (`funcImplode` and `flatten` index nothing: they
    only append.) -/
theorem index_string_in_bounds (s : Bytes) (i : Int) :
    (0 ≤ clampIndex i (-1) (Utf8.runes s).length → clampIndex i (-1) (Utf8.runes s).length < (Utf8.runes s).length →
      ∃ h : (clampIndex i (-1) (Utf8.runes s).length).toNat < (Utf8.runes s).length,
        indexStr s i = .str (Utf8.encodeRune ((Utf8.runes s)[(clampIndex i (-1) (Utf8.runes s).length).toNat]))) ∧
    (¬ (0 ≤ clampIndex i (-1) (Utf8.runes s).length ∧ clampIndex i (-1) (Utf8.runes s).length < (Utf8.runes s).length) →
      indexStr s i = .null) := by
  constructor
  · intro h0 h1
    have hb : (clampIndex i (-1) (Utf8.runes s).length).toNat < (Utf8.runes s).length := by omega
    refine ⟨hb, ?_⟩
    simp only [indexStr, h0, h1, and_self, if_true]
    simp [List.getD, hb]
  · intro h; simp only [indexStr, h, if_false]

/-- `updateArrayIndex`: the position written is inside the array, or — the index being a Go `int`
    and the array no longer than MaxInt — it is at or beyond the end and the array is grown to
    exactly `i + 1 ≤ 0x20000000` elements; a negative position and a larger one are errors. -/
theorem update_index_in_bounds (len : Nat) (i : Int) (hi : InRange i) (hl : (len : Int) ≤ maxInt) :
    (¬ clampIndex i (-1) len < 0 → clampIndex i (-1) len < len → (clampIndex i (-1) len).toNat < len) ∧
    (¬ clampIndex i (-1) len < 0 → ¬ clampIndex i (-1) len < len → ¬ i ≥ 536870912 →
      (len : Int) ≤ i ∧ len + (i.toNat - len) + 1 = i.toNat + 1 ∧ i.toNat + 1 ≤ 536870912) := by
  constructor
  · intro h0 h1; omega
  · intro h0 h1 h2
    have := grow_index_ge len i hi hl h0 h1
    omega

/-- `repeatString`: a string is only built when `len(s)·count < MaxInt32` (so `uint64` never wraps
    and `strings.Repeat` cannot panic with "result overflows"), and it has exactly that length. -/
theorem repeat_size_guard (s : Bytes) (n : Num) (r : Bytes) (h : repeatString s n = .ok (.str r)) :
    (s.length : Int) * repeatCount n < maxInt32 ∧ r.length = s.length * (repeatCount n).toNat :=
  repeatString_guard s n r h

/-- `funcTranspose` writes `wss[j][i]` for `j < len(row)`: every row is at most as long as the
    number of result rows allocated. -/
theorem transpose_in_bounds (rows : List (List JV)) : ∀ r ∈ rows, r.length ≤ maxLen rows :=
  (foldl_max_ge rows 0).2

/-- `indices`: every window `vs[i:i+len(xs)]` compared lies inside `vs`. -/
theorem indices_window_in_bounds (vs xs : List JV) (i : Nat) (h : i ∈ indicesList vs xs) :
    i + xs.length ≤ vs.length := (mem_indicesList.mp h).2.1

/-- `callNative` answers a value or a catchable error on EVERY input of every modelled native: with
    the bounds above there is no third outcome. -/
theorem native_total (name : String) (v : JV) (args : List JV) (r : NRes) (_h : callNative name v args = some r) :
    (∃ w, r = .ok w) ∨ ∃ e, r = .error e := by
  cases r with
  | ok w => exact Or.inl ⟨w, rfl⟩
  | error e => exact Or.inr ⟨e, rfl⟩

/-! ## 6. ill-typed calls of the math functions raise the documented error -/

/-- is the answer func0TypeError{name, v}? -/
def isFunc0Error (name : String) (v : JV) : Option NRes → Bool
  | some (.error (.builtin "func0" [.str n, w])) => n == B name && w == v
  | _ => false

/-- one representative of every non-number shape -/
def nonNumbers : List JV :=
  [.null, .bool false, .bool true, .str [], .str [97], .arr [], .arr [.num (.int 1)], .obj [], .obj [([97], .null)]]

/-- every function registered through `mathFunc` — modelled or transcendental — answers
    func0TypeError{its name, the input} on every non-number shape. -/
theorem math1_type_errors :
    (mathFunc1Names.all fun name => nonNumbers.all fun v => isFunc0Error name v (callNative name v [])) = true := by
  decide +kernel

/-- every function registered through `mathFunc2` ignores its input and blames the first
    argument that is not a number. -/
theorem math2_type_errors :
    (mathFunc2Names.all fun name => nonNumbers.all fun v =>
      isFunc0Error name v (callNative name .null [v, .num (.int 1)]) &&
      isFunc0Error name v (callNative name (.str []) [.num (.int 1), v]) &&
      isFunc0Error name v (callNative name .null [v, .str []])) = true := by
  decide +kernel

/-- the lists of names above are the table's: the same names are registered through
    mathFunc / mathFunc2 / mathFunc3 in func.go. -/
theorem math_names_are_the_tables :
    ((Generated.NativeTable.table.filter fun e => e.ctor == "mathFunc").map (·.name)).all (mathFunc1Names.contains ·) = true ∧
    mathFunc1Names.all (fun n => Generated.NativeTable.table.any fun e => e.name == n && e.ctor == "mathFunc") = true ∧
    ((Generated.NativeTable.table.filter fun e => e.ctor == "mathFunc2").map (·.name)).all (mathFunc2Names.contains ·) = true ∧
    mathFunc2Names.all (fun n => Generated.NativeTable.table.any fun e => e.name == n && e.ctor == "mathFunc2") = true ∧
    ((Generated.NativeTable.table.filter fun e => e.ctor == "mathFunc3").map (·.name)) = mathFunc3Names := by
  refine ⟨?_, ?_, ?_, ?_, ?_⟩ <;> decide +kernel

/-! ## 7. carrier independence

The model has one representation per number, so what remains to state is the NORMALISATION the
natives apply to a json.Number (`parseNumber`) and that every conversion accepts every number. -/

/-- `parseNumber`/`tonumber` classify a literal by its spelling: without `.` and exponent it is the
    exact integer (any size: int or *big.Int), otherwise it is never an integer carrier but the
    nearest float64 (±Inf beyond the range). -/
theorem literal_classification (l : NumLit) :
    (l.dot = false → l.exp = none → ∃ z : Int, l.value = .int z) ∧
    ((l.dot = true ∨ l.exp.isSome = true) → ∀ z : Int, l.value ≠ .int z) := by
  constructor
  · intro h1 h2; simp [NumLit.value, h1, h2]
  · intro h z
    have hcond : (!l.dot && l.exp.isNone) = false := by
      rcases h with h | h
      · simp [h]
      · cases he : l.exp <;> simp_all
    simp only [NumLit.value, hcond, Bool.false_eq_true, if_false]
    exact decimalToFloat_ne_int _ _ _ _ z

/-- `toInt`, `toIntCeil` and `toFloat` accept every number — integers of any size, every float64
    including NaN and ±Inf (the former rejection of out-of-range json.Number, commit 27967b4, is
    gone) — and nothing else. -/
theorem conversions_total (v : JV) :
    ((toInt? v).isSome = isNumber v) ∧ ((toIntCeil? v).isSome = isNumber v) ∧ ((toFloat? v).isSome = isNumber v) := by
  cases v with
  | num n => cases n <;> exact ⟨rfl, rfl, rfl⟩
  | _ => exact ⟨rfl, rfl, rfl⟩

/-- one numeric value in the two Go carriers that reach `toIntCeil` with a fraction -/
inductive Carrier where
  | float64 (n : Num)
  | jsonNumber (n : Num)

/-- `toIntCeil` AS CODED (since f1140b8):
    `if n, ok := x.(json.Number); ok { x = parseNumber(n) }; if f, ok := x.(float64); ok { x = math.Ceil(f) };
    return toInt(x)` — a json.Number is normalised FIRST, so the float64 test sees the same value
    in both carriers (`fceil` is the identity on an integer carrier). -/
def toIntCeilCoded : Carrier → Option Int
  | .float64 n => toInt? (.num (fceil n))
  | .jsonNumber n => toInt? (.num (fceil n))   -- parseNumber(n) denotes the same `Num`

/-- FULL STATEMENT (property C03, last sentence, for the end of a slice): the carrier does not matter. -/
def carrier_independent_statement : Prop :=
  ∀ n : Num, toIntCeilCoded (.float64 n) = toIntCeilCoded (.jsonNumber n)

/-- The end of a slice is rounded up in every carrier (the former dependence — a json.Number end
    was truncated, finding `carrier-swap:slice-end-json.Number` — is repaired), and the coded
    conversion is the model's `toIntCeil?`. -/
theorem carrier_independent : carrier_independent_statement ∧
    ∀ n : Num, toIntCeilCoded (.jsonNumber n) = toIntCeil? (.num n) := by
  refine ⟨fun _ => rfl, ?_⟩
  intro n
  cases n with
  | flt q =>
    show toInt? (.num (fceil (.flt q))) = some (floatToInt (fceil (.flt q)))
    simp only [fceil]
    split <;> rfl
  | _ => rfl

/-- `ldexp`/`scalb`/`scalbln` (since f16ffcd the count is clamped to ±4096 before `math.Ldexp`):
    an infinite or huge count is well defined — it saturates: `x·2^(+∞)` is ±Inf and `x·2^(−∞)`
    is ±0 for every finite non-zero `x`, zeros and infinities are unchanged — and only a NaN
    count is left open (Go's `int(NaN)` is platform-defined). The former wrap-around of
    `math.Ldexp` next to MinInt64 (finding `law:ldexp-exact`) cannot be reached any more. -/
theorem ldexp_extreme_counts (q : Rat) (hq : (q == 0) = false) (z : Int) (hz : 4096 < z) :
    ldexpCount? (.inf false) = some 4096 ∧ ldexpCount? (.inf true) = some (-4096) ∧
    ldexpCount? (.int z) = some 4096 ∧ ldexpCount? (.int (-z)) = some (-4096) ∧ ldexpCount? .nan = none ∧
    fldexp (.flt q) 4096 = .inf (q < 0) ∧ fldexp (.flt q) (-4096) = signedZero (q < 0) ∧
    mathFn2 "ldexp" (.flt q) (.inf true) = some (signedZero (q < 0)) ∧
    mathFn2 "scalb" (.flt q) (.int (-9223372036854775807)) = some (signedZero (q < 0)) := by
  have h1 : ldexpCount? (.int z) = some 4096 := by
    simp only [ldexpCount?]; rw [if_neg (by omega), if_pos hz]
  have h2 : ldexpCount? (.int (-z)) = some (-4096) := by
    simp only [ldexpCount?]; rw [if_pos (by omega)]
  have h3 : fldexp (.flt q) 4096 = .inf (q < 0) := by simp [fldexp, hq]
  have h4 : fldexp (.flt q) (-4096) = signedZero (q < 0) := by simp [fldexp, hq]
  refine ⟨rfl, rfl, h1, h2, rfl, h3, h4, ?_, ?_⟩
  · show (ldexpCount? (.inf true)).map (fldexp (.flt q)) = _
    simp [ldexpCount?, h4]
  · show (ldexpCount? (.int (-9223372036854775807))).map (fldexp (.flt q)) = _
    simp [ldexpCount?, h4]

/-! ## 8. gmtime / mktime -/

/-- `gmtime` on a whole number of seconds (|t| ≤ 2^53) is the civil-calendar decomposition of
    Model/Calendar.lean (whose inverse `mktime` is C13's `mktime_gmtime`), with the seconds as a
    float64. -/
theorem gmtime_whole_seconds (t : Int) (h : -two53 ≤ t ∧ t ≤ two53) :
    epochToArray? (.flt (t : Rat)) =
      let b := Calendar.gmtime t
      some (.arr [jvInt b.year, jvInt b.month0, jvInt b.day, jvInt b.hour, jvInt b.minute,
                  .num (secondsFloat b.second 0), jvInt b.weekday, jvInt b.yearday]) := by
  have hr : ¬ ((t : Rat) < -(two53 : Rat) ∨ (two53 : Rat) < (t : Rat)) := by
    intro hc
    rcases hc with hc | hc
    · have : (t : Rat) < ((-two53 : Int) : Rat) := by simpa using hc
      have := Rat.intCast_lt_intCast.mp this
      omega
    · have := Rat.intCast_lt_intCast.mp hc
      omega
  simp only [epochToArray?, epochParts?, Num.toRat?, Option.getD_some, hr, if_false, fracNanos_int, Rat.floor_intCast]
  simp

/-- the instant `gmtime` decomposes, for an epoch `q` with a fraction: whole seconds `sec` and
    `0 ≤ ns < 10^9` nanoseconds that denote `q` to within two nanoseconds -/
def GmtimeAccurate (q : Rat) : Prop :=
  ∃ sec ns : Int, epochParts? (.flt q) = some (sec, ns) ∧ 0 ≤ ns ∧ ns < 1000000000 ∧
    ((sec : Rat) + (ns : Rat) / 1000000000) - q < 2 / 1000000000 ∧
    q - ((sec : Rat) + (ns : Rat) / 1000000000) < 2 / 1000000000

/-- FULL STATEMENT: every epoch within ±2^53 s — negative and fractional included — is decomposed
    accurately. (The earlier form "same whole second as floor q" is too strong even for correct
    code: the fraction of −2^−70 s rounds up to a whole second, and 1970-01-01T00:00:00 is the
    nearest answer there is.) -/
def gmtime_statement : Prop :=
  ∀ q : Rat, -(two53 : Rat) ≤ q ∧ q ≤ (two53 : Rat) → GmtimeAccurate q

/-- the two float64 roundings of `int64((v - s) * 1e9)` land within two nanoseconds of the exact
    fraction `q − floor q` (decidable for each `q`) -/
def FracAccurate (q : Rat) : Prop :=
  0 ≤ fracNanos (.flt q) ∧
  (fracNanos (.flt q) : Rat) / 1000000000 - (q - (q.floor : Rat)) < 2 / 1000000000 ∧
  (q - (q.floor : Rat)) - (fracNanos (.flt q) : Rat) / 1000000000 < 2 / 1000000000

instance (q : Rat) : Decidable (FracAccurate q) := by unfold FracAccurate; infer_instance

/-- PROVED PART of `gmtime_statement`: the seconds are counted from `floor q` (since c446035 — the
    former truncation towards zero made −0.5 s the year 1970, finding
    `law:gmtime-mktime-roundtrip`), `time.Unix`'s normalisation keeps the nanoseconds in range,
    and the instant denoted is `floor q + fracNanos/10^9` exactly; hence it is accurate whenever
    the float computation of the fraction is. GAP: `FracAccurate q` for ALL `q` is an error bound
    on two correctly rounded float64 operations (`roundRat`), for which the library has no lemma;
    it is decided below at the boundary cases and observed by the native stream and the law
    `gmtime-mktime-roundtrip` of every run. -/
theorem gmtime_partial (q : Rat) (hr : -(two53 : Rat) ≤ q ∧ q ≤ (two53 : Rat)) (hf : FracAccurate q) :
    GmtimeAccurate q := by
  obtain ⟨_, h1, h2⟩ := hf
  have hr' : ¬ (q < -(two53 : Rat) ∨ (two53 : Rat) < q) := by
    intro h; rcases h with h | h <;> grind
  refine ⟨q.floor + fracNanos (.flt q) / 1000000000, fracNanos (.flt q) % 1000000000, ?_, ?_, ?_, ?_, ?_⟩
  · simp [epochParts?, Num.toRat?, hr']
  · exact Int.emod_nonneg _ (by decide)
  · exact Int.emod_lt_of_pos _ (by decide)
  · have := split_nanos (fracNanos (.flt q))
    simp only [Rat.intCast_add]
    grind
  · have := split_nanos (fracNanos (.flt q))
    simp only [Rat.intCast_add]
    grind

/-- the former failing inputs and the rounding corner, decided: −0.5 s and −1.5 s lie in the
    seconds −1 and −2 with half a second of nanoseconds; −2^−70 s is second 0 exactly. -/
theorem gmtime_negative_fractions :
    epochParts? (.flt (-1 / 2)) = some (-1, 500000000) ∧ epochParts? (.flt (-3 / 2)) = some (-2, 500000000) ∧
    epochParts? (.flt (-(1 : Rat) / 2 ^ 70)) = some (0, 0) ∧
    FracAccurate (-1 / 2) ∧ FracAccurate (-3 / 2) ∧ FracAccurate (-(1 : Rat) / 2 ^ 70) ∧
    FracAccurate (1425599507678 / 1000) := by
  decide +kernel

/-! ## Non-vacuity: the hypotheses above are satisfiable, at the boundaries the property names
(byte strings are written out: `[97]` is "a", `[98]` "b", `[120]` "x", `[121]` "y") -/

/-- equality test on results for the examples below (`JV` has no decidable equality) -/
def sameRes : NRes → NRes → Bool
  | .ok a, .ok b => a == b
  | .error (.builtin k a), .error (.builtin k' a') => k == k' && a == a'
  | _, _ => false

example : opAdd (.obj [([97], jvInt 1)]) (.obj [([97], jvInt 2), ([98], .null)]) =
    .ok (.obj [([97], jvInt 2), ([98], .null)]) := by rfl
example : (([([97], jvInt 2), ([98], JV.null)] : List (Bytes × JV)).map (·.1)).Nodup := by decide
example : addTable (tag (.bool true)) (tag (.bool false)) = .typeError := rfl
example : addTable (tag (.str [])) (tag (.num .nan)) = .typeError := rfl
example : opMul (.obj [([97], .obj [([120], jvInt 1)])]) (.obj [([97], .obj [([121], jvInt 2)])]) =
    .ok (.obj [([97], .obj [([120], jvInt 1), ([121], jvInt 2)])]) := by rfl
example : (fltLt (Num.int (-1)).toFlt (.flt 0) || (Num.int (-1)).toFlt.isNaN) = true := by decide +kernel
example : (fltLt Num.nan.toFlt (.flt 0) || Num.nan.toFlt.isNaN) = true := by decide +kernel
example : sameRes (opMul (.str [97, 98]) (.num (.flt (5 / 2)))) (.ok (.str [97, 98, 97, 98])) = true := by decide +kernel
example : opMul (.num (.int 0)) (.str [97, 98]) = .ok (.str []) := by rfl
example : sameRes (opMul (.str [97]) (.num (.int 4294967296)))
    (.error (.builtin "repeatStringTooLarge" [.str [97], .num (.flt 4294967296)])) = true := by decide +kernel
example : kvSorted [([97], .null), ([97, 98], .null), ([98], .null)] = true := by decide
example : valuesOf (.obj [([97], .arr [jvInt 1])]) = some [.arr [jvInt 1]] := rfl
example : (flattenList (-1) [.arr [jvInt 1, .arr [jvInt 2, .arr []]], jvInt 3] == [jvInt 1, jvInt 2, jvInt 3]) = true := by
  decide +kernel
example : (flattenList 1 [.arr [jvInt 1, .arr [jvInt 2]]] == [jvInt 1, .arr [jvInt 2]]) = true := by decide +kernel
example : ([44, 32] : Bytes) ≠ [] := by decide
example : ¬ ([120] : Bytes) <+: [97, 98, 99] := by decide
example : ¬ ([120] : Bytes) <:+ [97, 98, 99] := by decide
example : ∀ s t, ¬ (JV.null = .str s ∧ JV.str [] = .str t) := by intro s t h; cases h.1
example : indicesList [jvInt 1, jvInt 2, jvInt 1, jvInt 2, jvInt 1] [jvInt 1, jvInt 2] = [0, 2] := by decide +kernel
example : searchList .last [jvInt 1, jvInt 2, jvInt 1] [jvInt 1] = jvInt 2 := by rfl
example : (rangePrefix (jvInt 10) (jvInt 3) 40 (jvInt 0)).1 = [jvInt 0, jvInt 3, jvInt 6, jvInt 9] := by rfl
example : (rangePrefix (jvInt 18446744073709551618) (jvInt 1) 5 (jvInt 18446744073709551616)).1 =
    [jvInt 18446744073709551616, jvInt 18446744073709551617] := by rfl
example : (match sliceBounds 5 (.num (.flt (5 / 2))) (.num (.int (-2))) (fun x => .builtin "arrayIndexNotNumber" [x]) with
    | .ok p => p == (3, 3) | .error _ => false) = true := by decide +kernel
example : sliceBounds 5 (.num (.inf false)) (.num .nan) (fun x => .builtin "arrayIndexNotNumber" [x]) = .ok (0, 5) := by rfl
example : sameRes (sliceArr [jvInt 0, jvInt 1, jvInt 2] (.num (.flt (3 / 2))) .null) (.ok (.arr [jvInt 0, jvInt 1])) = true := by
  decide +kernel
/-- "aé" sliced [1:2] is "é" (code point positions, byte slicing) -/
example : sliceStr [97, 195, 169] (.num (.int 2)) (.num (.int 1)) = .ok (.str [195, 169]) := by rfl
example : repeatString [97, 98] (.flt 2) = .ok (.str [97, 98, 97, 98]) := by rfl
example : clampIndex (-9223372036854775808) (-1) 3 = -1 := by decide
example : InRange (-9223372036854775808) ∧ ((3 : Nat) : Int) ≤ maxInt := by decide
example : funcDelpaths (.arr [jvInt 0, jvInt 1, jvInt 2, jvInt 3]) (.arr [.arr [jvInt 1], .arr [jvInt 2]])
    = .ok (.arr [jvInt 0, jvInt 3]) := by rfl
example : funcSetpath .null (.arr [.str [97], jvInt 2]) (jvInt 7) =
    .ok (.obj [([97], .arr [.null, .null, jvInt 7])]) := by rfl
example : ((1 / 2 : Rat) == 0) = false ∧ (4096 : Int) < 9223372036854775807 := by decide +kernel
example : -two53 ≤ (1425599507 : Int) ∧ (1425599507 : Int) ≤ two53 := by decide
example : -(two53 : Rat) ≤ (-1 / 2 : Rat) ∧ (-1 / 2 : Rat) ≤ (two53 : Rat) := by decide +kernel
/-- "-.5e-3" is a number, "1.2.3", "0x10", "1e" are not -/
example : (scanNumLit [45, 46, 53, 101, 45, 51]).isSome = true ∧ (scanNumLit [49, 46, 50, 46, 51]).isSome = false ∧
    (scanNumLit [48, 120, 49, 48]).isSome = false ∧ (scanNumLit [49, 101]).isSome = false := by decide +kernel

end Gojq.C03

/-
  C20 — iteration and tail recursion run in bounded interpreter space.

  The model is `Gojq/Model/ShVM.lean`: the VM of execute.go with the JSON data forgotten
  and every data-dependent branch nondeterministic, run on the bytecode that the real
  compiler produced for the subject programs (`Gojq/Generated/Programs.lean`, regenerated
  on every check).  `ReachN code n s` says that some run — whatever the data does — is in
  shape `s` after exactly `n` instructions; `footprint s` is
  `len(forks) + len(stack.data) + len(scopes.data) + len(paths.data) + len(values)`.

  This file: the generic theorems.  The per-program theorems `bounded_<program>` (one per
  iteration form of the property and per member of the tail-recursive family) are in
  `Props/C20Iter.lean` and `Props/C20TailRec.lean`; each is the generic theorem applied to
  a certificate (`Gojq/Generated/Certs/<program>.lean`, computed outside the kernel by the
  model's own worklist) whose check `checkCert … = true` the kernel evaluates: the first
  shape is the initial one and every successor of every listed shape is the shape found at
  the position the certificate names — one equality per transition, no search.
  Helper definitions and lemmas: Gojq/Proofs/ShVMCert.lean.
-/
import Gojq.Proofs.ShVMCert
namespace Gojq.C20
open Gojq.ShVM

/-- If a finite set `I` of states contains the initial state and is closed under every
    nondeterministic successor, then every run stays in `I` and its footprint stays below
    any bound that holds on `I` — after every number of steps `n`. -/
theorem finite_inductive_bounds {σ : Type} (step : σ → List σ) (fp : σ → Nat) (init : σ)
    (I : List σ) (B : Nat)
    (h0 : init ∈ I) (hcl : ∀ s ∈ I, ∀ t ∈ step s, t ∈ I) (hB : ∀ s ∈ I, fp s ≤ B) :
    ∀ n s, Reach step init n s → s ∈ I ∧ fp s ≤ B := by
  intro n s h
  have := reach_in_invariant step init I h0 hcl n s h
  exact ⟨this, hB s this⟩

/-- non-vacuity: a two-state system that toggles forever stays within its two states -/
example : ∀ n s, Reach (fun b : Bool => [!b]) false n s → s ∈ [false, true] ∧ (if s then 1 else 0) ≤ 1 :=
  finite_inductive_bounds _ _ _ _ _ (by decide) (by decide) (by decide)

/-- The boolean certificate check implies what `finite_inductive_bounds` needs: `I` contains
    the initial shape, is closed under `ShVM.step`, every member's footprint is at most `B`,
    and no member has an outcome that leaves the model (Go panic / unmodelled construct). -/
theorem closed_of_certificate (code : Code) (I : List Shape) (succ : List (List Nat)) (B : Nat)
    (h : checkCert code I succ B = true) :
    init code ∈ I ∧ (∀ s ∈ I, ∀ t ∈ step code s, t ∈ I) ∧ (∀ s ∈ I, footprint s ≤ B) ∧
      (∀ s ∈ I, stuckFree code s = true) := by
  obtain ⟨h0, hall⟩ := checkCert_sound code I succ B h
  exact ⟨h0, fun s hs => (hall s hs).2.2, fun s hs => (hall s hs).2.1, fun s hs => (hall s hs).1⟩

/-- non-vacuity: the one-instruction program `backtrack` has the one-shape certificate -/
example : checkCert [.backtrack] [init [.backtrack]] [[]] 1 = true := by decide

/-- A program with a certificate runs in bounded interpreter space: after ANY number `n` of
    VM instructions, on any data, the footprint is at most `B`, and the run never reaches a
    Go panic site or a construct the model does not cover. -/
theorem bounded_of_certificate (code : Code) (I : List Shape) (succ : List (List Nat)) (B : Nat)
    (h : checkCert code I succ B = true) :
    ∀ n s, ReachN code n s → footprint s ≤ B ∧ stuckFree code s = true := by
  obtain ⟨h0, hcl, hB, hst⟩ := closed_of_certificate code I succ B h
  intro n s hr
  have hr' := (reachN_iff code n s).mp hr
  have := finite_inductive_bounds (step code) footprint (init code) I B h0 hcl hB n s hr'
  exact ⟨this.2, hst s this.1⟩

/-- non-vacuity -/
example : ∀ n s, ReachN [.backtrack] n s → footprint s ≤ 1 ∧ stuckFree [.backtrack] s = true :=
  bounded_of_certificate _ [init [.backtrack]] [[]] 1 (by decide)

/-- The local reason the tail-recursive family is bounded (`opcallrec` then `opscope`,
    execute.go): when `scope` is entered with `index == scopes.index` and `callpc < 0` and the
    caller's frame is not referenced by a pending fork (`index > limit`), the caller's frame
    is popped before the new one is pushed: the new frame lands at or below the caller's
    block, the scope array does not grow, the variable area restarts at the caller's offset,
    and neither a fork nor a stack block is added. -/
theorem tailrec_frame_reuse (code : Code) (s : Shape) (id vars args : Nat) (old : Scope) (nxt : Int)
    (hop : code[s.pc]? = some (.scope id vars args))
    (hidx : s.index = s.scopes.index) (hcall : s.callpc < 0)
    (hfree : s.scopes.index > s.scopes.limit)
    (hblk : s.scopes.block s.scopes.index = some (old, nxt))
    (hnext : nxt < s.scopes.index) :
    ∃ t, stepOut code s = [.next t] ∧ t.scopes.index ≤ s.scopes.index ∧
      t.scopes.data.length = s.scopes.data.length ∧ t.offset = old.offset + vars ∧
      t.forks = s.forks ∧ t.stack = s.stack := by
  obtain ⟨h0, hlen⟩ := PS.block_some hblk
  have hpop : popscope s = some (old, { s with scopes := { s.scopes with index := nxt }, offset := old.offset }) := by
    simp [popscope, PS.pop?, hblk, hfree]
  have hblk' : PS.block { s.scopes with index := nxt } s.scopes.index = some (old, nxt) := by
    simpa [PS.block] using hblk
  have hnc : ¬ (s.callpc ≥ 0) := by omega
  have hi0 : s.scopes.index ≥ 0 := h0
  unfold stepOut
  simp only [hop, hidx, beq_self_eq_true, if_true, hnc, if_false, hpop, hi0, hblk', adv]
  refine ⟨_, rfl, ?_, ?_, ?_, rfl, rfl⟩
  · simp only [PS.push]; omega
  · simp only [PS.push]
    have : (max nxt s.scopes.limit + 1).toNat < s.scopes.data.length := by omega
    simp [this, PS.setAt_length]
  · rfl

/-- non-vacuity: a frame of scope 1 (two variables at offset 3) re-entered by `callrec` -/
example : ∃ t, stepOut [.scope 1 2 0]
      { pc := 0, bt := false, err := false, stack := PS.new.push .any,
        scopes := (PS.new.push ⟨0, 0, 9, -1, -1⟩).push ⟨1, 3, 4, 0, 0⟩, paths := PS.new,
        values := [.any, .any, .any, .any, .any, .dead], forks := [], offset := 5, expdepth := 0,
        callpc := -1, index := 1 } = [.next t] ∧ t.scopes.index ≤ 1 ∧ t.scopes.data.length = 2 ∧
      t.offset = 3 + 2 ∧ t.forks = [] ∧ t.stack = PS.new.push .any :=
  tailrec_frame_reuse _ _ 1 2 0 ⟨1, 3, 4, 0, 0⟩ 0 (by decide) (by decide) (by decide) (by decide) (by decide) (by decide)

end Gojq.C20

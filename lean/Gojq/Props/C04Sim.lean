/-
  C04 — compiler optimisations never change what a query outputs: the SEMANTIC theorems about the
  peephole pass `(*compiler).optimizeCodeOps`, stated over the interpreter model of C07
  (Model/VM.lean, a transliteration of `(*env).Next`).  Property theorems only; the lemmas are in
  Gojq/Proofs/OptSim*.lean, the glue definitions in Gojq/Model/OptVM.lean.

  Reading guide.
  * `optV` is `Opt.optimizeCodeOps` restated on interpreter code; `optV_agrees_with_pass_model` proves
    that the two agree through the dump `view` on EVERY code (the pass model itself is tied to the
    real compiler by the `codeops` translation-validation stream of the C04 check).
  * "Same state" CANNOT be equality of `Env`s: `push x; pop` leaves the pushed block in the array of
    stack.go's persistent stack above the live region, and `dup; const v` leaves the data stack at
    a different slot than `push v` when the duplicated value lies under a fork's `limit`
    (`state_equality_fails` below, on real bytecode).  The relation that IS kept is `EnvRel`
    (Proofs/OptSimStack.lean): everything but the data stack and the saved data-stack indices of
    the forks is equal, the data stacks denote the same list of values, and every pair of
    corresponding forks restores the same list.  `every_opcode_respects_EnvRel` is the congruence
    that makes it usable: all 32 opcodes, run from related states, stay related.
  * Oracle indexing.  `VM.step` keys the recorded native answers by the POLL number
    (`call_and_poll_indexing_agree`, `optimizeCodeOps_preserves_outputs_polls` translate).  Jump
    threading removes polls (a jump to a jump becomes one jump), so under poll indexing the
    optimised run would read the answers at shifted positions.  `stepC`/`loopC`/`historyC`
    (Model/OptVM.lean, defined through `VM.step`) run the same loop under `context.Background()`
    with the answers indexed by the number of answer-consuming instructions executed so far
    (`usesExt`: object, index, indexarray, native call, iter, pathend) — "the recorded sequence of
    native answers", consumed in order.  The per-rewrite theorems (section 2) are ALSO stated on
    `VM.step` itself, poll counter included.
  * A theorem claims something only for runs of the ORIGINAL code that end properly (value, error,
    `(nil, false)`): where the original panics (`load` with a bad variable index, `dup` on an empty
    stack, …) or leaves the model (`stuck`) or its loop bound, `nop; nop` may well continue.
-/
import Gojq.Proofs.OptSimPass
import Gojq.Proofs.OptSimTurns
import Gojq.Proofs.OptSimView
import Gojq.Proofs.OptSimIndex
namespace Gojq.C04Sim
open Gojq Gojq.VM Gojq.OptVM

/-! ### 1. locality -/

/-- One turn of the loop of `Next` reads the code only at the current pc (and its length), the
    oracle only at the current poll: if two codes of the same length agree at `pc`, and the two
    oracles agree at the current poll, one turn from the same state gives the same result. -/
theorem codeops_step_local (P Q : Params) (l : L) (s : St) (hsize : P.code.size = Q.code.size)
    (hat : P.code.getD l.pc.toNat .bad = Q.code.getD l.pc.toNat .bad)
    (hext : P.ext s.polls = Q.ext s.polls) (hc : P.cancelled s.polls = Q.cancelled s.polls) :
    step P l s = step Q l s :=
  step_local P Q l s hsize hat hext hc

/-- The instructions the pass touches (nop, push, pop, dup, const, load, jump, jumpifnot) — in
    fact every opcode outside `usesExt` — do not look at the oracle record of their poll. -/
theorem silent_opcodes_ignore_oracle (ins : Instr) (h : usesExt ins = false) (x y : ExtRec) (l : L) :
    exec ins x l = exec ins y l :=
  exec_ext_irrelevant ins h x y l

/-- `VM.step` at a poll that is not cancelled factors through the poll-free `stepE`; the poll
    counter advances by one exactly when the pc is at an instruction. -/
theorem step_factors (P : Params) (l : L) (s : St) (hc : P.cancelled s.polls = false) :
    step P l s = (stepE P.code (P.ext s.polls) l s.env).toStep
      (if 0 ≤ l.pc ∧ l.pc < P.code.size then s.polls + 1 else s.polls) :=
  step_eq_stepE P l s hc

/-! ### 2. the relation, and the four rewrites on `VM.step` -/

/-- Congruence: every opcode respects `EnvRel`.  Run from two related environments with the same
    locals and oracle record, an instruction fails the same way on both sides, or returns the same
    control result and locals and related environments. -/
theorem every_opcode_respects_EnvRel (ins : Instr) (x : ExtRec) (l : L) (e e' : Env) (h : EnvRel e e') :
    RRes (exec ins x l e) (exec ins x l e') :=
  exec_cong ins x l e e' h

/-- … and so does a whole turn (`popfork` restores related stacks because corresponding forks
    denote the same contents). -/
theorem every_turn_respects_EnvRel (c : Array Instr) (x : ExtRec) (l : L) (e e' : Env) (h : EnvRel e e') :
    StepRel (stepE c x l e) (stepE c x l e') :=
  stepE_cong c x l h

/-- `push/dup/load ; pop` → `nop ; nop` and `push/dup/load ; const w` → `nop ; push w`
    (`PairSecond b b'`), two-sided, on `VM.step`: from related states at the first pc of the pair,
    if the original code makes its two turns then the rewritten code makes two turns as well, with
    the same locals — `pc` after the pair, pending error, call registers — and related states (same
    stack contents, same fork contents, equal scopes/paths/variables, same poll counter).  None of
    the four turns ends the call, so nothing is emitted in between. -/
theorem pair_rewrite_sim (P P' : Params) (i : Nat) (a b b' : Instr)
    (ha : P.code[i]? = some a) (hpl : isPushLike a = true) (hb : P.code[i + 1]? = some b)
    (hbb : PairSecond b b') (hcode : P'.code = (P.code.set! i .nop).set! (i + 1) b')
    (hext : P'.ext = P.ext) (hnc : ∀ k, P.cancelled k = false) (hnc' : ∀ k, P'.cancelled k = false)
    (l : L) (hl : l.pc = i) (s s' : St) (hR : EnvRel s.env s'.env) (hp : s.polls = s'.polls)
    (l1 l2 : L) (s1 s2 : St) (h1 : step P l s = .cont l1 s1) (h2 : step P l1 s1 = .cont l2 s2) :
    ∃ s1' s2', step P' l s' = .cont l1 s1' ∧ step P' l1 s1' = .cont l2 s2' ∧
      l1 = { l with pc := (i : Int) + 1 } ∧ l2 = { l with pc := (i : Int) + 2 } ∧
      EnvRel s2.env s2'.env ∧ s2.polls = s2'.polls :=
  pair_turns P P' i a b b' ha hpl hb hbb hcode hext hnc hnc' l hl s s' hR hp l1 l2 s1 s2 h1 h2

/-- Why a jump target must block the pair rewrite: entered at its SECOND instruction, the original
    `const w` replaces the top of the stack while the rewritten `push w` adds a value — from the
    same state the two leave data stacks of different heights. -/
theorem entering_pair_at_second_differs (w : JV) (x : ExtRec) (l : L) (v : V) :
    ∃ e1 e2, exec (.const w) x l (initSt v []).env = .ok (.fall, l) e1 ∧
      exec (.push w) x l (initSt v []).env = .ok (.fall, l) e2 ∧
      e1.stack.index = 0 ∧ e2.stack.index = 1 :=
  ⟨_, _, rfl, rfl, rfl, rfl⟩

/-- A `jump` to the next instruction → `nop`: one turn from the SAME state gives the SAME result
    (state, locals, poll counter), cancelled or not.  HYPOTHESIS: the instruction is `jump`, not
    `jumpifnot` — `jumpifnot` pops, `nop` does not; the pass does not distinguish them, the compiler
    never emits a `jumpifnot` to its own successor (static scan `wfCheck`, and the harness). -/
theorem jump_to_next_sim (P P' : Params) (i : Nat) (hj : P.code[i]? = some (.jump ((i : Int) + 1)))
    (hcode : P'.code = P.code.set! i .nop) (hext : P'.ext = P.ext) (hcan : P'.cancelled = P.cancelled)
    (l : L) (hl : l.pc = i) (s : St) : step P' l s = step P l s :=
  jumpnext_turn P P' i hj hcode hext hcan l hl s

/-- The excluded case is really different: `jumpifnot` to its successor pops, `nop` does not. -/
theorem jumpifnot_to_next_is_not_nop (t : Int) (x : ExtRec) (l : L) (v : V) :
    ∃ e1, exec (.jumpifnot t) x l (initSt v []).env = .ok (if v matches .jv .null | .jv (.bool false) then .jump else .fall,
        if v matches .jv .null | .jv (.bool false) then { l with pc := t } else l) e1 ∧
      e1.stack.index = -1 ∧
      exec .nop x l (initSt v []).env = .ok (.fall, l) (initSt v []).env ∧ (initSt v []).env.stack.index = 0 := by
  refine ⟨{ (initSt v []).env with stack := { (initSt v []).env.stack with index := -1 } }, ?_, rfl, rfl, rfl⟩
  simp only [exec]
  cases v with
  | jv j =>
    cases j with
    | null => rfl
    | bool b => cases b <;> rfl
    | _ => rfl
  | _ => rfl

/-- Jump threading: `jump t` / `jumpifnot t` whose target holds `jump u` → the same opcode with
    operand `u`.  From the SAME state: either the turn does not take the jump (it falls through, or
    fails) and both codes give the same result; or the original takes two turns — to `t`, then to
    `u` — where the threaded code takes one, ending in the same environment and locals, one poll
    earlier. -/
theorem jump_threading_sim (P P' : Params) (i : Nat) (j : Instr) (t u : Int) (hj : P.code[i]? = some j)
    (hjt : jumpTgt j = some t) (ht0 : 0 ≤ t) (htj : P.code[t.toNat]? = some (.jump u))
    (hcode : P'.code = P.code.set! i (retarget j u)) (hext : P'.ext = P.ext)
    (hnc : ∀ k, P.cancelled k = false) (hnc' : ∀ k, P'.cancelled k = false)
    (l : L) (hl : l.pc = i) (s : St) :
    step P' l s = step P l s ∨
    ∃ e1, step P l s = .cont { l with pc := t } ⟨e1, s.polls + 1⟩ ∧
      step P { l with pc := t } ⟨e1, s.polls + 1⟩ = .cont { l with pc := u } ⟨e1, s.polls + 2⟩ ∧
      step P' l s = .cont { l with pc := u } ⟨e1, s.polls + 1⟩ :=
  thread_turn P P' i j t u hj hjt ht0 htj hcode hext hnc hnc' l hl s

/-! ### 3. control hygiene: why nothing lands between the two instructions of a merged pair -/

/-- How return addresses, saved fork pcs and closures are covered.  `HygEnv B e` says: no closure
    value `[2]int{B, _}` on the data stack or in a variable slot, no scope frame whose return
    address `r` has `r = B` or `r + 1 = B`, no pending fork whose saved pc is `B`.  Under the static
    conditions `StaticOK B c` (no jump / fork / call / pushpc OPERAND is `B`; the instructions at
    `B - 1` and `B` are not fork-like, `call` or `callpc`, so they never save their own pc; `B` is
    neither 0 nor the last pc) and an oracle that does not answer such a closure, one turn from a
    hygienic state at a pc other than `B` keeps the state hygienic, and the next pc is `B` only
    by falling through from `B - 1`; a call that ends properly saves a pc other than `B`. -/
theorem no_entry_into_pair {B : Int} {c : Array Instr} (S : StaticOK B c) (x : ExtRec) (hx : ExtOK B x)
    (l : L) (e : Env) (he : HygEnv B e) (hc : PcOK B l.callpc) (herr : ErrOK B l.err) (hpc : l.pc ≠ B) :
    match stepE c x l e with
    | .cont l' e' => HygEnv B e' ∧ PcOK B l'.callpc ∧ ErrOK B l'.err ∧ (l'.pc ≠ B ∨ l'.pc = l.pc + 1)
    | .fin o e' => o.proper = true → HygEnv B e' ∧ e'.pc ≠ B := by
  have := stepE_hyg S x hx l e he hc herr hpc
  cases h : stepE c x l e with
  | cont l' e' => rw [h] at this; exact this
  | fin o e' => rw [h] at this; exact this

/-- The hygiene holds in `execute`'s initial state on JSON values, for every `B`. -/
theorem initial_state_hygienic (B : Int) (input : JV) (vars : List JV) :
    HygEnv B (initJ input vars).env ∧ EnvRel (initJ input vars).env (initJ input vars).env :=
  ⟨initJ_hyg B input vars, initSt_envRel _ _⟩

/-! ### 4. whole runs -/

/-- One pair rewrite preserves outputs.  For ANY code `c` with a push-like instruction at `i` and
    `pop` / `const w` at `i + 1` such that no control transfer can land on `i + 1`
    (`StaticOK (i+1) c`): from `execute`'s initial state on a JSON input, under every call-indexed
    oracle that never answers a closure, at every fuel, if the first `n` calls of `Next` on `c` end
    properly then the rewritten code gives the same `n` outcomes (values, errors, `(nil, false)`). -/
theorem pair_rewrite_preserves_outputs (c : Array Instr) (i : Nat) (a b b' : Instr) (ha : c[i]? = some a)
    (hpl : isPushLike a = true) (hb : c[i + 1]? = some b) (hbb : PairSecond b b')
    (S : StaticOK ((i : Int) + 1) c) (ext : Nat → ExtRec) (hext : ExtClean ext) (fuel n : Nat)
    (input : JV) (vars : List JV)
    (hp : ∀ o ∈ historyC c ext fuel n (initJ input vars), o.proper = true) :
    historyC ((c.set! i .nop).set! (i + 1) b') ext fuel n (initJ input vars) =
      historyC c ext fuel n (initJ input vars) :=
  pair_refines c i a b b' ha hpl hb hbb S ext hext fuel n input vars hp

/-- A `jump` to the next instruction → `nop` preserves outputs, for any code. -/
theorem jump_to_next_preserves_outputs (c : Array Instr) (i : Nat) (hj : c[i]? = some (.jump ((i : Int) + 1)))
    (ext : Nat → ExtRec) (hext : ExtClean ext) (fuel n : Nat) (input : JV) (vars : List JV)
    (hp : ∀ o ∈ historyC c ext fuel n (initJ input vars), o.proper = true) :
    historyC (c.set! i .nop) ext fuel n (initJ input vars) = historyC c ext fuel n (initJ input vars) :=
  jumpnext_refines c i hj ext hext fuel n input vars hp

/-- Threading one jump preserves outputs, for any code: at the SAME fuel (the threaded run needs
    fewer turns) and under the SAME call-indexed oracle (a `jump` consumes no answer). -/
theorem jump_threading_preserves_outputs (c : Array Instr) (i : Nat) (j : Instr) (t u : Int)
    (hj : c[i]? = some j) (hjt : jumpTgt j = some t) (ht0 : 0 ≤ t) (htj : c[t.toNat]? = some (.jump u))
    (ext : Nat → ExtRec) (hext : ExtClean ext) (fuel n : Nat) (input : JV) (vars : List JV)
    (hp : ∀ o ∈ historyC c ext fuel n (initJ input vars), o.proper = true) :
    historyC (c.set! i (retarget j u)) ext fuel n (initJ input vars) =
      historyC c ext fuel n (initJ input vars) :=
  thread_refines c i j t u hj hjt ht0 htj ext hext fuel n input vars hp

/-- THE WHOLE PASS.  For every code `c` that passes the static scan `wfCheck` (every call / callrec
    / pushpc operand is a `scope` instruction; the last instruction is `ret`; no `jumpifnot` targets
    its successor) and every `c'` with `optV c = some c'`: from `execute`'s initial state on any JSON
    input and variable values, for every recorded sequence of native answers `ext` (call-indexed,
    never a closure), at every fuel, if the first `n` calls of `Next` on `c` end properly, the
    optimised code returns the same `n` outcomes — the same emitted values in the same order, the
    same terminal error, the same `(nil, false)`.
    The pass is a composition of single rewrites of the CURRENT code (`stepV_cases`); the loop
    invariant `CodeInv` provides each rewrite's side conditions: the operands of all jump / fork
    instructions of the current code stay inside the set `targets` computed before the loop
    (threading only copies operands of existing jumps), which is what the `targets[i+1]` test
    relies on; call / pushpc operands keep pointing at `scope` instructions; unvisited positions
    still hold the original instructions (so a jump-to-next is a `jump`). -/
theorem optimizeCodeOps_preserves_outputs (c c' : Array Instr) (hwf : wfCheck c = true)
    (hopt : optV c = some c') (ext : Nat → ExtRec) (hext : ExtClean ext) (fuel n : Nat)
    (input : JV) (vars : List JV)
    (hp : ∀ o ∈ historyC c ext fuel n (initJ input vars), o.proper = true) :
    historyC c' ext fuel n (initJ input vars) = historyC c ext fuel n (initJ input vars) :=
  optV_refines (wfCheck_sound hwf) hopt ext hext fuel n input vars hp

/-- THE TIE to the pass model: for every interpreter code `c`, running `Opt.optimizeCodeOps`
    (Model/Optimize.lean, the model the `codeops` stream validates against the real compiler) on
    the dumped instruction list `c.map view` gives the dump of `optV c` — up to the dead operands
    the pass model leaves on instructions it turned into `nop` (`normNop`) — and the two fail (Go
    panic: nil successor, index out of range) on exactly the same codes. -/
theorem optV_agrees_with_pass_model (c : Array Instr) :
    (Opt.optimizeCodeOps (c.map view)).map (Array.map normNop) = (optV c).map (Array.map view) :=
  optV_view c

/-- The static scan can be run on the DUMPED instruction list (what a driver stream of the check
    sees): `wfCheckView` on `c.map view` is `wfCheck c`. -/
theorem static_scan_on_dump (c : Array Instr) : wfCheckView (c.map view) = wfCheck c :=
  wfCheckView_view c

/-- The two oracle indexings describe the same runs.  Every poll-indexed run of `VM.history` under a
    context that is never cancelled is the call-indexed run under `callOracle` (the records read by
    answer-consuming instructions, in order), and every call-indexed run is the poll-indexed run
    under `pollOracle` (each poll gets the record at the current call index) — for every code, fuel,
    number of calls and state. -/
theorem call_and_poll_indexing_agree (code : Array Instr) (ext : Nat → ExtRec) (fuel n : Nat) (s : St) :
    historyC code (callOracle code ext fuel n s) fuel n ⟨s.env, 0⟩ = history ⟨code, never, ext⟩ fuel n s ∧
    history ⟨code, never, pollOracle code ext fuel n s⟩ fuel n ⟨s.env, 0⟩ = historyC code ext fuel n s :=
  ⟨historyC_callOracle code ext fuel n s, history_pollOracle code ext fuel n s⟩

/-- THE WHOLE PASS, on `VM.history` itself (poll-indexed oracle, `context.Background()`): if the first
    `n` calls of `Next` on `c` under the recorded answers `ext` end properly, then the optimised
    code returns the same `n` outcomes under the oracle that presents THE SAME answers, in the same
    order, at the polls where the optimised run consumes them —
    `pollOracle c' (callOracle c ext …)`: the answers the original run consumed (`callOracle`),
    re-keyed to the polls of the optimised run (`pollOracle`).  The re-keying is needed because
    jump threading removes polls. -/
theorem optimizeCodeOps_preserves_outputs_polls (c c' : Array Instr) (hwf : wfCheck c = true)
    (hopt : optV c = some c') (ext : Nat → ExtRec) (hext : ExtClean ext) (fuel n : Nat)
    (input : JV) (vars : List JV)
    (hp : ∀ o ∈ history ⟨c, never, ext⟩ fuel n (initJ input vars), o.proper = true) :
    history ⟨c', never, pollOracle c' (callOracle c ext fuel n (initJ input vars)) fuel n (initJ input vars)⟩
        fuel n (initJ input vars) =
      history ⟨c, never, ext⟩ fuel n (initJ input vars) := by
  have hs0 : (⟨(initJ input vars).env, 0⟩ : St) = initJ input vars := rfl
  have hA := historyC_callOracle c ext fuel n (initJ input vars)
  have hB := history_pollOracle c' (callOracle c ext fuel n (initJ input vars)) fuel n (initJ input vars)
  rw [hs0] at hA hB
  have hclean : ExtClean (callOracle c ext fuel n (initJ input vars)) := by
    intro k B
    rcases callOracle_mem c ext fuel n (initJ input vars) k with ⟨j, hj⟩ | hnone
    · rw [hj]; exact hext j B
    · unfold ExtOK; rw [hnone]; trivial
  have hmain := optimizeCodeOps_preserves_outputs c c' hwf hopt _ hclean fuel n input vars
    (by rw [hA]; exact hp)
  rw [hB, hmain, hA]

/-- `loopC` IS `VM.loop`'s turn function: one turn of `stepC` is one turn of `VM.step` under a
    never-cancelled context, with the oracle read at the call counter and the counter advanced
    only by answer-consuming instructions. -/
theorem stepC_is_step (code : Array Instr) (ext : Nat → ExtRec) (l : L) (s : St) :
    stepC code ext l s = Step.setPolls (s.polls + tickAt code l) (step ⟨code, never, ext⟩ l s) := rfl

/-- what one iteration of the backward loop of the pass can do to the current code: nothing, one
    pair rewrite (only when `targets[i+1]` is false), one jump-to-next rewrite, or one threading -/
theorem pass_iteration_cases {T : Array Bool} {a a' : Array Instr} {i : Nat} (h : stepV T a i = some a') :
    a' = a ∨
    (∃ x b b', a[i]? = some x ∧ isPushLike x = true ∧ T.getD (i + 1) false = false ∧
      a[i + 1]? = some b ∧ PairSecond b b' ∧ a' = (a.set! i .nop).set! (i + 1) b') ∨
    (∃ j, a[i]? = some j ∧ jumpTgt j = some ((i : Int) + 1) ∧ a' = a.set! i .nop) ∨
    (∃ j t u, a[i]? = some j ∧ jumpTgt j = some t ∧ 0 ≤ t ∧ a[t.toNat]? = some (.jump u) ∧
      a' = a.set! i (retarget j u)) :=
  stepV_cases h

/-! ### non-vacuity and the tie of `optV` to `Opt.optimizeCodeOps`, on concrete bytecode -/

def num (k : Int) : JV := .num (.int k)
/-- `3 as $x | $x` -/
def codeAs : Array Instr := #[.scope 1 1 0, .dup, .const (num 3), .store 1 0, .load 1 0, .ret]
/-- `(3 as $x | $x), 1`: the `dup; const` pair directly after a fork -/
def codeFork : Array Instr :=
  #[.scope 1 1 0, .fork 7, .dup, .const (num 3), .store 1 0, .load 1 0, .jump 8, .const (num 1), .ret]
/-- jumps: 1 → 3 → 5 is threaded, 4 → 5 is a jump to the next instruction -/
def codeJumps : Array Instr := #[.scope 1 0 0, .jump 3, .nop, .jump 5, .jump 5, .const (num 1), .ret]
/-- the shape of the repaired defect D11: `load; const` whose `const` is a join point (target of
    the jump at 5) — the pass must keep it -/
def codeJoin : Array Instr :=
  #[.scope 1 1 0, .dup, .store 1 0, .fork 6, .const (num 1), .jump 8, .nop, .load 1 0, .const (num 2), .ret]
/-- `. as $x | 7` with a `push; pop` pair (hand-written) -/
def codePushPop : Array Instr := #[.scope 1 0 0, .push (num 9), .pop, .const (num 7), .ret]

def noExt : Nat → ExtRec := fun _ => {}
/-- an oracle that answers nothing (programs without native calls) is clean -/
theorem noExt_clean : ExtClean noExt := fun _ _ => trivial
/-- an oracle whose answers are JSON values and errors carrying JSON values is clean -/
theorem json_answers_clean (ext : Nat → ExtRec)
    (h : ∀ k, match (ext k).call with
      | some (.val (.jv _)) => True
      | some (.err (.value (.jv _))) => True
      | some (.err (.msg _)) => True
      | some .iterEnd => True
      | none => True
      | _ => False) : ExtClean ext := by
  intro k B
  have := h k
  unfold ExtOK
  cases hc : (ext k).call with
  | none => trivial
  | some r =>
    rw [hc] at this
    cases r with
    | iterEnd => trivial
    | val w => cases w <;> first | rfl | exact this.elim
    | err er =>
      cases er with
      | value v => cases v <;> first | rfl | exact this.elim
      | msg m => rfl
      | _ => exact this.elim
def ops (c : Option (Array Instr)) : Option (List (String × Option Int)) :=
  c.map fun a => a.toList.map fun i => (opName i, intOperand i)
def tags (hs : List Outcome) : List Nat := hs.map Outcome.tag   -- 0 value 1 error 2 done 4 panic
def viewed (c : Array Instr) : Option (Array Opt.Instr) := (optV c).map (Array.map view)
def viaModel (c : Array Instr) : Option (Array Opt.Instr) :=
  (Opt.optimizeCodeOps (c.map view)).map (Array.map normNop)

-- what the pass does to the examples
example : ops (optV codeAs) = some [("scope", none), ("nop", none), ("push", none), ("store", none), ("load", none), ("ret", none)] := by decide +kernel
example : ops (optV codeFork) = some [("scope", none), ("fork", some 7), ("nop", none), ("push", none), ("store", none),
    ("load", none), ("jump", some 8), ("const", none), ("ret", none)] := by decide +kernel
example : ops (optV codeJumps) = some [("scope", none), ("jump", some 5), ("nop", none), ("jump", some 5), ("nop", none),
    ("const", none), ("ret", none)] := by decide +kernel
example : ops (optV codeJoin) = ops (some codeJoin) := by decide +kernel
example : ops (optV codePushPop) = some [("scope", none), ("nop", none), ("nop", none), ("const", none), ("ret", none)] := by decide +kernel

-- `optV` agrees with the pass model `Opt.optimizeCodeOps` through the dump `view` (instances of
-- `optV_agrees_with_pass_model`, re-checked by evaluation)
example : viaModel codeAs = viewed codeAs := by decide +kernel
example : viaModel codeFork = viewed codeFork := by decide +kernel
example : viaModel codeJumps = viewed codeJumps := by decide +kernel
example : viaModel codeJoin = viewed codeJoin := by decide +kernel
example : viaModel codePushPop = viewed codePushPop := by decide +kernel

-- the hypotheses of `optimizeCodeOps_preserves_outputs` hold on the examples …
example : wfCheck codeAs = true ∧ wfCheck codeFork = true ∧ wfCheck codeJumps = true ∧ wfCheck codeJoin = true ∧
    wfCheck codePushPop = true := by decide +kernel
example : tags (historyC codeAs noExt 50 3 (initJ .null [])) = [0, 2, 2] := by decide +kernel
example : tags (historyC codeFork noExt 50 4 (initJ .null [])) = [0, 0, 2, 2] := by decide +kernel
example : tags (historyC codeJumps noExt 50 3 (initJ .null [])) = [0, 2, 2] := by decide +kernel
example : tags (historyC codeJoin noExt 50 4 (initJ .null [])) = [0, 0, 2, 2] := by decide +kernel

/-- outcomes tagged value / error / done are proper -/
theorem proper_of_tags {hs : List Outcome} (h : (tags hs).all (fun t => t ≤ 2) = true) :
    ∀ o ∈ hs, o.proper = true := by
  intro o ho
  simp only [tags, List.all_map, List.all_eq_true] at h
  have := h o ho
  cases o <;> simp [Outcome.tag] at this <;> rfl

-- … so the theorem applies, e.g. to `(3 as $x | $x), 1`:
example (c' : Array Instr) (h : optV codeFork = some c') :
    historyC c' noExt 50 4 (initJ .null []) = historyC codeFork noExt 50 4 (initJ .null []) :=
  optimizeCodeOps_preserves_outputs codeFork c' (by decide +kernel) h noExt noExt_clean 50 4 .null []
    (proper_of_tags (by decide +kernel))

/-- `3 as $x | $x | tostring`: a merged pair followed by a native call -/
def codeNative : Array Instr :=
  #[.scope 1 1 0, .dup, .const (num 3), .store 1 0, .load 1 0, .callNative .other 0, .ret]
/-- the recorded answers: the first (and only) native call returns "3" -/
def extNative : Nat → ExtRec := fun k => if k = 0 then { call := some (.val (.jv (.str [51]))) } else {}
/-- … a clean oracle -/
theorem extNative_clean : ExtClean extNative := by
  apply json_answers_clean
  intro k
  unfold extNative
  by_cases h : k = 0 <;> simp [h]

-- the original run consumes the answer at call index 0 (poll 5) and ends properly; the theorem applies
example : tags (historyC codeNative extNative 50 3 (initJ .null [])) = [0, 2, 2] := by decide +kernel
example (c' : Array Instr) (h : optV codeNative = some c') :
    historyC c' extNative 50 3 (initJ .null []) = historyC codeNative extNative 50 3 (initJ .null []) :=
  optimizeCodeOps_preserves_outputs codeNative c' (by decide +kernel) h extNative extNative_clean 50 3 .null []
    (proper_of_tags (by decide +kernel))

/-- State equality FAILS on real bytecode: after the first value of `(3 as $x | $x), 1` the data
    stack of the original run stands at slot 1 (the `dup` copied the input above the fork's limit),
    that of the optimised run at slot 0 — same outputs, related (`EnvRel`) but different states. -/
theorem state_equality_fails :
    (nextC codeFork noExt 50 (initJ .null [])).2.env.stack.index = 1 ∧
    ((optV codeFork).map fun c' => (nextC c' noExt 50 (initJ .null [])).2.env.stack.index) = some 0 := by
  decide +kernel

-- … and `push; pop` leaves a block in the array that `nop; nop` never allocates
example : (nextC codePushPop noExt 50 (initJ .null [])).2.env.stack.data.size = 2 ∧
    ((optV codePushPop).map fun c' => (nextC c' noExt 50 (initJ .null [])).2.env.stack.data.size) = some 1 := by
  decide +kernel

-- the hypotheses of the single-rewrite theorems hold at the rewritten positions of the examples
example : codeFork[2]? = some .dup ∧ isPushLike .dup = true ∧ codeFork[2 + 1]? = some (.const (num 3)) ∧
    PairSecond (.const (num 3)) (.push (num 3)) := ⟨rfl, rfl, rfl, .inr ⟨_, rfl, rfl⟩⟩
example : codeJumps[4]? = some (.jump ((4 : Nat) + 1)) := rfl
example : codeJumps[1]? = some (.jump 3) ∧ jumpTgt (.jump 3) = some 3 ∧ codeJumps[(3 : Int).toNat]? = some (.jump 5) :=
  ⟨rfl, rfl, rfl⟩
/-- the same recorded answer as `extNative`, keyed by the poll at which the ORIGINAL code consumes it -/
def extNativePolls : Nat → ExtRec := fun p => if p = 5 then { call := some (.val (.jv (.str [51]))) } else {}
/-- … a clean oracle -/
theorem extNativePolls_clean : ExtClean extNativePolls := by
  apply json_answers_clean
  intro k
  unfold extNativePolls
  by_cases h : k = 5 <;> simp [h]
-- the poll-indexed whole-pass theorem applies to `3 as $x | $x | tostring` with the answer recorded at poll 5
example : tags (history ⟨codeNative, never, extNativePolls⟩ 50 3 (initJ .null [])) = [0, 2, 2] := by decide +kernel
example (c' : Array Instr) (h : optV codeNative = some c') :
    history ⟨c', never, pollOracle c' (callOracle codeNative extNativePolls 50 3 (initJ .null [])) 50 3 (initJ .null [])⟩
        50 3 (initJ .null []) =
      history ⟨codeNative, never, extNativePolls⟩ 50 3 (initJ .null []) :=
  optimizeCodeOps_preserves_outputs_polls codeNative c' (by decide +kernel) h extNativePolls extNativePolls_clean
    50 3 .null [] (proper_of_tags (by decide +kernel))
-- threading shortens the run by one poll under poll indexing (why the whole-run theorems use the call index)
example : (next ⟨codeJumps, never, noExt⟩ 50 (initJ .null [])).2.polls = 5 ∧
    ((optV codeJumps).map fun c' => (next ⟨c', never, noExt⟩ 50 (initJ .null [])).2.polls) = some 4 := by
  decide +kernel
-- the two turns of the original pair at pc 2 of `codeFork` from the state reached after `scope; fork`
def Step.isCont : Step → Bool | .cont _ _ => true | .fin _ _ => false
example : (match step ⟨codeFork, never, noExt⟩ { pc := 0, callpc := 8, index := -1, backtrack := false, err := none } (initJ .null []) with
    | .cont l1 s1 => (match step ⟨codeFork, never, noExt⟩ l1 s1 with
      | .cont l2 s2 => (match step ⟨codeFork, never, noExt⟩ l2 s2 with
        | .cont l3 s3 => decide (l2.pc = 2) && Step.isCont (step ⟨codeFork, never, noExt⟩ l3 s3)
        | _ => false)
      | _ => false)
    | _ => false) = true := by decide +kernel
-- `StaticOK` at the merged pair of `codeFork` (B = 3): no operand is 3, pcs 2 and 3 save nothing, 3 + 1 < 9
example : ∀ pc ∈ List.range codeFork.size, ∀ ins, codeFork[pc]? = some ins →
    staticTarget ins ≠ some 3 ∧ (savesPc ins = true → pc ≠ 2 ∧ pc ≠ 3) := by decide +kernel

end Gojq.C04Sim

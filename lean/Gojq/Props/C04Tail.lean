/-
  C04 — compiler optimisations never change what a query outputs: the SEMANTIC theorems about the
  tail-call pass `(*compiler).optimizeTailRec`, stated over the interpreter model of C07
  (Model/VM.lean, a transliteration of `(*env).Next`), next to Props/C04Sim.lean (the peephole pass).
  Property theorems only; the lemmas are in Gojq/Proofs/TailSim*.lean, the glue definitions in
  Gojq/Model/TailVM.lean.

  The pass turns a self call `call f` whose continuation leads, through jumps only, to `ret`
    (a) into `jump f+1` when `f`'s scope has neither variables nor arguments (`scope [id, 0, 0]`);
    (b) into `callrec f` when it has variables but no arguments.
  What is PROVED here is case (a), in general (forks pending at the call included), for programs that
  create no closures; what is not is listed at `optimizeTailRec_preserves_outputs_partial`.

  Reading guide.
  * `optTailV` is `Opt.optimizeTailRec` restated on interpreter code; `optTailV_agrees_with_pass_model`
    proves that the two agree through the dump `view` on EVERY code (the pass model itself is tied to
    the real compiler by the `tailrec` translation-validation stream of the C04 check).
  * The runs are NOT in lock-step.  The original pushes a scope frame at every rewritten call and
    pops it just before the caller's own `ret`; the optimised run never has that frame.  Everything
    except the scope stack and the scope positions saved in forks is EQUAL in the two runs (`TRel`);
    the original's scope chain is the optimised chain with DROPPED frames interleaved (`SR`).
    Why dropping them is unobservable — what can read a frame, and what the pass's conditions give:
      - `opload` / `opstore` / `opappend` / `opforklabel` reach a frame through `env.index` (the walk
        along `outerindex`).  A dropped frame belongs to a scope without variables, and no instruction
        names such a scope (`Dead`, scanned by `tailShapeCheck`); for every other id the walk from the
        two tops finds the same slot (`LEq`): the `outerindex` that `opscope` computes makes a frame
        TRANSPARENT for every id but its own (`Lk.push`), whatever the frame below is.
      - `opret` pops it: its return address leads by jumps to `ret` (`JumpsToRet`, the pass's test),
        so the original comes back to a `ret` with the same data stack; the optimised run waits at
        its `ret` meanwhile (`Mode.detour`).  Popping it while free restores the `offset` in force,
        because it was pushed with `offset` unchanged (no variables): `SR.drop`.
      - forks save scope-stack positions: corresponding forks save positions whose chains are again
        related, with the limits and offsets they saved (`FkRel`); stack.go's protection invariant
        (`FWs`) keeps saved chains from being overwritten on both sides although the two arrays are
        laid out differently.  `popscope`'s "free" test (`index > limit`) agrees on kept frames.
      - `oppushpc` / `opcallpc` capture and use a frame POSITION; positions differ in the two runs, and
        a closure called after its frame's slot has been reused tells them apart:
        `stale_closure_tells_the_runs_apart` — hence the hypothesis `closureFree`.
  * What a proof of the remaining cases needs (worked out, not built): (i) the LAYOUT invariant of
    `env.values`, best stated positionally — for all scope blocks at or below `max(index, limit)`,
    lower blocks own lower variable ranges and every range ends at or below `env.offset` (each fork
    records the same for the prefix it protects) — which gives that a write through `env.index` never
    touches another live frame's slots; (ii) def-before-use of variable slots (a fresh frame's slots
    hold whatever the previous owner left; the two runs differ there as soon as closures or
    `callrec` are involved); (iii) for closures: every closure in an argument slot of a frame
    captured that frame's `saveindex` (the caller), which is why it is live whenever it is called —
    this needs the argument-passing protocol (pushpc … call; scope; store …) as a static discipline;
    (iv) for `callrec`: the frame it pops must be a frame of the SAME scope (else `opscope` links
    the new frame's `outerindex` to the slot it overwrites), i.e. the invariant "the top frame
    belongs to the function whose code is running", and a relation between the two variable arrays
    up to the address map of corresponding frames.
  * As in Props/C04Sim.lean the whole-run theorems are stated under the call-indexed oracle
    (`historyC`: the recorded native answers consumed in order) — the original makes more turns
    (call, scope, ret of dropped frames, jumps) but none of them consumes an answer — with the
    poll-indexed corollary on `VM.history` itself; and only runs of the ORIGINAL that end properly are
    claimed.
-/
import Gojq.Proofs.TailSimCheck
import Gojq.Proofs.TailSimView
import Gojq.Proofs.OptSimIndex
namespace Gojq.C04Tail
open Gojq Gojq.VM Gojq.OptVM Gojq.TailVM

/-! ### 1. the pass -/

/-- THE TIE to the pass model: for every interpreter code `c`, running `Opt.optimizeTailRec`
    (Model/Optimize.lean, the model the `tailrec` stream validates against the real compiler) on the
    dumped instruction list `c.map view` gives the dump of `optTailV c`, and the two fail (Go panic,
    or the jump-following loop does not end) on exactly the same codes. -/
theorem optTailV_agrees_with_pass_model (c : Array Instr) :
    Opt.optimizeTailRec (c.map view) = (optTailV c).map (Array.map view) :=
  optTailV_view c

/-- What the pass does, for every code whose jumps all go forward: the output has the length of the
    input and differs from it only at self tail calls — `call j` where `j` is the entry of an
    argument-free scope and the instructions after the call lead, by jumps only, to `ret` IN THE
    ORIGINAL CODE (the pass follows jumps in the code it is rewriting; behind the call nothing is
    rewritten yet) — which become `jump j+1` if the scope has no variables and `callrec j` otherwise. -/
theorem pass_rewrites_only_self_tail_calls {c c' : Array Instr}
    (hf : ∀ (i : Nat) (t : Int), c[i]? = some (.jump t) → (i : Int) < t) (h : optTailV c = some c') :
    c'.size = c.size ∧ ∀ (i : Nat) (a : Instr), c[i]? = some a → c'[i]? = some a ∨
      ∃ (j id v : Int), a = .call j ∧ 0 ≤ j ∧ c[j.toNat]? = some (.scope id v 0) ∧ JumpsToRet c ((i : Int) + 1) ∧
        ((v = 0 ∧ c'[i]? = some (.jump (j + 1))) ∨ (v ≠ 0 ∧ c'[i]? = some (.callrec j))) :=
  optTailV_spec hf h

/-- The static scans can be run on the DUMPED instruction list (what a driver stream of the check
    sees): on `c.map viewT` they are the scans on `c`. -/
theorem static_scans_on_dump (c : Array Instr) :
    tailShapeCheckView (c.map viewT) = tailShapeCheck c ∧ closureFreeView (c.map viewT) = closureFree c ∧
    noCallrecView (c.map viewT) = noCallrec c :=
  ⟨tailShapeCheckView_viewT c, closureFreeView_viewT c, noCallrecView_viewT c⟩

/-! ### 2. one turn -/

/-- Every opcode other than call / callrec / pushpc / callpc / scope / ret respects the relation: run
    from the related environments of the two runs (optimised scope stack not empty), with the same
    locals and oracle record, it fails the same way on both sides or returns the same control result
    and locals and related environments — provided a variable instruction names a scope that may have
    variables (`¬ Dead`), and a fork-pushing instruction stands at its own pc. -/
theorem every_easy_opcode_respects_TRel {c : Array Instr} (ins : Instr) (x : ExtRec) (l : L)
    (he : easy ins = true) (hD : ∀ id, varId ins = some id → ¬ Dead c id)
    (hF : forkLike ins = true → ForkAt c l.pc) (e e' : Env) (h : TRelN c e e') :
    RResT c (exec ins x l e) (exec ins x l e') :=
  exec_tcong ins x l he hD hF e e' h

/-- The locals `callpc` and `index` of `Next` are dead outside call → scope: the opcodes above neither
    read nor write them (the two runs disagree on them after a rewritten call). -/
theorem callpc_and_index_are_dead (ins : Instr) (he : easy ins = true) (x : ExtRec) (l : L) (cp ix : Int) (e : Env) :
    exec ins x (setCI l cp ix) e = mapCI cp ix (exec ins x l e) :=
  exec_setCI ins he x l cp ix e

/-- THE TURN DIAGRAM.  For codes `c`, `c'` satisfying the static conditions `TailStatic` (derived from
    the scans in section 3), from states related by `Inv`: if the original's turn ends the call
    properly, the optimised code's turn ends it with the same outcome, in related states; otherwise
    either both make one turn (consuming the same oracle record, if any) and stay related, or the
    original makes a turn ALONE — the `call` of a dropped frame, the `ret` that pops one, a `jump` on
    the way to the next `ret` — which consumes no oracle record, and the states stay related. -/
theorem tail_turn_diagram {c c' : Array Instr} (S : TailStatic c c') (x : ExtRec) {lo lp : L} {eo ep : Env}
    (h : Inv c c' lo lp eo ep) :
    match stepE c x lo eo with
    | .fin o ef => o.proper = true →
        ∃ ef', stepE c' x lp ep = .fin o ef' ∧ FRel c c' ef ef' ∧ tickAt c lo = tickAt c' lp
    | .cont lo1 eo1 =>
      (∃ lp1 ep1, stepE c' x lp ep = .cont lp1 ep1 ∧ Inv c c' lo1 lp1 eo1 ep1 ∧ tickAt c lo = tickAt c' lp) ∨
      (Inv c c' lo1 lp eo1 ep ∧ tickAt c lo = 0) :=
  step_sim S x h

/-! ### 3. whole runs -/

/-- ANY set of rewritten tail calls.  For codes `c`, `c'` of the same length where `c'` differs from
    `c` only at calls `call j` of a variable-free, argument-free scope `j` whose continuation leads by
    jumps to `ret`, replaced by `jump j+1` (`TailStatic.site`), and `c` is closure-free and shaped
    like compiler output (the other fields of `TailStatic`): from `execute`'s initial state on any
    input and variable values, under every call-indexed oracle, at every fuel, if the first `n` calls
    of `Next` on `c` end properly then `c'` returns the same `n` outcomes. -/
theorem tail_calls_to_jumps_preserve_outputs {c c' : Array Instr} (S : TailStatic c c') (ext : Nat → ExtRec)
    (fuel n : Nat) (input : V) (vars : List V)
    (hp : ∀ o ∈ historyC c ext fuel n (initSt input vars), o.proper = true) :
    historyC c' ext fuel n (initSt input vars) = historyC c ext fuel n (initSt input vars) :=
  tail_refines S ext fuel n input vars hp

/-- The static scans give the conditions of the simulation: for code that passes `tailWfCheck` and the
    output of the pass when it contains no `callrec`. -/
theorem scans_give_static_conditions {c c' : Array Instr} (hwf : tailWfCheck c = true)
    (hopt : optTailV c = some c') (hnc : noCallrec c' = true) : TailStatic c c' :=
  tailStatic_of_check hwf hopt hnc

/-- THE FULL STATEMENT one would like, over ALL code that passes the shape scan (closures allowed,
    both rewrites): FALSE — see `optimizeTailRec_on_all_shape_checked_code_counterexample`.  For code
    with closures the property needs an invariant of the COMPILER that no scan of this kind
    expresses (a closure is only called while the frame it captured is live); for compiler output
    it is decided by the model-free differential oracle of the C04 check (pass switched off vs on). -/
def optimizeTailRec_preserves_outputs_on_all_shape_checked_code : Prop :=
  ∀ (c c' : Array Instr), tailShapeCheck c = true → optTailV c = some c' →
    ∀ (ext : Nat → ExtRec), ExtClean ext → ∀ (fuel n : Nat) (input : JV) (vars : List JV),
      (∀ o ∈ historyC c ext fuel n (initJ input vars), o.proper = true) →
      historyC c' ext fuel n (initJ input vars) = historyC c ext fuel n (initJ input vars)

/-- THE PASS, proved part.  For every code `c` that passes the static scan `tailWfCheck` —
    `tailShapeCheck`: not empty, first instruction `scope`, last `ret`; every `call` operand is a
    `scope`; every other `scope` is preceded by a `jump` and is no jump / fork target (a function
    entry is only reached by a call); every `jump` goes forward; no load / store / append /
    forklabel names a scope without variables and arguments; no `callrec` yet — and
    `closureFree`: no `pushpc`, no `callpc` —
    and every `c'` with `optTailV c = some c'` in which every rewritten call became a jump
    (`noCallrec c'`): from `execute`'s initial state on any JSON input and variable values, for every
    recorded sequence of native answers `ext` (call-indexed; whatever they are), at every fuel, if the
    first `n` calls of `Next` on `c` end properly, the optimised code returns the same `n` outcomes —
    the same emitted values in the same order, the same terminal error, the same `(nil, false)`.
    Forks pending at the rewritten call are covered (e.g. `def r: ., (.[]? | r); r`, the shape of
    `recurse`).
    GAP to `optimizeTailRec_preserves_outputs_on_all_shape_checked_code` restricted to compiler
    output: (1) programs with closures (`pushpc` / `callpc`: every function with parameters and
    every builtin defined in jq with a filter argument) — not provable from a static scan, see the
    counterexample; (2) case (b), `callrec` (functions with variables): there the optimised run
    reuses the caller's variable slots, so the two runs lay out `env.values` differently — a
    relation up to an address map, not built here; `tailrec_frame_reuse` (Props/C20TailRec.lean)
    is what is proved about it; (3) runs on which the original panics or leaves the model. -/
theorem optimizeTailRec_preserves_outputs_partial (c c' : Array Instr) (hwf : tailWfCheck c = true)
    (hopt : optTailV c = some c') (hnc : noCallrec c' = true) (ext : Nat → ExtRec) (fuel n : Nat)
    (input : JV) (vars : List JV)
    (hp : ∀ o ∈ historyC c ext fuel n (initJ input vars), o.proper = true) :
    historyC c' ext fuel n (initJ input vars) = historyC c ext fuel n (initJ input vars) :=
  tail_refines (tailStatic_of_check hwf hopt hnc) ext fuel n (.jv input) (vars.map .jv) hp

/-- … on `VM.history` itself (poll-indexed oracle, `context.Background()`): the optimised code returns
    the same `n` outcomes under the oracle that presents THE SAME answers, in the same order, at the
    polls where the optimised run consumes them (`pollOracle c' (callOracle c ext …)`, as in
    `optimizeCodeOps_preserves_outputs_polls`): the optimised run makes fewer polls. -/
theorem optimizeTailRec_preserves_outputs_partial_polls (c c' : Array Instr) (hwf : tailWfCheck c = true)
    (hopt : optTailV c = some c') (hnc : noCallrec c' = true) (ext : Nat → ExtRec) (fuel n : Nat)
    (input : JV) (vars : List JV)
    (hp : ∀ o ∈ history ⟨c, never, ext⟩ fuel n (initJ input vars), o.proper = true) :
    history ⟨c', never, pollOracle c' (callOracle c ext fuel n (initJ input vars)) fuel n (initJ input vars)⟩
        fuel n (initJ input vars) =
      history ⟨c, never, ext⟩ fuel n (initJ input vars) := by
  have hs0 : (⟨(initJ input vars).env, 0⟩ : St) = initJ input vars := rfl
  have hA := historyC_callOracle c ext fuel n (initJ input vars)
  have hB := history_pollOracle c' (callOracle c ext fuel n (initJ input vars)) fuel n (initJ input vars)
  rw [hs0] at hA hB
  have hmain := optimizeTailRec_preserves_outputs_partial c c' hwf hopt hnc _ fuel n input vars
    (by rw [hA]; exact hp)
  rw [hB, hmain, hA]

/-! ### non-vacuity, on real bytecode (dumped with `gojq.VerifCodes`, both whole-code passes off) -/

def num (k : Int) : JV := .num (.int k)
def noExt : Nat → ExtRec := fun _ => {}
def tags (hs : List Outcome) : List Nat := hs.map Outcome.tag   -- 0 value 1 error 2 done 4 panic
def dump (c : Option (Array Instr)) : Option (Array Opt.Instr) := c.map (Array.map view)

/-- `def r: ., (.[]? | r); r` — the shape of `recurse`: the tail call at 10 is made with the fork of
    the comma (3) and of `.[]?` (5, 6) pending -/
def codeRec : Array Instr :=
  #[.scope 1 0 0, .jump 12, .scope 2 0 0, .fork 5, .jump 11, .forktrybegin 9, .iter, .forktryend, .jump 10,
    .backtrack, .call 2, .ret, .call 2, .ret]
/-- what the real compiler emits with the pass on -/
def codeRecOpt : Array Instr :=
  #[.scope 1 0 0, .jump 12, .scope 2 0 0, .fork 5, .jump 11, .forktrybegin 9, .iter, .forktryend, .jump 10,
    .backtrack, .jump 3, .ret, .call 2, .ret]
/-- `def f: if .a then .a | f else . end; f` — the tail call at 9 reaches `ret` through the jump at 10 -/
def codeIf : Array Instr :=
  #[.scope 1 0 0, .jump 12, .scope 2 0 0, .dup, .expbegin, .index (.str [97]), .expend, .jumpifnot 11,
    .index (.str [97]), .call 2, .jump 11, .ret, .call 2, .ret]
/-- `def f: if . < 3 then . + 1 | f else . end; 0 | f` — `f` has two variables (the operands of the
    comparison): the pass makes the call at 17 a `callrec`, the case that is NOT proved -/
def codeLt : Array Instr :=
  #[.scope 1 0 0, .jump 20, .scope 2 2 0, .dup, .expbegin, .store 2 0, .push (num 3), .load 2 0, .load 2 0,
    .callNative .other 2, .expend, .jumpifnot 19, .store 2 1, .push (num 1), .load 2 1, .load 2 1,
    .callNative .other 2, .call 2, .jump 19, .ret, .const (num 0), .call 2, .ret]

-- what the pass does to the examples
example : dump (optTailV codeRec) = dump (some codeRecOpt) := by decide +kernel
example : (dump (optTailV codeIf)).map (fun a => (a[9]?).map (fun i => (i.op, i.tgt))) =
    some (some ("jump", some 3)) := by decide +kernel
example : (dump (optTailV codeLt)).map (fun a => (a[17]?).map (fun i => (i.op, i.tgt))) =
    some (some ("callrec", some 2)) := by decide +kernel
-- instances of `optTailV_agrees_with_pass_model`, re-checked by evaluation
example : Opt.optimizeTailRec (codeRec.map view) = dump (optTailV codeRec) := by decide +kernel
example : Opt.optimizeTailRec (codeLt.map view) = dump (optTailV codeLt) := by decide +kernel
-- the hypotheses of `optimizeTailRec_preserves_outputs_partial` hold on the jump examples, not on `codeLt`
example : tailWfCheck codeRec = true ∧ tailWfCheck codeIf = true ∧ tailWfCheck codeLt = true := by decide +kernel
example : (optTailV codeRec).map noCallrec = some true ∧ (optTailV codeIf).map noCallrec = some true ∧
    (optTailV codeLt).map noCallrec = some false := by decide +kernel
-- `[[1], 2] | recurse`: four values, then `(nil, false)`
example : tags (historyC codeRec noExt 300 6 (initJ (.arr [.arr [num 1], num 2]) [])) = [0, 0, 0, 0, 2, 2] := by
  decide +kernel

/-- outcomes tagged value / error / done are proper -/
theorem proper_of_tags {hs : List Outcome} (h : (tags hs).all (fun t => t ≤ 2) = true) :
    ∀ o ∈ hs, o.proper = true := by
  intro o ho
  simp only [tags, List.all_map, List.all_eq_true] at h
  have := h o ho
  cases o <;> simp [Outcome.tag] at this <;> rfl

/-- the pass output contains no `callrec`, read off the evaluated scan -/
theorem noCallrec_of_map {c c' : Array Instr} (h : optTailV c = some c')
    (hm : (optTailV c).map noCallrec = some true) : noCallrec c' = true := by
  rw [h] at hm
  simpa using hm

-- … so the theorem applies to the output of the pass:
example (c' : Array Instr) (h : optTailV codeRec = some c') :
    historyC c' noExt 300 6 (initJ (.arr [.arr [num 1], num 2]) []) =
      historyC codeRec noExt 300 6 (initJ (.arr [.arr [num 1], num 2]) []) :=
  optimizeTailRec_preserves_outputs_partial codeRec c' (by decide +kernel) h
    (noCallrec_of_map h (by decide +kernel)) noExt 300 6 _ [] (proper_of_tags (by decide +kernel))
-- … and the pass does produce an output:
example : (optTailV codeRec).isSome = true ∧ (optTailV codeIf).isSome = true := by decide +kernel

/-- the recorded answers for `{"a":{"a":null}} | f` with `codeIf`: `.a` three times -/
def extIf : Nat → ExtRec := fun k =>
  if k = 0 then { call := some (.val (.jv (.obj [([97], .null)]))) }
  else if k = 1 then { call := some (.val (.jv (.obj [([97], .null)]))) }
  else if k = 2 then { call := some (.val (.jv .null)) }
  else {}
example : tags (historyC codeIf extIf 300 3 (initJ (.obj [([97], .obj [([97], .null)])]) [])) = [0, 2, 2] := by
  decide +kernel
example (c' : Array Instr) (h : optTailV codeIf = some c') :
    historyC c' extIf 300 3 (initJ (.obj [([97], .obj [([97], .null)])]) []) =
      historyC codeIf extIf 300 3 (initJ (.obj [([97], .obj [([97], .null)])]) []) :=
  optimizeTailRec_preserves_outputs_partial codeIf c' (by decide +kernel) h
    (noCallrec_of_map h (by decide +kernel)) extIf 300 3 _ [] (proper_of_tags (by decide +kernel))

/-- The two runs are NOT in the same state: after the third value of `[[1], 2] | recurse` the original
    run has four frames on its scope stack, the optimised run two. -/
theorem scope_stacks_differ :
    (afterC codeRec noExt 300 3 (initJ (.arr [.arr [num 1], num 2]) [])).env.scopes.data.size = 4 ∧
    (afterC codeRecOpt noExt 300 3 (initJ (.arr [.arr [num 1], num 2]) [])).env.scopes.data.size = 2 := by
  decide +kernel

/-! ### why the hypotheses are needed -/

/-- A hand-written code that passes the shape scan but creates closures: `f` (scope 3, no variables)
    stores a closure `[2]int{L, scopes.index}` in a variable of the main scope at every turn and calls
    itself in tail position once; later `h` calls the stored closure, whose body reads `h`'s variable. -/
def codeStale : Array Instr :=
  #[.scope 1 1 0, .jump 5, .scope 2 0 0, .load 5 0, .ret, .jump 13, .scope 3 0 0, .pushpc 2, .store 1 0,
    .jumpifnot 12, .push .null, .call 6, .ret, .jump 17, .scope 4 0 0, .call 18, .ret, .jump 24,
    .scope 5 1 0, .push (num 42), .store 5 0, .load 1 0, .callpc, .ret, .call 6, .call 14, .ret]

/-- WHY `closureFree`.  `codeStale` passes the shape scan; the pass rewrites exactly the tail call at
    11 into `jump 7` (no `callrec`); on input `true` the original emits a value and ends, the
    optimised code panics (`env.index`): the closure captured scope-stack POSITION 2 in the original
    run (the dropped frame) and 1 in the optimised run; when it is called, those slots hold `h`'s
    frame and `g`'s frame respectively. -/
theorem stale_closure_tells_the_runs_apart :
    tailShapeCheck codeStale = true ∧ closureFree codeStale = false ∧
    (optTailV codeStale).map noCallrec = some true ∧
    tags (historyC codeStale noExt 300 2 (initJ (.bool true) [])) = [0, 2] ∧
    (optTailV codeStale).map (fun c' => tags (historyC c' noExt 300 2 (initJ (.bool true) []))) = some [4, 4] := by
  decide +kernel

/-- … so the full statement over all shape-checked code is false. -/
theorem optimizeTailRec_on_all_shape_checked_code_counterexample :
    ¬ optimizeTailRec_preserves_outputs_on_all_shape_checked_code := by
  intro h
  have hw := stale_closure_tells_the_runs_apart
  cases hopt : optTailV codeStale with
  | none => rw [hopt] at hw; simp at hw
  | some c' =>
    have := h codeStale c' hw.1 hopt noExt (fun _ _ => trivial) 300 2 (.bool true) []
      (proper_of_tags (by rw [hw.2.2.2.1]; decide))
    have h5 := hw.2.2.2.2
    rw [hopt] at h5
    simp only [Option.map_some, Option.some.injEq] at h5
    rw [this, hw.2.2.2.1] at h5
    exact absurd h5 (by decide)

/-- WHY "the first instruction is `scope`" (part of `tailShapeCheck`).  Entered with an EMPTY scope
    stack, the rewritten call differs: the original's dropped frame is the only frame, its `ret`
    empties the scope stack and returns a value; the optimised run's `ret` finds no frame. -/
def codeEmpty : Array Instr := #[.jump 3, .scope 1 0 0, .jumpifnot 5, .call 1, .ret, .ret]
theorem empty_scope_stack_tells_the_runs_apart :
    tailShapeCheck codeEmpty = false ∧
    tags (historyC codeEmpty noExt 300 2 (initJ (num 7) [.null])) = [0, 2] ∧
    (optTailV codeEmpty).map (fun c' => tags (historyC c' noExt 300 2 (initJ (num 7) [.null]))) = some [4, 2] := by
  decide +kernel

end Gojq.C04Tail

/-
  C17 — reported error positions point at the offending byte.
  Property theorems only; definitions of the specification vocabulary (`termEndsAt`, `termsBefore`,
  `lineStart`, `trueLine`, `NoLoneCR`, `WinInv`, `traceOK`) and helper lemmas are in
  Gojq/Proofs/LineInfo.lean; the model is Gojq/Model/Cli/{LineInfo,Window}.lean.

  Vocabulary. A line terminator is LF, CRLF or a lone CR — this is what `stringScanner.next`
  (hence `getLineByOffset`) implements; `termEndsAt s i` says a terminator's last byte is `s[i]`.
  `termsBefore s p` = number of terminators ending at or before byte `p`; `lineStart s p` = end of
  the last of them; `trueLine s p` = the bytes from there up to the next LF/CR.
  The window / re-read bookkeeping of cli/inputs.go counts `'\n'` only, so its statements carry
  the hypothesis `NoLoneCR` (LF or CRLF terminators); `window_lone_cr_counterexample` shows the
  hypothesis is necessary (a finding reported by the harness under `lone-cr-window-linecount`).
-/
import Gojq.Proofs.LineInfoRunes
namespace Gojq.C17
open Gojq Gojq.Cli

/-! ## 1. `getLineByOffset`: line number, excerpt, caret -/

/-- **Line number.** For every non-empty text, every width function and every 1-based offset
    `q+1 ≥ 1`: the reported line is 1 + the number of line terminators (LF, CRLF, lone CR) that end
    at or before the offending byte `q` (an offset beyond the text counts as its last byte — the
    `io.ErrUnexpectedEOF` case passes `len+1`). -/
theorem lineinfo_line (w : Nat → Nat) (str : Bytes) (hne : str ≠ []) (q : Nat) :
    (getLineByOffset w str ((q : Int) + 1)).2.1 = 1 + termsBefore str (min q (str.length - 1)) := by
  obtain ⟨rel, heq, _⟩ := getLineByOffset'_spec str hne q
  simp only [getLineByOffset, heq]

/-- Offsets ≤ 0 (what `queryParseError.Error` / `jsonParseError.Error` pass when the error carries
    no position) are treated as offset 1: first line, caret at its first column. -/
theorem lineinfo_nonpositive (w : Nat → Nat) (str : Bytes) (off : Int) (h : off ≤ 0) :
    getLineByOffset w str off = getLineByOffset w str 1 :=
  getLineByOffset_nonpos w str off h

/-- **Excerpt and caret, every byte string.** With `p` the offending byte, `L` its line and `o0` its
    position within `L` (the line end if it is a terminator byte or lies beyond the text):
    the excerpt is `L[a : a+|excerpt|]`; `a = 0` when `o0 ≤ 48`, otherwise `o0-51 ≤ a ≤ o0-48`
    (48 bytes of context, less at most 3 bytes to reach a rune boundary); it is at most 64 bytes
    long, at least 61 when the line goes on that far, else it runs to within 3 bytes of the line end;
    the caret is computed from the excerpt's first `k` bytes, `k` reaches to within 3 bytes before
    the offending byte and never beyond it (or is the whole excerpt); the column is the width
    `Σ w` of those `k` bytes. -/
theorem lineinfo_excerpt (w : Nat → Nat) (str : Bytes) (hne : str ≠ []) (q : Nat) :
    let p := min q (str.length - 1)
    let L := trueLine str p
    let o0 := min (q - lineStart str p) L.length
    let ex := (getLineByOffset w str ((q : Int) + 1)).1
    let col := (getLineByOffset w str ((q : Int) + 1)).2.2
    ∃ a k : Nat,
      ex = (L.drop a).take ex.length ∧ a + ex.length ≤ L.length ∧
      a ≤ o0 ∧ (o0 ≤ 48 → a = 0) ∧ (48 < o0 → o0 ≤ a + 51 ∧ a + 48 ≤ o0) ∧
      ex.length ≤ 64 ∧ (64 ≤ L.length - a → 61 ≤ ex.length) ∧ (L.length - a < 64 → L.length ≤ a + ex.length + 3) ∧
      k ≤ ex.length ∧ a + k ≤ o0 ∧ (o0 ≤ a + k + 3 ∨ k = ex.length) ∧
      col = strWidth w (ex.take k) := by
  obtain ⟨rel, heq, hrel⟩ := getLineByOffset'_spec str hne q
  obtain ⟨a, hex⟩ := excerpt_spec (trueLine str (min q (str.length - 1))) rel
  simp only [getLineByOffset, heq]
  simp only [hrel] at hex
  obtain ⟨h1, h2, h3, h4, h5, h6, h7, h8, h9, h10, h11⟩ := hex
  exact ⟨a, _, h1, h2, h3, h4, h5, h6, h7, h8, h9, h10, h11, rfl⟩

/-- **`lineinfo_correct` — valid UTF-8 lines, offending byte inside a rune.** For every non-empty
    text, width function and 1-based offset `q+1`: if the offending byte's line is a sequence of
    complete runes (`RuneChunk`: byte chunks `utf8.DecodeRune` accepts as one rune, U+FFFD included
    since the fix 0d1dca4, see `lineinfo_ufffd_regression`) and the offending byte is byte `j` of the rune `c`, then
    `getLineByOffset` returns: the line number 1 + terminators before the byte; an excerpt made of
    whole runes — a suffix `pre'` of the runes before `c`, `c` itself, a prefix `post'` of the runes
    after it (so it is a substring of the line that contains the offending rune and is cut on rune
    boundaries); and the column `Σ w` over the runes of `pre'`, i.e. the caret stands under the
    first column of the offending rune. -/
theorem lineinfo_correct (w : Nat → Nat) (str : Bytes) (hne : str ≠ []) (q : Nat)
    (pre post : List Bytes) (c : Bytes) (j : Nat)
    (hline : trueLine str (min q (str.length - 1)) = (pre ++ c :: post).flatten)
    (hrunes : ∀ x, x ∈ pre ++ c :: post → RuneChunk x) (hj : j < c.length)
    (hpos : q - lineStart str (min q (str.length - 1)) = pre.flatten.length + j) :
    ∃ pre1 pre' post' post'' : List Bytes, pre = pre1 ++ pre' ∧ post = post' ++ post'' ∧
      getLineByOffset w str ((q : Int) + 1) =
        ((pre' ++ c :: post').flatten, 1 + termsBefore str (min q (str.length - 1)),
         (pre'.map (fun x => w (Utf8.decodeRune x).1)).sum) := by
  obtain ⟨rel, heq, hrel⟩ := getLineByOffset'_spec str hne q
  have hLlen : (pre ++ c :: post).flatten.length = pre.flatten.length + c.length + post.flatten.length := by
    simp [List.flatten_append, Nat.add_assoc]
  rw [hline, hpos, hLlen] at hrel
  have hoff : (max (rel - 1) 0).toNat = pre.flatten.length + j := by omega
  obtain ⟨pre1, pre', post', post'', h1, h2, hex⟩ := excerpt_runes pre post c j rel hrunes hj hoff
  refine ⟨pre1, pre', post', post'', h1, h2, ?_⟩
  simp only [getLineByOffset, heq, hline, hex]
  have htake : (pre' ++ c :: post').flatten.take pre'.flatten.length = pre'.flatten := by
    rw [List.flatten_append, List.take_left]
  rw [htake, strWidth_flatten w pre' (fun x hx => hrunes x (by rw [h1]; simp [hx]))]

/-- **`lineinfo_correct` — offending position at the line end** (the offending byte is a terminator
    byte, or the offset lies beyond the text as for `io.ErrUnexpectedEOF`): the excerpt is a suffix
    `pre'` of the line's runes and the column is the width of all of it (caret after the last rune). -/
theorem lineinfo_correct_line_end (w : Nat → Nat) (str : Bytes) (hne : str ≠ []) (q : Nat) (cs : List Bytes)
    (hline : trueLine str (min q (str.length - 1)) = cs.flatten)
    (hrunes : ∀ x, x ∈ cs → RuneChunk x)
    (hpos : cs.flatten.length ≤ q - lineStart str (min q (str.length - 1))) :
    ∃ pre1 pre' : List Bytes, cs = pre1 ++ pre' ∧
      getLineByOffset w str ((q : Int) + 1) =
        (pre'.flatten, 1 + termsBefore str (min q (str.length - 1)), (pre'.map (fun x => w (Utf8.decodeRune x).1)).sum) := by
  obtain ⟨rel, heq, hrel⟩ := getLineByOffset'_spec str hne q
  rw [hline] at hrel
  have hoff : cs.flatten.length ≤ (max (rel - 1) 0).toNat := by omega
  obtain ⟨pre1, pre', h1, hex⟩ := excerpt_runes_end cs rel hrunes hoff
  refine ⟨pre1, pre', h1, ?_⟩
  simp only [getLineByOffset, heq, hline, hex, List.take_length]
  rw [strWidth_flatten w pre' (fun x hx => hrunes x (by rw [h1]; simp [hx]))]

/-- Regression witness for the defect fixed in 0d1dca4: a literal U+FFFD (EF BF BD, valid UTF-8)
    right before the offending byte used to be taken for an invalid rune and trimmed from the
    caret's prefix. With `["<U+FFFD><TAB>"]` and the error at the TAB (offset 6) the caret's prefix
    is now `["<U+FFFD>`, column 3 (it was column 2). Instance of `lineinfo_correct`. -/
theorem lineinfo_ufffd_regression :
    getLineByOffset (fun _ => 1) [0x5B, 0x22, 0xEF, 0xBF, 0xBD, 0x09, 0x22, 0x5D] 6
      = ([0x5B, 0x22, 0xEF, 0xBF, 0xBD, 0x09, 0x22, 0x5D], 1, 3) ∧
    RuneChunk [0xEF, 0xBF, 0xBD] := by
  exact ⟨by decide, by decide, by decide⟩

/-- ASCII lines, byte-exact form: the excerpt is exactly `L[o0-48 : o0-48+64]`, the caret's byte
    index is exactly the offending byte's position in the excerpt (or the excerpt's end when the
    offending position is the line end), and the column is the sum of the widths of the bytes
    before it. (Subsumed by `lineinfo_correct` for the rune structure; kept because it gives the
    window arithmetic explicitly.) -/
theorem lineinfo_correct_ascii (w : Nat → Nat) (L : Bytes) (h : ∀ b, b ∈ L → b.toNat < 0x80) (off : Int) :
    let o0 := min (max (off - 1) 0).toNat L.length
    let ex := (L.drop (o0 - 48)).take 64
    excerpt L off = (ex, min (o0 - (o0 - 48)) ex.length) ∧
    (o0 < L.length → o0 - (o0 - 48) < ex.length ∧ ex[o0 - (o0 - 48)]? = L[o0]?) ∧
    strWidth w (ex.take (min (o0 - (o0 - 48)) ex.length)) =
      ((ex.take (min (o0 - (o0 - 48)) ex.length)).map (fun b => w b.toNat)).sum := by
  refine ⟨excerpt_ascii L h off, ?_, ?_⟩
  · intro hlt
    have hlen : ((L.drop (min (max (off - 1) 0).toNat L.length - 48)).take 64).length
        = min 64 (L.length - (min (max (off - 1) 0).toNat L.length - 48)) := by
      rw [List.length_take, List.length_drop]
    refine ⟨by omega, ?_⟩
    rw [List.getElem?_take_of_lt (by omega), List.getElem?_drop]
    congr 1; omega
  · exact strWidth_ascii w _ (fun b hb => h b (List.mem_of_mem_drop (List.mem_of_mem_take (List.mem_of_mem_take hb))))

/-- `formatLineInfo`: the caret is printed under column `column` of the excerpt — the second line
    is indented by exactly the length of the first line's `"    <line> | "` prefix plus `column`. -/
theorem format_caret (linestr : Bytes) (line column : Nat) :
    let pfx := spaces 4 ++ Bytes.ofString (toString line) ++ [32, 124, 32]
    formatLineInfo linestr line column = pfx ++ linestr ++ [LF] ++ spaces (pfx.length + column) ++ [94] := by
  simp only [formatLineInfo, padCaret, spaces, List.append_assoc, List.length_append, List.length_replicate,
    List.length_cons, List.length_nil]
  rw [← List.append_assoc (List.replicate 4 _) (List.replicate _ _), List.replicate_append_replicate]
  have e : 4 + (column + (Bytes.ofString (toString line)).length + 4 - 1)
      = 4 + ((Bytes.ofString (toString line)).length + (0 + 1 + 1 + 1)) + column := by omega
  rw [e]

/-- **YAML (fix faf5fb2): the character index go-yaml reports is converted to the byte offset of
    that character.** On a text made of complete runes `cs`, `yamlParseError.Error` for character
    index `i` resolves the position of the first byte of rune number `i` (the end of the text when
    there are fewer runes); an error without an index yields no position at all. -/
theorem yaml_char_index (w : Nat → Nat) (cs : List Bytes) (h : ∀ c, c ∈ cs → RuneChunk c) (i : Nat) :
    yamlReport w cs.flatten (i : Int) =
      (let r := getLineByOffset w cs.flatten (((cs.take i).flatten.length : Nat) + 1)
       some { multi := true, line := r.2.1, linestr := r.1, column := r.2.2 }) ∧
    yamlReport w cs.flatten (-1) = none := by
  constructor
  · simp only [yamlReport]
    rw [if_neg (by omega)]
    simp only [Int.toNat_natCast]
    rw [charToByte_flatten cs h _ _ _ (Nat.le_refl _), Nat.zero_add]
  · rfl

/-! ## 2. The window over non-seekable input (`jsonInputIter.Next`, as fixed) -/

/-- **Window invariant.** For every input, every threshold and every event sequence a decoder can
    produce (reads of any sizes; value ends monotone and within what has been read): the run
    never panics, `offset` is the absolute offset of `buf[0]` (`buf = inp[offset : offset+|buf|]`),
    `line` is the number of `'\n'` before `offset`, and `offset ≤` the end of the last decoded
    value — so every offset at which the decoder can still report an error lies inside `buf`. -/
theorem window_invariant (inp : Bytes) (thr : Nat) (evs : List Ev) (h : traceOK inp.length 0 0 evs) :
    ∃ s, Win.run (Win.step thr) (Win.init inp) evs = some s ∧ WinInv inp s (traceEnd 0 evs) :=
  window_run evs (Win.init inp) 0 (WinInv.init inp) (by simpa [Win.init] using h)

/-- **Hence the reported line is the true line**: after any such event sequence, an error raised at
    absolute 1-based offset `F` beyond the last decoded value and within the bytes read, on a text
    with LF / CRLF terminators, is reported with the line number of byte `F-1` of the whole input. -/
theorem window_reports_true_line (w : Nat → Nat) (inp : Bytes) (thr : Nat) (evs : List Ev)
    (h : traceOK inp.length 0 0 evs) (hcr : NoLoneCR inp) (F : Nat) :
    ∃ s, Win.run (Win.step thr) (Win.init inp) evs = some s ∧
      (traceEnd 0 evs < F → F ≤ s.offset + s.buf.length →
        (s.report w (.syntax F)).line = 1 + termsBefore inp (F - 1)) := by
  obtain ⟨s, hrun, hinv⟩ := window_invariant inp thr evs h
  exact ⟨s, hrun, fun h1 h2 => window_report_line w hinv F h1 h2 hcr⟩

def cexInput : Bytes := [49, 10, 120, 10, 51, 10, 52, 10]   -- "1\nx\n3\n4\n"
def cexTrace : List Ev := [.read 8, .decoded 1]              -- all 8 bytes read ahead, value `1` returned

/-- **The window reset as it was before the fix violates the invariant** (D8): it drops the bytes
    the decoder has read ahead, so `offset` passes the end of the last decoded value and the error
    at byte 2 (`x`, line 2) is reported as line 4 with an empty excerpt; the fixed step keeps them
    and reports line 2 with excerpt `x`. (Threshold 4 instead of 16384 keeps the witness small.) -/
theorem window_old_counterexample :
    traceOK cexInput.length 0 0 cexTrace ∧
    (∃ s, Win.run (Win.stepOld 4) (Win.init cexInput) cexTrace = some s ∧ ¬ s.offset ≤ traceEnd 0 cexTrace ∧
      s.report (fun _ => 1) (.syntax 3) = { multi := true, line := 4, linestr := [], column := 0 }) ∧
    (∃ s, Win.run (Win.step 4) (Win.init cexInput) cexTrace = some s ∧
      s.report (fun _ => 1) (.syntax 3) = { multi := true, line := 2, linestr := [120], column := 0 }) ∧
    1 + termsBefore cexInput 2 = 2 := by
  refine ⟨by simp [traceOK, cexInput, cexTrace], ⟨{ offset := 8, line := 4, buf := [], rest := [] }, by decide, by decide, by decide⟩,
    ⟨{ offset := 1, line := 0, buf := [10, 120, 10, 51, 10, 52, 10], rest := [] }, by decide, by decide⟩, by decide⟩

def crInput : Bytes := [49, 13, 50, 13, 51, 13, 120, 13]   -- "1\r2\r3\rx\r"
def crTrace : List Ev := [.read 5, .decoded 1, .decoded 3, .read 3, .decoded 5]

/-- **`NoLoneCR` is necessary**: with lone-CR terminators the (fixed) window advances over `\r`
    bytes without counting them, while `getLineByOffset` ends a line at each: the error at byte 6
    (`x`, line 4) is reported as line 2. -/
theorem window_lone_cr_counterexample :
    traceOK crInput.length 0 0 crTrace ∧
    (∃ s, Win.run (Win.step 4) (Win.init crInput) crTrace = some s ∧
      (s.report (fun _ => 1) (.syntax 7)).line = 2) ∧
    1 + termsBefore crInput 6 = 4 := by
  refine ⟨by simp [traceOK, crInput, crTrace], ⟨{ offset := 5, line := 0, buf := [13, 120, 13], rest := [] }, by decide, by decide⟩, by decide⟩

/-! ## 3. Seekable input: the chunked re-read of `getContents` -/

/-- **Loop invariant of the re-read.** For every file, every buffer size ≥ 4 and every offset:
    `getContents(&offset, &line)` returns `contents = inp[pos : pos+bs]` for a position `pos` with
    `pos + offset' = offset` (the relative offset names the same byte), `line' =` number of `'\n'`
    before `pos`, and — when the offset lies inside the file — `1 ≤ offset' ≤ bs·3/4`, so the
    offending byte is inside `contents` with at least `bs/4` bytes of context before it whenever
    anything was skipped. -/
theorem seekable_reread (bs : Nat) (hbs : 4 ≤ bs) (inp : Bytes) (F : Nat) :
    ∃ pos : Nat, ∃ off' : Int, ∃ line' : Nat,
      getContentsSeek bs inp F 0 = ((inp.drop pos).take bs, off', line') ∧
      pos ≤ inp.length ∧ (pos : Int) + off' = F ∧ line' = countLF (inp.take pos) ∧
      (1 ≤ F → F ≤ inp.length → 1 ≤ off' ∧ off' ≤ ((bs * 3 / 4 : Nat) : Int) ∧ off' ≤ ((inp.drop pos).take bs).length) ∧
      (pos = 0 ∨ ((bs / 4 : Nat) : Int) ≤ off') := by
  obtain ⟨pos', off', line', heq, _, hp2, hsum, hline, hsmall, hlow⟩ :=
    rereadLoop_spec bs hbs inp ((F : Int).toNat + 1) 0 F 0 (Nat.zero_le _) (by omega)
  refine ⟨pos', off', line', by simp only [getContentsSeek, heq], hp2, by omega, by rw [hline]; simp, ?_, ?_⟩
  · intro h1 h2
    rw [List.length_take, List.length_drop]
    rcases hsmall with h | h <;> rcases hlow with h' | h' <;> omega
  · rcases hlow with h' | h'
    · left; omega
    · right; exact h'

/-- **Hence the reported line is the true line** for seekable input with LF / CRLF terminators. -/
theorem seekable_reports_true_line (w : Nat → Nat) (bs : Nat) (hbs : 4 ≤ bs) (inp : Bytes) (F : Nat)
    (h1 : 1 ≤ F) (h2 : F ≤ inp.length) (hcr : NoLoneCR inp) :
    (seekReport w bs inp (.syntax F)).line = 1 + termsBefore inp (F - 1) :=
  seek_report_line w bs hbs inp F h1 h2 hcr

/-! ## Non-vacuity -/
example : ((-3 : Int) ≤ 0) := by decide
example : getLineByOffset (fun _ => 1) [97, 98, 13, 10, 99, 100, 10, 101, 102] 6 = ([99, 100], 2, 1) := by decide
example : termsBefore [97, 98, 13, 10, 99, 100, 10, 101, 102] 5 = 1 ∧ trueLine [97, 98, 13, 10, 99, 100, 10, 101, 102] 5 = [99, 100] := by decide
example : ([97, 98] : Bytes) ≠ [] ∧ (∀ b, b ∈ ([97, 98] : Bytes) → b.toNat < 0x80) := by decide
example : NoLoneCR [97, 13, 10, 98] := by
  intro j hj
  match j with
  | 0 => simp [CR] at hj
  | 1 => rfl
  | 2 => simp [CR] at hj
  | 3 => simp [CR] at hj
  | j + 4 => simp at hj
example : traceOK 8 0 0 [.read 8, .decoded 1, .decoded 3] := by simp [traceOK]
example : RuneChunk [0xE6, 0xBC, 0xA2] ∧ RuneChunk [0x61] :=
  ⟨⟨by decide, by decide⟩, ⟨by decide, by decide⟩⟩
-- `lineinfo_correct`'s hypotheses are satisfiable: "a漢b" (61 E6BCA2 62), offending byte = 2nd byte of 漢
example : trueLine [0x61, 0xE6, 0xBC, 0xA2, 0x62] (min 2 4) = (([[0x61]] : List Bytes) ++ [0xE6, 0xBC, 0xA2] :: [[0x62]]).flatten ∧
    2 - lineStart [0x61, 0xE6, 0xBC, 0xA2, 0x62] (min 2 4) = ([[0x61]] : List Bytes).flatten.length + 1 := by decide
example : getLineByOffset (fun r => if r = 0x6F22 then 2 else 1) [0x61, 0xE6, 0xBC, 0xA2, 0x62] 3
    = ([0x61, 0xE6, 0xBC, 0xA2, 0x62], 1, 1) := by decide

end Gojq.C17

/-
  C10 — the same exactness statements as Props/C10.lean, but about the definitions REGENERATED on
  every run from operator.go (Generated/IntFns.lean, translator `verifgen intfns`): the `int`
  callbacks of funcOpAdd/Sub/Mul/Div/Mod and `negate`, with Go's wrapping `+ - * / %` spelled out.
  If one of the hand-written overflow tests is edited, these theorems are re-checked against the
  edited test.
-/
import Gojq.Props.C10
import Gojq.Generated.IntFns
namespace Gojq.C10Code
open Gojq Gojq.GoInt Gojq.Generated.IntFns

theorem wrap64_inRange (x : Int) : InRange (wrap64 x) := (wrap64_eq x).choose_spec.2

/-- the shipped `negate` is the model's `negateInt` -/
theorem negate_is_model (v : Int) : (negate v).val = some (negateInt v) := by
  unfold negate negateInt
  by_cases h : v = minInt <;> simp [h, R.val]

/-- the shipped int callback of `+` is the model's `addInt` -/
theorem add_is_model (l r : Int) : (opAddInt l r).val = some (addInt l r) := by
  unfold opAddInt addInt
  simp only []
  split <;> rename_i h <;> simp_all [R.val]

theorem sub_is_model (l r : Int) : (opSubInt l r).val = some (subInt l r) := by
  unfold opSubInt subInt
  simp only []
  split <;> rename_i h <;> simp_all [R.val]

theorem mul_is_model (l r : Int) : (opMulInt l r).val = some (mulInt l r) := by
  unfold opMulInt mulInt
  by_cases h1 : r = -1
  · simp [h1, negate_is_model]
  · simp only [h1, decide_false, Bool.false_eq_true, if_false]
    split <;> rename_i h <;> simp_all [R.val]

/-- `-v` through the shipped `negate` is exact for every Go int, and a Go int result is in range -/
theorem negate_code_exact (v : Int) (hv : InRange v) : (negate v).val = some (-v) ∧ (negate v).Honest := by
  refine ⟨by rw [negate_is_model, negateInt_exact hv], ?_⟩
  unfold negate; split
  · trivial
  · exact wrap64_inRange _

/-- the shipped int fast path of `+` returns the exact sum for all Go ints (either as an int that
    did not wrap or promoted to *big.Int) -/
theorem add_code_exact (l r : Int) (hl : InRange l) (hr : InRange r) :
    (opAddInt l r).val = some (l + r) ∧ (opAddInt l r).Honest := by
  refine ⟨by rw [add_is_model, addInt_exact hl hr], ?_⟩
  unfold opAddInt; simp only []; split
  · exact wrap64_inRange _
  · trivial

theorem sub_code_exact (l r : Int) (hl : InRange l) (hr : InRange r) :
    (opSubInt l r).val = some (l - r) ∧ (opSubInt l r).Honest := by
  refine ⟨by rw [sub_is_model, subInt_exact hl hr], ?_⟩
  unfold opSubInt; simp only []; split
  · exact wrap64_inRange _
  · trivial

theorem mul_code_exact (l r : Int) (hl : InRange l) (hr : InRange r) :
    (opMulInt l r).val = some (l * r) ∧ (opMulInt l r).Honest := by
  refine ⟨by rw [mul_is_model, mulInt_exact hl hr], ?_⟩
  unfold opMulInt; split
  · exact (negate_code_exact l hl).2
  · simp only []; split
    · exact wrap64_inRange _
    · trivial

/-- the shipped int callback of `/`: an error exactly for a zero divisor; the exact quotient when it
    is integral; otherwise the float division of the two operands -/
theorem div_code (l r : Int) (hl : InRange l) (hr : InRange r) :
    (r = 0 → opDivInt l r = .zeroDiv) ∧
    (r ≠ 0 → r ∣ l → (opDivInt l r).val = some (l / r) ∧ (opDivInt l r).Honest) ∧
    (r ≠ 0 → ¬ r ∣ l → opDivInt l r = .fdiv l r) := by
  refine ⟨fun h => by simp [opDivInt, h], fun h0 hd => ?_, fun h0 hd => ?_⟩
  · have htmod : Int.tmod l r = 0 := Int.tmod_eq_zero_of_dvd hd
    have htdiv : Int.tdiv l r = l / r := Int.tdiv_eq_ediv_of_dvd hd
    unfold opDivInt
    simp only [h0, decide_false, Bool.false_eq_true, if_false]
    by_cases h1 : r = -1
    · subst h1
      have := negate_code_exact l hl
      simp only [decide_true, if_true]
      refine ⟨by rw [this.1]; simp, this.2⟩
    · simp only [h1, decide_false, Bool.false_eq_true, if_false, goMod, htmod, decide_true, if_true]
      refine ⟨?_, wrap64_inRange _⟩
      simp only [R.val, goDiv]
      rw [wrap64_of_inRange (tdiv_inRange hl h1), htdiv]
  · have hne : Int.tmod l r ≠ 0 := fun h => hd (Int.dvd_of_tmod_eq_zero h)
    have h1 : r ≠ -1 := fun h => hd (by subst h; exact ⟨-l, by omega⟩)
    unfold opDivInt
    simp [h0, h1, goMod, hne]

/-- the shipped int callback of `%`: an error exactly for a zero divisor, else the truncated
    remainder (sign of the dividend), always a Go int in range -/
theorem mod_code (l r : Int) (hl : InRange l) :
    (r = 0 → opModInt l r = .zeroMod) ∧
    (r ≠ 0 → (opModInt l r).val = some (Int.tmod l r) ∧ (opModInt l r).Honest) := by
  refine ⟨fun h => by simp [opModInt, h], fun h0 => ?_⟩
  unfold opModInt
  simp only [h0, decide_false, Bool.false_eq_true, if_false]
  by_cases h1 : r = -1
  · subst h1
    simp only [decide_true, if_true, R.val, R.Honest]
    refine ⟨by simp, by unfold InRange minInt maxInt; omega⟩
  · simp only [h1, decide_false, Bool.false_eq_true, if_false, R.val, R.Honest, goMod]
    refine ⟨trivial, ?_⟩
    obtain ⟨s1, s2, _⟩ := C10.tmod_sign l r h0
    have h2 := Int.natAbs_tmod l r
    have h3 : l.natAbs % r.natAbs ≤ l.natAbs := Nat.mod_le _ _
    unfold InRange minInt maxInt at *
    rcases Int.le_total 0 l with hl0 | hl0
    · have := s1 hl0; omega
    · have := s2 hl0; omega

/-! Non-vacuity: the boundary cases through the generated definitions. -/
example : opAddInt maxInt 1 = .big 9223372036854775808 := by decide
example : opAddInt 1 2 = .int 3 := by decide
example : opMulInt 3037000500 3037000500 = .big 9223372037000250000 := by decide
example : opMulInt minInt (-1) = .big 9223372036854775808 := by decide
example : opSubInt minInt 1 = .big (-9223372036854775809) := by decide
example : opDivInt minInt (-1) = .big 9223372036854775808 := by decide
example : opDivInt 7 2 = .fdiv 7 2 := by decide
example : opModInt (-7) 2 = .int (-1) := by decide
example : opModInt minInt (-1) = .int 0 := by decide

end Gojq.C10Code

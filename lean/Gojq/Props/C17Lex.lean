/-
  C17.4 — `lexer_offsets` and `token_stream_positions`: the position and token of a query
  `*ParseError` identify the offending token's bytes, for every source text and every error kind.

  Model: Gojq/Model/Lexer.lean (transliteration of lexer.go: `Lex`, `next`/`skipComment`, the
  scanners, `(*lexer).Error` = `parseError`) driven by Gojq/Model/LALR.lean over the LALR tables
  regenerated from parser.go on every run; `Parse.parse src` is `gojq.Parse`.  The model is tied
  to the real lexer and parser by the `lex` correspondence stream of check C09 (≈ 50–130 k
  source texts per run, answer = ok | err Offset Token kind), and `queryReport`'s use of
  (Offset, len(Token)) by the `qerr` stream of this check.

  Vocabulary (definitions and lemmas in Gojq/Proofs/LexOffsets*.lean; none mentions a scanner):
    `slice src i j`         Go's `src[i:j]`
    `Gap g`                 `g` is white space (TAB LF CR SPACE) and `#` comments, each comment with
                            the LF / CR that ends it (`CBody`: a backslash takes a following
                            backslash, LF, CR or CR LF with it); `GapEnd g` may end inside a comment
    `StrBody b`             the inside of a string literal: bytes other than `\` and `"`, `\e` with
                            `e ∈ " / \ b f n r t`, `\uXXXX` with four hex digits
    `BadEscape t rest`      `t` is `\x` with `x` none of `" / \ b f n r t u (`, or `\u` + fewer than
                            four hex digits, the byte after it (if any) not a hex digit
    `BadNumber t rest`      `t` starts like a number and its LAST byte is the byte that made it
                            invalid (a second `.`, a letter) — `1.2.`, `1a`, `1e5x` — or it ends with
                            the exponent marker / its sign and no digit follows — `1e`, `1e+`
    `Run src s toks`        `s` is a lexer state a parse of `src` can be in: reached from
                            `newLexer(src)` by calls of `Lex` and by the parser setting `l.inString`;
                            `toks` = the tokens returned so far (start, stop = `l.offset` after the
                            call, type, what `Error` would report as Token)
    `Chain src p toks q`    the tokens follow each other from offset `p` to offset `q`

  Reading.  `e : ParseError` is `(Offset, Token, tokenType)`; the message kind is a function of
  `tokenType` (`ParseError.kind`): eof → "unexpected EOF", tokInvalid → "invalid token",
  tokInvalidEscapeSequence → "invalid escape sequence", tokUnterminatedString → "unterminated
  string literal", anything else → "unexpected token".  `s0` is the lexer state BEFORE the last
  call of `Lex`, so `s0.offset` is the end of the previous token (0 at the start).
-/
import Gojq.Proofs.LexOffsetsReport
import Gojq.Model.Cli.LineInfo
namespace Gojq.C17
open Gojq Gojq.Lexer Gojq.LALR Gojq.Generated.Lalr

/-! ## 1. the error of `Parse` is the error of the last token read -/

/-- **Tie to the parser.** For every source text: when `Parse(src)` fails, the `*ParseError` is
    the one `Error` builds right after some call of `Lex` made from a state `s0` of a run over
    `src` (the parser calls `yylex.Error` once, with the rejected look-ahead being the last token
    read — never in a state that takes its default action without a look-ahead), and that last
    token is neither `\(` nor the closing quote of an interpolated string (the only two tokens
    whose text `Lex` does not record; they are always shifted — a fact of the shipped tables). -/
theorem parse_error_is_last_token (src : Bytes) :
    match Parse.parse src with
    | .reject _ _ s' => ∃ s0, Reported src s0 (parseError s') ∧ Fresh (parseError s').tokenType
    | _ => True := by
  have h1 := parse_reject_after_lex src
  have h2 := parse_never_rejects_string_continuation src
  revert h1 h2
  cases Parse.parse src <;> simp only <;> intro h1 h2
  · trivial
  · obtain ⟨s0, toks, b, hr, he⟩ := h1
    exact ⟨s0, ⟨⟨toks, hr⟩, by rw [he]; rfl⟩, h2⟩
  · trivial

/-! ## 2. `lexer_offsets`: the reported token stands at the reported place -/

/-- **`lexer_offsets`, all kinds at once.** Whatever token the call of `Lex` returned (other
    than `\(` / the closing quote inside an interpolated string): `Offset ≤ len(src)`, the reported
    token is literally the source text that ends at the reported offset,
    `Token = src[Offset-len(Token) : Offset]`, and it lies after the end of the previous token. -/
theorem lexer_offsets (src : Bytes) (s0 : LState) (e : ParseError) (h : Reported src s0 e)
    (hf : Fresh e.tokenType) :
    e.offset ≤ src.length ∧ e.token = slice src (e.offset - e.token.length) e.offset ∧
    s0.offset ≤ e.offset - e.token.length := by
  obtain ⟨⟨toks, hr⟩, he⟩ := h
  have hat := (run_chain src s0 toks hr).1
  obtain ⟨gap, text, hstep⟩ := lex_step s0
  have hok := lex_tokOK src s0 hat gap text hstep
  have hty : e.tokenType = (lex s0).1 := by rw [he]; exact hstep.2.2.1
  rw [hty] at hf
  obtain ⟨h1, h2, h3, -, h5, -⟩ := hok
  obtain ⟨h6, h7⟩ := h5 hf
  subst he
  exact ⟨h3, h6, by simp only [parseError] at h7 ⊢; omega⟩

/-- **`lexer_offsets` for `Parse`, no hypotheses.** For every source text, if `Parse(src)` fails
    with `*ParseError{Offset, Token}` then `Offset ≤ len(src)` and
    `src[Offset-len(Token) : Offset] == Token` — what the oracle `parse-error-offsets` tests on the
    real code, here for all texts. -/
theorem parse_error_token_in_source (src : Bytes) :
    match Parse.parse src with
    | .reject _ _ s' =>
      (parseError s').offset ≤ src.length ∧
      (parseError s').token = slice src ((parseError s').offset - (parseError s').token.length) (parseError s').offset
    | _ => True := by
  have h := parse_error_is_last_token src
  revert h
  cases Parse.parse src <;> simp only <;> intro h
  · trivial
  · obtain ⟨s0, hrep, hf⟩ := h
    have := lexer_offsets src s0 _ hrep hf
    exact ⟨this.1, this.2.1⟩
  · trivial

/-! ## 3. per kind: the reported token is the offending token -/

/-- **unexpected EOF.** `Token = ""`, `Offset = len(src)`, and between the end of the previous
    token and the end of the source there is nothing but white space and comments. -/
theorem offending_eof (src : Bytes) (s0 : LState) (e : ParseError) (h : Reported src s0 e)
    (hk : e.tokenType = eof) :
    e.token = [] ∧ e.offset = src.length ∧ GapEnd (src.drop s0.offset) := by
  obtain ⟨gap, text, hstep, hdrop, hoff, hty, hrest⟩ := reported_step src s0 e h
  obtain ⟨-, -, h3, -, h5⟩ := hstep
  rw [hk] at hty
  rcases h5 with ⟨-, ht, hr, htk, hg⟩ | ⟨tok, hcl, -⟩
  · rw [hr] at hrest
    have hlen := congrArg List.length hrest
    simp only [List.length_nil, List.length_drop] at hlen
    have hle := (lexer_offsets src s0 e h (by rw [hk]; exact ⟨by decide, by decide⟩)).1
    refine ⟨?_, by omega, ?_⟩
    · rw [h.2]; simp only [parseError_eq, h3, ← hty, htk]; rfl
    · rw [hdrop, ht, ← hrest]; simpa using hg
  · exact absurd hty.symm hcl.ne_eof

/-- **invalid token.** The token is the NUL byte, or a malformed number literal (`BadNumber`:
    `1.2.`, `1a`, `1e`, `1e+`, `1e5x` — its last byte is the byte that made it invalid, or for a
    missing exponent the bytes up to where a digit had to follow).  It starts at the first byte
    after the white space and comments that follow the previous token, and ends at `Offset`. -/
theorem offending_invalid_token (src : Bytes) (s0 : LState) (e : ParseError) (h : Reported src s0 e)
    (hk : e.tokenType = tokInvalid) :
    ∃ gap, Gap gap ∧ src.drop s0.offset = gap ++ e.token ++ src.drop e.offset ∧
      e.offset = s0.offset + gap.length + e.token.length ∧
      (e.token = [0] ∨ BadNumber e.token (src.drop e.offset)) := by
  obtain ⟨gap, text, hstep, hdrop, hoff, hty, hrest⟩ := reported_step src s0 e h
  obtain ⟨-, -, h3, -, h5⟩ := hstep
  rw [hk] at hty
  rcases h5 with ⟨he, -⟩ | ⟨tok, hcl, htk, hg, -⟩
  · rw [← hty] at he; exact absurd he (by decide)
  · have hf : Fresh (lex s0).1 := by rw [← hty]; exact ⟨by decide, by decide⟩
    have hw : Whole (lex s0).1 := by rw [← hty]; exact ⟨by decide, by decide, by decide, by decide⟩
    have htext : text = e.token := by
      rw [h.2]; simp only [parseError_eq, h3, htk]
      exact (hcl.reported s0.token hf).2 hw
    rw [← htext]
    refine ⟨gap, hg, hdrop, hoff, ?_⟩
    rw [hrest] at hcl
    cases hcl with
    | single c _ h128 hty' _ _ => rw [← hty] at hty'; simp only [tokInvalid] at hty'; omega
    | plain _ hsp _ _ => exact absurd (Or.inr (Or.inl hty.symm)) hsp
    | nul _ ht _ => exact Or.inl ht
    | badNumber _ hbad _ => exact Or.inr hbad
    | badEscape _ _ _ _ _ _ hty' _ _ => rw [← hty] at hty'; exact absurd hty' (by decide)
    | unterminated _ _ _ _ hty' _ _ _ _ => rw [← hty] at hty'; exact absurd hty' (by decide)
    | strQuery _ hty' _ _ => rw [← hty] at hty'; exact absurd hty' (by decide)
    | strEnd _ hty' _ _ => rw [← hty] at hty'; exact absurd hty' (by decide)

/-- **invalid escape sequence.** The token is the malformed escape itself (`BadEscape`), the
    FIRST one of its string literal: between the end of the previous token and the token there
    are only white space / comments, the opening quote (none when the lexer was already inside an
    interpolated string, where there is no gap either) and well-formed string content. -/
theorem offending_invalid_escape (src : Bytes) (s0 : LState) (e : ParseError) (h : Reported src s0 e)
    (hk : e.tokenType = tokInvalidEscapeSequence) :
    ∃ gap opn body, Gap gap ∧ (s0.inString = true → gap = []) ∧ opn = (if s0.inString then [] else [34]) ∧
      StrBody body ∧ BadEscape e.token (src.drop e.offset) ∧
      src.drop s0.offset = gap ++ opn ++ body ++ e.token ++ src.drop e.offset ∧
      e.offset = s0.offset + gap.length + opn.length + body.length + e.token.length := by
  obtain ⟨gap, text, hstep, hdrop, hoff, hty, hrest⟩ := reported_step src s0 e h
  obtain ⟨-, -, h3, h4, h5⟩ := hstep
  rw [hk] at hty
  rcases h5 with ⟨he, -⟩ | ⟨tok, hcl, htk, hg, -⟩
  · rw [← hty] at he; exact absurd he (by decide)
  · rw [hrest] at hcl
    have big : reportedTok (lex s0).1 = fun t => t := by
      funext t; rw [← hty]; rfl
    cases hcl with
    | single c _ h128 hty' _ _ => rw [← hty] at hty'; simp only [tokInvalidEscapeSequence] at hty'; omega
    | plain _ hsp _ _ => exact absurd (Or.inr (Or.inr (Or.inl hty.symm))) hsp
    | nul hty' _ _ => rw [← hty] at hty'; exact absurd hty' (by decide)
    | badNumber hty' _ _ => rw [← hty] at hty'; exact absurd hty' (by decide)
    | badEscape opn body esc hopn hbody hesc _ htext htok =>
      have hetok : e.token = esc := by
        rw [h.2]; simp only [parseError_eq, h3, htk, htok, big]; rfl
      rw [hetok]
      refine ⟨gap, opn, body, hg, h4, hopn, hbody, hesc, by rw [hdrop, htext]; simp, ?_⟩
      rw [hoff, htext]; simp; omega
    | unterminated _ _ _ _ hty' _ _ _ _ => rw [← hty] at hty'; exact absurd hty' (by decide)
    | strQuery _ hty' _ _ => rw [← hty] at hty'; exact absurd hty' (by decide)
    | strEnd _ hty' _ _ => rw [← hty] at hty'; exact absurd hty' (by decide)

/-- **unterminated string literal.** `Token = ""`, `Offset = len(src)` (the place where the
    closing quote is missing), and the rest of the source after the previous token is: white
    space / comments, the opening quote (none inside an interpolated string), and well-formed
    string content up to the very end — possibly followed by one lone backslash — with no closing
    quote and no `\(` in it. -/
theorem offending_unterminated (src : Bytes) (s0 : LState) (e : ParseError) (h : Reported src s0 e)
    (hk : e.tokenType = tokUnterminatedString) :
    e.token = [] ∧ e.offset = src.length ∧
    ∃ gap opn body, Gap gap ∧ (s0.inString = true → gap = []) ∧ opn = (if s0.inString then [] else [34]) ∧
      (StrBody body ∨ ∃ b, body = b ++ [92] ∧ StrBody b) ∧ src.drop s0.offset = gap ++ opn ++ body := by
  obtain ⟨gap, text, hstep, hdrop, hoff, hty, hrest⟩ := reported_step src s0 e h
  obtain ⟨-, -, h3, h4, h5⟩ := hstep
  rw [hk] at hty
  rcases h5 with ⟨he, -⟩ | ⟨tok, hcl, htk, hg, -⟩
  · rw [← hty] at he; exact absurd he (by decide)
  · have big : reportedTok (lex s0).1 = fun t => t := by
      funext t; rw [← hty]; rfl
    have hle := (lexer_offsets src s0 e h (by rw [hk]; exact ⟨by decide, by decide⟩)).1
    cases hcl with
    | single c _ h128 hty' _ _ => rw [← hty] at hty'; simp only [tokUnterminatedString] at hty'; omega
    | plain _ hsp _ _ => exact absurd (Or.inr (Or.inr (Or.inr (Or.inl hty.symm)))) hsp
    | nul hty' _ _ => rw [← hty] at hty'; exact absurd hty' (by decide)
    | badNumber hty' _ _ => rw [← hty] at hty'; exact absurd hty' (by decide)
    | badEscape _ _ _ _ _ _ hty' _ _ => rw [← hty] at hty'; exact absurd hty' (by decide)
    | unterminated opn body hopn hbody _ htext _ htok hr =>
      rw [hr] at hrest
      have hlen := congrArg List.length hrest
      simp only [List.length_nil, List.length_drop] at hlen
      refine ⟨?_, by omega, gap, opn, body, hg, h4, hopn, hbody, ?_⟩
      · rw [h.2]; simp only [parseError_eq, h3, htk, htok, big]; rfl
      · rw [hdrop, htext, ← hrest]; simp
    | strQuery _ hty' _ _ => rw [← hty] at hty'; exact absurd hty' (by decide)
    | strEnd _ hty' _ _ => rw [← hty] at hty'; exact absurd hty' (by decide)

/-- **unexpected token** (every other token type the parser can reject). The reported token is
    exactly the text of the last token read: it is not empty, it starts at the first byte after
    the white space and comments that follow the previous token — outside a string literal that
    byte is neither white space nor `#` — and it ends at `Offset`.  (For an interpolated string
    literal the token is its opening quote — fix d264e09; for a non-ASCII character its bytes,
    valid UTF-8 or not — fix bfcffb3.) -/
theorem offending_unexpected_token (src : Bytes) (s0 : LState) (e : ParseError) (h : Reported src s0 e)
    (hf : Fresh e.tokenType) (h1 : e.tokenType ≠ eof) (_h2 : e.tokenType ≠ tokInvalid)
    (h3 : e.tokenType ≠ tokInvalidEscapeSequence) (h4 : e.tokenType ≠ tokUnterminatedString) :
    ∃ gap, Gap gap ∧ (s0.inString = true → gap = []) ∧
      src.drop s0.offset = gap ++ e.token ++ src.drop e.offset ∧
      e.offset = s0.offset + gap.length + e.token.length ∧ e.token ≠ [] ∧
      (s0.inString = false → ∃ c t, e.token = c :: t ∧ isWhite c = false ∧ c ≠ 35) := by
  obtain ⟨gap, text, hstep, hdrop, hoff, hty, hrest⟩ := reported_step src s0 e h
  obtain ⟨-, -, h3', h4', h5⟩ := hstep
  rcases h5 with ⟨he, -⟩ | ⟨tok, hcl, htk, hg, hfirst⟩
  · rw [← hty] at he; exact absurd he h1
  · have hw : Whole (lex s0).1 := by rw [← hty]; exact ⟨h3, h4, hf.1, hf.2⟩
    have htext : text = e.token := by
      rw [h.2]; simp only [parseError_eq, h3', htk]
      exact (hcl.reported s0.token (by rw [← hty]; exact hf)).2 hw
    rw [← htext]
    exact ⟨gap, hg, h4', hdrop, hoff, hcl.text_ne_nil, hfirst⟩

/-! ## 4. `token_stream_positions` -/

/-- **`token_stream_positions`.** For every source text and every state `s` a parse can drive
    the lexer into, with `toks` the tokens returned so far: `l.offset ≤ len(src)`, the unread
    input is `src[l.offset:]`, and the tokens form a chain from offset 0 to `l.offset` — for each
    token, read when the lexer stood at `prev` (the `stop` of the token before it):
    `prev ≤ start ≤ stop ≤ len(src)`; `src[prev:start]` is white space and comments; `stop` (the
    recorded `l.offset`) is the position right after the token's last byte — the token text is
    `src[start:stop]`, not empty unless the token is EOF, and it is what `Error` would report as
    `Token` (for the two string-literal errors the reported token is a suffix
    `src[stop-len(Token):stop]` of it); EOF is reported only at `start = stop = len(src)`. -/
theorem token_stream_positions (src : Bytes) (s : LState) (toks : List Tok) (h : Run src s toks) :
    s.offset ≤ src.length ∧ s.rest = src.drop s.offset ∧ Chain src 0 toks s.offset := by
  obtain ⟨⟨h1, h2⟩, h3⟩ := run_chain src s toks h
  exact ⟨h1, h2, h3⟩

/-- **tokens are disjoint and in order**: in a chain every token lies inside `[p, q]` and ends
    before every later token starts. -/
theorem chain_ordered (src : Bytes) (toks : List Tok) : ∀ p q, Chain src p toks q →
    p ≤ q ∧ (∀ t ∈ toks, p ≤ t.start ∧ t.start ≤ t.stop ∧ t.stop ≤ q) ∧
    toks.Pairwise (fun a b => a.stop ≤ b.start) := by
  induction toks with
  | nil => intro p q h; simp only [Chain] at h; subst h; simp
  | cons t rest ih =>
    intro p q h
    obtain ⟨⟨h1, h2, -⟩, hc⟩ := h
    obtain ⟨i1, i2, i3⟩ := ih t.stop q hc
    refine ⟨by omega, ?_, List.pairwise_cons.mpr ⟨fun b hb => (i2 b hb).1, i3⟩⟩
    intro x hx
    rcases List.mem_cons.mp hx with rfl | hx
    · exact ⟨h1, h2, i1⟩
    · have := i2 x hx; exact ⟨by omega, this.2.1, this.2.2⟩

/-- for an accepted query the whole token sequence the parser consumed is such a chain -/
theorem accepted_tokens_in_place (src : Bytes) :
    match Parse.parse src with
    | .accept _ s' => ∃ toks, Run src s' toks ∧ Chain src 0 toks s'.offset ∧
        toks.Pairwise (fun a b => a.stop ≤ b.start)
    | _ => True := by
  have h := parse_reject_after_lex src
  revert h
  cases Parse.parse src <;> simp only <;> intro h
  · obtain ⟨toks, hr⟩ := h
    have hc := (run_chain src _ toks hr).2
    exact ⟨toks, hr, hc, (chain_ordered src toks 0 _ hc).2.2⟩
  · trivial
  · trivial

/-! ## 5. what is false at the level of the lexer alone -/

/-- **Witness: `l.token` alone is NOT always the text of the last token.** `Lex` does not assign
    `l.token` for `\(` and for the closing quote of an interpolated string (nor for single-byte
    tokens, where `Error` substitutes the byte): in a parse of `"\(1)"`, right after the closing
    quote has been read at offset 6, `Error` would report Token `1` (left over from the number),
    which is not `src[5:6]`.  So `lexer_offsets` needs its hypothesis `Fresh` at the level of the
    lexer; `parse_error_is_last_token` shows the parser never asks for a report there. -/
theorem stale_token_after_closing_quote :
    (∃ toks, Run interpSrc beforeClosingQuote toks) ∧
    (lex beforeClosingQuote).1 = tokStringEnd ∧
    parseError (lex beforeClosingQuote).2.2 = { offset := 6, token := [49], tokenType := tokStringEnd } ∧
    slice interpSrc 5 6 = [34] ∧
    ¬ (parseError (lex beforeClosingQuote).2.2).token =
        slice interpSrc ((parseError (lex beforeClosingQuote).2.2).offset -
          (parseError (lex beforeClosingQuote).2.2).token.length) (parseError (lex beforeClosingQuote).2.2).offset := by
  refine ⟨?_, by decide +kernel, by decide +kernel, by decide +kernel, by decide +kernel⟩
  obtain ⟨t1, r1⟩ := run_lex' (Run.init (src := interpSrc))
  obtain ⟨t2, r2⟩ := run_lex' r1
  obtain ⟨t3, r3⟩ := run_lex' r2
  obtain ⟨t4, r4⟩ := run_lex' r3
  exact ⟨t4, Run.feedback true r4⟩

/-! ## 6. from (Offset, Token) to the caret -/

/-- **The caret is computed from the first byte of the reported token.** `queryParseError.Error`
    passes `Offset - len(Token) + 1` to `getLineByOffset`; since `len(Token) ≤ Offset` that is the
    1-based position of byte `q = Offset - len(Token)`, the byte at which — by `lexer_offsets` —
    the reported token starts (`q = len(src)` for unexpected EOF and an unterminated string), so
    the line / excerpt / caret theorems of C17 (`lineinfo_line`, `lineinfo_excerpt`,
    `lineinfo_correct`) apply with that `q`. -/
theorem query_report_from_token_start (w : Nat → Nat) (isArg : Bool) (src : Bytes) (s0 : LState) (e : ParseError)
    (h : Reported src s0 e) (hf : Fresh e.tokenType) :
    Cli.queryReport w isArg src (some ((e.offset : Int), e.token.length)) =
      (let r := Cli.getLineByOffset w src (((e.offset - e.token.length : Nat) : Int) + 1)
       { multi := !isArg || Cli.containsNewline src, line := r.2.1, linestr := r.1, column := r.2.2 }) := by
  have hle : e.token.length ≤ e.offset := by
    have h1 := (lexer_offsets src s0 e h hf).2.1
    have h2 := slice_length_le src (e.offset - e.token.length) e.offset
    rw [← h1] at h2
    omega
  have : (e.offset : Int) - (e.token.length : Int) + 1 = ((e.offset - e.token.length : Nat) : Int) + 1 := by omega
  simp only [Cli.queryReport, this]

/-! ## non-vacuity: one instance of every error kind, through the whole parser (kernel-evaluated) -/

section
/-- `1e` — invalid token `1e` ending at offset 2;  `1.2.3` — invalid token `1.2.` ending at 4 -/
example : parseErrorOf [49, 101] = some { offset := 2, token := [49, 101], tokenType := tokInvalid } := by decide +kernel
example : parseErrorOf [49, 46, 50, 46, 51] = some { offset := 4, token := [49, 46, 50, 46], tokenType := tokInvalid } := by decide +kernel
/-- `. "a\qb"` — invalid escape `\q` ending at offset 6 -/
example : parseErrorOf [46, 32, 34, 97, 92, 113, 98, 34] = some { offset := 6, token := [92, 113], tokenType := tokInvalidEscapeSequence } := by decide +kernel
/-- `"ab` — unterminated string: empty token at offset 3 = len -/
example : parseErrorOf [34, 97, 98] = some { offset := 3, token := [], tokenType := tokUnterminatedString } := by decide +kernel
/-- `.a |  # c` — unexpected EOF: empty token at offset 9 = len -/
example : parseErrorOf [46, 97, 32, 124, 32, 32, 35, 32, 99] = some { offset := 9, token := [], tokenType := eof } := by decide +kernel
/-- `12345 "\(2)"` (the input of fix d264e09) — unexpected token `"` ending at offset 7 -/
example : parseErrorOf [49, 50, 51, 52, 53, 32, 34, 92, 40, 50, 41, 34] = some { offset := 7, token := [34], tokenType := tokStringStart } := by decide +kernel
/-- `. ]` — unexpected single-byte token `]` ending at offset 3;  `.a é` with é = C3 A9 — the two
    bytes ending at offset 5;  `.a \xff` — the invalid byte itself (fix bfcffb3) -/
example : parseErrorOf [46, 32, 93] = some { offset := 3, token := [93], tokenType := 93 } := by decide +kernel
example : parseErrorOf [46, 97, 32, 0xC3, 0xA9] = some { offset := 5, token := [0xC3, 0xA9], tokenType := 0xC3 } := by decide +kernel
example : parseErrorOf [46, 97, 32, 0xFF] = some { offset := 4, token := [0xFF], tokenType := 0xFF } := by decide +kernel
/-- `Reported` is inhabited at the start of every text; a run of three tokens -/
example : Reported [49, 101] (LState.init [49, 101]) { offset := 2, token := [49, 101], tokenType := tokInvalid } :=
  ⟨⟨[], Run.init⟩, by decide +kernel⟩
example : ∃ toks, Run interpSrc beforeClosingQuote toks := stale_token_after_closing_quote.1
/-- an accepted query: `.a` -/
example : parseErrorOf [46, 97] = none ∧ (lexAll 9 (LState.init [46, 97])).map (fun x => (x.1, x.2.2)) = [(tokIndex, 2), (eof, 2)] := by
  decide +kernel
end

end Gojq.C17

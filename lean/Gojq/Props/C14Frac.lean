/-
  C14 — `.[a:b]` with FRACTIONAL, huge and non-finite bounds still works on code points.

  func.go: `funcSlice` → `slice` (arrays) / `sliceString` (strings) convert the start with `toInt`,
  the end with `toIntCeil` (fix f1140b8: also for a json.Number), both through `floatToInt`
  (`int(x)` when `MinInt ≤ x < MaxInt`, saturation beyond, NaN ↦ MinInt), then `clampIndex`.
  The conversions are the shared model `Gojq.toInt?` / `Gojq.toIntCeil?` (Model/Native/Base.lean) —
  the functions the `str` stream's driver calls on every bound — here named
  `startBound n` / `endBound n` and characterised in closed form:

      startBound n = satInt (n truncated TOWARD ZERO)      endBound n = satInt ⌈n⌉

  so the start is ⌊a⌋ for `a ≥ 0` but ⌈a⌉ for `a < 0` (Go's `int(x)`), and an end in (-1, 0) becomes
  -0 = 0, which `clampIndex` does not count from the end.  Both appear to differ from jq 1.7 (whose
  parse_slice adds the length BEFORE rounding; read from its source, not run here): `.[-0.5:]` is the whole string (jq: the last code point), `.[:-0.5]` is
  empty (jq: the whole string) — recorded as `slice_small_negative_*`, not a code-point issue.

  `sliceStrNum` / `sliceListNum` (Proofs/SliceFrac.lean) = the integer models `sliceStr` / `sliceList`
  of Model/Regex.lean applied to the converted bounds (`none` = null).
-/
import Gojq.Proofs.SliceFrac
import Gojq.Props.C14
namespace Gojq.C14
open Gojq Gojq.Regex Gojq.Codec

/-! ## 1. how a number becomes a bound -/

/-- the names `startBound` / `endBound` are the code's conversions `toInt` / `toIntCeil` (as modelled
    for check C03 and called by this check's driver), which never fail on a number -/
theorem bounds_are_toInt (n : Num) :
    toInt? (.num n) = some (startBound n) ∧ toIntCeil? (.num n) = some (endBound n) :=
  ⟨toInt_num n, toIntCeil_num n⟩

/-- **start bound, every number**: an integer of any magnitude saturates; a finite float is
    truncated toward zero (⌊q⌋ for `q ≥ 0`, ⌈q⌉ for `q < 0`), then saturates (`q ≥ 2^63` ↦ MaxInt,
    `q < -2^63` ↦ MinInt); -0 ↦ 0; +∞ ↦ MaxInt; -∞ and NaN ↦ MinInt. -/
theorem start_bound_closed_form :
    (∀ z, startBound (.int z) = satInt z) ∧
    (∀ q, startBound (.flt q) = satInt (if q < 0 then q.ceil else q.floor)) ∧
    startBound .nzero = 0 ∧ startBound (.inf false) = maxInt ∧ startBound (.inf true) = minInt ∧
    startBound .nan = minInt :=
  ⟨startBound_int, startBound_flt, rfl, rfl, rfl, rfl⟩

/-- **end bound, every number**: the ceiling, saturated; -0 (and every float in (-1, 0]) ↦ 0. -/
theorem end_bound_closed_form :
    (∀ z, endBound (.int z) = satInt z) ∧
    (∀ q, endBound (.flt q) = satInt q.ceil) ∧
    endBound .nzero = 0 ∧ endBound (.inf false) = maxInt ∧ endBound (.inf true) = minInt ∧
    endBound .nan = minInt :=
  ⟨endBound_int, endBound_flt, rfl, rfl, rfl, rfl⟩

/-- both bounds are Go `int`s, so `clampIndex`'s `i += maximum` (negative `i`, `maximum ≥ 0`) cannot overflow -/
theorem bounds_in_int_range (n : Num) :
    (minInt ≤ startBound n ∧ startBound n ≤ maxInt) ∧ (minInt ≤ endBound n ∧ endBound n ≤ maxInt) :=
  ⟨startBound_range n, endBound_range n⟩

/-! ## 2. strings: positions are code points whatever numbers the bounds are -/

/-- **`slice_fractional_bounds`.** For every valid-UTF-8 string and every pair of bounds — null or
    ANY number: fractional, negative, huge, ±∞, NaN — `explode (s[a:b]) = (explode s)[a:b]`, the
    array slice with the same converted bounds (start truncated, end rounded up, both saturated,
    then `clampIndex`: negative counts from the end, out of range is clamped). -/
theorem slice_fractional_bounds (s : Bytes) (hv : Utf8.valid s = true) (a b : Option Num) :
    explode (sliceStrNum s b a) = sliceListNum (explode s) b a :=
  slice_is_codepoint_slice s hv (a.map startBound) (b.map endBound)

/-- as an equation between strings: `.[a:b] == (explode | .[a:b] | implode)` -/
theorem slice_fractional_eq_implode (s : Bytes) (hv : Utf8.valid s = true) (a b : Option Num) :
    sliceStrNum s b a = Utf8.encodeRunes (sliceListNum (explode s) b a) :=
  slice_eq_implode_of_slice s hv (a.map startBound) (b.map endBound)

/-- Go's final `v[start:end]` cannot panic for any number bounds -/
theorem slice_fractional_no_panic (s : Bytes) (hv : Utf8.valid s = true) (a b : Option Num) :
    (sliceOffsets s (b.map endBound) (a.map startBound)).1 ≤ (sliceOffsets s (b.map endBound) (a.map startBound)).2 ∧
    (sliceOffsets s (b.map endBound) (a.map startBound)).2 ≤ s.length :=
  slice_bytes_ordered s hv (a.map startBound) (b.map endBound)

/-- **in range: code points ⌊a⌋ … ⌈b⌉-1.** For float bounds `0 ≤ a ≤ b ≤ length`:
    `explode (s[a:b]) = (explode s)[⌊a⌋ : ⌈b⌉]`. -/
theorem slice_fractional_in_range (s : Bytes) (hv : Utf8.valid s = true) (qa qb : Rat) (h0 : 0 ≤ qa) (hab : qa ≤ qb)
    (hb : qb ≤ (((explode s).length : Int) : Rat)) (hl : ((explode s).length : Int) ≤ maxInt) :
    explode (sliceStrNum s (some (.flt qb)) (some (.flt qa))) =
      ((explode s).drop qa.floor.toNat).take (qb.ceil.toNat - qa.floor.toNat) := by
  rw [slice_fractional_bounds s hv, sliceListNum_in_range _ qa qb h0 hab hb hl]

/-- **negative start counts from the end** (rounded toward the end): for `-length ≤ a ≤ -1`,
    `explode (s[a:]) = (explode s)[length + ⌈a⌉ :]`. -/
theorem slice_fractional_negative_start (s : Bytes) (hv : Utf8.valid s = true) (q : Rat) (h1 : q ≤ -1)
    (h2 : ((-((explode s).length : Int) : Int) : Rat) ≤ q) (hl : ((explode s).length : Int) ≤ maxInt) :
    explode (sliceStrNum s none (some (.flt q))) = (explode s).drop (((explode s).length : Int) + q.ceil).toNat := by
  rw [slice_fractional_bounds s hv, sliceListNum_neg_start _ q h1 h2 hl]

/-- **observation**: a start in (-1, 0) is truncated to 0 — the whole string (jq 1.7: the last code point) -/
theorem slice_small_negative_start (s : Bytes) (hv : Utf8.valid s = true) (q : Rat) (h1 : -1 < q) (h2 : q < 0) :
    explode (sliceStrNum s none (some (.flt q))) = explode s := by
  rw [slice_fractional_bounds s hv, sliceListNum_small_neg_start _ q h1 h2]

/-- **observation**: an end in (-1, 0) is rounded up to -0 = 0, not counted from the end — the empty
    string (jq 1.7: the whole string) -/
theorem slice_small_negative_end (s : Bytes) (hv : Utf8.valid s = true) (q : Rat) (h1 : -1 < q) (h2 : q < 0) :
    explode (sliceStrNum s (some (.flt q)) none) = [] := by
  rw [slice_fractional_bounds s hv, sliceListNum_small_neg_end _ q h1 h2]

/-- **non-finite bounds saturate**: `.[nan:]`, `.[-infinite:]`, `.[:infinite]` are the whole string;
    `.[infinite:]`, `.[:nan]`, `.[:-infinite]` are empty. -/
theorem slice_nonfinite (s : Bytes) (hv : Utf8.valid s = true) (hl : ((explode s).length : Int) ≤ maxInt) :
    explode (sliceStrNum s none (some .nan)) = explode s ∧ explode (sliceStrNum s none (some (.inf true))) = explode s ∧
    explode (sliceStrNum s none (some (.inf false))) = [] ∧
    explode (sliceStrNum s (some .nan) none) = [] ∧ explode (sliceStrNum s (some (.inf true)) none) = [] ∧
    explode (sliceStrNum s (some (.inf false)) none) = explode s := by
  obtain ⟨h1, h2, h3, h4, h5, h6⟩ := sliceListNum_nonfinite (explode s) hl
  simp only [slice_fractional_bounds s hv]
  exact ⟨h1, h2, h3, h4, h5, h6⟩

/-! ## 3. arrays: the same conversions (func.go `slice`) -/

/-- **arrays, in range**: `vs[a:b]` with float bounds `0 ≤ a ≤ b ≤ len` is `vs[⌊a⌋ : ⌈b⌉]` -/
theorem array_slice_fractional_in_range {α : Type} (vs : List α) (qa qb : Rat) (h0 : 0 ≤ qa) (hab : qa ≤ qb)
    (hb : qb ≤ ((vs.length : Int) : Rat)) (hl : (vs.length : Int) ≤ maxInt) :
    sliceListNum vs (some (.flt qb)) (some (.flt qa)) = (vs.drop qa.floor.toNat).take (qb.ceil.toNat - qa.floor.toNat) :=
  sliceListNum_in_range vs qa qb h0 hab hb hl

/-- **arrays, negative start** `-len ≤ a ≤ -1`: `vs[len + ⌈a⌉ :]` -/
theorem array_slice_negative_start {α : Type} (vs : List α) (q : Rat) (h1 : q ≤ -1)
    (h2 : ((-(vs.length : Int) : Int) : Rat) ≤ q) (hl : (vs.length : Int) ≤ maxInt) :
    sliceListNum vs none (some (.flt q)) = vs.drop ((vs.length : Int) + q.ceil).toNat :=
  sliceListNum_neg_start vs q h1 h2 hl

/-- arrays: the two observations on bounds in (-1, 0) -/
theorem array_slice_small_negative {α : Type} (vs : List α) (q : Rat) (h1 : -1 < q) (h2 : q < 0) :
    sliceListNum vs none (some (.flt q)) = vs ∧ sliceListNum vs (some (.flt q)) none = [] :=
  ⟨sliceListNum_small_neg_start vs q h1 h2, sliceListNum_small_neg_end vs q h1 h2⟩

/-- arrays: non-finite bounds -/
theorem array_slice_nonfinite {α : Type} (vs : List α) (hl : (vs.length : Int) ≤ maxInt) :
    sliceListNum vs none (some .nan) = vs ∧ sliceListNum vs none (some (.inf true)) = vs ∧
    sliceListNum vs none (some (.inf false)) = [] ∧
    sliceListNum vs (some .nan) none = [] ∧ sliceListNum vs (some (.inf true)) none = [] ∧
    sliceListNum vs (some (.inf false)) none = vs :=
  sliceListNum_nonfinite vs hl

/-! ## 4. invalid UTF-8 subjects: instances only -/

def brokenSubject : Bytes := [0x61, 0xE6, 0xBC, 0x62, 0xFF, 0xC3, 0xA9]   -- "a", a truncated 漢 (2 bytes), "b", FF, "é"

/-- **Instance of the code-point reading on an invalid subject** (each invalid byte is one U+FFFD code
    point, as Go's `range` / `[]rune` conversion decodes it): for the 7-byte subject above — 6 code
    points `a FFFD FFFD b FFFD é` — and EVERY pair of integer bounds in [-8, 8] or null,
    `explode (s[i:j]) = (explode s)[i:j]`. The general statement for all byte strings (needs: a byte
    that `decodeRune` rejects is still rejected when the bytes after it are cut off) is not proved. -/
theorem slice_invalid_utf8_instance :
    explode brokenSubject = [0x61, 0xFFFD, 0xFFFD, 0x62, 0xFFFD, 0xE9] ∧
    (none :: (List.range 17).map (fun (k : Nat) => some ((k : Int) - 8))).all (fun i =>
      (none :: (List.range 17).map (fun (k : Nat) => some ((k : Int) - 8))).all (fun j =>
        explode (sliceStr brokenSubject j i) == sliceList (explode brokenSubject) j i)) = true := by
  decide +kernel

/-! ## Non-vacuity and instances -/

def fracSubject : Bytes := [0x61, 0xC3, 0xA9, 0xE6, 0xBC, 0xA2]   -- "aé漢": 3 code points, 6 bytes

example : Utf8.valid fracSubject = true ∧ explode fracSubject = [0x61, 0xE9, 0x6F22] := by decide
-- hypotheses of `slice_fractional_in_range` hold for `.[0.5:1.5]` on "aé漢" (code points 0 … 1)
example : (0 : Rat) ≤ 1/2 ∧ (1/2 : Rat) ≤ 3/2 ∧ (3/2 : Rat) ≤ (((explode fracSubject).length : Int) : Rat) ∧
    ((explode fracSubject).length : Int) ≤ maxInt := by decide +kernel
example : ((1/2 : Rat).floor, (3/2 : Rat).ceil) = (0, 2) := by decide +kernel
-- hypotheses of `slice_fractional_negative_start` / `slice_small_negative_*`
example : (-3/2 : Rat) ≤ -1 ∧ ((-((explode fracSubject).length : Int) : Int) : Rat) ≤ (-3/2 : Rat) ∧
    (-1 : Rat) < -1/2 ∧ (-1/2 : Rat) < 0 := by decide +kernel
example : (-3/2 : Rat).ceil = -1 := by decide +kernel

end Gojq.C14

/-
  C08 — the hypothesis `KeysOK` of `vm_total_wf`, discharged from C03's transliteration of the natives.

  `vm_total_wf` (Props/C08VM.lean) assumes of the two natives whose answers the loop's path-tracking
  tail relies on that they respect null keys (`KeysOK`): `_index(x; k)` answers a value only for a
  non-null `k`, `getpath(p)` only for an array `p` without null.  Until now that was an assumption
  about an opaque oracle.  Here it becomes a theorem about the functions that C03's `native` stream
  compares with func.go on every run (`Gojq.funcIndex2`, `Gojq.funcGetpath`, Model/Native/Index.lean,
  Model/Native/Path.lean):

    * `funcIndex2_null_key_raises`   : for EVERY value `v`, `funcIndex2 v null` is an error;
    * `funcGetpath_value_path_shape` : `funcGetpath v p` is a value only if `p` is an array without null
                                       (for every `v`: any depth, any prefix of successful steps);
    * `keysOK_of_natives_as_modelled`: an oracle that answers a value only where the modelled native,
                                       applied to the JSON operands on the data stack, returns a value
                                       (`NativesAsModelled`) satisfies `KeysOK`;
    * `vm_total_wf_natives`          : `vm_total_wf` with `KeysOK` replaced by `NativesAsModelled` — the
                                       remaining assumption is that func.go's two natives agree with
                                       their transliteration, which is what C03's correspondence checks.

    * `extClean_of_native_answers`   : the other oracle assumption, `ExtClean` (no closure, no empty
                                       `[]pathValue` inside an answer), holds of every oracle whose answers
                                       have the shape of a native's answer (JSON value, iterator, token,
                                       error carrying those);
    * `vm_total_wf_concrete_oracle`  : (T) for JSON inputs and variable values under these two concrete
                                       assumptions only.

  Witness that the reduction is not vacuous and that the hypothesis is needed: `index_null_base_answers`
  (`null | _index(.; "a")` IS answered by a value — only the KEY matters), `getpath_prefix_ok` (a path
  whose non-null prefix succeeds still raises at the null).
-/
import Gojq.Props.C08VM
import Gojq.Model.Native.Path

namespace Gojq.C08Keys
open Gojq Gojq.VM Gojq.SafeVM Gojq.C08VM

/-- `funcIndex2(_, v, nil)` raises for every `v` (operator `default:` arm of the key switch) -/
theorem funcIndex2_null_key_raises (v : JV) : ∃ e, funcIndex2 v .null = .error e := by
  cases v <;> exact ⟨_, rfl⟩

theorem getpathLoop_null_raises (u p : JV) : ∀ (path : List JV) (v : JV), JV.null ∈ path →
    ∃ e, getpathLoop u p v path = .error e := by
  intro path
  induction path with
  | nil => intro v h; cases h
  | cons x rest ih =>
    intro v h
    by_cases hx : x = .null
    · subst hx
      cases v <;> exact ⟨_, rfl⟩
    · have hr : JV.null ∈ rest := by
        cases h with
        | head => exact absurd rfl hx
        | tail _ h' => exact h'
      cases v with
      | null =>
        unfold getpathLoop
        cases h2 : funcIndex2 .null x with
        | ok w => simpa [h2] using ih w hr
        | error e => exact ⟨_, by simp [h2]; rfl⟩
      | arr vs =>
        unfold getpathLoop
        cases h2 : funcIndex2 (.arr vs) x with
        | ok w => simpa [h2] using ih w hr
        | error e => exact ⟨_, by simp [h2]; rfl⟩
      | obj kvs =>
        unfold getpathLoop
        cases h2 : funcIndex2 (.obj kvs) x with
        | ok w => simpa [h2] using ih w hr
        | error e => exact ⟨_, by simp [h2]; rfl⟩
      | bool b => exact ⟨_, rfl⟩
      | num n => exact ⟨_, rfl⟩
      | str s => exact ⟨_, rfl⟩

/-- `funcGetpath(v, p)` answers a value only for an array path without null -/
theorem funcGetpath_value_path_shape (v p w : JV) (h : funcGetpath v p = .ok w) :
    ∃ ps, p = .arr ps ∧ JV.null ∉ ps := by
  cases p with
  | arr ps =>
    refine ⟨ps, rfl, ?_⟩
    intro hn
    obtain ⟨e, he⟩ := getpathLoop_null_raises v (.arr ps) ps v hn
    have h' : getpathLoop v (.arr ps) v ps = .ok w := h
    rw [he] at h'
    cases h'
  | null => cases h
  | bool b => cases h
  | num n => cases h
  | str s => cases h
  | obj kvs => cases h

/-- the answer `x` of the native call `ins` about to run on data stack `stk` is a VALUE only where
    C03's transliteration of the native, applied to the JSON operands on the stack (callee value on
    top, then `args[0]`, `args[1]`), returns a value -/
def nativeAsModelled (ins : Instr) (stk : List V) (x : ExtRec) : Prop :=
  match ins, x.call with
  | .callNative .index _, some (.val _) =>
      ∃ x0 a0 a1 r w, stk = x0 :: .jv a0 :: .jv a1 :: r ∧ funcIndex2 a0 a1 = .ok w
  | .callNative .getpath _, some (.val _) =>
      ∃ x0 p r w, stk = .jv x0 :: .jv p :: r ∧ funcGetpath x0 p = .ok w
  | _, _ => True

/-- at every turn of the run, `_index` / `getpath` answer as modelled -/
def NativesAsModelled (P : Params) (s0 : St) : Prop :=
  ∀ l s, Reach P s0 l s → nativeAsModelled (P.code.getD l.pc.toNat .bad) (stackList s.env.stack) (P.ext s.polls)

theorem keyOK_of_nativeAsModelled (ins : Instr) (stk : List V) (x : ExtRec)
    (h : nativeAsModelled ins stk x) : keyOK ins stk x := by
  unfold nativeAsModelled at h
  unfold keyOK
  split
  · next k n v hc =>
    simp only [hc] at h
    obtain ⟨x0, a0, a1, r, w, hs, hw⟩ := h
    refine ⟨x0, .jv a0, .jv a1, r, hs, ?_⟩
    intro heq
    have : a1 = .null := by injection heq
    subst this
    obtain ⟨e, he⟩ := funcIndex2_null_key_raises a0
    rw [he] at hw
    cases hw
  · next n v hc =>
    simp only [hc] at h
    obtain ⟨x0, p, r, w, hs, hw⟩ := h
    obtain ⟨ps, hp, hn⟩ := funcGetpath_value_path_shape x0 p w hw
    subst hp
    exact ⟨.jv x0, ps, r, hs, hn⟩
  · trivial

/-- `KeysOK` follows from the natives answering as their C03 transliteration does -/
theorem keysOK_of_natives_as_modelled (P : Params) (s0 : St) (h : NativesAsModelled P s0) : KeysOK P s0 :=
  fun l s hr => keyOK_of_nativeAsModelled _ _ _ (h l s hr)

/-- (T) with the null-key assumption discharged by the native model: the only thing assumed of
    `_index` / `getpath` is that they answer as `funcIndex2` / `funcGetpath` of C03's model do. -/
theorem vm_total_wf_natives (nvars : Nat) (P : Params) (hc : safeCheckN nvars P.code = true)
    (hext : ExtClean P.ext) (input : V) (vars : List V) (hi : vpure input = true)
    (hv : ∀ v ∈ vars, vpure v = true) (hn : vars.length = nvars)
    (hnat : NativesAsModelled P (initSt input vars))
    (fuel n k : Nat) (hk : k < (history P fuel n (initSt input vars)).length)
    (hprev : ∀ (j : Nat) (hj : j < k), Proper ((history P fuel n (initSt input vars))[j]'(Nat.lt_trans hj hk)))
    (site : Site) : (history P fuel n (initSt input vars))[k] ≠ .panic site :=
  Gojq.C08VM.vm_total_wf nvars P hc hext input vars hi hv hn
    (keysOK_of_natives_as_modelled P _ hnat) fuel n k hk hprev site


/-! ## `ExtClean` from the SHAPE of the answers

`vm_total_wf` assumes the oracle `ExtClean`: no answer contains a closure (`[2]int`) or an empty
`[]pathValue`.  Natives return JSON values, iterators, opaque tokens, and errors that carry JSON
values; of that shape the assumption is a theorem. -/

/-- a value a native can return: a JSON value, an iterator handle, an opaque token -/
def nativeValue : V → Bool
  | .jv _ | .iter _ | .tok | .emptyIter => true
  | _ => false

/-- an error a native can return (an `error(v)` / `halt_error` value is a JSON value) -/
def nativeError : VM.Err → Bool
  | .value v | .halt v | .brk _ v => nativeValue v
  | .tryEnd e => nativeError e
  | _ => true

def nativeAnswer (x : ExtRec) : Prop :=
  match x.call with
  | some (.val w) => nativeValue w = true
  | some (.err e) => nativeError e = true
  | _ => True

theorem vpure_of_nativeValue (v : V) (h : nativeValue v = true) : vpure v = true := by
  cases v <;> simp_all [nativeValue, vpure]

theorem epure_of_nativeError : ∀ (e : VM.Err), nativeError e = true → epure e = true
  | .value v, h => by simpa [epure] using vpure_of_nativeValue v (by simpa [nativeError] using h)
  | .halt v, h => by simpa [epure] using vpure_of_nativeValue v (by simpa [nativeError] using h)
  | .brk _ v, h => by simpa [epure] using vpure_of_nativeValue v (by simpa [nativeError] using h)
  | .tryEnd e, h => by
    simp only [epure]
    exact epure_of_nativeError e (by simpa [nativeError] using h)
  | .msg _, _ => by simp [epure]
  | .vm _ _, _ => by simp [epure]

/-- an oracle all of whose answers have the shape of a native's answer is clean -/
theorem extClean_of_native_answers (ext : Nat → ExtRec) (h : ∀ k, nativeAnswer (ext k)) : ExtClean ext := by
  intro k
  have hk := h k
  unfold nativeAnswer at hk
  unfold ExtOK
  split
  · next w hc => simp only [hc] at hk; exact vpure_of_nativeValue w hk
  · next e hc => simp only [hc] at hk; exact epure_of_nativeError e hk
  · trivial

/-- (T) with BOTH oracle assumptions in their concrete form: answers have the shape of a native's
    answer, and `_index` / `getpath` answer as C03's transliteration does. -/
theorem vm_total_wf_concrete_oracle (nvars : Nat) (P : Params) (hc : safeCheckN nvars P.code = true)
    (hshape : ∀ k, nativeAnswer (P.ext k)) (input : JV) (vars : List JV) (hn : vars.length = nvars)
    (hnat : NativesAsModelled P (initSt (.jv input) (vars.map .jv)))
    (fuel n k : Nat) (hk : k < (history P fuel n (initSt (.jv input) (vars.map .jv))).length)
    (hprev : ∀ (j : Nat) (hj : j < k),
      Proper ((history P fuel n (initSt (.jv input) (vars.map .jv)))[j]'(Nat.lt_trans hj hk)))
    (site : Site) : (history P fuel n (initSt (.jv input) (vars.map .jv)))[k] ≠ .panic site :=
  vm_total_wf_natives nvars P hc (extClean_of_native_answers P.ext hshape) (.jv input) (vars.map .jv) rfl
    (by intro v hv; obtain ⟨j, _, rfl⟩ := List.mem_map.mp hv; rfl) (by simpa using hn) hnat fuel n k hk hprev site

/-! ## witnesses -/

/-- only the KEY matters: a null BASE is answered by a value (`null | .a` is null) -/
theorem index_null_base_answers : funcIndex2 .null (.str (B "a")) = .ok .null := rfl

/-- a path whose prefix succeeds still raises at its null element -/
theorem getpath_prefix_ok :
    (∃ w, funcGetpath (.obj [(B "a", .null)]) (.arr [.str (B "a")]) = .ok w) ∧
    (∃ e, funcGetpath (.obj [(B "a", .null)]) (.arr [.str (B "a"), .null]) = .error e) :=
  ⟨⟨_, rfl⟩, getpathLoop_null_raises _ _ _ _ (by simp)⟩

/-- the premise of `keyOK_of_nativeAsModelled` is met by a real-looking call: `{"a":1} | _index(.; "a")`
    answered by `1` on the stack `[input, input, "a"]` -/
example : nativeAsModelled (.callNative .index 2)
    [.jv (.obj [(B "a", jvInt 1)]), .jv (.obj [(B "a", jvInt 1)]), .jv (.str (B "a"))]
    { call := some (.val (.jv (jvInt 1))) } :=
  ⟨_, _, _, _, _, rfl, rfl⟩

end Gojq.C08Keys

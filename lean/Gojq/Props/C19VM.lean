/-
  C19 on the interpreter model — no ambient authority by default; each option grants exactly its own.
  Property theorems only.  Model: Gojq/Model/Ambient.lean over Gojq/Model/VM.lean (the transliteration
  of `(*env).Next` that C07/C04/C08 use); helper lemmas: Gojq/Proofs/Ambient*.lean.

  How the statements are about the code:
    * WHERE the world can enter a run: only through the answers of calls out of the loop.  The
      oracle of Model/VM.lean is here DERIVED, turn by turn, from a semantics of the callbacks
      `sem : World → call site → name → input → arguments → answer` applied to the actual operands
      on the stack (`Ambient.stepW` consults `VM.step` itself); `world_run_is_vm_run` shows that
      every such run is a run of Model/VM.lean, the model the `vm`/`lockstep` streams of C07 tie to
      the real interpreter.
    * WHICH callbacks may read the world: `Ambient.isPure` / `Ambient.ambientNames` are computed
      from `Generated/NativeTable.lean` (name → Go callee) and `Generated/Facts.lean` (which Go
      functions touch os.*, time.Now, time.Local, third-party code, the module loader), both
      regenerated from the repository on every run; section 1 re-checks what they evaluate to.
    * WHICH callbacks a program calls: the decidable scan `ambientFree`, also on the dump syntax
      (`ambient_free_on_dump`) — answered by the driver stream `ambientfree` for every generated
      program compiled WITHOUT options and compared with the scan done on the Go side.

  Not covered here: the jq-definition side of "callback ≡ def" (needs C01's compile theorem); the
  values of the natives (C03); that hypothesis A (`TableSound`) holds of the Go callbacks — it is what
  the fact extraction reports, a syntactic analysis, not a proof; programs that call `strftime`
  (`todate`, `dateadd`, …) or `modulemeta` are rejected by `ambientFree` (conservative: timefmt-go is
  not analysed, `modulemeta` reaches the module loader when one is configured).
-/
import Gojq.Proofs.Ambient
import Gojq.Proofs.AmbientOracle
import Gojq.Proofs.AmbientCongr
namespace Gojq.C19VM
open Gojq Gojq.VM Gojq.Ambient Gojq.Generated

/-! ## 1. the ambient set, re-derived from the regenerated tables on every run -/

/-- The names of the native table through which ambient state can enter, as COMPUTED from the
    regenerated tables: the callee touches the clock or the time zone (`now`, `localtime`,
    `strflocaltime`), calls third-party timefmt-go (`strflocaltime`, `strftime`, `strptime` — `%Z`
    consults `time.Local` inside timefmt-go), is the compiler method that refers to the file-system
    module loader (`modulemeta`), or is the option capability `input`. -/
theorem ambient_set :
    ambientNames = ["localtime", "now", "strflocaltime", "strftime", "strptime", "input", "modulemeta"] := by
  decide +kernel

/-- The table entries with a nil callback are exactly the four compiler methods and the four names
    that never become a native call — the split transcribed in Model/Ambient.lean (a new
    compiler-handled native in the regenerated table breaks this theorem). -/
theorem nil_callbacks_accounted :
    (NativeTable.table.filter fun e => e.callee == "").map (·.name)
      = ["_match", "builtins", "debug", "empty", "env", "input", "modulemeta", "path"]
    ∧ compilerMethods.map (·.1) = ["_match", "builtins", "input", "modulemeta"]
    ∧ compiledAway = ["debug", "empty", "env", "path"] := by
  decide +kernel

/-- None of the callbacks of the hand-written call sites of compiler.go is, by the regenerated
    facts, a function that touches ambient state or third-party code. -/
theorem hand_written_not_ambient :
    (handWritten.all fun h => !ambientCallees.contains h.2.2) = true := by decide +kernel

/-- No ambient name is a pure name: for none of the seven names does the table give a pure
    callback, and none is a hand-written call site.  (With `isPure_namePure`: the scan `ambientFree`
    accepts no call site carrying one of them, `ambient_free_rejects`.) -/
theorem ambient_names_not_pure : (ambientNames.all fun n => !namePure n) = true := by
  rw [ambient_set]; decide +kernel

/-- The classification is total on the table, by construction: an entry with a Go callee is pure
    or its name is in the ambient set (the nil-callback entries are those of
    `nil_callbacks_accounted`). -/
theorem table_classified (e : NativeTable.Entry) (he : e ∈ NativeTable.table) (hc : (e.callee == "") = false) :
    entryPure e = true ∨ e.name ∈ ambientNames :=
  table_entry_classified e he hc

/-! ## 2. noninterference -/

/-- GENERAL FORM.  Two worlds that agree on the callbacks of the allowed call sites (`Agree`) give,
    for code all of whose calls out of the loop are allowed (`CallsOnly`), the same run of the
    interpreter model from the same state: the same outcome of every one of the `n` calls of
    `Next`, the same interpreter state and the same hidden state afterwards — for every fuel,
    every cancellation schedule, every start state. -/
theorem noninterference_vm_of {W H : Type} (sem : Sem W H) (allowed : String → Nat → Bool) (w₁ w₂ : W)
    (hA : Agree sem allowed w₁ w₂) (nc : NCode) (hB : CallsOnly allowed nc)
    (cancelled : Nat → Bool) (fuel n : Nat) (s : St) (hid : Hid H) :
    runW sem w₁ nc cancelled fuel n s hid = runW sem w₂ nc cancelled fuel n s hid :=
  runW_world_irrelevant hA hB cancelled fuel n s hid

/-- `default_noninterference_vm`.  Hypothesis A (`TableSound`): the callbacks at call sites whose
    (name, argument count) the regenerated tables classify as pure read nothing of the world.
    Hypothesis B (`ambientFree`, decidable): every native call of the code carries a pure (name,
    argument count) — no `now`, `localtime`, `strflocaltime`, `strftime`, `strptime`, `input`,
    `modulemeta`, and no name outside the table and the hand-written sites (no custom callback).
    Then the outputs, errors and states of the run are the same in any two worlds: they are a
    function of the code, the input and the variable values (`initSt input vars`) alone.
    How the option-dependent names compile WITHOUT options (compiler.go `compileFunc`; observed on
    the dumps of the `ambientfree` stream): `env`/`$ENV` are the constant `{}` (`opconst`, no call —
    covered here as constants); `input`/`inputs` (no WithInputIter), `import`/`include` (no
    WithModuleLoader), `debug`, `stderr`, `input_filename`, `input_line_number`, `get_search_list`,
    `$__loc__`, `$__prog_args` (the command registers these; the library has none) are COMPILE
    ERRORS, so no code exists; `modulemeta` is a native call of `compiler.funcModulemeta` (rejected
    by B: it reaches the module loader when one is configured); `builtins`, `_match`, `halt`,
    `halt_error`, `mktime`, `gmtime` are pure call sites (UTC only; halting is an error value of the
    library, the exit is the command's). -/
theorem default_noninterference_vm {W H : Type} (sem : Sem W H) (hA : TableSound sem)
    (nc : NCode) (hB : ambientFree nc = true) (w₁ w₂ : W)
    (cancelled : Nat → Bool) (fuel n : Nat) (input : V) (vars : List V) (h0 : H) :
    runW sem w₁ nc cancelled fuel n (initSt input vars) ⟨h0, []⟩
      = runW sem w₂ nc cancelled fuel n (initSt input vars) ⟨h0, []⟩ :=
  runW_world_irrelevant (hA w₁ w₂) (callsOnly_sound hB) cancelled fuel n _ _

/-- … and from every state (after any number of earlier calls, with live iterators). -/
theorem default_noninterference_vm_from {W H : Type} (sem : Sem W H) (hA : TableSound sem)
    (nc : NCode) (hB : ambientFree nc = true) (w₁ w₂ : W)
    (cancelled : Nat → Bool) (fuel n : Nat) (s : St) (hid : Hid H) :
    runW sem w₁ nc cancelled fuel n s hid = runW sem w₂ nc cancelled fuel n s hid :=
  runW_world_irrelevant (hA w₁ w₂) (callsOnly_sound hB) cancelled fuel n s hid

/-- `granted_capability_only`.  Code that calls, besides pure call sites, only the one name `n`
    (`now`; `input` under WithInputIter; `modulemeta` under WithModuleLoader; a callback registered
    by WithFunction under a name of its own; `strftime` if timefmt-go is trusted) observes of the
    world exactly what `n`'s callback observes: two worlds on which that callback agrees give the
    same run.  Each option grants exactly its capability. -/
theorem granted_capability_only {W H : Type} (sem : Sem W H) (hA : TableSound sem) (n : String)
    (nc : NCode) (hB : ambientFreeBut n nc = true) (w₁ w₂ : W)
    (hn : ∀ pc x args h, sem.native w₁ pc n x args h = sem.native w₂ pc n x args h)
    (cancelled : Nat → Bool) (fuel k : Nat) (s : St) (hid : Hid H) :
    runW sem w₁ nc cancelled fuel k s hid = runW sem w₂ nc cancelled fuel k s hid := by
  refine runW_world_irrelevant (allowed := fun nm a => isPure nm a || nm == n) ?_ (callsOnly_sound hB)
    cancelled fuel k s hid
  intro pc nm x args h hal
  rcases Bool.or_eq_true _ _ |>.mp hal with hp | hnm
  · exact hA w₁ w₂ pc nm x args h hp
  · have : nm = n := by simpa using hnm
    subst this
    exact hn pc x args h

/-! ## 3. the static hypothesis on real bytecode -/

/-- The decidable scan establishes hypothesis B. -/
theorem ambient_free_sound (nc : NCode) (h : ambientFree nc = true) : CallsOnly isPure nc :=
  callsOnly_sound h

/-- The scan of the dumped instruction list (what the driver stream `ambientfree` computes from
    `VerifCodes`) is the scan of the code. -/
theorem ambient_free_on_dump (nc : NCode) : ambientFreeView (nc.map viewA) = ambientFree nc :=
  callsOnlyView_view isPure nc

/-- What the scan rejects by name: a native call site whose name is one of the ambient names is
    never accepted, whatever its argument count. -/
theorem ambient_free_rejects (nc : NCode) (pc : Nat) (kind : NativeKind) (argc : Int) (nm : String)
    (hat : nc[pc]? = some (.callNative kind argc, nm)) (hargc : 0 ≤ argc) (hamb : nm ∈ ambientNames) :
    ambientFree nc = false := by
  cases hfree : ambientFree nc with
  | false => rfl
  | true =>
    exfalso
    have hp := callsOnly_sound hfree pc _ hat (nm, argc.toNat) (by simp [callKey, hargc])
    have hall := ambient_names_not_pure
    rw [List.all_eq_true] at hall
    have := hall nm hamb
    rw [isPure_namePure hp] at this
    cases this

/-! ## 4. the derived oracle is faithful to the interpreter model -/

/-- `requestOf` covers every place where the loop consumes the answer of a call: an instruction
    for which it reports no request computes the same result whatever the `call` field of its
    oracle record.  (So nothing of the world reaches a turn except through `Sem.native`.) -/
theorem request_covers_every_call (ins : Instr) (nm : String) (x : ExtRec) (c : Option CallRes) (l : L) (e : Env)
    (h : requestOf ins nm l e = none) : exec ins { x with call := c } l e = exec ins x l e :=
  exec_call_irrelevant ins nm x c l e h

/-- Every world-derived run is a run of the interpreter model Model/VM.lean: under the poll-indexed
    oracle `extOfRun` (the records the derived run consults, laid out by poll number) `VM.history`
    gives exactly the outcomes of `runW`.  Hence the theorems of C07 (cancellation), C08 (no panic
    for checked code, given clean answers) and C04 (optimisations) apply to these runs. -/
theorem world_run_is_vm_run {W H : Type} (sem : Sem W H) (w : W) (nc : NCode) (cancelled : Nat → Bool)
    (fuel n : Nat) (s : St) (hid : Hid H) :
    history ⟨codeOf nc, cancelled, extOfRun sem w nc cancelled fuel n s hid⟩ fuel n s
      = (runW sem w nc cancelled fuel n s hid).1 :=
  history_extOfRun sem w nc cancelled fuel n s hid _ (fun _ _ => rfl)

/-- `default_noninterference_vm` restated on the interpreter model itself: the two oracles that the
    two worlds induce (native answers recorded poll by poll) drive `VM.history` to the same
    outcomes. -/
theorem default_noninterference_vm_history {W H : Type} (sem : Sem W H) (hA : TableSound sem)
    (nc : NCode) (hB : ambientFree nc = true) (w₁ w₂ : W)
    (cancelled : Nat → Bool) (fuel n : Nat) (input : V) (vars : List V) (h0 : H) :
    history ⟨codeOf nc, cancelled, extOfRun sem w₁ nc cancelled fuel n (initSt input vars) ⟨h0, []⟩⟩ fuel n
        (initSt input vars)
      = history ⟨codeOf nc, cancelled, extOfRun sem w₂ nc cancelled fuel n (initSt input vars) ⟨h0, []⟩⟩ fuel n
        (initSt input vars) := by
  rw [world_run_is_vm_run, world_run_is_vm_run,
    default_noninterference_vm sem hA nc hB w₁ w₂ cancelled fuel n input vars h0]

/-! ## 5. a callback is called like a native -/

/-- `custom_call_is_native_call`.  In the interpreter a callback registered with
    WithFunction/WithIterFunction and a builtin native are the SAME instruction — `opcall` with a
    `[3]any{callback, argc, name}` operand, `Instr.callNative kind argc` in the model, the name
    being looked at only for the three path-tracking kinds `_index`, `_slice`, `getpath` — so the
    run depends on the callbacks only through their answers: two semantics (possibly over
    different world types) and two namings of one instruction list whose call sites answer alike
    (`SameAnswers`: same answer, same hidden state, for all operands) give the same run.  A Go
    callback and a native with the same relation are interchangeable at the interpreter level, in
    every calling context (paths, try, backtracking, iterators: `opiter` draws the items of an
    iterator answer whatever produced it).

    NOT covered: (i) the jq-definition side of the property (`def f(a₁;…): …` compiles to
    closures, `opcallpc` and per-argument loops, not to one `opcall`; relating the two needs C01's
    compile theorem); (ii) argument BUFFERS — the implementation pops the arguments into a reused
    slice `env.args` and, since fix 5eaecfb, hands a callback a COPY of it (a callback that keeps
    its argument slice used to see it overwritten by later calls); the model passes `args` by
    value, so that aliasing is outside it (searched by the `custom`/`reuse` oracles of
    harness/cmd/c19); (iii) `builtins`, which lists natives and not callbacks. -/
theorem custom_call_is_native_call {W₁ W₂ H : Type} (sem₁ : Sem W₁ H) (w₁ : W₁) (nc₁ : NCode)
    (sem₂ : Sem W₂ H) (w₂ : W₂) (nc₂ : NCode)
    (hcode : codeOf nc₁ = codeOf nc₂) (hobs : sem₁.observe = sem₂.observe)
    (hans : SameAnswers sem₁ w₁ nc₁ sem₂ w₂ nc₂)
    (cancelled : Nat → Bool) (fuel n : Nat) (s : St) (hid : Hid H) :
    runW sem₁ w₁ nc₁ cancelled fuel n s hid = runW sem₂ w₂ nc₂ cancelled fuel n s hid :=
  runW_congr hcode hobs hans cancelled fuel n s hid

/-- The instruction-level core of it, spelled out: the instruction list the loop executes carries no
    callee names — renaming every call site (a callback `f` for a native `g`) leaves `codeOf`
    unchanged; a name only selects the callback that `Sem.native` stands for. -/
theorem call_site_has_no_name (nc : NCode) (ren : String → String) :
    codeOf (nc.map fun p => (p.1, ren p.2)) = codeOf nc := by
  simp [codeOf, Array.map_map, Function.comp_def]

/-! ## 6. non-vacuity: real bytecode under a toy semantics whose clock is the world -/

def never : Nat → Bool := fun _ => false

def sumInts : List JV → Int
  | [] => 0
  | .num (.int i) :: vs => i + sumInts vs
  | _ :: vs => sumInts vs

/-- worlds are (clock reading, one environment variable); `now` answers the clock, the custom
    callback `getenv` answers the variable, `_range` answers the iterator 0,1,2, `add` sums integers,
    `length` counts, everything else is the identity -/
def toySem : Sem (Int × Int) Unit where
  native w _ nm x _ h :=
    if nm == "now" then (.val (.jv (.num (.int w.1))), h)
    else if nm == "getenv" then (.val (.jv (.num (.int w.2))), h)
    else if nm == "_range" then
      (.iter fun k => if k < 3 then .val (.jv (.num (.int k))) else .iterEnd, h)
    else if nm == "add" then
      (match x with | .jv (.arr vs) => .val (.jv (.num (.int (sumInts vs)))) | _ => .err (.msg []), h)
    else if nm == "length" then
      (match x with | .jv (.arr vs) => .val (.jv (.num (.int vs.length))) | _ => .val (.jv (.num (.int 0))), h)
    else (.val x, h)
  observe _ _ _ := (true, [])

/-- the toy semantics satisfies hypothesis A: only `now` and `getenv` read the world, and neither
    is a pure name (`now` is ambient by the table, `getenv` is not in the table at all) -/
theorem toySem_tableSound : TableSound toySem := by
  intro w₁ w₂ pc nm x args h hp
  have h1 := isPure_namePure hp
  have hne : nm ≠ "now" := by
    intro hnm
    rw [hnm] at h1
    have h2 : namePure "now" = false := by decide +kernel
    rw [h2] at h1
    cases h1
  have hne2 : nm ≠ "getenv" := by
    intro hnm
    rw [hnm] at h1
    have h2 : namePure "getenv" = false := by decide +kernel
    rw [h2] at h1
    cases h1
  simp [toySem, hne, hne2]

/-- real bytecode of `length` (VerifCodes dump: `scope|_|1,0,0 call|_|@length/0 ret|_|_`) -/
def codeLength : NCode := #[(.scope 1 0 0, ""), (.callNative .other 0, "length"), (.ret, "")]
/-- real bytecode of `now` -/
def codeNow : NCode := #[(.scope 1 0 0, ""), (.callNative .other 0, "now"), (.ret, "")]
/-- bytecode of a call of a callback registered as `getenv/0` (WithFunction) -/
def codeGetenv : NCode := #[(.scope 1 0 0, ""), (.callNative .other 0, "getenv"), (.ret, "")]
/-- real bytecode of `[range(3)] | add` (44 instructions: closures, a native iterator, `opiter`,
    `opappend`, backtracking) -/
def codeRangeAdd : NCode := #[
  (.scope 1 2 0, ""), (.push (.arr []), ""), (.store 1 0, ""), (.fork 40, ""), (.jump 30, ""),
  (.scope 2 4 1, ""), (.store 2 0, ""), (.store 2 1, ""), (.load 2 0, ""), (.expbegin, ""),
  (.load 2 1, ""), (.callpc, ""), (.store 2 2, ""), (.expend, ""), (.load 2 0, ""),
  (.store 2 3, ""), (.push (.num (.int 1)), ""), (.jump 22, ""), (.scope 4 0 0, ""), (.pop, ""),
  (.load 2 2, ""), (.ret, ""), (.load 2 3, ""), (.pushpc 18, ""), (.callpc, ""),
  (.push (.num (.int 0)), ""), (.load 2 3, ""), (.callNative .other 3, "_range"), (.iter, ""), (.ret, ""),
  (.store 1 1, ""), (.jump 35, ""), (.scope 6 0 0, ""), (.const (.num (.int 3)), ""), (.ret, ""),
  (.pushpc 32, ""), (.load 1 1, ""), (.call 5, ""), (.append 1 0, ""), (.backtrack, ""),
  (.pop, ""), (.load 1 0, ""), (.callNative .other 0, "add"), (.ret, "")]

def outInt : Outcome → Option Int
  | .value (.jv (.num (.int i))) => some i
  | _ => none

def s0 : St := initSt (.jv (.arr [.null, .null])) []
def h0 : Hid Unit := ⟨(), []⟩

/-- the scan accepts the pure programs and rejects `now`, on the code and on the dump -/
example : ambientFree codeLength = true ∧ ambientFree codeRangeAdd = true ∧ ambientFree codeNow = false := by
  decide +kernel
example : ambientFreeView (codeRangeAdd.map viewA) = true ∧ ambientFreeView (codeNow.map viewA) = false := by
  decide +kernel
example : ambientFreeBut "now" codeNow = true ∧ ambientFreeBut "input" codeNow = false := by decide +kernel

/-- the derived runs do run: `length` of a two-element array, then exhaustion; `[range(3)] | add`
    draws three items from the native iterator through `opiter` -/
example : (runW toySem (7, 0) codeLength never 50 2 s0 h0).1.map outInt = [some 2, none] := by decide +kernel
example : (runW toySem (7, 0) codeRangeAdd never 200 2 s0 h0).1.map outInt = [some 3, none] := by decide +kernel

/-- `default_noninterference_vm` applies to them -/
example (w₁ w₂ : Int × Int) (fuel n : Nat) (input : V) :
    runW toySem w₁ codeRangeAdd never fuel n (initSt input []) ⟨(), []⟩
      = runW toySem w₂ codeRangeAdd never fuel n (initSt input []) ⟨(), []⟩ :=
  default_noninterference_vm toySem toySem_tableSound codeRangeAdd (by decide +kernel) w₁ w₂ never fuel n input [] ()

/-- Hypothesis B is needed, and the model can tell worlds apart: the real bytecode of `now` — which
    the scan rejects — outputs the clock of the world. -/
theorem ambient_call_tells_worlds_apart :
    ambientFree codeNow = false
    ∧ (runW toySem (1, 0) codeNow never 50 1 s0 h0).1.map outInt = [some 1]
    ∧ (runW toySem (2, 0) codeNow never 50 1 s0 h0).1.map outInt = [some 2] := by decide +kernel

/-- `granted_capability_only` applies to it: `now` grants the clock and nothing else — worlds with
    the same clock and different environments give the same run -/
example (clock env₁ env₂ : Int) (fuel n : Nat) :
    runW toySem (clock, env₁) codeNow never fuel n s0 h0 = runW toySem (clock, env₂) codeNow never fuel n s0 h0 :=
  granted_capability_only toySem toySem_tableSound "now" codeNow (by decide +kernel) _ _
    (fun _ _ _ _ => by simp [toySem]) never fuel n s0 h0

/-- … and a registered callback grants what it reads and nothing else: `getenv` sees the variable,
    not the clock; the scan without the grant rejects it (a name outside the table) -/
example (clock₁ clock₂ env : Int) (fuel n : Nat) :
    runW toySem (clock₁, env) codeGetenv never fuel n s0 h0 = runW toySem (clock₂, env) codeGetenv never fuel n s0 h0 :=
  granted_capability_only toySem toySem_tableSound "getenv" codeGetenv (by decide +kernel) _ _
    (fun _ _ _ _ => by simp [toySem]) never fuel n s0 h0
example : ambientFree codeGetenv = false ∧ ambientFreeBut "now" codeGetenv = false := by decide +kernel

/-- `world_run_is_vm_run` on the 44-instruction program: the interpreter model under the extracted
    oracle gives the derived outcomes -/
example : (history ⟨codeOf codeRangeAdd, never, extOfRun toySem (7, 0) codeRangeAdd never 200 2 s0 h0⟩ 200 2 s0).map outInt
    = [some 3, none] := by
  rw [world_run_is_vm_run]; decide +kernel

/-- a Go callback `mylen` with the relation of `length`: the same instruction under another name -/
def cbSem : Sem Unit Unit where
  native _ pc nm x args h :=
    if nm == "mylen" then toySem.native (0, 0) pc "length" x args h else toySem.native (0, 0) pc nm x args h
  observe := toySem.observe

def codeMylen : NCode := #[(.scope 1 0 0, ""), (.callNative .other 0, "mylen"), (.ret, "")]

/-- `custom_call_is_native_call` applies: the callback and the native give the same run -/
example (w : Int × Int) (fuel n : Nat) (s : St) (hid : Hid Unit) :
    runW cbSem () codeMylen never fuel n s hid = runW toySem w codeLength never fuel n s hid := by
  refine custom_call_is_native_call cbSem () codeMylen toySem w codeLength
    (by simp [codeOf, codeMylen, codeLength]) rfl ⟨?_, ?_⟩ never fuel n s hid
  · intro pc p₁ p₂ h₁ h₂ hn x args h
    match pc, h₁, h₂ with
    | 0, h₁, _ => simp [codeMylen] at h₁; subst h₁; simp [isNativeCall] at hn
    | 1, h₁, h₂ =>
      simp [codeMylen] at h₁; simp [codeLength] at h₂; subst h₁; subst h₂
      simp [cbSem, toySem]
    | 2, h₁, _ => simp [codeMylen] at h₁; subst h₁; simp [isNativeCall] at hn
    | k + 3, h₁, _ => simp [codeMylen] at h₁
  · intro pc x args h
    simp [cbSem, toySem]

end Gojq.C19VM

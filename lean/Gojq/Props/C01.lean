/-
  C01 — query evaluation follows jq's backtracking-generator semantics.

  This file: the *Spec sanity laws* (DESIGN §6 C01.4).  `Gojq.Spec.eval` (Model/Spec.lean) is the
  prescription the real VM is compared against on every run (stream `eval`); the theorems
  below pin the prose of the property to that definition, for ALL sub-programs, inputs,
  environments and fuel: pipe is sequencing, comma is concatenation, the right operand of an
  arithmetic/comparison operator is the outer loop, `//`, `try`, `label`/`break`, `reduce`,
  and the algebra of sequencing itself.  Each law with hypotheses is followed by a concrete
  instance evaluated by the kernel.

  The refinement content of C01 is in Props/C01Stack.lean (persistent stacks) and
  Props/C01Compile.lean (compiler + VM for the fragment with closures and recursion).
  Helper lemmas: Proofs/SpecLaws.lean.
-/
import Gojq.Proofs.SpecLaws
namespace Gojq.C01
open Gojq Gojq.Spec

/-! ### sequencing is a monad on streams-with-a-stop -/

/-- Sequencing is associative: feeding the outputs of `r` to `f` and those to `g` is feeding
    the outputs of `r` to "`f` then `g`" — including where the first error / out-of-fuel cuts
    the stream.  Hypothesis: no output of `r` is marked as coming from a non-last `?//`
    alternative (`pend`); see `bind_not_assoc_on_pending` for why it is needed. -/
theorem Res.bind_assoc (r : Res) (f g : St → Res) (h : r.NoPend) :
    (r.bind f).bind g = r.bind (fun x => (f x).bind g) := by
  simp only [Res.bind]
  exact bindList_assoc f g r.stop r.outs h

example : (⟨[sNull, { v := .bool true }], .done⟩ : Res).NoPend := by
  intro x hx; simp at hx; rcases hx with rfl | rfl <;> rfl

/-- The `pend` bookkeeping of the model (an error downstream of an output of a non-last `?//`
    alternative is reported as `unmodelled`, and the flag is inherited by everything computed
    from such an output) makes sequencing non-associative for filters that look at the flag:
    the hypothesis of `Res.bind_assoc` cannot be dropped. -/
theorem bind_not_assoc_on_pending :
    ¬ ∀ (r : Res) (f g : St → Res), (r.bind f).bind g = r.bind (fun x => (f x).bind g) := by
  intro h
  have := congrArg (fun r => r.outs.length)
    (h ⟨[{ v := .null, pend := true }], .done⟩ (fun x => Res.one { x with pend := false }) pendSensitive)
  revert this
  decide

/-- `Res.one` is a right unit of sequencing. -/
theorem Res.bind_one (r : Res) : r.bind Res.one = r := by
  simp only [Res.bind, bindList_one]

/-- `Res.one` is a left unit of sequencing (for an input that is not `pend`-marked). -/
theorem Res.one_bind (s : St) (f : St → Res) (h : s.pend = false) : (Res.one s).bind f = f s := by
  rw [one_bind_wrap, h]; rfl

example : (Res.one sNull).bind (fun x => Res.one { x with v := .bool true }) = Res.one { v := .bool true } :=
  Res.one_bind _ _ rfl

/-! ### pipe, comma, empty -/

/-- `l | r` is sequencing: every output of `l`, in order, is the input of `r`; the first
    error (or running out of fuel) ends the stream.  Definitions in the query header are in
    scope of both sides. -/
theorem pipe_is_bind (n : Nat) (cfg : Cfg) (env : Env) (ds : List FuncDef) (l r : Query) (s : St) :
    eval (n+1) cfg env (.binop ds .pipe l r) s
      = (eval n cfg (env.defs ds) l s).bind (fun x => eval n cfg (env.defs ds) r x) := by
  simp only [eval, Query.defs]

/-- the same without header definitions, as stated in the property -/
theorem pipe_is_bind_nodefs (n : Nat) (cfg : Cfg) (env : Env) (l r : Query) (s : St) :
    eval (n+1) cfg env (.binop [] .pipe l r) s = (eval n cfg env l s).bind (fun x => eval n cfg env r x) :=
  pipe_is_bind n cfg env [] l r s

/-- `(1, 2) | (., 10)` is `1, 10, 2, 10`: the left side is the outer loop. -/
example : ((eval 30 cfg0 .empty exPipe sNull).vals == [jvInt 1, jvInt 10, jvInt 2, jvInt 10]) = true := by
  decide +kernel

/-- `l, r` is concatenation: all outputs of `l`, then (only if `l` ended normally) all outputs
    of `r`, both on the same input. -/
theorem comma_is_append (n : Nat) (cfg : Cfg) (env : Env) (ds : List FuncDef) (l r : Query) (s : St) :
    eval (n+1) cfg env (.binop ds .comma l r) s
      = (eval n cfg (env.defs ds) l s).append (fun _ => eval n cfg (env.defs ds) r s) := by
  simp only [eval, Query.defs]

/-- `empty` emits nothing and ends normally (when no user definition shadows it). -/
theorem empty_is_empty (n : Nat) (cfg : Cfg) (env : Env) (s : St)
    (h1 : lookupCall "empty" 0 env.bs = .none) (h2 : cfg.builtins.find "empty" 0 = none) :
    eval (n+4) cfg env (Query.call "empty") s = Res.empty := by
  simp only [eval, evalTerm, evalCore, evalCall, Query.call, Query.ofTerm, Query.defs, Env.defs, List.foldl,
    List.reverse_nil, List.length_nil, h1, h2]
  have : "empty".startsWith "$" = false := by decide +kernel
  simp only [this]
  rfl

example : lookupCall "empty" 0 Env.empty.bs = .none ∧ cfg0.builtins.find "empty" 0 = none := ⟨rfl, rfl⟩

/-! ### binary operators: the right operand is the outer loop -/

/-- For every arithmetic and comparison operator `l op r` (`+ - * / % == != > < >= <=`), the
    RIGHT operand is evaluated first and is the outer loop; for each of its outputs the left
    operand is evaluated, and the native is applied to each pair.  (gojq compiles
    `l op r` to a call `_op(l; r)` and evaluates arguments last to first.) -/
theorem binop_right_operand_outer (n : Nat) (cfg : Cfg) (env : Env) (ds : List FuncDef) (op : Op) (name : String)
    (h : opNative? op = some name) (l r : Query) (s : St) :
    eval (n+2) cfg env (.binop ds op l r) s =
      (eval n cfg (env.defs ds) r s).bind fun y =>
        (eval n cfg (env.defs ds) l { s with ctx := y.ctx }).bind fun x => binApply name s x y := by
  cases op <;> simp only [opNative?, Option.some.injEq, reduceCtorEq] at h <;> subst h <;>
    simp only [eval, Query.defs, evalBinNative_eq]

example : opNative? .add = some "_add" := rfl

/-- `(1,2) + (10,20)` is `11, 12, 21, 22`: for each right value, every left value. -/
example : ((eval 30 cfg0 .empty exPlus sNull).vals == [jvInt 11, jvInt 12, jvInt 21, jvInt 22]) = true := by
  decide +kernel

/-! ### `//` -/

/-- `l // r`: if `l` ends normally and has outputs other than `false`/`null`, exactly those
    are emitted (and `r` is not run). -/
theorem alt_truthy (n : Nat) (cfg : Cfg) (env : Env) (ds : List FuncDef) (l r : Query) (s : St)
    (hd : (eval n cfg (env.defs ds) l s).stop = .done)
    (ht : ((eval n cfg (env.defs ds) l s).outs.filter fun x => !isFalsy x.v) ≠ []) :
    eval (n+1) cfg env (.binop ds .alt l r) s =
      ⟨(eval n cfg (env.defs ds) l s).outs.filter fun x => !isFalsy x.v, .done⟩ := by
  simp only [eval, Query.defs, hd]
  simp [ht]

/-- `(null, 1, false, 2) // 3` is `1, 2`. -/
example : ((eval 30 cfg0 .empty exAltTruthy sNull).vals == [jvInt 1, jvInt 2]) = true := by decide +kernel

/-- `l // r`: if `l` ends normally and every output is `false` or `null` (or there is none),
    the result is `r` on the same input. -/
theorem alt_all_falsy (n : Nat) (cfg : Cfg) (env : Env) (ds : List FuncDef) (l r : Query) (s : St)
    (hd : (eval n cfg (env.defs ds) l s).stop = .done)
    (ht : ((eval n cfg (env.defs ds) l s).outs.filter fun x => !isFalsy x.v) = []) :
    eval (n+1) cfg env (.binop ds .alt l r) s = eval n cfg (env.defs ds) r s := by
  simp only [eval, Query.defs, hd]
  simp [ht]

/-- `(null, false) // 3` is `3`. -/
example : ((eval 30 cfg0 .empty exAltFalsy sNull).vals == [jvInt 3]) = true := by decide +kernel

/-- gojq does NOT suppress an error of the left operand of `//`: the truthy outputs before it
    are emitted and the stream ends with the error (the model follows the code here). -/
theorem alt_error_not_suppressed (n : Nat) (cfg : Cfg) (env : Env) (ds : List FuncDef) (l r : Query) (s : St)
    (e : Err) (hd : (eval n cfg (env.defs ds) l s).stop = .err e) :
    eval (n+1) cfg env (.binop ds .alt l r) s =
      ⟨(eval n cfg (env.defs ds) l s).outs.filter fun x => !isFalsy x.v, .err e⟩ := by
  rw [eval_alt]
  simp only [hd]
  by_cases hf : (List.filter (fun x => !isFalsy x.v) (eval n cfg (env.defs ds) l s).outs).isEmpty = true
  · rw [if_pos hf]; rw [List.isEmpty_iff] at hf; rw [hf]
  · rw [if_neg hf]

/-! ### `try`, `label`, `break` -/

/-- `try` does not catch `break`: a `break` raised inside the body passes through `try … catch …`
    unchanged (outputs before it included). -/
theorem try_does_not_catch_break (n : Nat) (cfg : Cfg) (env : Env) (body : Query) (c : Option Query) (s : St)
    (id : Nat) (h : (eval n cfg env body s).stop = .err (.brk id)) :
    evalCore (n+1) cfg env (.try_ body c) s = eval n cfg env body s := by
  simp only [evalCore, h]

/-- `label $out | try break $out catch 7` emits nothing (the catch body does not run). -/
example : ((eval 30 cfg0 .empty exTryBreak sNull).vals == []) = true
    ∧ (eval 30 cfg0 .empty exTryBreak sNull).stop.isDone = true := by decide +kernel

/-- `try body` (no `catch`) ends the stream silently at the first built-in error of the body. -/
theorem try_catches_error (n : Nat) (cfg : Cfg) (env : Env) (body : Query) (s : St) (k : String) (a : List JV)
    (h : (eval n cfg env body s).stop = .err (.builtin k a)) :
    evalCore (n+1) cfg env (.try_ body none) s = ⟨(eval n cfg env body s).outs, .done⟩ := by
  simp only [evalCore, h]

/-- `label $name | body` catches the `break` of ITS OWN activation: the outputs before the
    break are emitted and the stream ends normally. -/
theorem label_catches_own_break (n : Nat) (cfg : Cfg) (env : Env) (name : String) (body : Query) (s : St)
    (h : (eval n cfg (env.push (.label name n)) body s).stop = .err (.brk n)) :
    evalCore (n+1) cfg env (.label name body) s = ⟨(eval n cfg (env.push (.label name n)) body s).outs, .done⟩ := by
  simp only [evalCore, h]
  simp

/-- `[label $out | 1, break $out, 2]` is `[1]`. -/
example : ((eval 30 cfg0 .empty exLabel sNull).vals == [.arr [jvInt 1]]) = true := by decide +kernel

/-- … and lets the `break` of any other label activation pass. -/
theorem label_passes_other_break (n : Nat) (cfg : Cfg) (env : Env) (name : String) (body : Query) (s : St)
    (id : Nat) (h : (eval n cfg (env.push (.label name n)) body s).stop = .err (.brk id)) (hne : id ≠ n) :
    evalCore (n+1) cfg env (.label name body) s = eval n cfg (env.push (.label name n)) body s := by
  simp only [evalCore, h]
  simp [hne]

/-- `break $name` raises the break of the innermost enclosing label of that name. -/
theorem break_raises_label (n : Nat) (cfg : Cfg) (env : Env) (name : String) (s : St) (id : Nat)
    (h : lookupLabel name env.bs = some id) :
    evalCore (n+1) cfg env (.break_ name) s = Res.fail (.brk id) := by
  simp only [evalCore, h]

example : lookupLabel "$out" (Env.empty.push (.label "$out" 7)).bs = some 7 := rfl

/-! ### `reduce` -/

/-- One step of `reduce … as $x (…; update)`: when `update` emits at least one value and ends
    normally, its LAST output is the new state. -/
theorem reduce_last_output_is_state (bindPat : St → PatRes) (upd : St → Env → JV → Ident → Res)
    (x : St) (env' : Env) (sv : JV) (sid : Ident) (outs : List St) (l : St)
    (hb : bindPat x = PatRes.ok [env']) (hu : upd x env' sv sid = ⟨outs, .done⟩) (hl : outs.getLast? = some l) :
    reduceStep bindPat upd (.ok (sv, sid)) x = .ok (l.v, l.id) := by
  simp [reduceStep, hb, hu, hl, PatRes.ok]

/-- `reduce (1,2) as $x (10; ., $x)` is `2`. -/
example : ((eval 30 cfg0 .empty exReduceLast sNull).vals == [jvInt 2]) = true := by decide +kernel

/-- One step of `reduce`: when `update` is empty the state is KEPT (gojq; jq 1.5 too —
    jq ≥ 1.6 makes it `null`; the model follows the code). -/
theorem reduce_empty_keeps_state (bindPat : St → PatRes) (upd : St → Env → JV → Ident → Res)
    (x : St) (env' : Env) (sv : JV) (sid : Ident)
    (hb : bindPat x = PatRes.ok [env']) (hu : upd x env' sv sid = ⟨[], .done⟩) :
    reduceStep bindPat upd (.ok (sv, sid)) x = .ok (sv, sid) := by
  simp [reduceStep, hb, hu, PatRes.ok]

/-- `reduce (1,2) as $x (10; empty)` is `10`. -/
example : ((eval 30 cfg0 .empty exReduceEmpty sNull).vals == [jvInt 10]) = true := by decide +kernel

/-- `reduce` is the left fold of `reduceStep` over the outputs of the source, started from each
    output of the initial-state query; it emits the final state once. -/
theorem reduce_is_fold (n : Nat) (cfg : Cfg) (env : Env) (src : Query) (pat : Pattern) (start update : Query) (s : St) :
    evalCore (n+1) cfg env (.reduce src pat start update) s =
      (eval n cfg env start s).bind fun st0 =>
        let rs := eval n cfg env src { s with ctx := st0.ctx }
        let step := reduceStep (fun x => bindPattern n cfg env pat x.v x.id x.ctx)
          (fun x env' sv sid => eval n cfg env' update { v := sv, id := sid, ctx := x.ctx })
        match rs.outs.foldl step (.ok (st0.v, st0.id)) with
        | .error st => ⟨[], st⟩
        | .ok (sv, sid) =>
          match rs.stop with
          | .done => .one { v := sv, id := sid, ctx := st0.ctx }
          | st => ⟨[], st⟩ := by
  simp only [evalCore]; rfl

/-! ### scoping and evaluation order, as concrete programs -/

/-- Function definitions are lexically scoped: in `def f: def g: 1; g; def g: 2; f` the `g`
    called by `f` is the one visible where `f` was defined, so the result is `1`. -/
theorem def_is_lexical : ((eval 30 cfg0 .empty exLexical sNull).vals == [jvInt 1]) = true := by
  decide +kernel

/-- `$`-parameters are bound left to right, the first being the outermost loop:
    `def f($a; $b): [$a, $b]; f(1,2; 3,4)` is `[1,3], [1,4], [2,3], [2,4]`. -/
theorem value_params_left_to_right :
    ((eval 30 cfg0 .empty exParams sNull).vals ==
      [.arr [jvInt 1, jvInt 3], .arr [jvInt 1, jvInt 4], .arr [jvInt 2, jvInt 3], .arr [jvInt 2, jvInt 4]]) = true := by
  decide +kernel

/-- In object construction the key generator is the outer loop of the value generator:
    `{("a","b"): (1,2)}` is `{"a":1}, {"a":2}, {"b":1}, {"b":2}`. -/
theorem object_keys_before_values :
    ((eval 30 cfg0 .empty exObject sNull).vals ==
      [.obj [(B "a", jvInt 1)], .obj [(B "a", jvInt 2)], .obj [(B "b", jvInt 1)], .obj [(B "b", jvInt 2)]]) = true := by
  decide +kernel

end Gojq.C01

/-
  C06 / C05 — the regexp cache of a Code is invisible EXACTLY WHEN its key determines the answer.

  Props/C06.lean (`regexp_cache_monotone`) models `compileRegexp` with an abstract key that by
  construction determines the result.  func.go's function has ARGUMENTS `(re, flags)`, computes a key
  from them, and answers either from the cache or by validating the flags and compiling.  This file
  models that shape — arguments `A`, `key : A → K`, the answer of an uncached call `res : A → Option V`
  (`none`: unsupported flag / does not compile; errors are not stored) — and proves:

    * `history_invisible`     : if `key a = key b → res a = res b` then after ANY history of calls
                                (any arguments, any order, from the empty cache) a call answers `res a`;
    * `interleaving_invisible`: the same under any interleaving of the atomic Load / Store steps of
                                any number of calls (instance of `C06.regexp_cache_monotone`);
    * `key_must_determine`    : CONVERSELY, if two argument tuples share a key but not the answer, some
                                two-call history makes a call answer differently from `res` — so
                                "the key determines the answer" is exactly the condition;
    * `pair_key_determines`   : the key of the code, the pair `[2]string{re, flags}` itself, meets it
                                for every `res`;
    * `prefixed_pattern_key_is_visible` : the key "pattern with the inline flags prefixed" together
                                with flag validation after the lookup (seeded change C06_r6m1 / C03_r5m1)
                                does NOT: `("a", "x")` after `("a", "")` is answered by the cached regexp
                                instead of `unsupported regular expression flag`.
  The tie to the code is the history oracle of the C06 check (every input through a fresh Code vs. the
  same inputs one after the other, and concurrently, through one shared Code) and the `same-query`
  oracle of C03/C14.
-/
import Gojq.Props.C06

namespace Gojq.C06Cache
open Gojq Gojq.Conc

variable {A K V : Type} [DecidableEq K]

/-- one whole call of `compileRegexp` on arguments `a`: answer and cache afterwards -/
def call (key : A → K) (res : A → Option V) (cache : K → Option V) (a : A) : Option V × (K → Option V) :=
  match cache (key a) with
  | some v => (some v, cache)
  | none =>
    match res a with
    | some v => (some v, fun k => if k = key a then some v else cache k)
    | none => (none, cache)

/-- the cache after a history of calls -/
def after (key : A → K) (res : A → Option V) : List A → (K → Option V) → (K → Option V)
  | [], c => c
  | a :: hist, c => after key res hist (call key res c a).2

/-- the key determines the answer -/
def KeyDetermines (key : A → K) (res : A → Option V) : Prop := ∀ a b, key a = key b → res a = res b

/-- every entry answers every call that maps to its key -/
def Sound (key : A → K) (res : A → Option V) (cache : K → Option V) : Prop :=
  ∀ a v, cache (key a) = some v → res a = some v

theorem call_sound {key : A → K} {res : A → Option V} (hd : KeyDetermines key res) {cache : K → Option V}
    (hs : Sound key res cache) (a : A) :
    (call key res cache a).1 = res a ∧ Sound key res (call key res cache a).2 := by
  unfold call
  cases hc : cache (key a) with
  | some v => exact ⟨(hs a v hc).symm, hs⟩
  | none =>
    cases hr : res a with
    | none => exact ⟨rfl, hs⟩
    | some v =>
      refine ⟨rfl, ?_⟩
      intro b w hb
      simp only at hb
      by_cases hk : key b = key a
      · rw [if_pos hk] at hb
        rw [hd b a hk, hr]; exact hb
      · rw [if_neg hk] at hb
        exact hs b w hb

theorem after_sound {key : A → K} {res : A → Option V} (hd : KeyDetermines key res) :
    ∀ (hist : List A) (cache : K → Option V), Sound key res cache → Sound key res (after key res hist cache)
  | [], _, hs => hs
  | a :: hist, cache, hs => after_sound hd hist _ (call_sound hd hs a).2

/-- after ANY history of calls from the empty cache, a call answers what it answers alone -/
theorem history_invisible {key : A → K} {res : A → Option V} (hd : KeyDetermines key res)
    (hist : List A) (a : A) :
    (call key res (after key res hist (fun _ => none)) a).1 = res a :=
  (call_sound hd (after_sound hd hist _ (fun _ _ h => by cases h)) a).1

/-- CONVERSELY: a key that does not determine the answer is visible in a two-call history -/
theorem key_must_determine {key : A → K} {res : A → Option V} (h : ¬ KeyDetermines key res) :
    ∃ (b a : A), (call key res (after key res [b] (fun _ => none)) a).1 ≠ res a := by
  have ⟨a, b, hk, hne⟩ : ∃ a b, key a = key b ∧ res a ≠ res b := by
    apply Classical.byContradiction
    intro hcon
    apply h
    intro a b hk
    apply Classical.byContradiction
    intro hne
    exact hcon ⟨a, b, hk, hne⟩
  cases hb : res b with
  | some w =>
    -- `b` first: its regexp is stored under the common key and answers `a`
    refine ⟨b, a, ?_⟩
    simp only [after, call, hb, hk, if_true]
    intro heq
    exact hne (by rw [← heq, hb])
  | none =>
    -- `res b = none`, so `res a = some v`: `a` first, then `b` is answered by `a`'s regexp
    cases ha : res a with
    | none => exact absurd (by rw [ha, hb]) hne
    | some v =>
      refine ⟨a, b, ?_⟩
      simp only [after, call, ha, ← hk, if_true]
      intro heq
      rw [hb] at heq
      cases heq

/-- the key of the code — the argument pair itself — determines every answer -/
theorem pair_key_determines (res : K → Option V) : KeyDetermines (fun a => a) res := by
  intro a b h; rw [show a = b from h]

/-- under any interleaving of the atomic steps of any number of calls every finished call returned
    what it returns alone (instance of `C06.regexp_cache_monotone` at the key `(re, flags)`) -/
theorem interleaving_invisible (res : K → Option V) (sch : List Nat)
    (calls : Nat → Call K V) (hstart : ∀ t, calls t = .start (calls t).key) :
    ∀ t k r, (cacheExec res sch (calls, fun _ => none)).1 t = .done k r → r = res k :=
  fun t => ((C06.regexp_cache_monotone res sch calls (fun _ => none) (fun _ _ h => by cases h) hstart).2.2 t).2

/-! ### the seeded key -/

/-- the pattern `compileRegexp` compiles: inline flags prefixed (strings as lists of characters) -/
def prefixed (a : List Char × List Char) : List Char :=
  (if a.2.elem 'm' then "(?s)".toList else []) ++ (if a.2.elem 'i' then "(?i)".toList else []) ++ a.1

/-- answer of an uncached call: unsupported flag letters are an error -/
def resFlags (a : List Char × List Char) : Option (List Char) :=
  if a.2.all (fun c => c == 'g' || c == 'i' || c == 'm') then some (prefixed a) else none

/-- keyed by the prefixed pattern, with the flags validated only after the lookup, the cache is
    visible: `test("a"; "x")` after `test("a")` finds the entry of `("a", "")` -/
theorem prefixed_pattern_key_is_visible :
    (call prefixed resFlags (after prefixed resFlags [(['a'], [])] (fun _ => none)) (['a'], ['x'])).1 = some ['a'] ∧
    resFlags (['a'], ['x']) = none ∧ ¬ KeyDetermines prefixed resFlags := by
  refine ⟨by decide, by decide, ?_⟩
  intro h
  have := h (['a'], []) (['a'], ['x']) (by decide)
  revert this
  decide

/-- … while the same `res` under the pair key is invisible after every history -/
example (hist : List (List Char × List Char)) (a : List Char × List Char) :
    (call (fun a => a) resFlags (after (fun a => a) resFlags hist (fun _ => none)) a).1 = resFlags a :=
  history_invisible (pair_key_determines resFlags) hist a

end Gojq.C06Cache

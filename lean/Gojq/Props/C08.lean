/-
  C08 — no query text or input can crash the library or the command.

  "The Go program never panics" is not a theorem about a model; panic-freedom of each component
  IS, because every Go panic site is an explicit outcome in the component models.  This file
  collects those component theorems (proved in the files of the properties that own the models;
  restated here so that the C08 check re-checks them and audits their axioms), and the C08
  harness is the failing-input search for the whole program (library, iterator protocol, command).
  What is NOT proved: `vm_total_wf` — that compiler output never drives the VM into a panic site
  (needs compiler correctness for the full grammar, C01); it rests on the search.  Two real
  defects of that kind were found and repaired (`1 + (label $l | .)`, iterator re-entry).
-/
import Gojq.Props.C01Stack
import Gojq.Props.C07
import Gojq.Props.C09
import Gojq.Props.C10
import Gojq.Props.C12
import Gojq.Props.C14
import Gojq.Props.C15
import Gojq.Props.C16
import Gojq.Props.C17
namespace Gojq.C08

/-- lexer: for every byte string and every sequence of `Lex` calls no index is out of bounds -/
theorem lex_total : type_of% @Gojq.C09.lex_total := @Gojq.C09.lex_total
/-- `ParseError.Offset` lies within the source … -/
theorem parse_error_offset_le : type_of% @Gojq.C09.parse_error_offset_le := @Gojq.C09.parse_error_offset_le
/-- … and covers the token (`Offset - len(Token) ≥ 0`) -/
theorem parse_error_token_le : type_of% @Gojq.C09.parse_error_token_le := @Gojq.C09.parse_error_token_le

/-- persistent stacks: under the fork discipline `pop`/`push` never index out of range -/
theorem stack_pop_total : type_of% @Gojq.C01Stack.pop_never_panics_when_spec_nonempty :=
  @Gojq.C01Stack.pop_never_panics_when_spec_nonempty
theorem stack_push_total : type_of% @Gojq.C01Stack.push_never_panics := @Gojq.C01Stack.push_never_panics

/-- iterator protocol: after `(nil,false)` and after a context error further `Next` calls return
    `(nil,false)` — they do not re-enter an instruction -/
theorem exhausted_terminal : type_of% @Gojq.C07.exhausted_terminal := @Gojq.C07.exhausted_terminal
theorem cancel_terminal : type_of% @Gojq.C07.cancel_terminal := @Gojq.C07.cancel_terminal
/-- the fork/stack invariant holds in every reachable VM state -/
theorem vm_reachable_invariant : type_of% @Gojq.C07.reachable_invariant := @Gojq.C07.reachable_invariant
/-- after an emitted error the re-entered instruction does not panic (partial, see C07) -/
theorem after_error_advancable_partial : type_of% @Gojq.C07.after_error_advancable_partial :=
  @Gojq.C07.after_error_advancable_partial

/-- division and modulo by zero are error VALUES -/
theorem div_mod_zero_error : type_of% @Gojq.C10.div_mod_zero_error := @Gojq.C10.div_mod_zero_error

/-- encoder: output is valid UTF-8 for every byte string; the indent writer is exact for all depths -/
theorem encodeString_valid_utf8 : type_of% @Gojq.C12.encodeString_valid_utf8 := @Gojq.C12.encodeString_valid_utf8
theorem indent_exact : type_of% @Gojq.C12.indent_exact := @Gojq.C12.indent_exact

/-- string slicing / regex offsets: Go's `v[start:end]` cannot panic; `match` never panics on a
    well-formed engine answer -/
theorem slice_bytes_ordered : type_of% @Gojq.C14.slice_bytes_ordered := @Gojq.C14.slice_bytes_ordered
theorem match_no_panic : type_of% @Gojq.C14.match_no_panic := @Gojq.C14.match_no_panic

/-- command: `--raw-output0` turns a NUL-containing string into an error, not output -/
theorem raw_output0_rejects_nul : type_of% @Gojq.C15.raw_output0_rejects_nul := @Gojq.C15.raw_output0_rejects_nul
/-- `--stream`: every truncated document yields events then ONE error, never a panic -/
theorem stream_truncated : type_of% @Gojq.C16.stream_truncated := @Gojq.C16.stream_truncated
/-- error positions: the stdin window never panics and `getLineByOffset` accepts any offset -/
theorem window_invariant : type_of% @Gojq.C17.window_invariant := @Gojq.C17.window_invariant
theorem lineinfo_nonpositive : type_of% @Gojq.C17.lineinfo_nonpositive := @Gojq.C17.lineinfo_nonpositive
theorem seekable_reread : type_of% @Gojq.C17.seekable_reread := @Gojq.C17.seekable_reread

end Gojq.C08

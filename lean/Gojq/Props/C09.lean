/-
  C09 — parsing follows jq's grammar and `String()` round-trips.

  Property theorems.  The finite, kernel-evaluated ones live in sub-modules so that they are
  checked in parallel (all are listed in checks.d/C09.json and audited):
    Props/C09/Pairs.lean       lalr_pairs (144 operator pairs on the shipped tables)
    Props/C09/Triples<Op>.lean lalr_triples_<op> (12 × 144 = 1728 operator triples)
    Props/C09/Shapes.lean      sign / as / def / label / reduce / foreach / if / try shapes, no_error_shift
    Props/C09/Lex.lean         op_class_complete, lexOps tables, keywords
    Props/C09/RoundTrip.lean   print_parse_roundtrip_statement (not proved), roundtrip_instances
  This file: the statements that quantify over ALL byte strings / ALL token sources, the summary
  of the triples, and the statements that are not proved (`…_statement`, with the gap explained).

  Models: Model/Lexer.lean (lexer.go), Model/LALR.lean (yyParse over Generated/Lalr.lean),
  Model/Parse.lean (semantic actions, AST), Model/Printer.lean (writeTo), Model/RefParser.lean
  (the documented operator table).  All four are tied to the code by the streams lex / parse /
  print of this run.
-/
import Gojq.Proofs.Lexer
import Gojq.Proofs.LALR
import Gojq.Props.C09.Pairs
import Gojq.Props.C09.Shapes
import Gojq.Props.C09.Lex
import Gojq.Props.C09.RoundTrip
import Gojq.Props.C09.TriplesPipe
import Gojq.Props.C09.TriplesComma
import Gojq.Props.C09.TriplesAlt
import Gojq.Props.C09.TriplesUpdate
import Gojq.Props.C09.TriplesOr
import Gojq.Props.C09.TriplesAnd
import Gojq.Props.C09.TriplesCompare
import Gojq.Props.C09.TriplesAdd
import Gojq.Props.C09.TriplesSub
import Gojq.Props.C09.TriplesMul
import Gojq.Props.C09.TriplesDiv
import Gojq.Props.C09.TriplesMod
namespace Gojq.C09
open Gojq Gojq.Lexer Gojq.LALR Gojq.Parse Gojq.RefParser Gojq.Generated.Lalr

/-! ### 1. precedence and associativity: all triples -/

/-- every ordered triple of the 12 operator token classes around atoms is bracketed by the shipped
    LALR tables exactly as the documented table prescribes (1728 chains; combines the twelve
    kernel-checked slices). -/
theorem lalr_triples : ∀ o1 ∈ Op.all, ∀ o2 ∈ Op.all, ∀ o3 ∈ Op.all,
    shapeOf (tripleToks o1 o2 o3) = refShape (tripleToks o1 o2 o3) := by
  intro o1 _ o2 h2 o3 h3
  cases o1
  · exact lalr_triples_pipe o2 h2 o3 h3
  · exact lalr_triples_comma o2 h2 o3 h3
  · exact lalr_triples_alt o2 h2 o3 h3
  · exact lalr_triples_update o2 h2 o3 h3
  · exact lalr_triples_or o2 h2 o3 h3
  · exact lalr_triples_and o2 h2 o3 h3
  · exact lalr_triples_compare o2 h2 o3 h3
  · exact lalr_triples_add o2 h2 o3 h3
  · exact lalr_triples_sub o2 h2 o3 h3
  · exact lalr_triples_mul o2 h2 o3 h3
  · exact lalr_triples_div o2 h2 o3 h3
  · exact lalr_triples_mod o2 h2 o3 h3

/-! ### 2. the AST depends only on the token sequence -/

/-- THE PARSE IS A FUNCTION OF THE TOKEN SEQUENCE.  Two token sources (for instance the lexer on
    two differently spaced texts) that deliver the same tokens — code and semantic value — and
    treat the parser's `inString` feedback alike, related by any relation `R` on their states,
    give the same parse tree, or are rejected in the same parser state on the same token.
    Nothing else of the lexer state (offsets, skipped white space and comments) can reach the AST. -/
theorem ast_depends_on_tokens {σ₁ σ₂ τ : Type} (src₁ : Source σ₁ τ) (src₂ : Source σ₂ τ) (R : σ₁ → σ₂ → Prop)
    (hnext : ∀ a b, R a b → (src₁.next a).1 = (src₂.next b).1 ∧ (src₁.next a).2.1 = (src₂.next b).2.1 ∧
      R (src₁.next a).2.2 (src₂.next b).2.2)
    (hred : ∀ r a b, R a b → R (src₁.onReduce r a) (src₂.onReduce r b))
    (fuel : Nat) (stack : List (Int × PT τ)) (look : Option (Int × τ)) (a : σ₁) (b : σ₂) (h : R a b) :
    (run src₁ fuel stack look a).Same (run src₂ fuel stack look b) :=
  run_simulation src₁ src₂ R hnext hred fuel stack look a b h

/-- what `Lex` returns depends only on the unread source and the interpolation flag -/
def SameUnread (a b : LState) : Prop := a.rest = b.rest ∧ a.inString = b.inString

theorem lex_depends_on_unread (a b : LState) (h : SameUnread a b) :
    (lex a).1 = (lex b).1 ∧ (lex a).2.1 = (lex b).2.1 ∧ SameUnread (lex a).2.2 (lex b).2.2 := by
  obtain ⟨hr, hi⟩ := h
  unfold lex
  rw [hr, hi]
  split
  · exact ⟨rfl, rfl, by simp [commit, SameUnread, hr, hi]⟩
  · split
    · exact ⟨rfl, rfl, by simp [commit, SameUnread, hr, hi]⟩
    · split
      · exact ⟨rfl, rfl, by simp [SameUnread]⟩
      · exact ⟨rfl, rfl, by simp [commit, SameUnread, hr, hi]⟩
      · exact ⟨rfl, rfl, by simp [commit, SameUnread, hr, hi]⟩

/-- hence the parse from any lexer state onwards is a function of the unread source and the
    interpolation flag: how the lexer got there (offset, previous token, what it skipped) is
    irrelevant. -/
theorem parse_depends_on_unread (fuel : Nat) (stack : List (Int × PT LVal)) (look : Option (Int × LVal))
    (a b : LState) (h : SameUnread a b) :
    (run Parse.source fuel stack look a).Same (run Parse.source fuel stack look b) := by
  refine run_simulation Parse.source Parse.source SameUnread ?_ ?_ fuel stack look a b h
  · intro a b hab
    obtain ⟨h1, h2, h3⟩ := lex_depends_on_unread a b hab
    simp only [Parse.source]
    exact ⟨by rw [h1], h2, h3⟩
  · intro r a b hab
    simp only [Parse.source]
    split
    · exact ⟨hab.1, rfl⟩
    · exact hab

/-- THE GAP BEFORE A TOKEN IS IRRELEVANT: outside a string, if `next` skips two gaps (white space,
    comments) and arrives at the same byte with the same bytes after it, `Lex` returns the same
    token with the same semantic value and leaves the same unread source — whatever the gaps
    consisted of. -/
theorem lex_gap_irrelevant (a b : LState) (ha : a.inString = false) (hb : b.inString = false)
    (ch : UInt8) (w w' : Nat) (hn : next a.rest = .char ch w) (hn' : next b.rest = .char ch w')
    (hr : a.rest.drop w = b.rest.drop w') :
    (lex a).1 = (lex b).1 ∧ (lex a).2.1 = (lex b).2.1 ∧ SameUnread (lex a).2.2 (lex b).2.2 := by
  have hane : a.rest.isEmpty = false := by
    cases h : a.rest with
    | nil => rw [h] at hn; simp [next, nextAux] at hn
    | cons _ _ => rfl
  have hbne : b.rest.isEmpty = false := by
    cases h : b.rest with
    | nil => rw [h] at hn'; simp [next, nextAux] at hn'
    | cons _ _ => rfl
  unfold lex
  simp only [hane, hbne, ha, hb, hn, hn', hr, commit, SameUnread, Bool.false_eq_true, if_false]
  refine ⟨trivial, trivial, ?_, trivial⟩
  rw [← List.drop_drop, ← List.drop_drop, hr]  -- drop (w + n) = drop n ∘ drop w

/-- THE AMOUNT OF WHITE SPACE BEFORE A TOKEN IS IRRELEVANT (including none): outside a string, two
    lexer states whose unread sources are `g ++ X` and `g' ++ X` with `g`, `g'` white space only
    and `X` empty or starting with a byte that begins a token, return the same token with the same
    semantic value and leave the same unread source. -/
theorem lex_white_gap_irrelevant (a b : LState) (g g' X : Bytes)
    (ha : a.inString = false) (hb : b.inString = false)
    (hg : ∀ w ∈ g, isWhite w = true) (hg' : ∀ w ∈ g', isWhite w = true)
    (hX : ∀ c ∈ X.head?, isWhite c = false ∧ (c == 35) = false)
    (hra : a.rest = g ++ X) (hrb : b.rest = g' ++ X) :
    (lex a).1 = (lex b).1 ∧ (lex a).2.1 = (lex b).2.1 ∧ SameUnread (lex a).2.2 (lex b).2.2 := by
  cases X with
  | cons c X' =>
    obtain ⟨hc, hh⟩ := hX c (by simp)
    refine lex_gap_irrelevant a b ha hb c (g.length + 1) (g'.length + 1) ?_ ?_ ?_
    · rw [hra]; simpa [next] using next_white g c X' 0 hg hc hh
    · rw [hrb]; simpa [next] using next_white g' c X' 0 hg' hc hh
    · rw [hra, hrb]; simp
  | nil =>
    simp only [List.append_nil] at hra hrb
    have ea : lex a = commit a g.length { n := 0, token := some [], ty := Generated.Lalr.eof } := by
      unfold lex
      by_cases hge : g = []
      · simp [hra, hge]
      · have hemp : g.isEmpty = false := by cases g <;> simp_all
        rw [hra]
        simp only [hemp, ha, Bool.false_eq_true, if_false, next, next_white_end g 0 hg hge]
        simp
    have eb : lex b = commit b g'.length { n := 0, token := some [], ty := Generated.Lalr.eof } := by
      unfold lex
      by_cases hge : g' = []
      · simp [hrb, hge]
      · have hemp : g'.isEmpty = false := by cases g' <;> simp_all
        rw [hrb]
        simp only [hemp, hb, Bool.false_eq_true, if_false, next, next_white_end g' 0 hg' hge]
        simp
    rw [ea, eb]
    simp [commit, SameUnread, hra, hrb, ha, hb]

/-- ⟦full⟧ `lex_respace`: inserting or deleting white space or comments at a token boundary
    where maximal munch does not merge the neighbours leaves the token list unchanged.
    NOT PROVED as one statement about texts.  Proved parts: `ast_depends_on_tokens` (only tokens
    matter), `parse_depends_on_unread`, `lex_gap_irrelevant` (a gap may be replaced by any other
    gap), `lex_white_gap_irrelevant` (any amount of white space, including none, before a token).  Missing: that each scanner stops at the first gap byte independently of what follows
    it (a per-scanner prefix lemma) and the characterisation of merging pairs.  The model-free
    oracle `respace` (10 spacing schemes on every corpus / generated / mutant token list) stands
    in for it as a search, not as a proof. -/
def lex_respace_statement : Prop :=
  ∀ (pre post gap gap' : Bytes) (k : Nat),
    (∀ c ∈ gap, isWhite c = true) → (∀ c ∈ gap', isWhite c = true) → gap ≠ [] → gap' ≠ [] →
    -- after k tokens the lexer stands exactly before the gap, outside a string literal
    (let s := Nat.repeat (fun s => (lex s).2.2) k (LState.init (pre ++ gap ++ post))
     s.rest = gap ++ post ∧ s.inString = false) →
    (lexAll (pre ++ gap ++ post).length (LState.init (pre ++ gap ++ post))).map (fun t => (t.1, t.2.1)) =
    (lexAll (pre ++ gap' ++ post).length (LState.init (pre ++ gap' ++ post))).map (fun t => (t.1, t.2.1))

/-! ### 3. the lexer never leaves the source -/

/-- `Lex` never performs its one unchecked index (`l.source[l.offset]` in `next`) on an exhausted
    source: from a state that has not panicked it cannot panic. -/
theorem lex_total (s : LState) (h : s.panicked = false) : (lex s).2.2.panicked = false :=
  Lexer.lex_total s h

/-- `Lex` only moves forward inside the source: bytes consumed + bytes unread is invariant. -/
theorem lex_offset_conserved (s : LState) :
    (lex s).2.2.offset + (lex s).2.2.rest.length = s.offset + s.rest.length :=
  Lexer.lex_conserves s

/-- the invariant of every lexer state a parse of `src` can be in -/
def InSource (src : Bytes) (s : LState) : Prop :=
  s.offset + s.rest.length = src.length ∧ s.panicked = false

/-- FOR EVERY BYTE STRING: `Parse` never indexes outside the source, and the offset of a reported
    `*ParseError` is at most `len(src)`. -/
theorem parse_error_offset_le (src : Bytes) :
    match parse src with
    | .accept _ s => s.panicked = false
    | .reject _ _ s => (parseError s).offset ≤ src.length ∧ s.panicked = false
    | .stuck => True := by
  have inv : (parse src).Ends (InSource src) := by
    unfold parse start
    refine run_invariant Parse.source (InSource src) ?_ ?_ _ _ _ _ ?_
    · intro s hs
      simp only [Parse.source]
      exact ⟨by rw [Lexer.lex_conserves]; exact hs.1, Lexer.lex_total s hs.2⟩
    · intro r s hs
      simp only [Parse.source]
      split
      · exact hs
      · exact hs
    · simp [InSource, LState.init]
  revert inv
  cases parse src <;> simp only [Outcome.Ends, InSource, parseError] <;> intro h
  · exact h.2
  · exact ⟨by omega, h.2⟩
  · trivial

/-- FOR EVERY BYTE STRING: the token of a reported `*ParseError` fits before its offset
    (`len(Token) <= Offset`), so `Offset - len(Token)` is a position inside the source — for the
    lexer as repaired (bfcffb3: the bytes of an invalid UTF-8 sequence, not U+FFFD, are the token;
    b92b08f: NUL is tokInvalid).  Uses the table fact `simple_states_reduce`: a rejection happens
    only after a token has been read. -/
theorem parse_error_token_le (src : Bytes) :
    match parse src with
    | .reject _ _ s => (parseError s).token.length ≤ (parseError s).offset
    | _ => True := by
  have inv : (parse src).Ends2 TokInv Read := by
    unfold parse start
    refine run_invariant_look Parse.source TokInv Read ?_ ?_ ?_ simple_states_reduce _ _ _ _ ?_ ?_
    · intro s hs; simp only [Parse.source]; exact lex_tokInv s hs
    · intro r s hs; simp only [Parse.source]; split <;> exact hs
    · intro r s hs; simp only [Parse.source]; split <;> exact hs
    · simp [TokInv, LState.init]
    · intro h; simp at h
  revert inv
  cases parse src <;> simp only [Outcome.Ends2] <;> intro h
  · trivial
  · exact parseError_token_le _ h.1 h.2
  · trivial

end Gojq.C09

/-
  C11 — `encode_key_order`: the order in which both encoders write the members of an object is
  the order of `keys`, which is strictly increasing in the value order (`cmp`, on strings Go's
  bytewise `<` = `Bytes.cmp`), at every nesting level; hence Marshal / command output order =
  `keys` order = iteration order `[.[]]` = `to_entries` order.

  Models (each tied to the code by its own check's correspondence streams):
    `Encode.encodeValue`              encoder.go (`gojq.Marshal`, `tojson`, `@json`)     — C12 `marshal`
    `Encode.Cli.marshalChunks/render` cli/encoder.go (the command's output, all modes)  — C12 `cli`
    `keys`, `iterValues`              `funcKeys`, `opiter` (Model/Sort.lean)            — C11 `native`
    `KeyOrder.toEntriesJq`            builtin.jq's `to_entries` over `keysOf` / `funcIndex2`
  In the models an object IS the association list of its members with strictly increasing keys
  (`kvSorted`, part of `JV.wf`; `JV.mkObj` builds it from any enumeration of a Go map), where the
  Go encoders hold a `map[string]any`, copy its entries in `range` order to a slice and
  `sort.Slice` it by `key_i < key_j`.  Section 1 closes that gap: for EVERY enumeration order of
  the map and EVERY sorting function that returns an increasing rearrangement, the slice the Go
  code writes is that association list (a strictly sorted list of given members is unique).

  Vocabulary (Gojq/Proofs/EncodeKeyOrder.lean): `joinComma`, `memberText k v` = text of `k:v`,
  `cliMembers` = the command's layout of members `ks[i] : vs[i]`, `Sub o d v` = `o` occurs in `v`
  `d` levels down, `sameKeys f v w` = `w` has the shape of `v` with the same member order at every
  level and keys mapped by `f`.
-/
import Gojq.Proofs.EncodeKeyOrder
import Gojq.Proofs.EncodeStrip
namespace Gojq.C11
open Gojq Gojq.Encode Gojq.KeyOrder

/-! ## 1. the Go encoders' `sort.Slice` and the model's sorted member list -/

/-- **The increasing order of given members is unique.** Two association lists with strictly
    increasing keys and the same members are the same list.  So the result of
    `sort.Slice(kvs, key <)` on the entries of a map does not depend on the algorithm or on the
    order in which `range` delivered the entries. -/
theorem sorted_members_unique (a b : List (Bytes × JV)) (ha : kvSorted a = true) (hb : kvSorted b = true)
    (h : a.Perm b) : a = b :=
  sorted_perm_unique a b (sorted_of_kvSorted a ha) (sorted_of_kvSorted b hb) h

/-- the model object of a Go map is that list: `JV.mkObj` applied to ANY enumeration of the
    map's entries (distinct keys) gives members with strictly increasing keys, a rearrangement of
    the entries -/
theorem mkObj_sorted_enumeration (entries : List (Bytes × JV)) (hd : Distinct entries) :
    ∃ kvs, JV.mkObj entries = .obj kvs ∧ kvSorted kvs = true ∧ kvs.Perm entries :=
  mkObj_spec entries hd

/-- **`encodeObject` as written in Go = the model encoder.** Let a Go map have the members `kvs`
    (as the model holds them: keys strictly increasing), let `range` enumerate it in any order
    `entries`, and let `sortSlice` be any function that returns an increasing rearrangement of a
    list with distinct keys (what `sort.Slice` with `key_i < key_j` guarantees).  Then
    collect–sort–write produces exactly `encodeValue (.obj kvs)`. -/
theorem encode_object_any_enumeration (sortSlice : List (Bytes × JV) → List (Bytes × JV))
    (hs : SortsByKey sortSlice) (kvs entries : List (Bytes × JV)) (hk : kvSorted kvs = true)
    (hp : entries.Perm kvs) :
    encodeObjectGo sortSlice entries = encodeValue (.obj kvs) :=
  encodeObjectGo_eq sortSlice hs kvs entries hk hp

/-! ## 2. `encode_key_order` -/

/-- **`encode_key_order`, library encoder.** For every object: with `ks` what `keys` returns and
    `vs` what `[.[]]` returns, `Marshal` writes `{`, then the members `ks[0]:vs[0]`, `ks[1]:vs[1]`,
    … separated by commas, then `}` — and `ks` is strictly increasing in the value order. -/
theorem encode_key_order (kvs : List (Bytes × JV)) (hk : kvSorted kvs = true) :
    ∃ ks vs, keys (.obj kvs) = .ok (.arr ks) ∧ iterValues (.obj kvs) = .ok (.arr vs) ∧ ks.length = vs.length ∧
      encodeValue (.obj kvs) = cLBrace :: (joinComma (List.zipWith memberText ks vs) ++ [cRBrace]) ∧
      ks.Pairwise (fun a b => cmp a b = .lt) := by
  obtain ⟨ks, vs, h1, h2, h3, h4⟩ := encodeValue_obj_members kvs
  refine ⟨ks, vs, h1, h2, h3, h4, ?_⟩
  simp only [keys, Except.ok.injEq, JV.arr.injEq] at h1
  rw [← h1]
  exact kvSorted_keys_pairwise kvs hk

/-- **`encode_key_order`, command encoder**, every mode (compact or any indent, tabs or spaces,
    monochrome or any colours): the bytes of the `Write` calls for an object at nesting level
    `level` are `{`, then for i = 0, 1, … — comma (from the second on), newline and indentation,
    the key `ks[i]`, `:`, a space when indenting, the value `vs[i]` — then newline, indentation
    and `}`; `ks` from `keys`, `vs` from `[.[]]`, `ks` strictly increasing. -/
theorem encode_key_order_cli (o : Cli.Opts) (level : Nat) (kvs : List (Bytes × JV)) (hk : kvSorted kvs = true)
    (b : Cli.Buf) :
    ∃ ks vs, keys (.obj kvs) = .ok (.arr ks) ∧ iterValues (.obj kvs) = .ok (.arr vs) ∧ ks.length = vs.length ∧
      (Cli.enc o ((level : Int) * o.indent) (.obj kvs) b).total = b.total ++
        (Cli.tok [cLBrace] (o.col (·.object)) ++ cliMembers o (level + 1) ks vs true
          ++ (if kvs.isEmpty then [] else Cli.newline o level) ++ Cli.tok [cRBrace] (o.col (·.object))) ∧
      ks.Pairwise (fun a b => cmp a b = .lt) := by
  obtain ⟨ks, vs, h1, h2, h3, h4⟩ := render_obj_members o level kvs
  refine ⟨ks, vs, h1, h2, h3, by rw [Cli.enc_total, h4], ?_⟩
  simp only [keys, Except.ok.injEq, JV.arr.injEq] at h1
  rw [← h1]
  exact kvSorted_keys_pairwise kvs hk

/-- the whole output of the command for an object value (concatenation of the chunks it writes) -/
theorem encode_key_order_cli_output (o : Cli.Opts) (kvs : List (Bytes × JV)) :
    ∃ ks vs, keys (.obj kvs) = .ok (.arr ks) ∧ iterValues (.obj kvs) = .ok (.arr vs) ∧
      (Cli.marshalChunks o (.obj kvs)).flatten =
        Cli.tok [cLBrace] (o.col (·.object)) ++ cliMembers o 1 ks vs true
          ++ (if kvs.isEmpty then [] else Cli.newline o 0) ++ Cli.tok [cRBrace] (o.col (·.object)) := by
  obtain ⟨ks, vs, h1, h2, -, h4⟩ := render_obj_members o 0 kvs
  exact ⟨ks, vs, h1, h2, by rw [← h4]; exact Cli.encodeCli_eq_render o (.obj kvs)⟩

/-- **…at every nesting level.** In a value whose objects have strictly increasing keys
    (`JV.wf`: every value the library holds), every object nested at any depth `d` has strictly
    increasing keys too, its library text is a contiguous segment of the text of the whole value,
    and its command layout (at level `level + d`) is a contiguous segment of the layout of the
    whole value — so `encode_key_order` and `encode_key_order_cli` describe the member order of
    every object in the output, not only of the outermost one. -/
theorem encode_key_order_nested (v : JV) (hw : v.wf = true) (kvs : List (Bytes × JV)) (d : Nat)
    (hsub : Sub (.obj kvs) d v) :
    kvSorted kvs = true ∧
    (∃ pre post, encodeValue v = pre ++ encodeValue (.obj kvs) ++ post) ∧
    (∀ (o : Cli.Opts) (level : Nat), ∃ pre post,
      Cli.render o level v = pre ++ Cli.render o (level + d) (.obj kvs) ++ post) := by
  have hwf := wf_sub hsub hw
  simp only [JV.wf, Bool.and_eq_true] at hwf
  exact ⟨hwf.1, encodeValue_segment hsub, fun o level => render_segment o hsub level⟩

/-! ## 3. the order a reader of the output sees -/

/-- **Reading the text back.** For every value (all of whose finite floats the model's digit
    search covers — `modelled`, C12): parsing the library encoder's text left to right, keeping
    members in text order, gives a value with the members of every object, at every nesting
    level, in the order of `keys`; each key is the stored key with invalid UTF-8 replaced. -/
theorem marshal_text_key_order (v : JV) (hm : modelled v = true) :
    ∃ w, parseJson (encodeValue v) = some w ∧ sameKeys Utf8.sanitize v w :=
  ⟨readBack v, parseJson_encodeValue v hm, readBack_sameKeys v⟩

/-- the same for the command's output in every mode, once colours and the white space outside
    strings are removed -/
theorem cli_text_key_order (o : Cli.Opts) (ho : ∀ c, o.color = some c → c.Valid) (v : JV) (hm : modelled v = true) :
    ∃ w, parseJson (stripWs (stripSGR (Cli.encodeCli o v))) = some w ∧ sameKeys Utf8.sanitize v w := by
  refine ⟨readBack v, ?_, readBack_sameKeys v⟩
  rw [Cli.encodeCli_eq_render, strip_render o (optsOK_of_valid o ho) 0 v]
  exact parseJson_encodeValue v hm

/-- what `sameKeys` says about one object: the keys read back are the keys of `keys`, in order,
    sanitised -/
theorem text_keys_of_object (kvs kvs' : List (Bytes × JV)) (h : sameKeys Utf8.sanitize (.obj kvs) (.obj kvs')) :
    kvs'.map (·.1) = kvs.map (fun kv => Utf8.sanitize kv.1) := by
  simp only [sameKeys] at h
  exact sameKeysM_keys _ _ _ h

/-- **Witness: the keys a reader sees need not be increasing, or even distinct.** The object with
    the two keys U+FFFD (`EF BF BD`) and the invalid byte `FF` is well-formed, `keys` lists them in
    increasing order, the encoder writes them in that order — and both read back as U+FFFD.  This
    is why the statements above speak of the order of the STORED keys. -/
theorem reader_keys_can_collide :
    kvSorted [([0xEF, 0xBF, 0xBD], JV.null), ([0xFF], JV.null)] = true ∧
    Utf8.sanitize [0xEF, 0xBF, 0xBD] = Utf8.sanitize [0xFF] ∧
    (parseJson (encodeValue (.obj [([0xEF, 0xBF, 0xBD], .null), ([0xFF], .null)])) ==
      some (.obj [([0xEF, 0xBF, 0xBD], .null), ([0xEF, 0xBF, 0xBD], .null)])) = true := by
  decide +kernel

/-! ## 4. one order: Marshal = keys = iteration = to_entries -/

/-- **The four orders coincide.** For every object (keys strictly increasing) there are lists
    `ks` (strictly increasing in `cmp`) and `vs` of the same length with: `keys` returns `ks`;
    `[.[]]` returns `vs`, the value of `ks[i]` being `vs[i]`; `to_entries` returns
    `{key: ks[i], value: vs[i]}` for i = 0, 1, …; `Marshal` writes the members `ks[i]:vs[i]` in
    this order; and so does the command in every mode. -/
theorem key_orders_agree (kvs : List (Bytes × JV)) (hk : kvSorted kvs = true) :
    ∃ ks vs, ks.length = vs.length ∧ ks.Pairwise (fun a b => cmp a b = .lt) ∧
      ks.zip vs = kvs.map (fun kv => (JV.str kv.1, kv.2)) ∧
      keys (.obj kvs) = .ok (.arr ks) ∧
      iterValues (.obj kvs) = .ok (.arr vs) ∧
      toEntriesJq (.obj kvs) = some (List.zipWith entryObj ks vs) ∧
      encodeValue (.obj kvs) = cLBrace :: (joinComma (List.zipWith memberText ks vs) ++ [cRBrace]) ∧
      ∀ (o : Cli.Opts) (level : Nat), Cli.render o level (.obj kvs) =
        Cli.tok [cLBrace] (o.col (·.object)) ++ cliMembers o (level + 1) ks vs true
          ++ (if kvs.isEmpty then [] else Cli.newline o level) ++ Cli.tok [cRBrace] (o.col (·.object)) := by
  refine ⟨kvs.map (fun kv => JV.str kv.1), kvs.map (·.2), by simp, kvSorted_keys_pairwise kvs hk, ?_, rfl, rfl, ?_, ?_, ?_⟩
  · clear hk
    induction kvs with
    | nil => rfl
    | cons kv rest ih => simp only [List.map_cons, List.zip_cons_cons, ih]
  · rw [toEntriesJq_obj kvs (sorted_distinct (sorted_of_kvSorted kvs hk))]
    congr 1
    clear hk
    induction kvs with
    | nil => rfl
    | cons kv rest ih => simp only [List.map_cons, List.zipWith_cons_cons, ih]
  · simp only [encodeValue, encodeMembers_join]
  · intro o level
    simp only [Cli.render, renderMembers_keys_values]

/-- the hypothesis is the representation invariant of objects, not a restriction: an association
    list that is not increasing is not a value of the library (`JV.mkObj` never builds one), and
    for it `keys` would not be increasing either -/
theorem unsorted_list_is_not_an_object :
    kvSorted [([98], JV.null), ([97], JV.null)] = false ∧
    keys (.obj [([98], .null), ([97], .null)]) = .ok (.arr [.str [98], .str [97]]) ∧
    (JV.mkObj [([98], .null), ([97], .null)] == .obj [([97], .null), ([98], .null)]) = true :=
  ⟨by decide +kernel, rfl, by decide +kernel⟩

/-! ## non-vacuity -/

section
/-- `{"a":{"c":1,"b":2},"b":[]}` as a Go map enumerated `b, a` (inner `c, b`): `mkObj` gives the
    sorted members, the text has `a` before `b` and, inside, `b` before `c` -/
example : encodeValue (JV.mkObj [([98], .arr []), ([97], JV.mkObj [([99], .num (.int 1)), ([98], .num (.int 2))])]) =
    Bytes.ofString "{\"a\":{\"b\":2,\"c\":1},\"b\":[]}" := by decide +kernel
example : encodeObjectGo insertionSort [([98], .arr []), ([97], .null)] = Bytes.ofString "{\"a\":null,\"b\":[]}" := by
  decide +kernel
example : SortsByKey insertionSort := insertionSort_sorts
/-- the inner object of the first example is nested one level down -/
example : Sub (.obj [([98], .num (.int 2)), ([99], .num (.int 1))]) 1
    (.obj [([97], .obj [([98], .num (.int 2)), ([99], .num (.int 1))]), ([98], .arr [])]) :=
  .member (k := [97]) (by simp) .refl
example : modelled (.obj [([97], .obj [([98], .num (.int 2)), ([99], .num (.int 1))]), ([98], .arr [])]) = true := by
  decide +kernel
example : ∀ c, ({ indent := 2, tab := false, color := some Cli.defaultColors } : Cli.Opts).color = some c → c.Valid := by
  intro c h; simp at h; rw [← h]; exact defaultColors_valid
example : (toEntriesJq (.obj [([97], .num (.int 1)), ([98], .null)]) ==
    some [entryObj (.str [97]) (.num (.int 1)), entryObj (.str [98]) .null]) = true := by decide +kernel
end

end Gojq.C11

/-
  C09 — how the shipped LALR tables delimit the non-operator forms: unary sign, `as`, `def`,
  `label`, `reduce` / `foreach`, `if`, `try` — a finite family of token shapes, each parsed by the
  goyacc driver over the generated tables and compared with the documented bracketing
  (kernel-checked).  Also: the tables have no `error` shift, which is what justifies modelling
  goyacc's error recovery as plain rejection.
-/
import Gojq.Model.RefParser
namespace Gojq.C09
open Gojq.LALR Gojq.RefParser Gojq.Generated.Lalr

/-- nested bracketing, written the way one reads the query -/
inductive B where
  | t (x : Int)
  | g (xs : List B)

mutual
  def B.flat : B → List Int
    | .t x => [x]
    | .g xs => lp :: (B.flatList xs ++ [rp])
  def B.flatList : List B → List Int
    | [] => []
    | x :: xs => B.flat x ++ B.flatList xs
end

def parsesAs (toks : List Int) (b : B) : Prop := shapeOf toks = .ok b.flat
instance (toks : List Int) (b : B) : Decidable (parsesAs toks b) := by unfold parsesAs; infer_instance
def rejected (toks : List Int) : Prop := shapeOf toks = .syntaxError
instance (toks : List Int) : Decidable (rejected toks) := by unfold rejected; infer_instance

/-! token numbers as the parser sees them (`yylex1` of the lexer's codes) -/
def ch (c : Char) : Int := translate c.toNat
def dot : Int := ch '.'
def IDX : Int := translate tokIndex      -- `.name`
def VAR : Int := translate tokVariable   -- `$name`
def ID : Int := translate tokIdent
def AS : Int := translate tokAs
def DEF : Int := translate tokDef
def LABEL : Int := translate tokLabel
def REDUCE : Int := translate tokReduce
def FOREACH : Int := translate tokForeach
def IF : Int := translate tokIf
def THEN : Int := translate tokThen
def ELIF : Int := translate tokElif
def ELSE : Int := translate tokElse
def END : Int := translate tokEnd
def TRY : Int := translate tokTry
def CATCH : Int := translate tokCatch
def DESTALT : Int := translate tokDestAltOp
open B

/-- unary minus applies to the following term TOGETHER WITH its suffixes:
    `- . .a [.] ? + .`  is  `((- (((. .a) [.]) ?)) + .)` -/
theorem unary_minus_takes_term_with_suffixes :
    parsesAs [ch '-', dot, IDX, ch '[', dot, ch ']', ch '?', ch '+', dot]
      (g [g [t (ch '-'), g [g [g [t dot, t IDX], g [t (ch '['), t dot, t (ch ']')]], t (ch '?')]], t (ch '+'), t dot]) := by
  decide +kernel

/-- the sign binds tighter than every binary operator (`- . * .` is `((- .) * .)`) and nests -/
theorem unary_minus_tighter_than_binary :
    (∀ o ∈ Op.all, parsesAs [ch '-', dot, o.tok, dot] (g [g [t (ch '-'), t dot], t o.tok, t dot])) ∧
    parsesAs [ch '-', ch '-', dot] (g [t (ch '-'), g [t (ch '-'), t dot]]) := by
  decide +kernel

/-- the body of `as` extends to the right as far as possible:
    `. as $x | . , . | .`  is  `(. as $x | ((. , .) | .))` -/
theorem as_body_extends_right :
    parsesAs [dot, AS, VAR, ch '|', dot, ch ',', dot, ch '|', dot]
      (g [t dot, t AS, t VAR, t (ch '|'), g [g [t dot, t (ch ','), t dot], t (ch '|'), t dot]]) := by
  decide +kernel

/-- a binding after `|` or `,` scopes over everything to ITS right only:
    `. | . as $x | . | .` is `(. | (. as $x | (. | .)))`,  `. , . as $x | .` is `(. , (. as $x | .))` -/
theorem as_after_pipe_and_comma :
    parsesAs [dot, ch '|', dot, AS, VAR, ch '|', dot, ch '|', dot]
      (g [t dot, t (ch '|'), g [t dot, t AS, t VAR, t (ch '|'), g [t dot, t (ch '|'), t dot]]]) ∧
    parsesAs [dot, ch ',', dot, AS, VAR, ch '|', dot]
      (g [t dot, t (ch ','), g [t dot, t AS, t VAR, t (ch '|'), t dot]]) := by
  decide +kernel

/-- the SOURCE of a binding is the whole operator expression to its left (gojq ≥ 0.12.18,
    CHANGELOG: "support binding expressions with binary operators"): for every operator class
    tighter than `,`,  `. o . as $x | .`  is  `((. o .) as $x | .)` -/
theorem as_source_is_operator_expression :
    ∀ o ∈ Op.all, o ≠ .pipe → o ≠ .comma →
      parsesAs [dot, o.tok, dot, AS, VAR, ch '|', dot] (g [g [t dot, t o.tok, t dot], t AS, t VAR, t (ch '|'), t dot]) := by
  decide +kernel

/-- destructuring alternatives belong to the binding: `. as $x ?// [$x] | .` -/
theorem destructuring_alternatives :
    parsesAs [dot, AS, VAR, DESTALT, ch '[', VAR, ch ']', ch '|', dot]
      (g [t dot, t AS, g [t VAR, t DESTALT, g [t (ch '['), t VAR, t (ch ']')]], t (ch '|'), t dot]) := by
  decide +kernel

/-- `def f: BODY;` ends at its `;` and scopes over everything after it:
    `def f : . | . ; . | .`  is  `((def f : (. | .) ;) (. | .))` -/
theorem def_delimits :
    parsesAs [DEF, ID, ch ':', dot, ch '|', dot, ch ';', dot, ch '|', dot]
      (g [g [t DEF, t ID, t (ch ':'), g [t dot, t (ch '|'), t dot], t (ch ';')], g [t dot, t (ch '|'), t dot]]) := by
  decide +kernel

/-- `label $x | BODY`: the body extends to the right as far as possible -/
theorem label_body_extends_right :
    parsesAs [LABEL, VAR, ch '|', dot, ch ',', dot, ch '|', dot]
      (g [t LABEL, t VAR, t (ch '|'), g [g [t dot, t (ch ','), t dot], t (ch '|'), t dot]]) := by
  decide +kernel

/-- `reduce SOURCE as $x (INIT; UPDATE)` is one term: the parentheses delimit full queries, the
    source is an operator expression, what follows is outside:
    `reduce . + . as $x ( . | . ; . , . ) | .` -/
theorem reduce_delimits :
    parsesAs [REDUCE, dot, ch '+', dot, AS, VAR, ch '(', dot, ch '|', dot, ch ';', dot, ch ',', dot, ch ')', ch '|', dot]
      (g [g [t REDUCE, g [t dot, t (ch '+'), t dot], t AS, t VAR, t (ch '('), g [t dot, t (ch '|'), t dot], t (ch ';'),
             g [t dot, t (ch ','), t dot], t (ch ')')], t (ch '|'), t dot]) := by
  decide +kernel

/-- `foreach … (INIT; UPDATE; EXTRACT)` is one term and takes suffixes:
    `foreach . as $x ( . ; . ; . ) .a + .`  is  `(((foreach …) .a) + .)` -/
theorem foreach_delimits :
    parsesAs [FOREACH, dot, AS, VAR, ch '(', dot, ch ';', dot, ch ';', dot, ch ')', IDX, ch '+', dot]
      (g [g [g [t FOREACH, t dot, t AS, t VAR, t (ch '('), t dot, t (ch ';'), t dot, t (ch ';'), t dot, t (ch ')')], t IDX],
          t (ch '+'), t dot]) := by
  decide +kernel

/-- `if … then … elif … then … else … end` delimits full queries by its keywords and is one term:
    `if . , . then . | . elif . then . else . | . end | .` -/
theorem if_delimits :
    parsesAs [IF, dot, ch ',', dot, THEN, dot, ch '|', dot, ELIF, dot, THEN, dot, ELSE, dot, ch '|', dot, END, ch '|', dot]
      (g [g [t IF, g [t dot, t (ch ','), t dot], t THEN, g [t dot, t (ch '|'), t dot], g [t ELIF, t dot, t THEN, t dot],
             g [t ELSE, g [t dot, t (ch '|'), t dot]], t END], t (ch '|'), t dot]) := by
  decide +kernel

/-- the body and the handler of `try` are single terms (with sign and suffixes): for every binary
    operator class `try . o .` is `((try .) o .)` and `try . catch . o .` is `((try . (catch .)) o .)` -/
theorem try_takes_terms :
    (∀ o ∈ Op.all, parsesAs [TRY, dot, o.tok, dot] (g [g [t TRY, t dot], t o.tok, t dot])) ∧
    (∀ o ∈ Op.all, parsesAs [TRY, dot, CATCH, dot, o.tok, dot] (g [g [t TRY, t dot, g [t CATCH, t dot]], t o.tok, t dot])) ∧
    parsesAs [TRY, ch '-', dot, IDX, CATCH, dot, IDX, ch '|', dot]
      (g [g [t TRY, g [t (ch '-'), g [t dot, t IDX]], g [t CATCH, g [t dot, t IDX]]], t (ch '|'), t dot]) := by
  decide +kernel

/-- a `catch` belongs to the nearest `try`: `try try . catch . catch .` -/
theorem catch_belongs_to_nearest_try :
    parsesAs [TRY, TRY, dot, CATCH, dot, CATCH, dot]
      (g [t TRY, g [t TRY, t dot, g [t CATCH, t dot]], g [t CATCH, t dot]]) := by
  decide +kernel

/-- incomplete forms are rejected: `. as $x .` (no `|`), `if . then .` (no `end`),
    `reduce . as $x ( . )` (no `;`), `def f : .` (no `;`) -/
theorem incomplete_forms_rejected :
    rejected [dot, AS, VAR, dot] ∧ rejected [IF, dot, THEN, dot] ∧
    rejected [REDUCE, dot, AS, VAR, ch '(', dot, ch ')'] ∧ rejected [DEF, ID, ch ':', dot] := by
  decide +kernel

/-- goyacc's recovery looks, in every state on the stack, for a shift on the `error` token
    (`yyChk[yyAct[yyPact[s] + yyErrCode]] == yyErrCode`).  The shipped tables have none, so after
    the single `yylex.Error` call the loop pops the whole stack and returns 1: modelling recovery
    as "reject" loses nothing. -/
def errorShift (s : Nat) : Bool :=
  let n := get yyPact s + yyErrCode
  decide (0 ≤ n) && decide (n < yyLast) && get yyChk (get yyAct n) == yyErrCode

theorem no_error_shift : ∀ s ∈ List.range yyPact.length, errorShift s = false := by decide +kernel

end Gojq.C09

/-
  C09 — `String()` round-trips: theorems.

  STRATEGY (i): the round trip is proved against a hand-written, structurally recursive REFERENCE
  PARSER for the full query grammar (Model/RefTermParser.lean: precedence climbing over the
  documented operator table, terms, suffix lists, object / array construction, if / try / reduce /
  foreach / label / def / `as` with destructuring alternatives, string interpolation, formats,
  patterns), composed with the transliterated LEXER (Model/Lexer.lean) and a token-level
  transliteration of the PRINTER (`itemsQ` = the tokens and separators `writeTo` writes, `render` =
  bytes).  The connection reference parser ↔ shipped LALR tables is NOT proved; it is the explicit
  hypothesis `RefAgreesWithTables` of `print_parse_roundtrip_tables`, validated on every run by the
  stream `refparse` (same sources and expected answers as stream `parse`: 0 disagreements on
  ≈18 k accepted and rejected sources) and, for operators, kernel-checked on the tables by
  `lalr_pairs` / `lalr_triples` / the shape theorems.  The token-level printer is tied to the real
  `String()` by the stream `refprint`.

  What is proved, for EVERY query AST `q` / program `p` (no bound on size):
    refparse_tokens_roundtrip     Printable q → refParse (tokens the printer writes for q) = q
    left_operand_needs_no_parentheses   the heart of it: precedence table vs. the printer's missing parentheses
    lex_one_token, lex_skips_white, comment_is_gap, comment_rule_examples, white_gap_separates, glue_counterexample
    lex_respace, lex_tokens_with_gaps   (lex_respace) tokens with arbitrary gaps of white space / comments
    lex_printed_tokens(_from)     the same for the printer's separators sp / soft / nl
    printer_output_spaced         Printable q → the printer's own output satisfies the adjacency condition
    print_parse_roundtrip_ref     Printable q → refParse (tokenize (print q)) = q
    parser_image_has_operator_shape, parser_image_printable   THE IMAGE: what the reference parser returns is Printable
    lexer_delivers_good_tokens    for EVERY source the lexer's tokens are well-formed and in lexer order
    print_parse_roundtrip_of_accepted   for every source it accepts (no side condition): print, lex, parse = same AST
    valid_utf8_string_is_printable      string values
    print_parse_roundtrip_program_ref   whole programs: module header, imports, definitions-only bodies
    print_parse_roundtrip_program_of_accepted   the same for every program source it accepts
    print_parse_roundtrip_tables / _program_tables   … and, under RefAgreesWithTables, for Parse on the shipped tables
    print_parse_roundtrip_of_agreement  the ORIGINAL statement (Parse on the tables, Printer.print) under the three stream-validated agreement hypotheses
    not_printable_…               six witnesses that the side condition is needed
  `Printable` (Model: `okQ true 1`) is the decidable shape invariant of the parser's image.
-/
import Gojq.Proofs.RoundTripMain
import Gojq.Props.C09.RoundTrip
namespace Gojq.C09
open Gojq Gojq.Lexer Gojq.RefTerm

/-! ### 1. token level: parenthesisation, terms, suffixes, every construct -/

/-- TOKEN-LEVEL ROUND TRIP.  For every query AST in the image of the parser (`Printable`: an
    operand of an operator the printer writes without parentheses has a root that binds at least
    as tightly on that side — `|` 1 right, `,` 2 left, `//` 3 right, update 4 non-assoc, `or` 5,
    `and` 6, comparison 7 non-assoc, `+ -` 8, `* / %` 9 —; a left operand does not end in a
    binding / definition / label; `def`, `label`, `as` occur where a pipe may; a sign or `try`
    carries no suffix; `try … catch` does not swallow a dangling `catch`; names are lexable names …)
    the reference parser applied to the TOKENS the printer writes gives the AST back.  `f` is the
    recursion budget of the executable reference parser: any sufficiently large value works. -/
theorem refparse_tokens_roundtrip (q : Query) (h : Printable q = true) :
    ∃ F, ∀ f, F ≤ f → refParseQ f (toks (itemsQ q)) = some q :=
  refParse_items q h

/-- THE HEART OF PARENTHESISATION: the operator `o` printed right after an operand `l` whose root
    binds at least `o.lmin` (and that does not end in a binding) is never absorbed into `l`: every
    operator on the right spine of `l` has an absorb level above `o` — so `l o r` printed WITHOUT
    parentheses is read back with `o` at the root. -/
theorem left_operand_needs_no_parentheses (o : BOp) (l : Query) (item : Bool) (m : Nat)
    (hl : okQ item m l = true) (hc : closedQ l = true) (hm : o.lmin ≤ m) :
    followQ l (some (opTok o)) = true :=
  followQ_left o l item m hl hc hm

/-- THE IMAGE DIRECTION FOR OPERATORS: whatever token list it is given, a query the reference parser
    returns has the operator shape `precOK` — every operand that the printer writes without
    parentheses has a root binding at least as tightly as its position demands, left operands are
    closed, `def` / `label` / `as` sit at pipe positions (the operator part of `Printable`; terms,
    names and string values are not inspected by `precOK`).  So the parser never builds an operator
    tree for which the printer's missing parentheses matter.  Proved by induction on the recursion
    budget with the loop invariant "the left operand parsed so far may be extended by the operator
    that follows" (`LhsInv`). -/
theorem parser_image_has_operator_shape (f : Nat) (ts : List Tok) (q : Query)
    (h : refParseQ f ts = some q) : precOK true 1 q = true :=
  refParse_precOK f ts q h

/-- THE IMAGE OF THE REFERENCE PARSER IS PRINTABLE — all of it: on every token list the lexer can
    have produced (`goodB`, decidable: every token well-formed — identifiers are identifiers,
    numbers scan as numbers, string values re-decode — and the tokens of interpolated strings come
    in lexer order) every query the reference parser returns satisfies `Printable`: operator
    shape, `def` / `label` / `as` positions, no suffix on a sign or `try`, no dangling `catch`,
    names, keys, patterns, interpolation pieces.  By induction on the recursion budget over all 18
    parser functions, with what a successful parse leaves behind as invariants: the suffix loop
    stopped (`SufStop`), no `catch` after an open `try` (`CatchStop`), the operator loop stopped
    (`LoopStop`), nothing an open binding could still absorb (`OpenStop`). -/
theorem parser_image_printable (f : Nat) (ts : List Tok) (q : Query) (hg : goodB ts = true)
    (h : refParseQ f ts = some q) : Printable q = true :=
  refParse_printable f ts q (good_of_goodB ts hg) h

/-- STRING VALUES: `Printable` asks of a string literal that printing it with `jsonEncodeString` and
    decoding the text with the lexer gives it back (`okLit`, decidable).  Every valid UTF-8 byte
    string is such a value (all escapes the encoder writes — `\"` `\\` `\b` `\f` `\n` `\r` `\t`
    `\u00XX` — decode to the byte they stand for, multi-byte sequences are copied and decode to
    themselves); `not_printable_undecodable_string` shows that an invalid byte is not. -/
theorem valid_utf8_string_is_printable (v : Bytes) (h : Utf8.valid v = true) : okLit v = true :=
  okLit_of_valid v h

/-- `Printable` contains that shape -/
theorem printable_has_operator_shape (q : Query) (h : Printable q = true) : precOK true 1 q = true :=
  precOK_of_okQ q true 1 h

/-! ### 2. lex_respace: the printer's separators and the lexer's maximal munch -/

/-- ONE TOKEN.  `Lex` applied to the spelling of a well-formed token `t` followed by bytes `fol`
    before which the scanner of `t` stops (`stops t fol`, a decidable look at ≤ 3 bytes: no
    identifier byte after a name, no `=` after `|` `+` `<` …, no `.` / digit after a number, no
    `::x` after an identifier, `//` not after `?` …) returns exactly `t` and leaves exactly `fol`. -/
theorem lex_one_token (t : Tok) (fol : Bytes) (hwf : t.wf = true) (hst : stops t fol = true) :
    LexStep t.inStrTok (t.spell ++ fol) t fol t.modeAfter :=
  step_tok t fol hwf hst

/-- ANY AMOUNT OF WHITE SPACE before a token (outside a string) is skipped: the lexer returns
    the same token, semantic value, unread source and mode. -/
theorem lex_skips_white (g X : Bytes) (hg : ∀ w ∈ g, isWhite w = true) : lx (g ++ X) false = lx X false :=
  lx_whites g X hg

/-- LEX_RESPACE for the printer's separator function: for EVERY sequence of tokens and printer
    separators (`sp` one space, `soft` the space `Index.writeTo` inserts after `.` or a digit, `nl`)
    satisfying the decidable adjacency condition `itemsOK` — each token well-formed, read in the
    lexer mode the tokens before it establish, and `stops` before the text rendered after it —
    tokenizing the rendered bytes gives back exactly the tokens. -/
theorem lex_printed_tokens (items : List Item) (h : itemsOK none false [] items = true) :
    tokensOf (render none items) = toks items :=
  tokensOf_render items h

/-- the same from any lexer mode (inside an interpolated string, with open parentheses), with the
    tokenizer's budget made explicit -/
theorem lex_printed_tokens_from (items : List Item) (last : Option UInt8) (inStr : Bool) (stk : List Nat)
    (f : Nat) (h : itemsOK last inStr stk items = true) (hf : (toks items).length < f) :
    tkz f (render last items) inStr stk = toks items :=
  lex_items items last inStr stk f h hf

/-- LEX_RESPACE FOR ARBITRARY GAPS: a text given as tokens, each preceded by a gap of white space
    and `#` comments up to their line end (`IsGap`; gojq's full comment rule `commentEnd`: a
    backslash inside a comment consumes a following backslash, LF, CR or CR LF; a comment ends at
    an LF or CR), and a trailing gap.  Under the
    adjacency condition `GapsOK` — no gap inside an interpolated string literal, every token
    well-formed and `stops` before the text that follows it — the tokenizer returns exactly the
    tokens; so any two spacings of one token sequence that satisfy it have the same tokens. -/
theorem lex_respace (tw1 tw2 : Bytes) (l1 l2 : List (Bytes × Tok)) (hsame : l1.map (·.2) = l2.map (·.2))
    (h1 : GapsOK tw1 false [] l1) (h2 : GapsOK tw2 false [] l2) :
    tokensOf (joinG tw1 l1) = tokensOf (joinG tw2 l2) :=
  lex_respace_gaps tw1 tw2 l1 l2 hsame h1 h2

/-- the tokens of a text given as tokens with gaps -/
theorem lex_tokens_with_gaps (tw : Bytes) (l : List (Bytes × Tok)) (h : GapsOK tw false [] l) :
    tokensOf (joinG tw l) = l.map (·.2) :=
  tokensOf_gaps_comments tw l h

/-- the same with the DECIDABLE condition `gapsOK` for white-space gaps -/
theorem lex_tokens_with_white_gaps (tw : Bytes) (l : List (Bytes × Tok)) (h : gapsOK tw false [] l = true) :
    tokensOf (joinG tw l) = l.map (·.2) :=
  tokensOf_gaps tw l h

/-- A NON-EMPTY WHITE GAP ALWAYS SEPARATES: the condition `stops` can only fail where a token is
    directly followed by the next one — inserting white space is always allowed, deleting it is
    allowed exactly where `stops` holds of the glued text. -/
theorem white_gap_separates (t : Tok) (w : UInt8) (X : Bytes) (hw : isWhite w = true) (hwf : t.wf = true)
    (hn : t.inStrTok = false) (hs : t ≠ .strStart) : stops t (w :: X) = true :=
  stops_white t w X hw hwf hn hs

/-- A COMMENT UP TO THE LINE END THAT TERMINATES IT IS A GAP (`IsGap`: white bytes and comments):
    `Lex` returns the same token, value, unread source and mode as without the gap -/
theorem comment_is_gap (g X : Bytes) (hg : IsGap g) : lx (g ++ X) false = lx X false :=
  lx_gap g X hg

/-- gojq's comment rule in full (`commentEnd`, decidable): `# a\<LF> b<LF>` is ONE comment — the
    backslash continues it over the line feed —, `# a<CR>` ends at the CR, `# a\\<LF>` ends at the
    LF (the second backslash is consumed by the first) -/
theorem comment_rule_examples :
    commentEnd .comment [32, 97, 92, 10, 32, 98, 10] = true ∧ commentEnd .comment [32, 97, 92, 10] = false ∧
    commentEnd .comment [32, 97, 13] = true ∧ commentEnd .comment [32, 97, 92, 92, 10] = true ∧
    commentEnd .comment [32, 97, 92, 13, 10, 98, 10] = true ∧
    tokensOf /- 1# a\<LF> b<LF>+2 -/ [49, 35, 32, 97, 92, 10, 32, 98, 10, 43, 50] = [.number [49], .ch 43, .number [50]] := by
  decide +kernel

/-- deleting white space where `stops` fails DOES change the tokens: `1 .a` / `1.a`, `. .a` / `..a`,
    `a :: b`-like gluing `a: :b`, `- =` … (here: `1 .a` has the tokens number, index; `1.a` is an
    invalid token) -/
theorem glue_counterexample :
    tokensOf [49, 32, 46, 97] = [.number [49], .index [97]] ∧ stops (.number [49]) [46, 97] = false ∧
    tokensOf [49, 46, 97] ≠ [.number [49], .index [97]] := by
  decide +kernel

/-- non-vacuity of `lex_respace`: `1 as $x|2` with a comment, tabs and a CR LF -/
example : gapsOK [10] false []
    [([], .number [49]), ([9, 9], .kw .as_), ([], .var [36, 120]), ([13, 10], .ch 124), ([], .number [50])] = true := by
  decide +kernel

/-- THE PRINTER'S OUTPUT SATISFIES THE ADJACENCY CONDITION, for every Printable query: no two
    tokens `writeTo` writes next to each other merge under maximal munch (`f(`, `.[`, `-1`, `1,`,
    `a:b` inside a slice, `"x".a`, `\(`…`)` …), the `soft` space of `Index.writeTo` separates a `.`
    from a preceding `.` or digit (a number token always ends in a digit or `.`), every sign is
    followed by a byte other than `=`, and an interpolated string is re-entered exactly after the
    `)` that closes each `\(`. -/
theorem printer_output_spaced (q : Query) (h : Printable q = true) : Spaced q = true :=
  spaced_of_printable q h

/-! ### 3. print → lex → parse -/

/-- PRINT / PARSE ROUND TRIP AGAINST THE REFERENCE PARSER: for every Printable query, printing it (`printQ` = `q.String()`, stream
    `refprint`), lexing the text with the transliterated lexer and parsing the tokens with the
    reference parser gives the query back. -/
theorem print_parse_roundtrip_ref (q : Query) (hp : Printable q = true) :
    ∃ F, ∀ f, F ≤ f → refParseQ f (tokensOf (printQ q)) = some q :=
  roundtrip_printable q hp

/-- THE LEXER DELIVERS GOOD TOKENS: for EVERY source (valid or not) the tokens `Lex` returns are
    well-formed (identifiers are identifiers, numbers scan as numbers, string values are valid
    UTF-8 that the printer's escaping decodes back, …) and the tokens of interpolated strings come
    in lexer order (after the opening quote a `\(`, directly or after one literal piece; never two
    literal pieces in a row). -/
theorem lexer_delivers_good_tokens (src : Bytes) : goodB (tokensOf src) = true :=
  goodB_tokensOf src

/-- what the reference parser returns on ANY source is Printable: the image characterised -/
theorem accepted_is_printable (src : Bytes) (f : Nat) (q : Query)
    (h : refParseQ f (tokensOf src) = some q) : Printable q = true :=
  printable_of_accepted src f q h

/-- FOR EVERY SOURCE THE REFERENCE PARSER ACCEPTS — no side condition: if `src` parses to `q`, then
    printing `q`, lexing and parsing again gives `q` — the property as stated, for the reference
    parser, with the image characterised (`parser_image_printable`, `lexer_delivers_good_tokens`)
    rather than assumed. -/
theorem print_parse_roundtrip_of_accepted (src : Bytes) (f : Nat) (q : Query)
    (h : refParseQ f (tokensOf src) = some q) :
    ∃ F, ∀ f', F ≤ f' → refParseQ f' (tokensOf (printQ q)) = some q :=
  roundtrip_of_accepted src f q h

/-- THE HYPOTHESIS KEPT EXPLICIT: the shipped LALR tables with the semantic actions accept what
    the reference parser accepts and build the same AST (compared as the canonical dump the
    `parse` / `refparse` streams compare).  Validated on every run by stream `refparse`; for
    operator chains kernel-checked by `lalr_pairs`, `lalr_triples` and the shape theorems. -/
def RefAgreesWithTables : Prop :=
  ∀ (src : Bytes) (q : Query), (∃ F, ∀ f, F ≤ f → refParseQ f (tokensOf src) = some q) →
    ∃ t s v, Parse.parse src = .accept t s ∧ Parse.sem t = .ok v ∧
      Parse.dump v.val = Parse.dump (astProgram { body := .query q })

/-- PRINT / PARSE ROUND TRIP ON THE SHIPPED TABLES, under the explicit hypothesis: `Parse` applied
    to the printed text of a Printable query accepts and builds that query's AST. -/
theorem print_parse_roundtrip_tables (hyp : RefAgreesWithTables) (q : Query) (hp : Printable q = true) :
    ∃ t s v, Parse.parse (printQ q) = .accept t s ∧ Parse.sem t = .ok v ∧
      Parse.dump v.val = Parse.dump (astProgram { body := .query q }) :=
  hyp (printQ q) q (roundtrip_printable q hp)

/-- THE SAME FOR WHOLE PROGRAMS: `module {…};`, `import "p" as a {…};`, `include "p";`, then
    function definitions only or a query.  `PrintableProgram` adds to `Printable`: metadata are
    constant objects with identifier / keyword / string keys, import aliases are identifiers or
    `$variables`, paths are decoded strings. -/
theorem print_parse_roundtrip_program_ref (p : Program) (hp : PrintableProgram p = true) :
    ∃ F, ∀ f, F ≤ f → refParseF f (printProgram p) = some p :=
  roundtrip_program p hp

/-- the hypothesis for whole programs (what stream `refparse` compares on every source) -/
def RefAgreesWithTablesProgram : Prop :=
  ∀ (src : Bytes) (p : Program), (∃ F, ∀ f, F ≤ f → refParseF f src = some p) →
    ∃ t s v, Parse.parse src = .accept t s ∧ Parse.sem t = .ok v ∧ Parse.dump v.val = Parse.dump (astProgram p)

theorem print_parse_roundtrip_program_tables (hyp : RefAgreesWithTablesProgram) (p : Program)
    (hp : PrintableProgram p = true) :
    ∃ t s v, Parse.parse (printProgram p) = .accept t s ∧ Parse.sem t = .ok v ∧
      Parse.dump v.val = Parse.dump (astProgram p) :=
  hyp (printProgram p) p (roundtrip_program p hp)

/-- what the reference parser returns on ANY program source is a Printable program -/
theorem accepted_program_is_printable (src : Bytes) (f : Nat) (p : Program) (h : refParseF f src = some p) :
    PrintableProgram p = true :=
  printableProgram_of_accepted src f p h

/-- FOR EVERY PROGRAM SOURCE THE REFERENCE PARSER ACCEPTS — no side condition: print, lex, parse
    gives the same program (module header, imports, definitions, query). -/
theorem print_parse_roundtrip_program_of_accepted (src : Bytes) (f : Nat) (p : Program)
    (h : refParseF f src = some p) :
    ∃ F, ∀ f', F ≤ f' → refParseF f' (printProgram p) = some p :=
  roundtrip_program_of_accepted src f p h

/-- the converse hypothesis: what the shipped tables accept, the reference parser accepts, with the
    same AST (stream `refparse` compares accepted AND rejected sources) -/
def TablesAgreeWithRefProgram : Prop :=
  ∀ (src : Bytes) (t : LALR.PT LVal) (s : LState) (v : Parse.Sem), Parse.parse src = .accept t s → Parse.sem t = .ok v →
    ∃ f p, refParseF f src = some p ∧ Parse.dump v.val = Parse.dump (astProgram p)

/-- the hypothesis on the two printer models: on a source both parsers accept, `Printer.print`
    (Model/Printer.lean, the `writeTo` methods over the uniform AST; stream `print`) writes what
    the token-level printer `printProgram` writes (stream `refprint`) — both are compared with the
    real `String()` on every accepted source of the run -/
def PrinterAgreesWithRef : Prop :=
  ∀ (src : Bytes) (t : LALR.PT LVal) (s : LState) (v : Parse.Sem) (f : Nat) (p : Program) (text : Bytes),
    Parse.parse src = .accept t s → Parse.sem t = .ok v → refParseF f src = some p →
    Printer.print (src.length + 16) v.val = some text → text = printProgram p

/-- THE PROPERTY AS ORIGINALLY STATED (`print_parse_roundtrip_statement`: for every source `Parse`
    accepts — lexer, shipped LALR tables, semantic actions —, printing the AST with `String()` and
    parsing the text again gives the same AST), DERIVED from the theorems above under the three
    hypotheses that connect the reference parser / token-level printer to the table-driven parser
    and the `writeTo` model.  The three hypotheses are exactly what the streams `parse`,
    `refparse`, `print`, `refprint` compare on every source of every run; nothing else is assumed:
    the image (`Printable`), the spacing, the lexer's tokens are all proved. -/
theorem print_parse_roundtrip_of_agreement (h1 : RefAgreesWithTablesProgram) (h2 : TablesAgreeWithRefProgram)
    (h3 : PrinterAgreesWithRef) : print_parse_roundtrip_statement := by
  intro src t s q text hacc hsem hprint
  obtain ⟨f, p, hp, hd⟩ := h2 src t s q hacc hsem
  have ht := h3 src t s q f p text hacc hsem hp hprint
  subst ht
  obtain ⟨t', s', q', a1, a2, a3⟩ := h1 (printProgram p) p (roundtrip_program_of_accepted src f p hp)
  exact ⟨t', s', q', a1, a2, by rw [a3, hd]⟩

/-! ### 4. the side condition is needed: ASTs outside the parser's image do not round-trip -/

def num (n : UInt8) : Query := .term (.number [n])

/-- `(1 + 2) * 3` WITHOUT the parenthesis node: prints `1 + 2 * 3`, which parses as `1 + (2 * 3)` -/
def w1 : Query := .binop .mul (.binop .add (num 49) (num 50)) (num 51)
theorem not_printable_add_under_mul :
    Printable w1 = false ∧ printQ w1 = [49, 32, 43, 32, 50, 32, 42, 32, 51] ∧
    refParseQ 40 (tokensOf (printQ w1)) = some (.binop .add (num 49) (.binop .mul (num 50) (num 51))) ∧
    refParseQ 40 (tokensOf (printQ w1)) ≠ some w1 := by
  refine ⟨by decide +kernel, by decide +kernel, by rfl, ?_⟩
  rw [show refParseQ 40 (tokensOf (printQ w1)) = some (.binop .add (num 49) (.binop .mul (num 50) (num 51))) by rfl]
  intro h; cases h

/-- a suffix on a signed term: `(-1).a` without the parenthesis node prints `-1 .a` = `-(1 .a)` -/
def w2 : Query := .term (.suf (.unary true (.number [49])) (.name [97]))
theorem not_printable_suffix_on_sign :
    Printable w2 = false ∧ printQ w2 = [45, 49, 32, 46, 97] ∧
    refParseQ 40 (tokensOf (printQ w2)) = some (.term (.unary true (.suf (.number [49]) (.name [97])))) := by
  refine ⟨by decide +kernel, by decide +kernel, by rfl⟩

/-- a binding as the LEFT operand of `|`: `(1 as $x | 2) | 3` prints `1 as $x | 2 | 3`, whose
    body is `2 | 3` -/
def w3 : Query := .binop .pipe (.bind (num 49) [.var [36, 120]] (num 50)) (num 51)
theorem not_printable_binding_left_of_pipe :
    Printable w3 = false ∧
    refParseQ 40 (tokensOf (printQ w3)) = some (.bind (num 49) [.var [36, 120]] (.binop .pipe (num 50) (num 51))) := by
  refine ⟨by decide +kernel, by rfl⟩

/-- two non-associative comparisons do not even parse: `(1 == 2) == 3` without parentheses -/
def w4 : Query := .binop .eq (.binop .eq (num 49) (num 50)) (num 51)
theorem not_printable_nonassoc_chain :
    Printable w4 = false ∧ refParseQ 40 (tokensOf (printQ w4)) = none := by
  refine ⟨by decide +kernel, by rfl⟩

/-- `try (try 1) catch 2` without parentheses: the `catch` attaches to the inner `try` -/
def w5 : Query := .term (.tryCatch (.term (.try_ (num 49))) (num 50))
theorem not_printable_dangling_catch :
    Printable w5 = false ∧
    refParseQ 40 (tokensOf (printQ w5)) = some (.term (.try_ (.term (.tryCatch (num 49) (num 50))))) := by
  refine ⟨by decide +kernel, by rfl⟩

/-- a string value that no lexer run can have decoded (an invalid UTF-8 byte): it is printed as
    the escape of U+FFFD and read back as U+FFFD — the reparsed query holds other bytes -/
def w6 : Query := .term (.str (.lit [255]))
theorem not_printable_undecodable_string :
    Printable w6 = false ∧ toks (itemsQ w6) = [.str [255]] ∧
    (refParseQ 40 (tokensOf (printQ w6))).map (fun q => toks (itemsQ q)) = some [.str [239, 191, 189]] := by
  decide +kernel

/-! ### 5. non-vacuity: concrete queries through the whole chain -/

section
/-- `.a = .b // 1`  (`//` binds weaker than `=`) -/
def qA : Query := .binop .alt (.binop .assign (.term (.index (.name [97]))) (.term (.index (.name [98])))) (num 49)
/-- `1 as $x | 2` -/
def qB : Query := .bind (num 49) [.var [36, 120]] (num 50)
/-- `"a\(1 + 2)b"` -/
def qC : Query := .term (.str (.interp [.lit [97], .q (.binop .add (num 49) (num 50)), .lit [98]]))
/-- `. "a"`: the index term `."a"` -/
def qD : Query := .term (.index (.str (.lit [97])))
/-- `if . then 1 end` -/
def qE : Query := .term (.if_ (.term .identity) (num 49) .end_)
/-- `. .a .[0]? | -1 .b, "x".c[1:]`: the spacing rules after `.` and after a digit -/
def qF : Query := .binop .pipe
  (.term (.suf (.suf (.suf .identity (.name [97])) (.at (num 48))) .opt))
  (.binop .comma (.term (.unary true (.suf (.number [49]) (.name [98]))))
    (.term (.suf (.suf (.str (.lit [120])) (.name [99])) (.sliceFrom (num 49)))))

/-- the hypotheses of the round-trip theorems hold of these queries -/
example : ∀ q ∈ [qA, qB, qC, qD, qE, qF], Printable q = true ∧ Spaced q = true := by decide +kernel

/-- what the printer writes -/
example :
    printQ qA = /- .a = .b // 1 -/ [46, 97, 32, 61, 32, 46, 98, 32, 47, 47, 32, 49] ∧
    printQ qB = /- 1 as $x | 2 -/ [49, 32, 97, 115, 32, 36, 120, 32, 124, 32, 50] ∧
    printQ qC = /- "a\(1 + 2)b" -/ [34, 97, 92, 40, 49, 32, 43, 32, 50, 41, 98, 34] ∧
    printQ qD = /- ."a" -/ [46, 34, 97, 34] ∧
    printQ qE = /- if . then 1 end -/ [105, 102, 32, 46, 32, 116, 104, 101, 110, 32, 49, 32, 101, 110, 100] ∧
    printQ qF = /- . .a[0]? | -1 .b, "x".c[1:] -/ [46, 32, 46, 97, 91, 48, 93, 63, 32, 124, 32, 45, 49, 32, 46, 98, 44, 32, 34, 120, 34, 46, 99, 91, 49, 58, 93] := by
  decide +kernel

/-- the printed text lexes to the printed tokens and parses back (reference parser) -/
example : refParseQ 60 (tokensOf (printQ qA)) = some qA := by rfl
example : refParseQ 60 (tokensOf (printQ qB)) = some qB := by rfl
example : refParseQ 60 (tokensOf (printQ qC)) = some qC := by rfl
example : refParseQ 60 (tokensOf (printQ qD)) = some qD := by rfl
example : refParseQ 60 (tokensOf (printQ qE)) = some qE := by rfl
example : (refParseQ 80 (tokensOf (printQ qF))).map (fun q => toks (itemsQ q)) = some (toks (itemsQ qF)) := by
  decide +kernel

/-- `lexer_delivers_good_tokens` on a concrete source -/
example : goodB (tokensOf /- "a\(1 + 2)b" | . as [$x, {k: $y}] ?// $z | -.a."b"[1:]? -/
    [34, 97, 92, 40, 49, 43, 50, 41, 98, 34, 32, 124, 32, 46, 32, 97, 115, 32, 91, 36, 120, 44, 32, 123, 107, 58, 32,
     36, 121, 125, 93, 32, 63, 47, 47, 32, 36, 122, 32, 124, 32, 45, 46, 97, 46, 34, 98, 34, 91, 49, 58, 93, 63]) = true := by
  decide +kernel

/-- differently spaced sources of the same queries: `. "a"`, `.a=.b//1`, `1 as$x|2` -/
example : refParseQ 60 (tokensOf /- . "a" -/ [46, 32, 34, 97, 34]) = some qD := by rfl
example : refParseQ 60 (tokensOf /- .a=.b//1 -/ [46, 97, 61, 46, 98, 47, 47, 49]) = some qA := by rfl
example : refParseQ 60 (tokensOf /- 1 as$x|2 -/ [49, 32, 97, 115, 36, 120, 124, 50]) = some qB := by rfl

/-- `module {a: [1, "x"]}; import "m" as $x {if: null}; include "n"; def f($a; g): g; def h: f(1; .);` -/
def pG : Program :=
  { md := some [.mk false [97] (.arr [.number [49], .str [120]])],
    imports := [.import_ [109] [36, 120] (some [.mk false [105, 102] .null]), .include_ [110] none],
    body := .defs [.mk [102] [[36, 97], [103]] (.term (.func [103] [])),
                   .mk [104] [] (.term (.func [102] [num 49, .term .identity]))] }
example : PrintableProgram pG = true := by decide +kernel
example : (refParseF 200 (printProgram pG)).map (fun p => toks (itemsProgram p)) = some (toks (itemsProgram pG)) := by
  decide +kernel

/-- the instance of `RefAgreesWithTables` at these printed texts, evaluated on the shipped tables -/
def agreesAt (q : Query) : Bool :=
  match Parse.parse (printQ q) with
  | .accept t _ =>
    (match Parse.sem t with
     | .ok v => Parse.dump v.val == Parse.dump (astProgram { body := .query q })
     | _ => false)
  | _ => false
example : ∀ q ∈ [qA, qB, qC, qD, qE, qF], agreesAt q = true := by decide +kernel
end

end Gojq.C09

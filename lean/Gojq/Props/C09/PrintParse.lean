/-
  C09 — `String()` round-trips: theorems.

  STRATEGY (i): the round trip is proved against a hand-written, structurally recursive REFERENCE
  PARSER for the full query grammar (Model/RefTermParser.lean: precedence climbing over the
  documented operator table, terms, suffix lists, object / array construction, if / try / reduce /
  foreach / label / def / `as` with destructuring alternatives, string interpolation, formats,
  patterns), composed with the transliterated LEXER (Model/Lexer.lean) and a token-level
  transliteration of the PRINTER (`itemsQ` = the tokens and separators `writeTo` writes, `render` =
  bytes).  The connection reference parser ↔ shipped LALR tables is NOT proved; it is the explicit
  hypothesis `RefAgreesWithTables` of `print_parse_roundtrip_tables`, validated on every run by the
  stream `refparse` (same sources and expected answers as stream `parse`: 0 disagreements on
  ≈18 k accepted and rejected sources) and, for operators, kernel-checked on the tables by
  `lalr_pairs` / `lalr_triples` / the shape theorems.  The token-level printer is tied to the real
  `String()` by the stream `refprint`.

  What is proved, for EVERY query AST `q` (no bound on size):
    refparse_tokens_roundtrip   Printable q → refParse (tokens the printer writes for q) = q
    lex_printed_tokens          (lex_respace) adjacency condition → tokenize (render items) = tokens
    printer_output_spaced       Printable q → the printer's own output satisfies that condition
    print_parse_roundtrip_ref   Printable q → refParse (tokenize (print q)) = q
    print_parse_roundtrip_tables  … and, under RefAgreesWithTables, Parse (print q) has the AST of q
  `Printable` (Model: `okQ true 1`) is the decidable shape invariant of the parser's image.
-/
import Gojq.Proofs.RoundTripMain
namespace Gojq.C09
open Gojq Gojq.Lexer Gojq.RefTerm

/-! ### 1. token level: parenthesisation, terms, suffixes, every construct -/

/-- TOKEN-LEVEL ROUND TRIP.  For every query AST in the image of the parser (`Printable`: an
    operand of an operator the printer writes without parentheses has a root that binds at least
    as tightly on that side — `|` 1 right, `,` 2 left, `//` 3 right, update 4 non-assoc, `or` 5,
    `and` 6, comparison 7 non-assoc, `+ -` 8, `* / %` 9 —; a left operand does not end in a
    binding / definition / label; `def`, `label`, `as` occur where a pipe may; a sign or `try`
    carries no suffix; `try … catch` does not swallow a dangling `catch`; names are lexable names …)
    the reference parser applied to the TOKENS the printer writes gives the AST back.  `f` is the
    recursion budget of the executable reference parser: any sufficiently large value works. -/
theorem refparse_tokens_roundtrip (q : Query) (h : Printable q = true) :
    ∃ F, ∀ f, F ≤ f → refParseQ f (toks (itemsQ q)) = some q :=
  refParse_items q h

/-- THE HEART OF PARENTHESISATION: the operator `o` printed right after an operand `l` whose root
    binds at least `o.lmin` (and that does not end in a binding) is never absorbed into `l`: every
    operator on the right spine of `l` has an absorb level above `o` — so `l o r` printed WITHOUT
    parentheses is read back with `o` at the root. -/
theorem left_operand_needs_no_parentheses (o : BOp) (l : Query) (item : Bool) (m : Nat)
    (hl : okQ item m l = true) (hc : closedQ l = true) (hm : o.lmin ≤ m) :
    followQ l (some (opTok o)) = true :=
  followQ_left o l item m hl hc hm

/-! ### 2. lex_respace: the printer's separators and the lexer's maximal munch -/

/-- ONE TOKEN.  `Lex` applied to the spelling of a well-formed token `t` followed by bytes `fol`
    before which the scanner of `t` stops (`stops t fol`, a decidable look at ≤ 3 bytes: no
    identifier byte after a name, no `=` after `|` `+` `<` …, no `.` / digit after a number, no
    `::x` after an identifier, `//` not after `?` …) returns exactly `t` and leaves exactly `fol`. -/
theorem lex_one_token (t : Tok) (fol : Bytes) (hwf : t.wf = true) (hst : stops t fol = true) :
    LexStep t.inStrTok (t.spell ++ fol) t fol t.modeAfter :=
  step_tok t fol hwf hst

/-- ANY AMOUNT OF WHITE SPACE before a token (outside a string) is skipped: the lexer returns
    the same token, semantic value, unread source and mode. -/
theorem lex_skips_white (g X : Bytes) (hg : ∀ w ∈ g, isWhite w = true) : lx (g ++ X) false = lx X false :=
  lx_whites g X hg

/-- LEX_RESPACE for the printer's separator function: for EVERY sequence of tokens and printer
    separators (`sp` one space, `soft` the space `Index.writeTo` inserts after `.` or a digit, `nl`)
    satisfying the decidable adjacency condition `itemsOK` — each token well-formed, read in the
    lexer mode the tokens before it establish, and `stops` before the text rendered after it —
    tokenizing the rendered bytes gives back exactly the tokens. -/
theorem lex_printed_tokens (items : List Item) (h : itemsOK none false [] items = true) :
    tokensOf (render none items) = toks items :=
  tokensOf_render items h

/-- the same from any lexer mode (inside an interpolated string, with open parentheses), with the
    tokenizer's budget made explicit -/
theorem lex_printed_tokens_from (items : List Item) (last : Option UInt8) (inStr : Bool) (stk : List Nat)
    (f : Nat) (h : itemsOK last inStr stk items = true) (hf : (toks items).length < f) :
    tkz f (render last items) inStr stk = toks items :=
  lex_items items last inStr stk f h hf

/-- THE PRINTER'S OUTPUT SATISFIES THE ADJACENCY CONDITION, for every Printable query: no two
    tokens `writeTo` writes next to each other merge under maximal munch (`f(`, `.[`, `-1`, `1,`,
    `a:b` inside a slice, `"x".a`, `\(`…`)` …), the `soft` space of `Index.writeTo` separates a `.`
    from a preceding `.` or digit (a number token always ends in a digit or `.`), every sign is
    followed by a byte other than `=`, and an interpolated string is re-entered exactly after the
    `)` that closes each `\(`. -/
theorem printer_output_spaced (q : Query) (h : Printable q = true) : Spaced q = true :=
  spaced_of_printable q h

/-! ### 3. print → lex → parse -/

/-- PRINT / PARSE ROUND TRIP AGAINST THE REFERENCE PARSER: for every Printable query, printing it (`printQ` = `q.String()`, stream
    `refprint`), lexing the text with the transliterated lexer and parsing the tokens with the
    reference parser gives the query back. -/
theorem print_parse_roundtrip_ref (q : Query) (hp : Printable q = true) :
    ∃ F, ∀ f, F ≤ f → refParseQ f (tokensOf (printQ q)) = some q :=
  roundtrip_printable q hp

/-- THE HYPOTHESIS KEPT EXPLICIT: the shipped LALR tables with the semantic actions accept what
    the reference parser accepts and build the same AST (compared as the canonical dump the
    `parse` / `refparse` streams compare).  Validated on every run by stream `refparse`; for
    operator chains kernel-checked by `lalr_pairs`, `lalr_triples` and the shape theorems. -/
def RefAgreesWithTables : Prop :=
  ∀ (src : Bytes) (q : Query), (∃ F, ∀ f, F ≤ f → refParseQ f (tokensOf src) = some q) →
    ∃ t s v, Parse.parse src = .accept t s ∧ Parse.sem t = .ok v ∧
      Parse.dump v.val = Parse.dump (astProgram { body := .query q })

/-- PRINT / PARSE ROUND TRIP ON THE SHIPPED TABLES, under the explicit hypothesis: `Parse` applied
    to the printed text of a Printable query accepts and builds that query's AST. -/
theorem print_parse_roundtrip_tables (hyp : RefAgreesWithTables) (q : Query) (hp : Printable q = true) :
    ∃ t s v, Parse.parse (printQ q) = .accept t s ∧ Parse.sem t = .ok v ∧
      Parse.dump v.val = Parse.dump (astProgram { body := .query q }) :=
  hyp (printQ q) q (roundtrip_printable q hp)

/-! ### 4. the side condition is needed: ASTs outside the parser's image do not round-trip -/

def num (n : UInt8) : Query := .term (.number [n])

/-- `(1 + 2) * 3` WITHOUT the parenthesis node: prints `1 + 2 * 3`, which parses as `1 + (2 * 3)` -/
def w1 : Query := .binop .mul (.binop .add (num 49) (num 50)) (num 51)
theorem not_printable_add_under_mul :
    Printable w1 = false ∧ printQ w1 = [49, 32, 43, 32, 50, 32, 42, 32, 51] ∧
    refParseQ 40 (tokensOf (printQ w1)) = some (.binop .add (num 49) (.binop .mul (num 50) (num 51))) ∧
    refParseQ 40 (tokensOf (printQ w1)) ≠ some w1 := by
  refine ⟨by decide +kernel, by decide +kernel, by rfl, ?_⟩
  rw [show refParseQ 40 (tokensOf (printQ w1)) = some (.binop .add (num 49) (.binop .mul (num 50) (num 51))) by rfl]
  intro h; cases h

/-- a suffix on a signed term: `(-1).a` without the parenthesis node prints `-1 .a` = `-(1 .a)` -/
def w2 : Query := .term (.suf (.unary true (.number [49])) (.name [97]))
theorem not_printable_suffix_on_sign :
    Printable w2 = false ∧ printQ w2 = [45, 49, 32, 46, 97] ∧
    refParseQ 40 (tokensOf (printQ w2)) = some (.term (.unary true (.suf (.number [49]) (.name [97])))) := by
  refine ⟨by decide +kernel, by decide +kernel, by rfl⟩

/-- a binding as the LEFT operand of `|`: `(1 as $x | 2) | 3` prints `1 as $x | 2 | 3`, whose
    body is `2 | 3` -/
def w3 : Query := .binop .pipe (.bind (num 49) [.var [36, 120]] (num 50)) (num 51)
theorem not_printable_binding_left_of_pipe :
    Printable w3 = false ∧
    refParseQ 40 (tokensOf (printQ w3)) = some (.bind (num 49) [.var [36, 120]] (.binop .pipe (num 50) (num 51))) := by
  refine ⟨by decide +kernel, by rfl⟩

/-- two non-associative comparisons do not even parse: `(1 == 2) == 3` without parentheses -/
def w4 : Query := .binop .eq (.binop .eq (num 49) (num 50)) (num 51)
theorem not_printable_nonassoc_chain :
    Printable w4 = false ∧ refParseQ 40 (tokensOf (printQ w4)) = none := by
  refine ⟨by decide +kernel, by rfl⟩

/-- `try (try 1) catch 2` without parentheses: the `catch` attaches to the inner `try` -/
def w5 : Query := .term (.tryCatch (.term (.try_ (num 49))) (num 50))
theorem not_printable_dangling_catch :
    Printable w5 = false ∧
    refParseQ 40 (tokensOf (printQ w5)) = some (.term (.try_ (.term (.tryCatch (num 49) (num 50))))) := by
  refine ⟨by decide +kernel, by rfl⟩

/-- a string value that no lexer run can have decoded (an invalid UTF-8 byte): it is printed as
    the escape of U+FFFD and read back as U+FFFD — the reparsed query holds other bytes -/
def w6 : Query := .term (.str (.lit [255]))
theorem not_printable_undecodable_string :
    Printable w6 = false ∧ toks (itemsQ w6) = [.str [255]] ∧
    (refParseQ 40 (tokensOf (printQ w6))).map (fun q => toks (itemsQ q)) = some [.str [239, 191, 189]] := by
  decide +kernel

/-! ### 5. non-vacuity: concrete queries through the whole chain -/

section
/-- `.a = .b // 1`  (`//` binds weaker than `=`) -/
def qA : Query := .binop .alt (.binop .assign (.term (.index (.name [97]))) (.term (.index (.name [98])))) (num 49)
/-- `1 as $x | 2` -/
def qB : Query := .bind (num 49) [.var [36, 120]] (num 50)
/-- `"a\(1 + 2)b"` -/
def qC : Query := .term (.str (.interp [.lit [97], .q (.binop .add (num 49) (num 50)), .lit [98]]))
/-- `. "a"`: the index term `."a"` -/
def qD : Query := .term (.index (.str (.lit [97])))
/-- `if . then 1 end` -/
def qE : Query := .term (.if_ (.term .identity) (num 49) .end_)
/-- `. .a .[0]? | -1 .b, "x".c[1:]`: the spacing rules after `.` and after a digit -/
def qF : Query := .binop .pipe
  (.term (.suf (.suf (.suf .identity (.name [97])) (.at (num 48))) .opt))
  (.binop .comma (.term (.unary true (.suf (.number [49]) (.name [98]))))
    (.term (.suf (.suf (.str (.lit [120])) (.name [99])) (.sliceFrom (num 49)))))

/-- the hypotheses of the round-trip theorems hold of these queries -/
example : ∀ q ∈ [qA, qB, qC, qD, qE, qF], Printable q = true ∧ Spaced q = true := by decide +kernel

/-- what the printer writes -/
example :
    printQ qA = /- .a = .b // 1 -/ [46, 97, 32, 61, 32, 46, 98, 32, 47, 47, 32, 49] ∧
    printQ qB = /- 1 as $x | 2 -/ [49, 32, 97, 115, 32, 36, 120, 32, 124, 32, 50] ∧
    printQ qC = /- "a\(1 + 2)b" -/ [34, 97, 92, 40, 49, 32, 43, 32, 50, 41, 98, 34] ∧
    printQ qD = /- ."a" -/ [46, 34, 97, 34] ∧
    printQ qE = /- if . then 1 end -/ [105, 102, 32, 46, 32, 116, 104, 101, 110, 32, 49, 32, 101, 110, 100] ∧
    printQ qF = /- . .a[0]? | -1 .b, "x".c[1:] -/ [46, 32, 46, 97, 91, 48, 93, 63, 32, 124, 32, 45, 49, 32, 46, 98, 44, 32, 34, 120, 34, 46, 99, 91, 49, 58, 93] := by
  decide +kernel

/-- the printed text lexes to the printed tokens and parses back (reference parser) -/
example : refParseQ 60 (tokensOf (printQ qA)) = some qA := by rfl
example : refParseQ 60 (tokensOf (printQ qB)) = some qB := by rfl
example : refParseQ 60 (tokensOf (printQ qC)) = some qC := by rfl
example : refParseQ 60 (tokensOf (printQ qD)) = some qD := by rfl
example : refParseQ 60 (tokensOf (printQ qE)) = some qE := by rfl
example : (refParseQ 80 (tokensOf (printQ qF))).map (fun q => toks (itemsQ q)) = some (toks (itemsQ qF)) := by
  decide +kernel

/-- differently spaced sources of the same queries: `. "a"`, `.a=.b//1`, `1 as$x|2` -/
example : refParseQ 60 (tokensOf /- . "a" -/ [46, 32, 34, 97, 34]) = some qD := by rfl
example : refParseQ 60 (tokensOf /- .a=.b//1 -/ [46, 97, 61, 46, 98, 47, 47, 49]) = some qA := by rfl
example : refParseQ 60 (tokensOf /- 1 as$x|2 -/ [49, 32, 97, 115, 36, 120, 124, 50]) = some qB := by rfl

/-- the instance of `RefAgreesWithTables` at these printed texts, evaluated on the shipped tables -/
def agreesAt (q : Query) : Bool :=
  match Parse.parse (printQ q) with
  | .accept t _ =>
    (match Parse.sem t with
     | .ok v => Parse.dump v.val == Parse.dump (astProgram { body := .query q })
     | _ => false)
  | _ => false
example : ∀ q ∈ [qA, qB, qC, qD, qE, qF], agreesAt q = true := by decide +kernel
end

end Gojq.C09

/-
  C09 — finite facts about the lexer model and the tables extracted from lexer.go / operator.go:
  every operator spelling printed by `Operator.String` lexes back to exactly one token of its
  documented class carrying the same operator; the model's literal spellings are the ones Lex
  assigns; keywords are not identifiers.
-/
import Gojq.Model.Lexer
import Gojq.Model.RefParser
namespace Gojq.C09
open Gojq Gojq.Lexer Gojq.RefParser Gojq.Generated.Lalr

/-- the documented class of each of the 24 operators (from the property text) -/
def docClass (op : Nat) : Option Op :=
  if op == OpPipe then some .pipe else if op == OpComma then some .comma
  else if op == OpAdd then some .add else if op == OpSub then some .sub
  else if op == OpMul then some .mul else if op == OpDiv then some .div else if op == OpMod then some .mod
  else if op == OpEq || op == OpNe || op == OpGt || op == OpLt || op == OpGe || op == OpLe then some .compare
  else if op == OpAnd then some .and else if op == OpOr then some .or else if op == OpAlt then some .alt
  else if op == OpAssign || op == OpModify || op == OpUpdateAdd || op == OpUpdateSub || op == OpUpdateMul
       || op == OpUpdateDiv || op == OpUpdateMod || op == OpUpdateAlt then some .update
  else none

/-- classes whose token stands for several operators: the operator travels in `lval.operator` -/
def carriesOperator : Op → Bool
  | .alt | .update | .compare => true
  | _ => false

/-- lex a source that must consist of exactly one token: (token code, lval.operator) -/
def lexOne (src : Bytes) : Option (Int × Nat) :=
  let (ty, lv, s) := lex (LState.init src)
  let (ty2, _, s2) := lex s
  if s.rest.isEmpty && ty2 == eof && !s2.panicked then some (ty, lv.operator) else none

/-- every one of the 24 operator spellings (`Operator.String`) is ONE token of exactly its
    documented class, and where a class stands for several operators the token carries the
    operator it was printed from — so printing an operator and lexing it back is the identity,
    and the 12 classes of `lalr_pairs`/`lalr_triples` cover all 24 operators. -/
theorem op_class_complete :
    operatorSpellings.length = 24 ∧
    ∀ e ∈ operatorSpellings, ∃ cls, docClass e.1 = some cls ∧
      lexOne e.2 = some (cls.code, if carriesOperator cls then e.1 else 0) := by
  decide +kernel

/-- the literal spellings the model emits through `opEntry` are all present in the table
    extracted from `Lex` (a spelling that disappeared from lexer.go breaks this theorem) -/
theorem lexOps_cover :
    ∀ sp ∈ ([[46, 46], [124, 61], [63, 47, 47], [43, 61], [45, 61], [42, 61], [47, 61], [47, 47, 61], [47, 47],
             [37, 61], [61, 61], [61], [33, 61], [62, 61], [62], [60, 61], [60]] : List Bytes),
      (bytesLookup sp lexOps).isSome = true := by
  decide +kernel

/-- and conversely every spelling assigned in `Lex` is one the model emits -/
theorem lexOps_all_modelled :
    ∀ e ∈ lexOps, (lexOne e.1).map (·.1) = some e.2.1 := by
  decide +kernel

/-- the 21 keywords lex to their own token, never to `tokIdent`; as field names (`.and`) and
    after `$`/`@` they are ordinary names -/
theorem keywords_lex :
    keywords.length = 21 ∧
    (∀ e ∈ keywords, lexOne e.1 = some (e.2, 0) ∧ e.2 ≠ tokIdent) ∧
    (∀ e ∈ keywords, (lexOne (46 :: e.1)).map (·.1) = some tokIndex ∧
                     (lexOne (36 :: e.1)).map (·.1) = some tokVariable ∧
                     (lexOne (64 :: e.1)).map (·.1) = some tokFormat) := by
  decide +kernel

/-! Non-vacuity / worked examples of the byte-level model (kernel-evaluated). -/
section
/-- `..` then `a`;  `.e3` is a field;  `1.e3` one number;  `1.a` an invalid token ending at offset 3 -/
example : (lexAll 9 (LState.init [46, 46, 97])).map (fun x => (x.1, x.2.2)) = [(tokRecurse, 2), (tokIdent, 3), (eof, 3)] := by decide +kernel
example : (lexAll 9 (LState.init [46, 101, 51])).map (fun x => (x.1, x.2.2)) = [(tokIndex, 3), (eof, 3)] := by decide +kernel
example : (lexAll 9 (LState.init [49, 46, 101, 51])).map (fun x => (x.1, x.2.2)) = [(tokNumber, 4), (eof, 4)] := by decide +kernel
example : (lexAll 9 (LState.init [49, 46, 97])).map (fun x => (x.1, x.2.2)) = [(tokInvalid, 3)] := by decide +kernel
/-- `a::b` is one module identifier, `a::` is an identifier followed by two colons -/
example : (lexAll 9 (LState.init [97, 58, 58, 98])).map (fun x => (x.1, x.2.2)) = [(tokModuleIdent, 4), (eof, 4)] := by decide +kernel
example : (lexAll 9 (LState.init [97, 58, 58])).map (fun x => (x.1, x.2.2)) = [(tokIdent, 1), (58, 2), (58, 3), (eof, 3)] := by decide +kernel
/-- `?//` is one token, `?/` two -/
example : (lexAll 9 (LState.init [63, 47, 47])).map (fun x => (x.1, x.2.2)) = [(tokDestAltOp, 3), (eof, 3)] := by decide +kernel
example : (lexAll 9 (LState.init [63, 47])).map (fun x => (x.1, x.2.2)) = [(63, 1), (47, 2), (eof, 2)] := by decide +kernel
/-- a comment continues over a backslash-newline, and over backslash CR LF; it ends at a bare CR -/
example : (lexAll 9 (LState.init [49, 35, 92, 10, 50, 10, 51])).map (fun x => (x.1, x.2.2)) = [(tokNumber, 1), (tokNumber, 7), (eof, 7)] := by decide +kernel
example : (lexAll 9 (LState.init [49, 35, 92, 13, 10, 50, 13, 51])).map (fun x => (x.1, x.2.2)) = [(tokNumber, 1), (tokNumber, 8), (eof, 8)] := by decide +kernel
/-- a NUL byte inside a comment is a comment byte; elsewhere it is an invalid token -/
example : (lexAll 9 (LState.init [49, 35, 0, 10, 50])).map (fun x => (x.1, x.2.2)) = [(tokNumber, 1), (tokNumber, 5), (eof, 5)] := by decide +kernel
example : (lexAll 9 (LState.init [49, 32, 0])).map (fun x => (x.1, x.2.2)) = [(tokNumber, 1), (tokInvalid, 3)] := by decide +kernel
end

end Gojq.C09

/- C09 — precedence/associativity of operator TRIPLES starting with the class `add`
   (one module per first operator so that the kernel checks run in parallel; see Props/C09.lean). -/
import Gojq.Model.RefParser
namespace Gojq.C09
open Gojq.LALR Gojq.RefParser

/-- for every second and third operator class, the shipped LALR tables bracket
    `. add . o₂ . o₃ .` exactly as the documented precedence table does (144 chains, exhaustive;
    chains of two non-associative operators of one level are rejected by both). -/
theorem lalr_triples_add : ∀ o2 ∈ Op.all, ∀ o3 ∈ Op.all,
    shapeOf (tripleToks .add o2 o3) = refShape (tripleToks .add o2 o3) := by decide +kernel

end Gojq.C09

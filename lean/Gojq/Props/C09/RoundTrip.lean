/-
  C09 — `String()` round-trips: the statement (NOT proved) and kernel-evaluated instances on the
  model (lexer ∘ LALR tables ∘ actions ∘ printer).
-/
import Gojq.Model.Printer
namespace Gojq.C09
open Gojq Gojq.Lexer Gojq.LALR Gojq.Parse

/-! ### 4. `String()` round-trips  — statements, not proved -/

/-- ⟦full⟧ `print_parse_roundtrip`: for every source `Parse` accepts, printing the AST and parsing
    the text again gives the same AST.  NOT PROVED (LALR-table parsing composed with the printer
    over all ASTs; DESIGN C09.3 plans it through a token-level fragment with `PrecWF`).  It is
    covered by search only: oracle `roundtrip` on the real code (corpus, mutants, generated
    surface-grammar programs) and oracle `adjacency` (every term × suffix × suffix form), and the
    printer model itself is tied to the code by stream `print`.  The search found, and the
    repository fixed, two violations (`. .[0]` printed as `.[0]`; `import "" as a;` printed as
    `include "";`). -/
def print_parse_roundtrip_statement : Prop :=
  ∀ (src : Bytes) (t : PT LVal) (s : LState) (q : Sem) (text : Bytes),
    parse src = .accept t s → sem t = .ok q → Printer.print (src.length + 16) q.val = some text →
    ∃ t' s' q', parse text = .accept t' s' ∧ sem t' = .ok q' ∧ dump q'.val = dump q.val

/-- the round trip on the model, executable -/
def roundTrips (b : Bytes) : Bool :=
  match parse b with
  | .accept t _ =>
    match sem t with
    | .ok q =>
      match Printer.print (b.length + 16) q.val with
      | some text =>
        match parse text with
        | .accept t' _ => (match sem t' with | .ok q' => dump q'.val == dump q.val | _ => false)
        | _ => false
      | none => false
    | _ => false
  | _ => false

/-- sources (as bytes) on which the round trip is evaluated on the model by the kernel -/
def roundTripInstances : List Bytes := [
    /- . .a -/
    [46, 32, 46, 97],
    /- 1 .a -/
    [49, 32, 46, 97],
    /- 1. .a -/
    [49, 46, 32, 46, 97],
    /- .. .a -/
    [46, 46, 32, 46, 97],
    /- . .[0] -/
    [46, 32, 46, 91, 48, 93],
    /- . ."s" -/
    [46, 32, 46, 34, 115, 34],
    /- . .[1:2] .a -/
    [46, 32, 46, 91, 49, 58, 50, 93, 32, 46, 97],
    /- import "" as a; . -/
    [105, 109, 112, 111, 114, 116, 32, 34, 34, 32, 97, 115, 32, 97, 59, 32, 46],
    /- "a\(1+2)b" | . as [$x, {k: $y}] ?// $z | -.a."b"[1:]? -/
    [34, 97, 92, 40, 49, 43, 50, 41, 98, 34, 32, 124, 32, 46, 32, 97, 115, 32, 91, 36, 120, 44, 32, 123, 107, 58, 32, 36, 121, 125, 93, 32, 63, 47, 47, 32, 36, 122, 32, 124, 32, 45, 46, 97, 46, 34, 98, 34, 91, 49, 58, 93, 63],
    /- def f($a; g): g; reduce .[] as $x (0; . + $x) | if . then 1 elif 2 then 3 else 4 end, try error catch . -/
    [100, 101, 102, 32, 102, 40, 36, 97, 59, 32, 103, 41, 58, 32, 103, 59, 32, 114, 101, 100, 117, 99, 101, 32, 46, 91, 93, 32, 97, 115, 32, 36, 120, 32, 40, 48, 59, 32, 46, 32, 43, 32, 36, 120, 41, 32, 124, 32, 105, 102, 32, 46, 32, 116, 104, 101, 110, 32, 49, 32, 101, 108, 105, 102, 32, 50, 32, 116, 104, 101, 110, 32, 51, 32, 101, 108, 115, 101, 32, 52, 32, 101, 110, 100, 44, 32, 116, 114, 121, 32, 101, 114, 114, 111, 114, 32, 99, 97, 116, 99, 104, 32, 46],
    /- {if: 1, "a\(1)": 2, $x, (1): 3 | 4, and} -/
    [123, 105, 102, 58, 32, 49, 44, 32, 34, 97, 92, 40, 49, 41, 34, 58, 32, 50, 44, 32, 36, 120, 44, 32, 40, 49, 41, 58, 32, 51, 32, 124, 32, 52, 44, 32, 97, 110, 100, 125],
    /- module {a: [1, "x", null]}; include "m" {}; label $out | foreach 1 as $i (0; 1; break $out) -/
    [109, 111, 100, 117, 108, 101, 32, 123, 97, 58, 32, 91, 49, 44, 32, 34, 120, 34, 44, 32, 110, 117, 108, 108, 93, 125, 59, 32, 105, 110, 99, 108, 117, 100, 101, 32, 34, 109, 34, 32, 123, 125, 59, 32, 108, 97, 98, 101, 108, 32, 36, 111, 117, 116, 32, 124, 32, 102, 111, 114, 101, 97, 99, 104, 32, 49, 32, 97, 115, 32, 36, 105, 32, 40, 48, 59, 32, 49, 59, 32, 98, 114, 101, 97, 107, 32, 36, 111, 117, 116, 41],
    /- @base64 "x\(1)\n\u00e9" , $__loc__ , m::f(1;2) // .. | . |= . + 1 -/
    [64, 98, 97, 115, 101, 54, 52, 32, 34, 120, 92, 40, 49, 41, 92, 110, 92, 117, 48, 48, 101, 57, 34, 32, 44, 32, 36, 95, 95, 108, 111, 99, 95, 95, 32, 44, 32, 109, 58, 58, 102, 40, 49, 59, 50, 41, 32, 47, 47, 32, 46, 46, 32, 124, 32, 46, 32, 124, 61, 32, 46, 32, 43, 32, 49]]

/-- worked instances of the round trip on the MODEL (lexer, tables, actions, printer; kernel
    evaluated): the spacing cases the printer's rule exists for (`. .a`, `1 .a`, `1. .a`,
    `.. .a`), the two repaired cases (`. .[0]`, `import "" as a;`), and one query of each
    larger construct.  Instances, not the theorem: see `print_parse_roundtrip_statement`. -/
theorem roundtrip_instances : ∀ src ∈ roundTripInstances, roundTrips src = true := by decide +kernel

end Gojq.C09

/- C09 — precedence/associativity of operator PAIRS on the shipped LALR tables (kernel-checked). -/
import Gojq.Model.RefParser
namespace Gojq.C09
open Gojq.LALR Gojq.RefParser

/-- for all 12 operator token classes and all 144 ordered pairs, the goyacc driver over the tables
    of parser.go parses `. o₁ . o₂ .` with the root the documented table prescribes:
    `|` weakest and right-associative, `,` left, `//` right, update operators non-associative
    (the chain is REJECTED), `or`, `and`, comparisons non-associative, `+ -` left, `* / %` left. -/
theorem lalr_pairs : ∀ o1 ∈ Op.all, ∀ o2 ∈ Op.all,
    shapeOf (pairToks o1 o2) = expectedPair o1 o2 := by decide +kernel

/-- the spelled-out prescription for pairs and the precedence-climbing reference parser (used
    for triples) are the same specification on pairs. -/
theorem expectedPair_eq_refShape : ∀ o1 ∈ Op.all, ∀ o2 ∈ Op.all,
    expectedPair o1 o2 = refShape (pairToks o1 o2) := by decide +kernel

/-! Non-vacuity: the three kinds of outcome occur. -/
example : shapeOf (pairToks .add .mul) = .ok [lp, atom, Op.add.tok, lp, atom, Op.mul.tok, atom, rp, rp] := by decide +kernel
example : shapeOf (pairToks .sub .sub) = .ok [lp, lp, atom, Op.sub.tok, atom, rp, Op.sub.tok, atom, rp] := by decide +kernel
example : shapeOf (pairToks .update .update) = .syntaxError := by decide +kernel

end Gojq.C09

/- C09 — precedence/associativity of operator TRIPLES starting with the class `compare`
   (one module per first operator so that the kernel checks run in parallel; see Props/C09.lean). -/
import Gojq.Model.RefParser
namespace Gojq.C09
open Gojq.LALR Gojq.RefParser

/-- for every second and third operator class, the shipped LALR tables bracket
    `. compare . o₂ . o₃ .` exactly as the documented precedence table does (144 chains, exhaustive;
    chains of two non-associative operators of one level are rejected by both). -/
theorem lalr_triples_compare : ∀ o2 ∈ Op.all, ∀ o3 ∈ Op.all,
    shapeOf (tripleToks .compare o2 o3) = refShape (tripleToks .compare o2 o3) := by decide +kernel

end Gojq.C09

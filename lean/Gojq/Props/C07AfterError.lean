/-
  C07 — after an error value the iterator can be advanced.  Property theorems only; the lemmas are in
  Gojq/Proofs/VMAfterError*.lean, the run-time guard in Gojq/Model/LabelShape.lean.

  What Props/C07.lean left open (`after_error_advancable_partial`): (1) a re-entered `opforklabel`
  pops the value BENEATH the label; (2) what runs after the re-entered instruction is ordinary
  execution.  Here:

  * (1) is closed.  `opforklabel` backtracked into through its own fork always finds its label
    (`EnvInv2`, arbitrary code, no hypothesis).  Re-entered a second time — by the `Next` call that
    follows an error return whose saved pc is the `opforklabel` — it pops the value that was on top
    when it was executed.  That such a value exists is NOT a property of the instructions around an
    `opforklabel` (`label_value_beneath_is_not_local`): compileLabel emits it wherever a query starts
    (after `opscope`, `opstore`, `opjumpifnot`, a call …) and the value is the query's input, possibly
    the caller's; in the hand-written `_modify` the stack can even be empty there, and the re-entry
    never happens because the `opfork` of the enclosing `reduce` is pending beneath.  It is the
    run-time fact `labelGuard` (Model/LabelShape.lean): the VM is never about to execute `opforklabel`
    FORWARD with NO pending fork on an EMPTY data stack.  Every theorem below that concerns
    `opforklabel` assumes `historyGuard` (the guard held at every turn of the run so far), and nothing
    else — arbitrary code, inputs, oracles, fuel.  `guard_from_turn_invariant` is the bridge for a
    static discharge: any invariant of the turns of `VM.step` that implies `labelGuard` gives
    `historyGuard`; the bytecode checker of C08 (`SafeVM.safeCheck`, clause `1 ≤ h ∨ pend` of
    `opforklabel`, validated on every real program by the `safe` stream of the C04 check) is built to
    provide exactly that.  Code without `opforklabel` needs no hypothesis (`labelFree`).
  * (2) is reduced to ordinary execution: the state a `Next` call starts from after an error is a
    backtracking state of the same kind as the states every fork pop produces
    (`after_error_state_is_backtrack_state`, `fork_pop_is_backtrack_state`); when the error was
    propagated through a fork, it is LITERALLY the state the last popped fork restored, re-entered at
    the same fork instruction with the error cleared (`after_error_resumes_backtracking`).  Hence
    `after_error_advancable_of_backtrack_safe`: panic-freedom of ordinary execution from
    backtracking states (C08's `vm_total_wf`) gives the full statement of C07.
  * When the next call does not resume anything it returns `(nil, false)` at once
    (`error_then_done`, `error_then_done_at`): always, unless the saved pc is an `opfork` (its
    alternative runs: `error("x"), 1`) or an `opiter` with a restored iteration state (`.[] | error`).
-/
import Gojq.Props.C07
import Gojq.Proofs.VMAfterErrorNext
import Gojq.Proofs.VMAfterErrorIter
namespace Gojq.C07
open Gojq Gojq.VM

/-! ### 1. the invariant -/

/-- In every state reachable from `execute` by `Next` calls during which the guard held, the
    strengthened fork/stack invariant holds: `EnvInv` (Props/C07.lean), every pending fork pushed by
    an `opforklabel` points at its label's slot, and if the OLDEST pending fork was pushed by an
    `opforklabel` then the label's block is still intact (no push since has written at or below it,
    no limit saved or current lies below it) and links to a block beneath.  Arbitrary code, oracles. -/
theorem reachable_invariant2 (P : Params) (fuel : Nat) (input : V) (vars : List V) (n : Nat)
    (hg : historyGuard P fuel n (initSt input vars) = true) :
    EnvInv2 P (after P fuel n (initSt input vars)).env :=
  after_inv2 P fuel n _ (initSt_inv2 P input vars) hg

/-- Backtracking into an `opforklabel` through its own fork never panics, in ANY code and without any
    guard: the fork saved the slot of the label, so the pop at the head of the backtrack branch finds
    it.  (Every fork pop produces a state with `TopOK` at `opiter` / `opforklabel`.) -/
theorem fork_pop_is_backtrack_state (P : Params) (l : L) (s : St) (hE : EnvInv2 P s.env) (l' : L) (s' : St)
    (h : unwind P l s = .cont l' s') :
    BacktrackState P l' s'.env ∧ ∃ ins, P.code[l'.pc.toNat]? = some ins ∧ forkLike ins = true :=
  unwind_backtrackState P l s hE l' s' h

/-! ### 2. the first turn after an error -/

/-- (b) One call.  From a state satisfying the invariants, if `Next` returns an error and the guard held
    during the call, then: the invariants hold again, no fork is left, and the FIRST turn of the
    following `Next` call — the re-entry of the instruction at the saved pc with `backtrack = true`
    and no error — is not a panic, WHATEVER opcode is at the saved pc, under any later context and
    native answers:
      * past the end: nothing is re-entered;
      * every opcode that can break the loop other than `opiter` / `opforklabel`: it does not look
        at the state;
      * `opforklabel`: its pop finds the value that was beneath the label (the guard);
      * `opiter`: its pop finds `emptyIter{}` (pushed before `opiter` raised its own error) or the
        iteration state saved by its fork — a non-empty rest or a Go iterator, never an empty rest
        (`xs[0]` would panic) — and `opiter` makes no failing access on these (no guard needed). -/
theorem after_error_re_entry_total_call (P : Params) (fuel : Nat) (s : St) (hinv : EnvInv2 P s.env)
    (hit : BottomIterOK P s.env) (hg : nextGuard P fuel s = true) (e : Err) (s' : St)
    (h : next P fuel s = (.error e, s')) :
    EnvInv2 P s'.env ∧ BottomIterOK P s'.env ∧ s'.env.forks = [] ∧ s'.env.backtrack = true ∧ 0 ≤ s'.env.pc ∧
    ∀ (Q : Params), Q.code = P.code → ∀ site st, step Q (entry Q s') s' ≠ .fin (.panic site) st := by
  have hl := loop_inv2 P fuel (entry P s) s hinv (entry_linv P s) (entry_linv2 P s) hg
  have hli := loop_iterinv P fuel (entry P s) s hinv.1 hit (entry_linv P s) (entry_linv3 P s)
  have hbt : s'.env.backtrack = true := by
    have := loop_backtrack P fuel (entry P s) s
    unfold next at h; rw [h] at this; exact this
  unfold next at h
  rw [h] at hl hli
  obtain ⟨hE, hR⟩ := hl
  obtain ⟨⟨hpc, hRR⟩, hforks, hlab⟩ := hR e rfl
  refine ⟨hE, hli.1, hforks, hbt, hpc, fun Q hcode => ?_⟩
  have hentry : (entry Q s').pc = s'.env.pc ∧ (entry Q s').backtrack = true ∧ (entry Q s').err = none :=
    ⟨rfl, hbt, rfl⟩
  cases hc : P.code[s'.env.pc.toNat]? with
  | none =>
    intro site st hst
    have hge : ¬ ((entry Q s').pc < (Q.code.size : Int)) := by
      rw [hentry.1, hcode]
      intro hlt
      have : s'.env.pc.toNat < P.code.size := (Int.toNat_lt hpc).mpr hlt
      simp [this] at hc
    unfold step at hst
    simp only [hge, if_false] at hst
    exact unwind_no_panic Q _ _ site st hst
  | some ins =>
    obtain ⟨hb, hi⟩ := hRR ins hc
    have hlt : s'.env.pc < (Q.code.size : Int) := by
      rw [hcode]
      exact (Int.toNat_lt hpc).mp (Array.getElem?_eq_some_iff.mp hc).1
    have hgetD : Q.code.getD (entry Q s').pc.toNat .bad = ins := by
      rw [hentry.1, hcode]; simp [Array.getD, (Array.getElem?_eq_some_iff.mp hc).1, (Array.getElem?_eq_some_iff.mp hc).2]
    have ofexec : (∃ r e', exec ins (Q.ext s'.polls) (entry Q s') s'.env = .ok r e') →
        ∀ site st, step Q (entry Q s') s' ≠ .fin (.panic site) st := by
      intro hex site st
      apply step_no_panic_of_exec Q (entry Q s') s' (by rw [hentry.1]; exact hpc) (by rw [hentry.1]; exact hlt)
      rw [hgetD]; exact hex
    cases ins with
    | iter =>
      intro site st
      apply step_no_panic_of_exec' Q (entry Q s') s' (by rw [hentry.1]; exact hpc) (by rw [hentry.1]; exact hlt)
      rw [hgetD]
      exact iter_reentry_total (Q.ext s'.polls) (entry Q s') s'.env hE.1.1 hentry.2.2 (hli.2 e rfl hc)
    | forklabel a b =>
      obtain ⟨e1, h1, _⟩ := forklabel_reentry (a := a) (b := b) (Q.ext s'.polls) (entry Q s') s'.env hentry.2.1 hentry.2.2
        (hlab ⟨a, b, hc⟩)
      exact ofexec ⟨_, _, h1⟩
    | _ =>
      apply ofexec
      obtain ⟨ctl, l', hex⟩ := breaker_reentry _ hb (by intro h; cases h) (by intro a b h; cases h)
        (Q.ext s'.polls) (entry Q s') s'.env hentry.2.1 hentry.2.2
      exact ⟨_, _, hex⟩

/-- (b) For runs.  In every state reachable from `execute` by `n` calls of `Next`, if the next call
    returns an error — and the guard held at every turn so far — the first turn of the call after it
    is not a panic, for EVERY opcode at the saved pc.  This completes
    `after_error_advancable_partial`: no clause is left open, neither for `opforklabel` nor for what
    `opiter` does after its pop. -/
theorem after_error_re_entry_total (P : Params) (fuel : Nat) (input : V) (vars : List V) (n : Nat)
    (hg : historyGuard P fuel (n + 1) (initSt input vars) = true) (e : Err) (s' : St)
    (h : next P fuel (after P fuel n (initSt input vars)) = (.error e, s')) :
    ∀ (Q : Params), Q.code = P.code → ∀ site st, step Q (entry Q s') s' ≠ .fin (.panic site) st := by
  obtain ⟨hg1, hg2⟩ := historyGuard_succ P fuel n _ hg
  have hE := after_inv2 P fuel n _ (initSt_inv2 P input vars) hg1
  have hI := after_iterinv P fuel n _ (initSt_inv P input vars) (initSt_iterinv P input vars)
  exact (after_error_re_entry_total_call P fuel _ hE hI hg2 e s' h).2.2.2.2.2

/-- The part that needs no guard at all: the invariant about `opiter`'s forks holds in every reachable
    state, for arbitrary code and oracles. -/
theorem reachable_iter_invariant (P : Params) (fuel : Nat) (input : V) (vars : List V) (n : Nat) :
    BottomIterOK P (after P fuel n (initSt input vars)).env :=
  after_iterinv P fuel n _ (initSt_inv P input vars) (initSt_iterinv P input vars)

/-- Code without `opforklabel` needs no guard: the guard holds at every turn of every run. -/
theorem labelFree_guard (P : Params) (hfree : labelFree P.code = true) (fuel n : Nat) (s : St) :
    historyGuard P fuel n s = true := by
  apply historyGuard_of_reach
  intro l s' _
  have : isLabelPc P.code l.pc = false := by
    unfold isLabelPc
    cases hc : P.code[l.pc.toNat]? with
    | none => simp
    | some i =>
      have hmem : i ∈ P.code := Array.mem_of_getElem? hc
      have := Array.all_eq_true'.mp hfree i hmem
      simp only [Bool.not_eq_true'] at this
      simp [this]
  simp [labelGuard, this]

/-- … so for such code (b) holds outright, for arbitrary bytecode, inputs and oracles. -/
theorem after_error_re_entry_total_labelFree (P : Params) (hfree : labelFree P.code = true) (fuel : Nat)
    (input : V) (vars : List V) (n : Nat) (e : Err) (s' : St)
    (h : next P fuel (after P fuel n (initSt input vars)) = (.error e, s')) :
    ∀ (Q : Params), Q.code = P.code → ∀ site st, step Q (entry Q s') s' ≠ .fin (.panic site) st :=
  after_error_re_entry_total P fuel input vars n (labelFree_guard P hfree fuel _ _) e s' h

/-- The static scan can be run on the dumped instruction list: `labelFreeView` on `c.map view` is
    `labelFree c`. -/
theorem labelFree_on_dump (c : Array Instr) : labelFreeView (c.map OptVM.view) = labelFree c := by
  unfold labelFreeView labelFree
  rw [Array.all_map]
  congr 1
  funext i
  cases i <;> rfl

/-- The bridge to a static discharge of the guard.  If `labelGuard` holds at every turn of the run —
    the first turn of each call and every turn that follows a turn (`ReachTurn`) — then
    `historyGuard` holds for any number of calls.  A soundness theorem of a bytecode checker that
    bounds the data-stack height from below at `opforklabel`, or shows a fork pending there
    (`SafeVM.step1`, clause `1 ≤ a.h ∨ a.pend`), is an invariant of these turns that implies the
    guard. -/
theorem guard_from_turn_invariant (P : Params) (fuel : Nat) (s0 : St)
    (hall : ∀ l s, ReachTurn P fuel s0 l s → labelGuard P.code l s.env = true) (n : Nat) :
    historyGuard P fuel n s0 = true :=
  historyGuard_of_reach P fuel s0 hall n

/-! ### 3. the state after an error is a backtracking state -/

/-- (c) The state in which the call after an error starts — locals `entry`, environment as saved — is
    a backtracking state: the invariant holds, `backtrack = true`, the pc is past the end or at an
    opcode that can break the loop, and `opiter` / `opforklabel` find a value to pop; exactly what
    `fork_pop_is_backtrack_state` says of the state after ANY fork pop of ordinary execution.  In
    addition no error is pending and no fork is left. -/
theorem after_error_state_is_backtrack_state (P : Params) (fuel : Nat) (s : St) (hinv : EnvInv2 P s.env)
    (hg : nextGuard P fuel s = true) (e : Err) (s' : St) (h : next P fuel s = (.error e, s'))
    (Q : Params) (hcode : Q.code = P.code) :
    BacktrackState Q (entry Q s') s'.env ∧ (entry Q s').err = none ∧ s'.env.forks = [] := by
  have hl := loop_inv2 P fuel (entry P s) s hinv (entry_linv P s) (entry_linv2 P s) hg
  have hbt : s'.env.backtrack = true := by
    have := loop_backtrack P fuel (entry P s) s
    unfold next at h; rw [h] at this; exact this
  unfold next at h
  rw [h] at hl
  exact ⟨reentry_backtrackState P Q hcode s' hl.1 (hl.2 e rfl) hbt, rfl, (hl.2 e rfl).2.1⟩

/-- (c), sharper: when the error was PROPAGATED to the turn that returned it (that turn was entered
    with the error, in backtrack mode, at the pc of the fork just popped), the next call resumes
    that very turn with the error cleared: its locals are those of that turn with `err := nil` (and
    the call registers reset), and — unless the instruction is `opforklabel`, which has popped its
    label — its environment is exactly the one the popped fork restored.  This is the state
    ordinary backtracking (`empty` instead of the error) would have re-entered the fork in. -/
theorem after_error_resumes_backtracking (P : Params) (fuel : Nat) (s : St) (hinv : EnvInv P s.env)
    (e : Err) (s' : St) (h : next P fuel s = (.error e, s'))
    (hprop : (lastTurn P fuel (entry P s) s).1.err.isSome = true) :
    let l0 := (lastTurn P fuel (entry P s) s).1
    let s0 := (lastTurn P fuel (entry P s) s).2
    step P l0 s0 = .fin (.error e) s' ∧ l0.backtrack = true ∧
    (∃ ins, P.code[l0.pc.toNat]? = some ins ∧ forkLike ins = true) ∧
    (∀ Q : Params, Q.code = P.code →
      entry Q s' = { l0 with err := none, callpc := (Q.code.size : Int) - 1, index := -1 }) ∧
    (¬ LabelAt P l0.pc → s' = (({ env := s0.env, polls := s0.polls + 1 } : St).save l0.pc)) := by
  intro l0 s0
  obtain ⟨hE0, hL0, hst⟩ := loop_last_turn P fuel (entry P s) s e s' hinv (entry_linv P s) h
  obtain ⟨hbt, ins, i0, i1, i2, _⟩ := hL0 hprop
  obtain ⟨h0, h1, _, l', e', hex, hf, herr, hs'⟩ := step_fin_error P l0 s0 e s' hst hL0
  have hins := getD_some P.code l0.pc h0 h1
  have hI : P.code.getD l0.pc.toNat .bad = ins := by rw [i1] at hins; simpa using hins.symm
  rw [hI] at hex
  have hpost := (exec_ok ins _ l0 s0.env .brk l' e' hE0.1 (fun _ => ⟨hbt, i2⟩) hex).2
  simp only [Post] at hpost
  refine ⟨hst, hbt, ⟨ins, i1, i2⟩, fun Q hcode => ?_, fun hnl => ?_⟩
  · rw [hs']
    simp only [entry, St.save]
    rw [hpost.1, hbt]
  · have hlab : isLabel ins = false := by
      cases hl : isLabel ins with
      | false => rfl
      | true => exact absurd ((labelAt_ins i1).mpr hl) hnl
    obtain ⟨he', hpc'⟩ := propagated_untouched ins _ l0 s0.env l' e' i2 hlab hbt hprop hex
    rw [hs', he', hpc']

/-- (c), the reduction.  Suppose ordinary execution is panic-free from backtracking states without a
    pending error (`hsafe`: what C08's `vm_total_wf` is to provide for compiled code; for arbitrary
    code it is false, e.g. `oppop` on an empty stack).  Then the full statement of C07 holds for
    every run during which the guard held: after an error no later `Next` call panics. -/
theorem after_error_advancable_of_backtrack_safe (P : Params) (fuel : Nat) (input : V) (vars : List V)
    (n : Nat) (hg : historyGuard P fuel (n + 1) (initSt input vars) = true) (e : Err) (s' : St)
    (h : next P fuel (after P fuel n (initSt input vars)) = (.error e, s'))
    (Q : Params) (hcode : Q.code = P.code)
    (hsafe : ∀ (l : L) (s : St), BacktrackState Q l s.env → l.err = none →
      ∀ fuel' site, (loop Q fuel' l s).1 ≠ .panic site) :
    ∀ fuel' site, (next Q fuel' s').1 ≠ .panic site := by
  obtain ⟨hg1, hg2⟩ := historyGuard_succ P fuel n _ hg
  obtain ⟨hB, herr, _⟩ := after_error_state_is_backtrack_state P fuel _
    (after_inv2 P fuel n _ (initSt_inv2 P input vars) hg1) hg2 e s' h Q hcode
  intro fuel' site
  exact hsafe (entry Q s') s' hB herr fuel' site

/-! ### 4. when the next call ends at once -/

/-- (d), by the saved pc.  After an error return, the next call returns `(nil, false)` at its first
    turn — or the context error if that turn's poll finds the context cancelled — at every fuel,
    and the iterator is terminal from then on, UNLESS the saved pc is at an `opfork` (the next call
    runs its alternative) or at an `opiter` holding a restored iteration state (the next call
    continues the iteration).  In particular an error that reached an `opforklabel`, a `try` that
    does not catch it (`opforktrybegin` on a `break`/`halt`, `opforktryend`), or that was raised by
    a native, `opindex`, `opobject`, `oppathend` with no fork pending, ends the iterator. -/
theorem error_then_done_at (P : Params) (fuel : Nat) (s : St) (hinv : EnvInv2 P s.env)
    (hg : nextGuard P fuel s = true) (e : Err) (s' : St) (h : next P fuel s = (.error e, s'))
    (hsaved : SavedEnds P.code s'.env) (Q : Params) (hcode : Q.code = P.code) (fuel' : Nat) :
    ∃ st, Terminal Q st ∧
      (next Q fuel' s' = (.done, st) ∨ (Q.cancelled s'.polls = true ∧ next Q fuel' s' = (.ctxErr, st))) := by
  have hl := loop_inv2 P fuel (entry P s) s hinv (entry_linv P s) (entry_linv2 P s) hg
  have hbt : s'.env.backtrack = true := by
    have := loop_backtrack P fuel (entry P s) s
    unfold next at h; rw [h] at this; exact this
  unfold next at h
  rw [h] at hl
  exact endsNow_of_saved P Q hcode s' (hl.2 e rfl) hbt hsaved fuel'

/-- (d) When the error was RAISED by the turn that returned it (that turn was entered without an
    error: no fork was popped for this error, and none was pending when it was raised), the next call
    returns `(nil, false)` — not the error again, not a value, not a panic — and every later call
    as well (`exhausted_terminal`).  Needs no guard: an `opforklabel` never raises. -/
theorem error_then_done (P : Params) (fuel : Nat) (s : St) (hinv : EnvInv P s.env)
    (e : Err) (s' : St) (h : next P fuel s = (.error e, s'))
    (hraised : (lastTurn P fuel (entry P s) s).1.err = none)
    (Q : Params) (hcode : Q.code = P.code) (fuel' : Nat) :
    ∃ st, Terminal Q st ∧
      (next Q fuel' s' = (.done, st) ∨ (Q.cancelled s'.polls = true ∧ next Q fuel' s' = (.ctxErr, st))) := by
  obtain ⟨hE0, hL0, hst⟩ := loop_last_turn P fuel (entry P s) s e s' hinv (entry_linv P s) h
  have hsaved := savedEnds_of_raised P _ _ e s' hE0.1 hL0 hst hraised
  have hbt : s'.env.backtrack = true := step_fin_backtrack P _ _ _ s' hst
  -- `ReentryOK2` without the guard: its `opforklabel` clause is not needed, the saved pc is not one
  have hR : ReentryOK P s'.env := by
    have := (loop_inv P fuel (entry P s) s hinv (entry_linv P s)).2 e (by unfold next at h; rw [h])
    unfold next at h; rw [h] at this; exact this
  obtain ⟨h0, h1, _, l', e', hex, hf, herr, hs'⟩ := step_fin_error P _ _ e s' hst hL0
  have hforks : s'.env.forks = [] := by rw [hs']; exact hf
  have hnolabel : LabelAt P s'.env.pc → TopOK s'.env.stack := by
    intro hla
    exfalso
    -- the raising instruction is at the saved pc and is an `opforklabel`: it cannot raise
    have hins := getD_some P.code _ h0 h1
    generalize hI : P.code.getD (lastTurn P fuel (entry P s) s).1.pc.toNat .bad = ins at hins hex
    have hpost := (exec_ok ins _ _ _ .brk l' e' hE0.1 (by intro he; simp [hraised] at he) hex).2
    simp only [Post] at hpost
    have hpc : s'.env.pc = (lastTurn P fuel (entry P s) s).1.pc := by rw [hs']; exact hpost.1
    rw [hpc, labelAt_ins hins, isLabel_iff] at hla
    obtain ⟨a, b, rfl⟩ := hla
    cases hbt0 : (lastTurn P fuel (entry P s) s).1.backtrack with
    | true =>
      have := (forklabel_bt hbt0 hex).2.2 (by simp [herr])
      simp [hraised] at this
    | false =>
      obtain ⟨f, hf1, _⟩ := forklabel_fw hbt0 hE0.1 hex
      rw [hf] at hf1; simp at hf1
  exact endsNow_of_saved P Q hcode s' ⟨hR, hforks, hnolabel⟩ hbt hsaved fuel'

/-- (d), as a history: under the hypotheses of `error_then_done_at`, if the context is not cancelled
    at the poll of the re-entry, every later call returns `(nil, false)` — the iterator is terminal
    after an error that ends the run, exactly as after exhaustion. -/
theorem error_then_done_history (P : Params) (fuel : Nat) (s : St) (hinv : EnvInv2 P s.env)
    (hg : nextGuard P fuel s = true) (e : Err) (s' : St) (h : next P fuel s = (.error e, s'))
    (hsaved : SavedEnds P.code s'.env) (Q : Params) (hcode : Q.code = P.code)
    (hnc : Q.cancelled s'.polls = false) (fuel' m : Nat) :
    history Q fuel' m s' = List.replicate m Outcome.done := by
  cases m with
  | zero => rfl
  | succ m =>
    obtain ⟨st, hterm, hnext⟩ := error_then_done_at P fuel s hinv hg e s' h hsaved Q hcode fuel'
    rcases hnext with hd | ⟨hc, _⟩
    · simp only [history, hd, List.replicate_succ]
      rw [terminal_history Q st hterm fuel' m]
    · rw [hnc] at hc; simp at hc

/-! ### 5. the guard is needed, and it is not a local property of the code -/

def noCancel : Nat → Bool := fun _ => false
/-- hand-written: the input is stored away BEFORE the label, so `opforklabel` runs on an empty stack
    with no fork pending: `scope; store; forklabel; push "x"; call error/0; ret` -/
def labelTail : Array Instr :=
  #[.store 1 0, .forklabel 1 1, .push (.str [120]), .callNative .other 0, .ret]
def codeLabelBare : Array Instr := #[.scope 1 2 0] ++ labelTail
/-- the same with a `dup` in front: the label has the input beneath -/
def codeLabelOver : Array Instr := #[.scope 1 2 0, .dup] ++ labelTail
def extErrAt (k : Nat) : Nat → ExtRec := fun j =>
  if j = k then { call := some (.err (.value (.jv (.str [120])))) } else {}

/-- The guard cannot be dropped: on `codeLabelBare` the guard fails, the first call returns the
    error raised inside the label, and the SECOND call panics in the re-entered `opforklabel`
    (`env.pop()` on an empty stack) — the very failure the real `label $l | …` avoids by always
    having the input of the label expression beneath the label. -/
theorem label_guard_is_needed :
    historyGuard ⟨codeLabelBare, noCancel, extErrAt 4⟩ 50 1 (initSt (.jv .null) []) = false ∧
    tags (history ⟨codeLabelBare, noCancel, extErrAt 4⟩ 50 2 (initSt (.jv .null) [])) = [1, 4] ∧
    (next ⟨codeLabelBare, noCancel, extErrAt 4⟩ 50 (initSt (.jv .null) [])).2.env.pc = 2 := by
  decide +kernel

/-- … and it is not a property of the instructions around the `opforklabel`: `codeLabelOver` has the
    SAME instructions from one before the `opforklabel` to the end (`labelTail`: `store; forklabel;
    push; call; ret`), satisfies the guard, and ends properly (error, then `(nil, false)` for ever).  What
    differs is the height of the data stack when the label is reached — a fact of the whole
    execution up to that point (in compiled code: of the compiler's stack discipline across calls),
    which is why the hypothesis is the run-time guard and its static discharge is a height
    analysis of the whole code (C08's `safeCheck`), not a shape check around the instruction. -/
theorem label_value_beneath_is_not_local :
    codeLabelBare = #[.scope 1 2 0] ++ labelTail ∧ codeLabelOver = #[.scope 1 2 0, .dup] ++ labelTail ∧
    historyGuard ⟨codeLabelOver, noCancel, extErrAt 5⟩ 50 3 (initSt (.jv .null) []) = true ∧
    tags (history ⟨codeLabelOver, noCancel, extErrAt 5⟩ 50 3 (initSt (.jv .null) [])) = [1, 2, 2] :=
  ⟨rfl, rfl, by decide +kernel⟩

/-! ### non-vacuity: real bytecode (as dumped by `VerifCodes`, compiled without variables) -/

/-- `label $l | error("x")` -/
def codeLabelError : Array Instr :=
  #[.scope 1 2 0, .forklabel 1 0, .store 1 1, .push (.str [120]), .load 1 1, .callNative .other 1, .ret]
/-- `first(error("x"), 1)` (the builtin `def first(f): label $out | (f | ., break $out)`) -/
def codeFirstError : Array Instr :=
  #[.scope 1 1 0, .jump 15,
    .scope 2 3 1, .store 2 0, .store 2 1, .load 2 0, .forklabel 2 2, .load 2 1, .callpc, .fork 11, .jump 14,
    .pop, .load 2 2, .callNative .other 0, .ret,
    .store 1 0, .jump 26,
    .scope 3 1 0, .fork 24, .store 3 0, .push (.str [120]), .load 3 0, .callNative .other 1, .jump 25,
    .const (.num (.int 1)), .ret,
    .pushpc 17, .load 1 0, .call 2, .ret]
/-- `try error("x") catch .` -/
def codeTryCatch : Array Instr :=
  #[.scope 1 1 0, .forktrybegin 8, .store 1 0, .push (.str [120]), .load 1 0, .callNative .other 1,
    .forktryend, .nop, .ret]
/-- `.[] | error` -/
def codeIterError : Array Instr := #[.scope 1 0 0, .iter, .callNative .other 0, .ret]
def extErrAt2 (a b : Nat) : Nat → ExtRec := fun j =>
  if j = a ∨ j = b then { call := some (.err (.value (.jv (.str [120])))) } else {}
def sOneTwo : St := initSt (.jv (.arr [.num (.int 1), .num (.int 2)])) []

-- `label $l | error("x")`: the guard holds; error, then `(nil, false)` for ever; the saved pc after
-- the error is the `opforklabel` (pc 1) and no fork is left (after_error_re_entry_total, error_then_done_at)
example : historyGuard ⟨codeLabelError, noCancel, extErrAt 5⟩ 50 3 sNull = true := by decide +kernel
example : tags (history ⟨codeLabelError, noCancel, extErrAt 5⟩ 50 3 sNull) = [1, 2, 2] := by decide +kernel
example : (next ⟨codeLabelError, noCancel, extErrAt 5⟩ 50 sNull).2.env.pc = 1 ∧
    (next ⟨codeLabelError, noCancel, extErrAt 5⟩ 50 sNull).2.env.forks.length = 0 ∧
    (next ⟨codeLabelError, noCancel, extErrAt 5⟩ 50 sNull).2.env.stack.index = 0 := by decide +kernel
-- the error of that run was PROPAGATED to the turn that returned it (through the label's fork) …
example : (lastTurn ⟨codeLabelError, noCancel, extErrAt 5⟩ 50 (entry ⟨codeLabelError, noCancel, extErrAt 5⟩ sNull) sNull).1.err.isSome = true := by
  decide +kernel
-- `first(error("x"), 1)`: the error unwinds through the `opfork` of the comma and the `opforklabel` of
-- `first`; guard holds (the input of `first` is beneath the label); error, then `(nil, false)`
example : historyGuard ⟨codeFirstError, noCancel, extErrAt 19⟩ 100 3 sNull = true := by decide +kernel
example : tags (history ⟨codeFirstError, noCancel, extErrAt 19⟩ 100 3 sNull) = [1, 2, 2] := by decide +kernel
example : (next ⟨codeFirstError, noCancel, extErrAt 19⟩ 100 sNull).2.env.pc = 6 := by decide +kernel
-- `try error("x") catch .`: the caught value, then `(nil, false)`
example : tags (history ⟨codeTryCatch, noCancel, extErrAt 5⟩ 50 3 sNull) = [0, 2, 2] := by decide +kernel
-- `.[] | error` on `[1, 2]`: the first error is propagated to the `opiter` (saved pc 1, a restored
-- iteration state on top: the next call CONTINUES — `SavedEnds` is false there); the second error is
-- RAISED with no fork pending (saved pc 2, the native call): `(nil, false)` follows (error_then_done)
example : tags (history ⟨codeIterError, noCancel, extErrAt2 2 5⟩ 50 4 sOneTwo) = [1, 1, 2, 2] := by decide +kernel
example : (next ⟨codeIterError, noCancel, extErrAt2 2 5⟩ 50 sOneTwo).2.env.pc = 1 := by decide +kernel
example : (after ⟨codeIterError, noCancel, extErrAt2 2 5⟩ 50 2 sOneTwo).env.pc = 2 := by decide +kernel
example : (lastTurn ⟨codeIterError, noCancel, extErrAt2 2 5⟩ 50
    (entry ⟨codeIterError, noCancel, extErrAt2 2 5⟩ (after ⟨codeIterError, noCancel, extErrAt2 2 5⟩ 50 1 sOneTwo))
    (after ⟨codeIterError, noCancel, extErrAt2 2 5⟩ 50 1 sOneTwo)).1.err.isNone = true := by decide +kernel
-- `error("x"), 1` (Props/C07.lean): saved pc at the `opfork`: the next call yields 1 (not covered by error_then_done_at)
example : tags (history ⟨codeErrorThenOne, never, extErrorThenOne⟩ 50 3 sNull) = [1, 0, 2] := by decide +kernel
/-- `.a |= error("x")` compiled with the variable `$ARGS` (as the command does): the hand-written
    `_modify` (compileModify) at pcs 3–50, its `opforklabel` at pc 20 -/
def codeModifyError : Array Instr :=
  #[.scope 1 2 0, .store 1 0, .jump 51,
    .scope 2 6 2, .store 2 0, .store 2 1, .store 2 2, .push (.arr []), .store 2 3, .push .null,
    .callNative .other 0, .store 2 4, .load 2 0, .fork 45, .pathbegin, .load 2 1, .callpc, .load 2 0,
    .pathend, .store 2 1, .forklabel 2 5, .load 2 0, .fork 42, .pop, .expbegin, .load 2 4, .load 2 0,
    .load 2 1, .load 2 4, .load 2 1, .load 2 0, .callNative .getpath 2, .load 2 2, .callpc, .expend,
    .callNative .other 3, .store 2 0, .load 2 0, .fork 40, .jump 44, .load 2 5, .callNative .other 0,
    .load 2 1, .append 2 3, .backtrack, .pop, .load 2 4, .load 2 3, .load 2 0, .callNative .other 2, .ret,
    .store 1 1, .jump 59,
    .scope 3 1 0, .store 3 0, .push (.str [120]), .load 3 0, .callNative .other 1, .ret,
    .pushpc 53, .jump 64,
    .scope 5 0 0, .index (.str [97]), .ret,
    .pushpc 61, .load 1 1, .call 3, .ret]
/-- every native answers `{}` and every path is intact, except the call of `error` (poll 48) -/
def extModify : Nat → ExtRec := fun j =>
  if j = 48 then { call := some (.err (.value (.jv (.str [120])))) }
  else { call := some (.val (.jv (.obj []))), intact := some true }
def sModify : St := initSt (.jv (.obj [])) [.jv .null]

-- `.a |= error("x")` at top level: `_modify`'s `opforklabel` IS executed on an EMPTY data stack (everything
-- was stored into variables) — and the guard holds all the same, because the `opfork` of `_modify`'s
-- `reduce` is pending (the second disjunct of the guard; the `pend` of `SafeVM.step1`).  The error
-- unwinds through the label to that `opfork` (saved pc 13); the next call runs its alternative.
example : loopAny ⟨codeModifyError, noCancel, extModify⟩ (labelOnEmpty codeModifyError) 200
    (entry ⟨codeModifyError, noCancel, extModify⟩ sModify) sModify = true := by decide +kernel
example : historyGuard ⟨codeModifyError, noCancel, extModify⟩ 200 4 sModify = true := by decide +kernel
example : tags (history ⟨codeModifyError, noCancel, extModify⟩ 200 4 sModify) = [1, 0, 2, 2] := by decide +kernel
example : (next ⟨codeModifyError, noCancel, extModify⟩ 200 sModify).2.env.pc = 13 := by decide +kernel
-- label-free code: `1 | .[]`, `error("x"), 1`
example : labelFree codeIterOnOne = true ∧ labelFree codeErrorThenOne = true ∧ labelFree codeLabelError = false := by
  decide +kernel

end Gojq.C07

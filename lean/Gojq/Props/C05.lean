/-
  C05 — runs are isolated: inputs, variable values, code constants and emitted values are never
  modified.

  Model: Gojq/Model/Heap.lean.  Cells are labels; the cells of everything that exists when a reduction
  (`_assign`, `_modify`, `delpaths`) starts — input, variables, constants, values already emitted — carry
  labels below the counter `f` the reduction starts with ("Shared"); the reduction's allocator starts
  empty (`funcAllocator` / `allocator{}`), so "owned" means "allocated by this reduction".
  The theorems say: every in-place write goes to an owned cell (C05.1 `write_confined`), hence no write
  ever reaches a Shared cell, hence every Shared value — seen through every reference — is unchanged
  (`shared_unchanged`, `emitted_stable`).
  Not proved here (covered by the model-free oracle of harness/c05oracle only): the write sites outside
  the update natives (`add`, `opappend`, sort helpers, `flatten`, `transpose`, `reverse`, `group_by`),
  and independence of Go map iteration order (C05.3), see checks.d/C05.json `partial`.
-/
import Gojq.Proofs.HeapChain
namespace Gojq.C05
open Gojq Gojq.Heap

/-- **`update` writes only owned cells** (C05.1 for setpath/`_setpath`): with labels in use below the
    counter, every cell written in place was registered in the allocator BEFORE the call and lies on
    the path; every other container of the result is freshly allocated. -/
theorem write_confined (p : Path) (v n : T) (A : List Nat) (f : Nat) (v' : T) (A' : List Nat) (f' : Nat) (log : Log)
    (h : upd A f p v n = some (v', A', f', log))
    (hv : ∀ j ∈ v.ids, j < f) (hn : ∀ j ∈ n.ids, j < f) (hA : ∀ a ∈ A, a < f) :
    (∀ e ∈ log, e.1 ∈ A ∧ e.1 ∈ v.ids) ∧ (∀ a ∈ A', a ∈ A ∨ (f ≤ a ∧ a < f')) :=
  have hb := upd_book p v n A f v' A' f' log h hv hn hA
  ⟨hb.2.2.2.2.2.2, hb.2.1⟩

/-- the same without any assumption on labels: a written cell was registered before the call or was
    allocated by the call itself, and so is every cell registered afterwards -/
theorem write_confined_any (p : Path) (v n : T) (A : List Nat) (f : Nat) (v' : T) (A' : List Nat) (f' : Nat) (log : Log)
    (h : upd A f p v n = some (v', A', f', log)) :
    (∀ e ∈ log, e.1 ∈ A ∨ (f ≤ e.1 ∧ e.1 < f')) ∧ (∀ a ∈ A', a ∈ A ∨ (f ≤ a ∧ a < f')) :=
  have hb := upd_confined p v n A f v' A' f' log h
  ⟨hb.2.2, hb.2.1⟩

/-- **`delpaths` writes only owned cells** (C05.1 for delpaths/`_delpaths`, after 97b79ee): both the
    marking pass and `deleteEmpty` store only into cells registered in the allocator, which consists of
    the allocator passed in and cells allocated by the call. -/
theorem delpaths_write_confined (A : List Nat) (f : Nat) (ps : List Path) (v : T)
    (v' : T) (A' : List Nat) (f' : Nat) (log : Log) (sw : List Nat)
    (h : delpathsT A f ps v = some (v', A', f', log, sw)) :
    (∀ e ∈ log, e.1 ∈ A') ∧ (∀ a ∈ sw, a ∈ A') ∧ (∀ a ∈ A', a ∈ A ∨ (f ≤ a ∧ a < f')) := by
  simp only [delpathsT] at h
  split at h
  · simp only [Option.some.injEq, Prod.mk.injEq] at h
    obtain ⟨rfl, rfl, rfl, rfl, rfl⟩ := h
    exact ⟨by simp, by simp, fun a ha => Or.inl ha⟩
  · split at h
    · cases h
    · rename_i u A1 f1 log1 hm
      simp only [Option.some.injEq, Prod.mk.injEq] at h
      obtain ⟨rfl, rfl, rfl, rfl, rfl⟩ := h
      obtain ⟨_, _, h2, h3⟩ := markAll_confined ps v A f [] u A1 f1 log1 hm (by simp)
      exact ⟨h3, sweepWrites_sub A1 u, h2⟩

/-- `deleteEmpty` does not touch a container the allocator does not own (the repair of D6): nothing is
    stored, the value is returned as it is -/
theorem deleteEmpty_leaves_unowned (A : List Nat) (id : Nat) (o : Bool) (c : Nat) (ks : Kids) (h : id ∉ A) :
    sweep A (.node id o c ks) = .node id o c ks ∧ sweepWrites A (.node id o c ks) = [] := by
  simp [sweep, sweepWrites, h]

/-- **Shared values are unchanged**: a value all of whose cells existed before the call (labels below
    `f`) is not affected by a sequence of in-place writes to cells with labels `≥ f` — neither under the
    plain replay nor under the exact last-write-wins replay, through whatever references it is seen. -/
theorem shared_unchanged (t : T) (f : Nat) (log : Log) (ht : ∀ j ∈ t.ids, j < f) (hl : ∀ e ∈ log, f ≤ e.1) :
    applyLog log t = t ∧ ∀ fuel, observe log fuel t = t := by
  have hc : ∀ e ∈ log, cons e.1 e.2 t := fun e he =>
    cons_of_not_mem _ _ t (fun hm => by have := ht _ hm; have := hl e he; omega)
  exact ⟨applyLog_id log t hc, fun fuel => observe_id log fuel t hc⟩

/-- a `setpath`/`delpaths` call with a fresh allocator (what the natives `setpath` and `delpaths` use,
    and what `_assign`/`_modify` start from) leaves every pre-existing value unchanged: input, variable
    values, code constants, emitted values -/
theorem setpath_isolated (p : Path) (v n t : T) (f : Nat) (v' : T) (A' : List Nat) (f' : Nat) (log : Log)
    (h : upd [] f p v n = some (v', A', f', log)) (ht : ∀ j ∈ t.ids, j < f) :
    applyLog log t = t ∧ ∀ fuel, observe log fuel t = t := by
  apply shared_unchanged t f log ht
  intro e he
  obtain ⟨h1, _⟩ := write_confined_any p v n [] f v' A' f' log h
  rcases h1 e he with h3 | h3
  · cases h3
  · exact h3.1

theorem delpaths_isolated (ps : List Path) (v t : T) (f : Nat) (v' : T) (A' : List Nat) (f' : Nat) (log : Log) (sw : List Nat)
    (h : delpathsT [] f ps v = some (v', A', f', log, sw)) (ht : ∀ j ∈ t.ids, j < f) :
    (applyLog log t = t ∧ ∀ fuel, observe log fuel t = t) ∧ ∀ a ∈ sw, a ∉ t.ids := by
  obtain ⟨h1, h2, h3⟩ := delpaths_write_confined [] f ps v v' A' f' log sw h
  have fresh : ∀ a ∈ A', f ≤ a := fun a ha => by
    rcases h3 a ha with h | h
    · cases h
    · exact h.1
  refine ⟨shared_unchanged t f log ht (fun e he => fresh _ (h1 e he)), ?_⟩
  intro a ha hm
  have := fresh a (h2 a ha)
  have := ht a hm
  omega

/-- **Emitted values are stable** (C05.2): a value `t` that exists when a `_modify` reduction starts
    (an earlier output, the input, a constant: labels below the starting counter `f`) is unchanged by
    every in-place write of every iteration of that reduction, for every list of key/index paths and
    every update query. -/
theorem emitted_stable (q : T → Nat → T × Nat) (hq : QOK q) (v t : T) (f : Nat)
    (hv : ∀ j ∈ v.ids, j < f) (ht : ∀ j ∈ t.ids, j < f) (p : Path) (ps : List Path)
    (r1 : T × List Nat × Nat) (h1 : modifyAll q ps (v, [], f) = some r1)
    (v' : T) (A' : List Nat) (f' : Nat) (log : Log)
    (h2 : modifyStep q r1 p = some (v', A', f', log)) :
    applyLog log t = t ∧ ∀ fuel, observe log fuel t = t := by
  obtain ⟨inv1, _, hrange⟩ := modifyAll_inv q hq ps v [] f r1 (inv_empty v f hv) h1
  obtain ⟨_, _, hlog, _⟩ := modifyStep_sound q hq r1.1 r1.2.1 r1.2.2 p v' A' f' log h2 inv1
  apply shared_unchanged t f log ht
  intro e he
  rcases hrange e.1 (hlog e he) with h | h
  · cases h
  · exact h.1

/-! ### non-vacuity -/

/-- `{"a":{"b":1},"c":{"d":2}} | del(.a.q)` (D6's witness) on the model: the constant's cells 0,1,2 are
    not written; the only stores go to the copy of the root made by the marking pass (cell 10). -/
example :
    (delpathsT [] 10 [[.key [97], .key [113]]]
      (.node 0 true 0 [([97], .node 1 true 0 [([98], .leaf (.num (.int 1)))]), ([99], .node 2 true 0 [([100], .leaf (.num (.int 2)))])])).map
      (fun r => (r.2.2.2.1.map (·.1), r.2.2.2.2)) = some ([], [10]) := by rfl

example : (upd [5] 10 [.idx 0] (.node 5 false 1 [([], T.null)]) (.leaf (.bool true))).map (fun r => r.2.2.2.map (·.1)) = some [5] := by rfl

end Gojq.C05

/-
  C17 — the report computed from a WINDOW of the input equals the report computed on the whole input.

  `jsonInputIter.Next` never hands the whole input to `jsonParseError.Error`: on a pipe it hands over
  the window `buf = inp[offset : offset+|buf|]` kept by `inputReader` plus the line counter `line`;
  on a file it re-reads a chunk `inp[pos : pos+16384]` (`getContents`). Props/C17.lean proves what
  `getLineByOffset` computes on a text (`lineinfo_*`), the window invariant, the re-read invariant and
  the LINE NUMBER of both reports. This file composes them: the whole report — line number, excerpt
  and caret column — is the one `getLineByOffset` computes on the WHOLE input (`wholeReport w inp e =
  jsonReport w inp 0 e`: `jsonParseError.Error` given the whole input, no skipped lines and the absolute offset).

  The one difference (precise form: `window_report_clipped`): excerpt and caret are computed from the
  offending byte's true line CLIPPED TO THE WINDOW `[offset, offset+|buf|)`. Clipping is invisible when
    Left:  the window starts at or before the line start, or ≥ 51 bytes (48 of context + 3 to reach a
           rune boundary) before the offending position within the line; and
    Right: the window reaches the end of the line (its terminator or the end of the input), or
           ≥ 64 bytes beyond the line start and ≥ 16 bytes beyond the offending byte (offending byte
           included: the excerpt is 64 bytes wide and starts ≤ 48 bytes before it).
  Otherwise the excerpt is really shorter: `window_left_cut_witness` (the window starts right after
  the previous value on the same line), `window_right_cut_witness` (the decoder has not read the rest
  of the line yet). For seekable input neither can happen (`seekable_report_eq_whole`).

  Vocabulary from Proofs/LineInfo.lean (`lineStart`, `trueLine`, `termsBefore`, `NoLoneCR`, `WinInv`,
  `traceOK`, `traceEnd`) and Proofs/WindowCompose.lean (`excerptO L o` = the second half of
  `getLineByOffset` for the line `L` and the clamped position `o`; `clipLine`, `clipPos`,
  `clippedReport`, `wholeReport`).
-/
import Gojq.Proofs.WindowComposeRunes
namespace Gojq.C17
open Gojq Gojq.Cli

/-! ## 1. The composition lemma -/

/-- **`getLineByOffset` on a window.** For every text, every window `inp[pos : pos+m]` inside it and
    every relative 1-based offset `q+1` inside the window (no hypothesis on the bytes): the line
    count is the number of terminators between `pos` and the offending byte `pos+q`; the excerpt and
    the caret's byte index are those of `getLineByOffset`'s second half (`excerptO`) run on the
    offending byte's true line clipped to the window, at the offending byte's position in it. -/
theorem window_compose (inp : Bytes) (pos m q : Nat) (hm : pos + m ≤ inp.length) (hq : q < m) :
    getLineByOffset' ((inp.drop pos).take m) ((q : Int) + 1) =
      ((excerptO (clipLine inp pos (pos + m) (pos + q)) (clipPos inp pos (pos + q) (pos + q))).1,
       1 + (termsBefore inp (pos + q) - termsBefore inp pos),
       (excerptO (clipLine inp pos (pos + m) (pos + q)) (clipPos inp pos (pos + q) (pos + q))).2) :=
  getLineByOffset'_window inp pos m q hm hq

/-- … and on the whole text it is `excerptO` run on the true line itself. -/
theorem whole_compose (inp : Bytes) (P : Nat) (hP : P < inp.length) :
    getLineByOffset' inp ((P : Int) + 1) =
      ((excerptO (trueLine inp P) (min (P - lineStart inp P) (trueLine inp P).length)).1,
       1 + termsBefore inp P,
       (excerptO (trueLine inp P) (min (P - lineStart inp P) (trueLine inp P).length)).2) :=
  getLineByOffset'_whole inp P hP

/-- **Clipping on the left is invisible with ≥ 51 bytes of context** (or none clipped), every byte
    string: `trimLastInvalidRune` looks at the last three bytes of `L[:o-48]` only. -/
theorem clip_left_invisible (L : Bytes) (d o : Nat) (ho : o ≤ L.length) (h : d = 0 ∨ d + 51 ≤ o) :
    excerptO (L.drop d) (o - d) = excerptO L o :=
  excerptO_drop L d o ho h

/-- **Clipping on the right is invisible** when the kept part `L[:r]` is the whole line or holds 64
    bytes and 16 bytes from the offending position on. -/
theorem clip_right_invisible (L : Bytes) (r o : Nat) (hor : o ≤ r) (h : L.length ≤ r ∨ (64 ≤ r ∧ o + 16 ≤ r)) :
    excerptO (L.take r) o = excerptO L o :=
  excerptO_take L r o hor h

/-- **On a line of complete runes clipped on a rune boundary, 48 bytes of context suffice**: with
    `L = (A ++ B).flatten` (`RuneChunk`: byte chunks `utf8.DecodeRune` accepts as one rune), `A` clipped
    and the offending position `o ≥ |A| + 48`, excerpt and caret are unchanged — the trimming of
    `L[:o-48]` stops at the same rune boundary whether or not `A` is there. -/
theorem clip_left_invisible_runes (A B : List Bytes) (h : ∀ c, c ∈ A ++ B → RuneChunk c) (o : Nat)
    (ho : o ≤ (A ++ B).flatten.length) (h48 : A.flatten.length + 48 ≤ o) :
    excerptO ((A ++ B).flatten.drop A.flatten.length) (o - A.flatten.length) = excerptO (A ++ B).flatten o :=
  excerptO_drop_runes A B h o ho h48

def tightLine : Bytes := [0xF0, 0x9F, 0x98, 0x80] ++ List.replicate 47 97 ++ [120]   -- U+1F600, 47 "a", "x"

/-- **51 is tight on arbitrary clips**: with the offending `x` at position 51 and ONE byte clipped
    (the clip falls inside the 4-byte rune, 50 bytes of context are left) the excerpt differs: on the
    whole line `L[:3] = F0 9F 98` is an incomplete rune, trimmed away, so the excerpt starts with the
    whole rune; on the clipped line `9F 98` has no rune start to look at and the excerpt starts at the
    rune's last byte. (A window of `jsonInputIter` starts at the end of a JSON value, hence never
    inside a rune of valid UTF-8.) -/
theorem clip_left_51_is_tight :
    (excerptO (tightLine.drop 1) (51 - 1)).1 = 0x80 :: List.replicate 47 97 ++ [120] ∧
    (excerptO tightLine 51).1 = tightLine := by decide

/-! ## 2. Pipe: the window kept by `inputReader` -/

/-- **General form.** For every input with LF / CRLF terminators, threshold and decoder event
    sequence: the run reaches a state `s`, and a syntax error at absolute 1-based offset `F` beyond
    the last decoded value and within the bytes read is reported with the line number of byte `F-1`
    in the whole input, and with the excerpt and caret computed from that byte's true line clipped to
    `[s.offset, s.offset + |s.buf|)`. -/
theorem window_report_clipped (w : Nat → Nat) (inp : Bytes) (thr : Nat) (evs : List Ev)
    (h : traceOK inp.length 0 0 evs) (hcr : NoLoneCR inp) (F : Nat) :
    ∃ s, Win.run (Win.step thr) (Win.init inp) evs = some s ∧
      (traceEnd 0 evs < F → F ≤ s.offset + s.buf.length →
        s.report w (.syntax F) = clippedReport w inp s.offset (s.offset + s.buf.length) (F - 1)) := by
  obtain ⟨s, hrun, hinv⟩ := window_run evs (Win.init inp) 0 (WinInv.init inp) (by simpa [Win.init] using h)
  exact ⟨s, hrun, fun h1 h2 => window_report_clipped_aux w hinv F h1 h2 hcr⟩

/-- **`window_report_eq_whole`.** Same quantification; with `P = F-1` the offending byte, `ls` the
    start of its line, `L` the line and `o = min (P-ls) |L|` its position in the line: if
    (Left) `s.offset ≤ ls` or `s.offset + 51 ≤ ls + o`, and
    (Right) `ls + |L| ≤ s.offset + |s.buf|` or (`ls + 64 ≤ s.offset + |s.buf|` and `F + 15 ≤ s.offset + |s.buf|`),
    then the report computed from the window — line number, excerpt, caret column, layout — IS the
    report `jsonParseError.Error` computes from the whole input and the absolute offset. -/
theorem window_report_eq_whole (w : Nat → Nat) (inp : Bytes) (thr : Nat) (evs : List Ev)
    (h : traceOK inp.length 0 0 evs) (hcr : NoLoneCR inp) (F : Nat) :
    ∃ s, Win.run (Win.step thr) (Win.init inp) evs = some s ∧
      (traceEnd 0 evs < F → F ≤ s.offset + s.buf.length →
        (s.offset ≤ lineStart inp (F - 1) ∨
          s.offset + 51 ≤ lineStart inp (F - 1) + min (F - 1 - lineStart inp (F - 1)) (trueLine inp (F - 1)).length) →
        (lineStart inp (F - 1) + (trueLine inp (F - 1)).length ≤ s.offset + s.buf.length ∨
          (lineStart inp (F - 1) + 64 ≤ s.offset + s.buf.length ∧ F + 15 ≤ s.offset + s.buf.length)) →
        s.report w (.syntax F) = wholeReport w inp (.syntax F)) := by
  obtain ⟨s, hrun, hinv⟩ := window_run evs (Win.init inp) 0 (WinInv.init inp) (by simpa [Win.init] using h)
  exact ⟨s, hrun, fun h1 h2 hl hr => window_report_eq_whole_aux w hinv F h1 h2 hcr hl hr⟩

/-- **Valid UTF-8 lines: 48 bytes of context suffice.** Same quantification; if the offending line
    is a sequence of complete runes `A ++ B`, the window starts inside it on the rune boundary after
    `A` (a window of `jsonInputIter` starts at the end of a JSON value, never inside a rune), at least
    48 bytes before the offending position, and reaches the end of the line, then the report computed
    from the window IS the report computed from the whole input. -/
theorem window_report_eq_whole_runes (w : Nat → Nat) (inp : Bytes) (thr : Nat) (evs : List Ev)
    (h : traceOK inp.length 0 0 evs) (hcr : NoLoneCR inp) (F : Nat) (A B : List Bytes) :
    ∃ s, Win.run (Win.step thr) (Win.init inp) evs = some s ∧
      (traceEnd 0 evs < F → F ≤ s.offset + s.buf.length →
        trueLine inp (F - 1) = (A ++ B).flatten → (∀ c, c ∈ A ++ B → RuneChunk c) →
        s.offset = lineStart inp (F - 1) + A.flatten.length →
        A.flatten.length + 48 ≤ min (F - 1 - lineStart inp (F - 1)) (trueLine inp (F - 1)).length →
        lineStart inp (F - 1) + (trueLine inp (F - 1)).length ≤ s.offset + s.buf.length →
        s.report w (.syntax F) = wholeReport w inp (.syntax F)) := by
  obtain ⟨s, hrun, hinv⟩ := window_run evs (Win.init inp) 0 (WinInv.init inp) (by simpa [Win.init] using h)
  exact ⟨s, hrun, fun h1 h2 hl hr hs h48 hright =>
    window_report_eq_whole_runes_aux w hinv F h1 h2 hcr A B hl hr hs h48 hright⟩

/-- **Excerpt and caret need no hypothesis on the terminators**: with lone CRs the window's line
    NUMBER can be wrong (`C17.window_lone_cr_counterexample`) but, under Left and Right, the excerpt and
    the caret column are still those of the whole input. -/
theorem window_excerpt_eq_whole (w : Nat → Nat) (inp : Bytes) (thr : Nat) (evs : List Ev)
    (h : traceOK inp.length 0 0 evs) (F : Nat) :
    ∃ s, Win.run (Win.step thr) (Win.init inp) evs = some s ∧
      (traceEnd 0 evs < F → F ≤ s.offset + s.buf.length →
        (s.offset ≤ lineStart inp (F - 1) ∨
          s.offset + 51 ≤ lineStart inp (F - 1) + min (F - 1 - lineStart inp (F - 1)) (trueLine inp (F - 1)).length) →
        (lineStart inp (F - 1) + (trueLine inp (F - 1)).length ≤ s.offset + s.buf.length ∨
          (lineStart inp (F - 1) + 64 ≤ s.offset + s.buf.length ∧ F + 15 ≤ s.offset + s.buf.length)) →
        (s.report w (.syntax F)).linestr = (wholeReport w inp (.syntax F)).linestr ∧
        (s.report w (.syntax F)).column = (wholeReport w inp (.syntax F)).column) := by
  obtain ⟨s, hrun, hinv⟩ := window_run evs (Win.init inp) 0 (WinInv.init inp) (by simpa [Win.init] using h)
  exact ⟨s, hrun, fun h1 h2 hl hr => window_excerpt_eq_whole_aux w hinv F h1 h2 hl hr⟩

/-- **`io.ErrUnexpectedEOF` on a pipe** (the offset is one past the last byte): when the decoder
    has read the whole input and the window is not empty, the report is the whole input's under the
    Left condition alone (the window reaches the end of the text, nothing is clipped on the right). -/
theorem window_eof_report_eq_whole (w : Nat → Nat) (inp : Bytes) (thr : Nat) (evs : List Ev)
    (h : traceOK inp.length 0 0 evs) (hcr : NoLoneCR inp) :
    ∃ s, Win.run (Win.step thr) (Win.init inp) evs = some s ∧
      (s.offset + s.buf.length = inp.length → s.buf ≠ [] →
        (s.offset ≤ lineStart inp (inp.length - 1) ∨
          s.offset + 51 ≤ lineStart inp (inp.length - 1) +
            min (inp.length - lineStart inp (inp.length - 1)) (trueLine inp (inp.length - 1)).length) →
        s.report w .unexpectedEOF = wholeReport w inp .unexpectedEOF) := by
  obtain ⟨s, hrun, hinv⟩ := window_run evs (Win.init inp) 0 (WinInv.init inp) (by simpa [Win.init] using h)
  exact ⟨s, hrun, fun h1 h2 hl => window_eof_eq_whole_aux w hinv h1 h2 hcr hl⟩

def cutInput : Bytes := [49, 32, 50, 32, 120]                -- "1 2 x"
def cutTrace : List Ev := [.read 5, .decoded 1, .decoded 3]  -- all read; values `1`, `2` returned

/-- **The left cut is real**: values on one line, window advanced to the end of the previous value
    (`offset = 3`, inside the offending line, `3 > ls = 0` and `3 + 51 > 4`): the error at `x`
    (offset 5) is reported with excerpt `" x"`, caret column 1 — on the whole input the excerpt is
    `"1 2 x"`, caret column 4. Both carets stand under the `x`; the line number is the same.
    (Threshold 1 instead of 16384 keeps the witness small.) -/
theorem window_left_cut_witness :
    traceOK cutInput.length 0 0 cutTrace ∧
    (∃ s, Win.run (Win.step 1) (Win.init cutInput) cutTrace = some s ∧ s.offset = 3 ∧
      traceEnd 0 cutTrace < 5 ∧ 5 ≤ s.offset + s.buf.length ∧ lineStart cutInput 4 = 0 ∧
      s.report (fun _ => 1) (.syntax 5) = { multi := false, line := 1, linestr := [32, 120], column := 1 }) ∧
    wholeReport (fun _ => 1) cutInput (.syntax 5) =
      { multi := false, line := 1, linestr := [49, 32, 50, 32, 120], column := 4 } := by
  refine ⟨by simp [traceOK, cutInput, cutTrace],
    ⟨{ offset := 3, line := 0, buf := [32, 120], rest := [] }, by decide, rfl, by decide, by decide, by decide, by decide⟩,
    by decide⟩

def rcutInput : Bytes := 120 :: List.replicate 20 97         -- "x" then twenty "a"
def rcutTrace : List Ev := [.read 1]                         -- the decoder has read one byte

/-- **The right cut is real**: the decoder fails at the first byte having read nothing else
    (`offset + |buf| = 1 < ls + |L| = 21`, `< 64`): excerpt `"x"`; on the whole input the excerpt is the
    whole 21-byte line. Line number and caret column agree. -/
theorem window_right_cut_witness :
    traceOK rcutInput.length 0 0 rcutTrace ∧
    (∃ s, Win.run (Win.step 16384) (Win.init rcutInput) rcutTrace = some s ∧ s.offset + s.buf.length = 1 ∧
      s.report (fun _ => 1) (.syntax 1) = { multi := false, line := 1, linestr := [120], column := 0 }) ∧
    wholeReport (fun _ => 1) rcutInput (.syntax 1) =
      { multi := false, line := 1, linestr := rcutInput, column := 0 } := by
  refine ⟨by simp [traceOK, rcutInput, rcutTrace],
    ⟨{ offset := 0, line := 0, buf := [120], rest := List.replicate 20 97 }, by decide, rfl, by decide⟩, by decide⟩

/-! ## 3. Seekable input: the chunked re-read -/

/-- **`seekable_report_eq_whole`.** For every file with LF / CRLF terminators, every buffer size
    ≥ 256 and every syntax-error offset inside the file, the report computed from the re-read chunk
    IS the report computed from the whole file: `seekable_reread` leaves ≥ `bs/4 ≥ 64` bytes before
    the offending byte whenever something was skipped and ≥ `bs/4` bytes after it unless the file
    ends, so neither cut can happen. -/
theorem seekable_report_eq_whole (w : Nat → Nat) (bs : Nat) (hbs : 256 ≤ bs) (inp : Bytes) (F : Nat)
    (h1 : 1 ≤ F) (h2 : F ≤ inp.length) (hcr : NoLoneCR inp) :
    seekReport w bs inp (.syntax F) = wholeReport w inp (.syntax F) :=
  seek_report_eq_whole_aux w bs hbs inp F h1 h2 hcr

/-- the same for `io.ErrUnexpectedEOF` (offset one past the end of the file) -/
theorem seekable_eof_report_eq_whole (w : Nat → Nat) (bs : Nat) (hbs : 256 ≤ bs) (inp : Bytes) (hne : inp ≠ [])
    (hcr : NoLoneCR inp) :
    seekReport w bs inp .unexpectedEOF = wholeReport w inp .unexpectedEOF :=
  seek_eof_eq_whole_aux w bs hbs inp hne hcr

/-- … in particular for the buffer size of the code, `bufSize = 16 * 1024`. -/
theorem seekable_report_eq_whole_bufSize (w : Nat → Nat) (inp : Bytes) (F : Nat)
    (h1 : 1 ≤ F) (h2 : F ≤ inp.length) (hcr : NoLoneCR inp) :
    seekReport w bufSize inp (.syntax F) = wholeReport w inp (.syntax F) :=
  seek_report_eq_whole_aux w bufSize (by decide) inp F h1 h2 hcr

/-- an error without position (`.other`) is resolved against the whole file by construction -/
theorem seekable_other_report_eq_whole (w : Nat → Nat) (bs : Nat) (inp : Bytes) :
    seekReport w bs inp .other = wholeReport w inp .other := rfl

/-! ## Non-vacuity -/

def nvInput : Bytes := [49, 10, 120, 10, 51, 10, 52, 10]   -- "1\nx\n3\n4\n"
def nvTrace : List Ev := [.read 8, .decoded 1]

example : NoLoneCR nvInput := by
  intro j hj
  match j with
  | 0 | 1 | 2 | 3 | 4 | 5 | 6 | 7 => simp [nvInput, CR] at hj
  | j + 8 => simp [nvInput] at hj
-- the hypotheses of `window_report_eq_whole` (and `window_report_clipped`, `window_excerpt_eq_whole`)
-- hold for the error at `x` (offset 3) with the window advanced to offset 1 — and the conclusion is checked
example : traceOK nvInput.length 0 0 nvTrace ∧
    Win.run (Win.step 4) (Win.init nvInput) nvTrace = some { offset := 1, line := 0, buf := nvInput.drop 1, rest := [] } ∧
    traceEnd 0 nvTrace < 3 ∧ 3 ≤ 1 + (nvInput.drop 1).length ∧ 1 ≤ lineStart nvInput (3 - 1) ∧
    lineStart nvInput (3 - 1) + (trueLine nvInput (3 - 1)).length ≤ 1 + (nvInput.drop 1).length ∧
    wholeReport (fun _ => 1) nvInput (.syntax 3) = { multi := true, line := 2, linestr := [120], column := 0 } :=
  ⟨by simp [traceOK, nvInput, nvTrace], by decide, by decide, by decide, by decide, by decide, by decide⟩
-- `window_eof_report_eq_whole`: "1\n[" read to the end, window advanced past `1`
example : traceOK 3 0 0 [.read 3, .decoded 1] ∧
    Win.run (Win.step 1) (Win.init [49, 10, 91]) [.read 3, .decoded 1] = some { offset := 1, line := 0, buf := [10, 91], rest := [] } ∧
    1 ≤ lineStart [49, 10, 91] 2 ∧
    wholeReport (fun _ => 1) [49, 10, 91] .unexpectedEOF = { multi := true, line := 2, linestr := [91], column := 1 } :=
  ⟨by simp [traceOK], by decide, by decide, by decide⟩
-- the second disjuncts of Left / Right are satisfiable: 100-byte line, 10 bytes clipped, position 70, 90 kept
example : (10 + 51 ≤ 70 ∧ 70 ≤ (List.replicate 100 (97 : UInt8)).length) ∧ (64 ≤ 90 ∧ 70 + 16 ≤ 90) := by decide
example : excerptO ((List.replicate 100 (97 : UInt8)).drop 10) (70 - 10) = excerptO (List.replicate 100 97) 70 := by decide
-- `clip_left_invisible_runes` / `window_report_eq_whole_runes`: a 2-byte rune clipped, 48 ASCII bytes, the offending byte
example : (∀ c, c ∈ ([[0xC3, 0xA9]] : List Bytes) ++ (List.replicate 49 [97]) → RuneChunk c) ∧
    ([[0xC3, 0xA9]] : List Bytes).flatten.length + 48 ≤ 50 ∧
    50 ≤ (([[0xC3, 0xA9]] : List Bytes) ++ List.replicate 49 [97]).flatten.length := by
  refine ⟨?_, by decide, by decide⟩
  intro c hc
  rcases List.mem_append.mp hc with hc | hc
  · have : c = [0xC3, 0xA9] := by simpa using hc
    subst this; exact ⟨by decide, by decide⟩
  · have : c = [97] := (List.mem_replicate.mp hc).2
    subst this; exact ⟨by decide, by decide⟩
-- `window_compose`, `seekable_*`
example : 1 + 7 ≤ nvInput.length ∧ 1 < 7 ∧ 256 ≤ bufSize ∧ 1 ≤ 3 ∧ 3 ≤ nvInput.length ∧ nvInput ≠ [] := by decide
example : seekReport (fun _ => 1) 256 nvInput (.syntax 3) = { multi := true, line := 2, linestr := [120], column := 0 } := by decide

end Gojq.C17

/-
  C04 — compiler optimisations never change what a query outputs: the two WHOLE-CODE passes together,
  and what the still-open cases of the tail-call pass need.  Property theorems only; the lemmas are in
  Gojq/Proofs/TailClos*.lean (and the files Props/C04Sim.lean / Props/C04Tail.lean rest on).

  `compile` (compiler.go) ends with `c.optimizeTailRec(); c.optimizeCodeOps()`.  Props/C04Sim.lean
  proves the second pass, Props/C04Tail.lean the first one in its jump case for closure-free code.

  PROVED HERE
  * `optimize_preserves_outputs_partial`: the composition, in the compiler's order — the code with
    BOTH passes on returns the outcomes of the code with both passes off (`…_polls`: on `VM.history`).
  * `opts_unobservable_passes_partial`: every subset of the two passes gives the same outcomes as
    every other subset (the `opts_unobservable` of DESIGN §6 restricted to the two whole-code
    switches `tailrec`, `codeops`).
  * `wfCheck_transfers_back`: the peephole theorem's scan need only be run on the code AFTER the
    tail-call pass (which is what the `wf` stream of the check does).
  All three for the class Props/C04Tail.lean covers: closure-free code, every rewritten call a jump.
  * Towards the jump case WITH closures (sections 5 and 6): `closure_indices_are_opaque` (31 of 32
    opcodes, and whole turns: the frame index inside a closure value is invisible to everything but
    `opcallpc`), `stripped_codes_satisfy_static_conditions`, `tail_turn_diagram_closures`,
    `pushpc_turn_diagram_closures`, `callpc_turns_diagram_closures`: the stuttering simulation of
    Props/C04Tail.lean extends to code that creates and calls closures on every turn — at `callpc`
    under the hypothesis that the two popped closures name corresponding frames; and, assembled into
    whole runs, `optimizeTailRec_preserves_outputs_closures_partial` (section 7): programs that create
    closures and pass them around, on every run that does not CALL one (run-time guard).

  NOT PROVED, and what this file pins down about it (sections 3 and 4)
  * closures (`optimizeTailRec_preserves_outputs_closures_statement`).  The known counterexample
    `C04Tail.stale_closure_tells_the_runs_apart` is REJECTED by C08's checker `safeCheck`
    (`stale_closure_witness_is_rejected_by_safeCheck`), so `safeCheck c` is a candidate hypothesis —
    but it is NOT sufficient as it stands: `leaked_closure_tells_the_runs_apart` is hand-written code
    that `safeCheck` accepts before and after the pass, shape-checked, jumps-only, on which both runs
    end properly and the emitted values DIFFER: a function returns the stale closure `[2]int{pc, index}`
    it finds in a variable slot it never assigned, and the frame index inside differs in the two runs
    (the dropped frame shifts every later frame by one slot).  So the statement must restrict the
    ORIGINAL run's outcomes to JSON (`jsonOutcome`), which real programs satisfy; stated that way it
    is open.  On real bytecode with closures (the shape of `recurse(f)`, dumped) it is re-checked by
    evaluation below.
    What is built of the proof (sections 5 to 7) and what is not: the relation of Props/C04Tail.lean
    makes everything but the scope stack EQUAL; with closures the data stack, the paths stack and
    `env.values` hold `[pc, index]` pairs whose index differs.  Built: the relation "equal up to
    closure indices" and the theorem that every opcode but `callpc` respects it; its composition with
    the closure-free invariant (taken on stripped codes) and the turn diagrams for all 32 opcodes —
    the one at `callpc` under the hypothesis `CloGood` that the two popped indices name corresponding
    frames (`LEq` from them); the assembly into whole runs.  NOT built: `CloGood` itself.  It is a
    fact about the closure's HISTORY (the same frame since `oppushpc`), not about the current state:
    never-assigned variable slots hold stale pairs, and a stale pair looks good again once its
    frame's slot is reused.  So the tracking must be TYPED — only the places the checker's layer 2
    annotates `clo` carry the correspondence, unassigned slots carry nothing — i.e. it has to be
    threaded through C08's `Inv2` opcode by opcode (the per-turn invariant alone,
    `C07.turn_invariant_of_safeCheck`, is a state predicate and cannot supply the pairing; real
    bytecode has no simpler discipline: `_assign` / `_modify` overwrite a closure's slot with JSON).
  * `callrec` (`optimizeTailRec_preserves_outputs_callrec_statement`): FALSE under shape scan +
    closure-freeness + `safeCheck` — `unassigned_variable_tells_the_runs_apart`: a function that reads
    its variable before assigning it sees a fresh slot in the original run and the previous
    activation's value in the optimised run (`opcallrec` reuses the caller's slots).  The checker's
    layer 2 tracks closure and array kinds, not definite assignment of JSON slots; the statement
    needs a definite-assignment scan, left as a parameter.
-/
import Gojq.Props.C04Tail
import Gojq.Props.C04Sim
import Gojq.Model.SafeVM2
import Gojq.Proofs.TailClos
import Gojq.Proofs.TailClosParamTurn
import Gojq.Proofs.TailClosDiagram
import Gojq.Proofs.TailClosCall
import Gojq.Proofs.TailClosRun
namespace Gojq.C04TailClos
open Gojq Gojq.VM Gojq.OptVM Gojq.TailVM

/-! ### 1. the two whole-code passes together -/

/-- THE TWO PASSES, in the compiler's order (`optimizeTailRec`, then `optimizeCodeOps`), proved part.
    For every code `c` that passes `tailWfCheck` (shape scan + closure-free, as in
    `C04Tail.optimizeTailRec_preserves_outputs_partial`), `c1` the output of the tail-call pass with no
    `callrec` in it, passing the scan `wfCheck` of the peephole theorem, and `c2` the output of the
    peephole pass on `c1`: from `execute`'s initial state on any JSON input and variable values, for
    every call-indexed sequence of native answers that never answers a closure, at every fuel, if the
    first `n` calls of `Next` on `c` end properly then the fully optimised code `c2` returns the same
    `n` outcomes.
    Each hypothesis is decided on every real program by a stream of the C04 check: `tailWfCheck c` and
    `noCallrec c1` by `tailwf` (lines `B` / `A`), `wfCheck c1` by `wf` ("before the pass" = the code
    the peephole pass receives).
    GAP to `optimize_preserves_outputs_statement`: the gaps of the tail-call theorem (closures,
    `callrec`). -/
theorem optimize_preserves_outputs_partial (c c1 c2 : Array Instr) (hwf : tailWfCheck c = true)
    (htail : optTailV c = some c1) (hnc : noCallrec c1 = true) (hwf1 : wfCheck c1 = true)
    (hops : optV c1 = some c2) (ext : Nat → ExtRec) (hext : ExtClean ext) (fuel n : Nat)
    (input : JV) (vars : List JV)
    (hp : ∀ o ∈ historyC c ext fuel n (initJ input vars), o.proper = true) :
    historyC c2 ext fuel n (initJ input vars) = historyC c ext fuel n (initJ input vars) :=
  tail_then_ops_refines hwf htail hnc hwf1 hops ext hext fuel n input vars hp

/-- … on `VM.history` itself (poll-indexed oracle, `context.Background()`): the fully optimised code
    returns the same `n` outcomes under the oracle that presents the same answers, in the same order,
    at the polls where the optimised run consumes them (both passes remove polls). -/
theorem optimize_preserves_outputs_partial_polls (c c1 c2 : Array Instr) (hwf : tailWfCheck c = true)
    (htail : optTailV c = some c1) (hnc : noCallrec c1 = true) (hwf1 : wfCheck c1 = true)
    (hops : optV c1 = some c2) (ext : Nat → ExtRec) (hext : ExtClean ext) (fuel n : Nat)
    (input : JV) (vars : List JV)
    (hp : ∀ o ∈ history ⟨c, never, ext⟩ fuel n (initJ input vars), o.proper = true) :
    history ⟨c2, never, pollOracle c2 (callOracle c ext fuel n (initJ input vars)) fuel n (initJ input vars)⟩
        fuel n (initJ input vars) =
      history ⟨c, never, ext⟩ fuel n (initJ input vars) := by
  have hs0 : (⟨(initJ input vars).env, 0⟩ : St) = initJ input vars := rfl
  have hA := historyC_callOracle c ext fuel n (initJ input vars)
  have hB := history_pollOracle c2 (callOracle c ext fuel n (initJ input vars)) fuel n (initJ input vars)
  rw [hs0] at hA hB
  have hclean : ExtClean (callOracle c ext fuel n (initJ input vars)) := by
    intro k B
    rcases callOracle_mem c ext fuel n (initJ input vars) k with ⟨j, hj⟩ | hnone
    · rw [hj]; exact hext j B
    · unfold ExtOK; rw [hnone]; trivial
  have hmain := optimize_preserves_outputs_partial c c1 c2 hwf htail hnc hwf1 hops _ hclean fuel n input vars
    (by rw [hA]; exact hp)
  rw [hB, hmain, hA]

/-- The scan of the peephole theorem transfers BACK over the tail-call pass: if the code after the
    pass passes `wfCheck`, so does the code before it (the pass only replaces calls of scopes by
    jumps) — so the `wf` stream of the check, which scans the code the peephole pass receives, also
    covers the code with both passes off. -/
theorem wfCheck_transfers_back (c c1 : Array Instr) (hwf : tailWfCheck c = true) (htail : optTailV c = some c1)
    (hnc : noCallrec c1 = true) (hwf1 : wfCheck c1 = true) : wfCheck c = true :=
  wfCheck_before_tail (tailStatic_of_check hwf htail hnc) hwf1

/-- EVERY SUBSET of the two whole-code passes (`applyPasses tail ops`: the switches `tailrec` and
    `codeops` of `gojq.VerifOptMask`), proved part: under the hypotheses of
    `optimize_preserves_outputs_partial` any two subsets `(t, o)`, `(t', o')` compile `c` to codes
    that return the same `n` outcomes, whenever the run of the un-optimised code ends properly. -/
theorem opts_unobservable_passes_partial (c : Array Instr) (hwf : tailWfCheck c = true)
    (hsome : (optTailV c).isSome = true)
    (hmid : ∀ c1, optTailV c = some c1 → noCallrec c1 = true ∧ wfCheck c1 = true)
    (t o t' o' : Bool) (a b : Array Instr) (ha : applyPasses t o c = some a) (hb : applyPasses t' o' c = some b)
    (ext : Nat → ExtRec) (hext : ExtClean ext) (fuel n : Nat) (input : JV) (vars : List JV)
    (hp : ∀ o ∈ historyC c ext fuel n (initJ input vars), o.proper = true) :
    historyC a ext fuel n (initJ input vars) = historyC b ext fuel n (initJ input vars) := by
  rw [applyPasses_refines hwf hmid t o ha hsome ext hext fuel n input vars hp,
    applyPasses_refines hwf hmid t' o' hb hsome ext hext fuel n input vars hp]

/-! ### 2. the statements one would like -/

/-- an outcome that is a JSON value, an error carrying JSON, or `(nil, false)` — what `Next` returns
    on every real program (a `[2]int` closure or a `[]pathValue` never leaves the interpreter) -/
def jsonErr : Err → Bool
  | .value (.jv _) | .halt (.jv _) | .brk _ (.jv _) => true
  | .tryEnd e => jsonErr e
  | .msg _ | .vm _ _ => true
  | _ => false

def jsonOutcome : Outcome → Bool
  | .value (.jv _) => true
  | .error e => jsonErr e
  | .done => true
  | _ => false

/-- a JSON outcome is a proper one -/
theorem proper_of_jsonOutcome {o : Outcome} (h : jsonOutcome o = true) : o.proper = true := by
  cases o <;> simp [jsonOutcome] at h <;> rfl

/-- THE JUMP CASE WITH CLOSURES — open.  For code accepted by the shape scan and by C08's checker
    (`SafeVM.safeCheckN`, both layers: a closure is only called while its frame is live), the output
    of the pass without `callrec`: if the first `n` calls on `c` return JSON outcomes, `c'` returns
    the same outcomes.  `safeCheckN` is decided on every real instruction list by the `safe` stream (it
    also accepts `c'` there; a proof may want that as a further hypothesis, and C08's `KeysOK`).
    Why `jsonOutcome` and not `proper`: `closures_statement_with_proper_outcomes_counterexample`. -/
def optimizeTailRec_preserves_outputs_closures_statement : Prop :=
  ∀ (c c' : Array Instr) (input : JV) (vars : List JV), tailShapeCheck c = true →
    SafeVM.safeCheckN vars.length c = true → optTailV c = some c' → noCallrec c' = true →
    ∀ (ext : Nat → ExtRec), ExtClean ext → ∀ (fuel n : Nat),
      (∀ o ∈ historyC c ext fuel n (initJ input vars), jsonOutcome o = true) →
      historyC c' ext fuel n (initJ input vars) = historyC c ext fuel n (initJ input vars)

/-- … the same with "ends properly" in place of "returns JSON", and even with the checker accepting
    the optimised code as well: FALSE, see `closures_statement_with_proper_outcomes_counterexample`. -/
def optimizeTailRec_preserves_outputs_closures_proper_outcomes : Prop :=
  ∀ (c c' : Array Instr) (input : JV), tailShapeCheck c = true →
    SafeVM.safeCheck c = true → SafeVM.safeCheck c' = true → optTailV c = some c' → noCallrec c' = true →
    ∀ (ext : Nat → ExtRec), ExtClean ext → ∀ (fuel n : Nat),
      (∀ o ∈ historyC c ext fuel n (initJ input []), o.proper = true) →
      historyC c' ext fuel n (initJ input []) = historyC c ext fuel n (initJ input [])

/-- THE `callrec` CASE for closure-free code — open, and parameterised by a definite-assignment scan
    `defAssigned` still to be designed (every `load` / `append` of a variable of a function is
    preceded, on every path from the function's entry, by a `store` / `forklabel` to it):
    `callrec_statement_without_definite_assignment_counterexample` shows that the statement is FALSE
    for `defAssigned := fun _ => true`, i.e. that shape scan + closure-freeness + `safeCheck` do not
    suffice. -/
def optimizeTailRec_preserves_outputs_callrec_statement (defAssigned : Array Instr → Bool) : Prop :=
  ∀ (c c' : Array Instr) (input : JV) (vars : List JV), tailShapeCheck c = true → closureFree c = true →
    SafeVM.safeCheckN vars.length c = true → defAssigned c = true → optTailV c = some c' →
    ∀ (ext : Nat → ExtRec), ExtClean ext → ∀ (fuel n : Nat),
      (∀ o ∈ historyC c ext fuel n (initJ input vars), jsonOutcome o = true) →
      historyC c' ext fuel n (initJ input vars) = historyC c ext fuel n (initJ input vars)

/-- BOTH PASSES on everything the compiler emits — open (its proved part is
    `optimize_preserves_outputs_partial`): closures and `callrec` allowed. -/
def optimize_preserves_outputs_statement (defAssigned : Array Instr → Bool) : Prop :=
  ∀ (c c1 c2 : Array Instr) (input : JV) (vars : List JV), tailShapeCheck c = true →
    SafeVM.safeCheckN vars.length c = true → defAssigned c = true → optTailV c = some c1 → wfCheck c1 = true →
    optV c1 = some c2 →
    ∀ (ext : Nat → ExtRec), ExtClean ext → ∀ (fuel n : Nat),
      (∀ o ∈ historyC c ext fuel n (initJ input vars), jsonOutcome o = true) →
      historyC c2 ext fuel n (initJ input vars) = historyC c ext fuel n (initJ input vars)

/-! ### 3. closures: what the checker excludes, and what it does not -/

def num (k : Int) : JV := .num (.int k)
def noExt : Nat → ExtRec := fun _ => {}
theorem noExt_clean : ExtClean noExt := fun _ _ => trivial

/-- the closure `[2]int{pc, index}` an outcome carries, if it is one -/
def cloOf : Outcome → Option (Int × Int)
  | .value (.clo pc idx) => some (pc, idx)
  | _ => none

/-- the string an outcome carries, if it is one -/
def strOf : Outcome → Option Bytes
  | .value (.jv (.str s)) => some s
  | _ => none

/-- The counterexample of Props/C04Tail.lean — a closure called after its frame's slot was reused —
    is not accepted by C08's checker (layer 2 rejects it): `safeCheck` excludes it, the shape scan did
    not. -/
theorem stale_closure_witness_is_rejected_by_safeCheck :
    tailShapeCheck C04Tail.codeStale = true ∧ SafeVM.safeCheck C04Tail.codeStale = false := by
  decide +kernel

/-- Hand-written code the checker ACCEPTS: `g` (scope 3) stores a closure of itself-as-frame in its
    variable and returns; `h` (scope 4), whose frame reuses `g`'s variable slot, returns the content of
    its never-assigned variable; `f` (scope 5, no variables) calls itself in tail position once, then
    `g`, then `h`. -/
def codeLeak : Array Instr :=
  #[.scope 1 0 0, .jump 4, .scope 2 0 0, .ret, .jump 9, .scope 3 1 0, .pushpc 2, .store 3 0, .ret,
    .jump 14, .scope 4 1 0, .pop, .load 4 0, .ret, .jump 24, .scope 5 0 0, .dup, .jumpifnot 21,
    .const (.bool false), .call 15, .jump 23, .call 5, .call 10, .ret, .call 15, .ret]

/-- WHY `jsonOutcome`.  `codeLeak` passes the shape scan and C08's checker, before and after the pass;
    the pass rewrites the tail call at 19 into a jump (no `callrec`); on input `true` both runs end
    properly — a value, then `(nil, false)` — but the values differ: the stale closure `[2]int{2, 3}`
    in the original run (main, `f`, the dropped frame of `f`, `g` at slot 3) and `[2]int{2, 2}` in the
    optimised run.  The checker's layer 2 types the never-assigned slot `any`; nothing stops the
    code from returning it. -/
theorem leaked_closure_tells_the_runs_apart :
    tailShapeCheck codeLeak = true ∧ SafeVM.safeCheck codeLeak = true ∧
    (optTailV codeLeak).map SafeVM.safeCheck = some true ∧ (optTailV codeLeak).map noCallrec = some true ∧
    C04Tail.tags (historyC codeLeak noExt 300 2 (initJ (.bool true) [])) = [0, 2] ∧
    (historyC codeLeak noExt 300 2 (initJ (.bool true) [])).map cloOf = [some (2, 3), none] ∧
    (optTailV codeLeak).map (fun c' => (historyC c' noExt 300 2 (initJ (.bool true) [])).map cloOf) =
      some [some (2, 2), none] := by
  decide +kernel

/-- … so with "ends properly" in place of "returns JSON" the statement is false, even when the
    checker accepts both codes. -/
theorem closures_statement_with_proper_outcomes_counterexample :
    ¬ optimizeTailRec_preserves_outputs_closures_proper_outcomes := by
  intro h
  have hw := leaked_closure_tells_the_runs_apart
  cases hopt : optTailV codeLeak with
  | none => rw [hopt] at hw; simp at hw
  | some c' =>
    obtain ⟨h1, h2, h3, h4, h5, h6, h7⟩ := hw
    rw [hopt] at h3 h4 h7
    simp only [Option.map_some, Option.some.injEq] at h3 h4 h7
    have := h codeLeak c' (.bool true) h1 h2 h3 hopt h4 noExt noExt_clean 300 2
      (C04Tail.proper_of_tags (by rw [h5]; decide))
    rw [this, h6] at h7
    exact absurd h7 (by decide)

/-! ### 4. `callrec`: definite assignment is needed -/

/-- Hand-written closure-free code the checker accepts: `f` (scope 2, ONE variable) reads its variable
    before assigning it: if it holds a true value it returns "stale"; otherwise, on a false input it
    returns "fresh", on a true input it assigns `true` to the variable and calls itself, in tail
    position, on `false`. -/
def codeUnassigned : Array Instr :=
  #[.scope 1 0 0, .jump 17, .scope 2 1 0, .load 2 0, .jumpifnot 7, .const (.str (Bytes.ofString "stale")),
    .jump 16, .dup, .jumpifnot 14, .push (.bool true), .store 2 0, .const (.bool false), .call 2, .jump 16,
    .const (.str (Bytes.ofString "fresh")), .jump 16, .ret, .call 2, .ret]

/-- WHY DEFINITE ASSIGNMENT.  `codeUnassigned` passes the shape scan, is closure-free and accepted by
    C08's checker; the pass turns the tail call at 12 into `callrec 2`; on input `true` the original
    emits "fresh" (the second activation gets a new, null slot), the optimised code emits "stale"
    (`opcallrec` pops the caller's frame first, so the new frame gets the caller's slot back with the
    caller's value in it). -/
theorem unassigned_variable_tells_the_runs_apart :
    tailShapeCheck codeUnassigned = true ∧ closureFree codeUnassigned = true ∧
    SafeVM.safeCheck codeUnassigned = true ∧
    (optTailV codeUnassigned).map (fun c' => ((c'[12]?).map view).map (fun i => (i.op, i.tgt))) =
      some (some ("callrec", some 2)) ∧
    (historyC codeUnassigned noExt 300 2 (initJ (.bool true) [])).map strOf = [some (Bytes.ofString "fresh"), none] ∧
    C04Tail.tags (historyC codeUnassigned noExt 300 2 (initJ (.bool true) [])) = [0, 2] ∧
    (optTailV codeUnassigned).map (fun c' => (historyC c' noExt 300 2 (initJ (.bool true) [])).map strOf) =
      some [some (Bytes.ofString "stale"), none] := by
  decide +kernel

/-- the outcomes of the original run of `codeUnassigned` are JSON -/
theorem unassigned_run_is_json :
    (historyC codeUnassigned noExt 300 2 (initJ (.bool true) [])).all jsonOutcome = true := by
  decide +kernel

/-- … so without a definite-assignment hypothesis the `callrec` statement is false. -/
theorem callrec_statement_without_definite_assignment_counterexample :
    ¬ optimizeTailRec_preserves_outputs_callrec_statement (fun _ => true) := by
  intro h
  have hw := unassigned_variable_tells_the_runs_apart
  cases hopt : optTailV codeUnassigned with
  | none => rw [hopt] at hw; simp at hw
  | some c' =>
    obtain ⟨h1, h2, h3, _, h5, _, h7⟩ := hw
    rw [hopt] at h7
    simp only [Option.map_some, Option.some.injEq] at h7
    have hj := unassigned_run_is_json
    rw [List.all_eq_true] at hj
    have := h codeUnassigned c' (.bool true) [] h1 h2 h3 rfl hopt noExt noExt_clean 300 2 hj
    rw [this, h5] at h7
    exact absurd h7 (by decide +kernel)

/-! ### non-vacuity, on real bytecode (dumped with `gojq.VerifCodes`, both whole-code passes off) -/

-- `optimize_preserves_outputs_partial` on `def r: ., (.[]? | r); r` (Props/C04Tail.lean, the shape of
-- `recurse`): the hypotheses hold, both passes produce an output, and the theorem applies
example : tailWfCheck C04Tail.codeRec = true ∧ (optTailV C04Tail.codeRec).map noCallrec = some true ∧
    (optTailV C04Tail.codeRec).map wfCheck = some true ∧
    ((optTailV C04Tail.codeRec).bind optV).isSome = true := by decide +kernel
example (c1 c2 : Array Instr) (h1 : optTailV C04Tail.codeRec = some c1) (h2 : optV c1 = some c2) :
    historyC c2 noExt 300 6 (initJ (.arr [.arr [num 1], num 2]) []) =
      historyC C04Tail.codeRec noExt 300 6 (initJ (.arr [.arr [num 1], num 2]) []) :=
  optimize_preserves_outputs_partial _ c1 c2 (by decide +kernel) h1
    (C04Tail.noCallrec_of_map h1 (by decide +kernel))
    (by have : (optTailV C04Tail.codeRec).map wfCheck = some true := by decide +kernel
        rw [h1] at this; simpa using this)
    h2 noExt noExt_clean 300 6 _ [] (C04Tail.proper_of_tags (by decide +kernel))
-- the fully optimised code differs from the un-optimised one at the tail call AND at a threaded jump
example : ((optTailV C04Tail.codeRec).bind optV).map (fun c2 => (c2.map view).toList.map (fun i => (i.op, i.tgt))) ≠
    some ((C04Tail.codeRec.map view).toList.map (fun i => (i.op, i.tgt))) := by decide +kernel
-- … `wfCheck_transfers_back` and `opts_unobservable_passes_partial` apply to it as well
example (c1 : Array Instr) (h1 : optTailV C04Tail.codeRec = some c1) : wfCheck C04Tail.codeRec = true :=
  wfCheck_transfers_back _ c1 (by decide +kernel) h1 (C04Tail.noCallrec_of_map h1 (by decide +kernel))
    (by have : (optTailV C04Tail.codeRec).map wfCheck = some true := by decide +kernel
        rw [h1] at this; simpa using this)
example (a b : Array Instr) (ha : applyPasses true true C04Tail.codeRec = some a)
    (hb : applyPasses false true C04Tail.codeRec = some b) :
    historyC a noExt 300 6 (initJ (.arr [.arr [num 1], num 2]) []) =
      historyC b noExt 300 6 (initJ (.arr [.arr [num 1], num 2]) []) :=
  opts_unobservable_passes_partial C04Tail.codeRec (by decide +kernel) (by decide +kernel)
    (fun c1 h1 => ⟨C04Tail.noCallrec_of_map h1 (by decide +kernel),
      by have : (optTailV C04Tail.codeRec).map wfCheck = some true := by decide +kernel
         rw [h1] at this; simpa using this⟩)
    true true false true a b ha hb noExt noExt_clean 300 6 _ [] (C04Tail.proper_of_tags (by decide +kernel))
-- all four subsets of the two passes compile it
example : (applyPasses false false C04Tail.codeRec).isSome = true ∧ (applyPasses false true C04Tail.codeRec).isSome = true ∧
    (applyPasses true false C04Tail.codeRec).isSome = true ∧ (applyPasses true true C04Tail.codeRec).isSome = true := by
  decide +kernel

/-- `def w(f): def r: ., (f | r); r; w(.[]?)` — `recurse(f)` as builtin.jq defines it, with a closure
    argument: `w` stores the closure in its variable (4), the argument-free helper `r` calls it
    (10, 11) and calls itself in tail position (12). -/
def codeW : Array Instr :=
  #[.scope 1 1 0, .jump 16, .scope 2 2 1, .store 2 0, .store 2 1, .load 2 0, .jump 14, .scope 3 0 0, .fork 10,
    .jump 13, .load 2 1, .callpc, .call 7, .ret, .call 7, .ret, .store 1 0, .jump 25, .scope 4 0 0,
    .forktrybegin 23, .iter, .forktryend, .jump 24, .backtrack, .ret, .pushpc 18, .load 1 0, .call 2, .ret]

-- the hypotheses of `optimizeTailRec_preserves_outputs_closures_statement` hold of it (and it is not
-- closure-free: Props/C04Tail.lean does not cover it); the pass rewrites the call at 12 into `jump 8`
example : tailShapeCheck codeW = true ∧ SafeVM.safeCheck codeW = true ∧ closureFree codeW = false ∧
    (optTailV codeW).map noCallrec = some true ∧
    (optTailV codeW).map (fun c' => ((c'[12]?).map view).map (fun i => (i.op, i.tgt))) = some (some ("jump", some 8)) := by
  decide +kernel
-- the instance of the statement on `[[1], 2]`, re-checked by evaluation: JSON outcomes, the same
-- four values then `(nil, false)` on both sides, although the closure is called with 2 dropped
-- frames on the original's scope stack (7 frames there, 5 in the optimised run)
example : (historyC codeW noExt 400 6 (initJ (.arr [.arr [num 1], num 2]) [])).all jsonOutcome = true ∧
    C04Tail.tags (historyC codeW noExt 400 6 (initJ (.arr [.arr [num 1], num 2]) [])) = [0, 0, 0, 0, 2, 2] ∧
    (optTailV codeW).map (fun c' => C04Tail.tags (historyC c' noExt 400 6 (initJ (.arr [.arr [num 1], num 2]) []))) =
      some [0, 0, 0, 0, 2, 2] ∧
    (afterC codeW noExt 400 3 (initJ (.arr [.arr [num 1], num 2]) [])).env.scopes.data.size = 7 ∧
    (optTailV codeW).map (fun c' => (afterC c' noExt 400 3 (initJ (.arr [.arr [num 1], num 2]) [])).env.scopes.data.size) =
      some 5 := by
  decide +kernel

/-- `def f(g): if . < 3 then (. + 1 | f(g)) else g end; f(. * 2)`: a function WITH a parameter. -/
def codeFg : Array Instr :=
  #[.scope 1 1 0, .jump 33, .scope 2 5 1, .store 2 0, .store 2 1, .load 2 0, .dup, .expbegin, .store 2 2,
    .push (num 3), .load 2 2, .load 2 2, .callNative .other 2, .expend, .jumpifnot 30, .store 2 3, .push (num 1),
    .load 2 3, .load 2 3, .callNative .other 2, .store 2 4, .jump 26, .scope 7 0 0, .load 2 1, .callpc, .ret,
    .pushpc 22, .load 2 4, .call 2, .jump 32, .load 2 1, .callpc, .ret, .store 1 0, .jump 42, .scope 8 1 0,
    .store 8 0, .push (num 2), .load 8 0, .load 8 0, .callNative .other 2, .ret, .pushpc 35, .load 1 0, .call 2, .ret]

-- the pass only considers ARGUMENT-FREE scopes: the tail call `f(g)` at 28 is left alone, the pass is
-- the identity on this program (closures matter for the pass through argument-free helpers defined
-- inside functions with parameters, as in `codeW`, `until`, `while`, `repeat`)
example : tailShapeCheck codeFg = true ∧ SafeVM.safeCheck codeFg = true ∧
    (optTailV codeFg).map (Array.map view) = some (codeFg.map view) := by decide +kernel

/-! ### 5. groundwork for closures: the index inside a closure value is opaque to all opcodes but `callpc`

  In the original and the optimised run corresponding closures `[2]int{pc, index}` capture DIFFERENT
  scope-stack positions, so the data stack, the paths stack and `env.values` of the two runs cannot be
  equal as in Props/C04Tail.lean — only equal up to those indices (`CloParam.PRel`).  The theorems
  below are the design-independent half of any simulation proof with closures: the relation of
  Props/C04Tail.lean can be composed with `PRel`; what remains is `oppushpc` / `opcallpc` and the
  TYPED tracking of which closure pairs name corresponding frames (see the header). -/

open CloParam in
/-- EVERY OPCODE BUT `callpc` (31 of 32) respects "equal up to closure indices": from environments that
    differ only in the index component of the closure values they hold (data stack, paths stack incl.
    inside `pathValue`s, `env.values`; everything else equal: `PRel`) and locals that differ only so
    in the pending error (`LR`), `exec ins` fails the same way on both sides or returns the same
    control result (a returned value again up to closure indices), related locals and related
    environments.  Side condition, used by `opforklabel` only: the pending error is not a `break`
    carrying a closure (Go's `==` would compare two closures index by index —
    `forklabel_compares_closure_indices`); on real runs it carries a label number. -/
theorem closure_indices_are_opaque (ins : Instr) (hins : ins ≠ .callpc) (x : ExtRec) {l l' : L} (hl : LR l l')
    (hE : ∀ n p i, l.err ≠ some (.brk n (.clo p i))) {e e' : Env} (he : PRel e e') :
    RR CLR (exec ins x l e) (exec ins x l' e') :=
  exec_param ins hins x hl hE e e' he

open CloParam in
/-- … and so does one whole TURN of the loop of `Next` (the instruction, then `pc++` / the jump / the
    return / the unwinding to the next fork), for every code, unless the instruction at `pc` is
    `callpc`: both runs end the call with outcomes equal up to closure indices, or both continue,
    with related locals and environments. -/
theorem closure_indices_are_opaque_turn (c : Array Instr) (x : ExtRec) {l l' : L} (hl : LR l l') {e e' : Env}
    (he : PRel e e') (hins : c.getD l.pc.toNat .bad ≠ .callpc)
    (hE : ∀ n p i, l.err ≠ some (.brk n (.clo p i))) :
    StepR (stepE c x l e) (stepE c x l' e') :=
  stepE_param c x hl he hins hE

/-- two environments that differ only in the index of the closure on top of the data stack -/
def envClo (idx : Int) : Env := { stack := ({} : Stack V).push (.clo 5 idx) }
def l0 : L := { pc := 0, callpc := 0, index := -1, backtrack := false, err := none }

-- non-vacuity: the two environments are related (and different), `dup` is not `callpc`
example : CloParam.PRel (envClo 1) (envClo 2) :=
  (CloParam.PRel.refl {}).mk_stack ((CloParam.SR.refl _).push (.clo 5 1 2))
example : CloParam.RR CloParam.CLR (exec .dup {} l0 (envClo 1)) (exec .dup {} l0 (envClo 2)) :=
  closure_indices_are_opaque .dup (by intro h; cases h) {} (CloParam.LR.refl l0) (by intro n p i h; cases h)
    ((CloParam.PRel.refl {}).mk_stack ((CloParam.SR.refl _).push (.clo 5 1 2)))
example : CloParam.StepR (stepE #[.dup, .ret] {} l0 (envClo 1)) (stepE #[.dup, .ret] {} l0 (envClo 2)) :=
  closure_indices_are_opaque_turn _ {} (CloParam.LR.refl l0)
    ((CloParam.PRel.refl {}).mk_stack ((CloParam.SR.refl _).push (.clo 5 1 2)))
    (by intro h; cases h) (by intro n p i h; cases h)

/-- WHY "BUT `callpc`".  `opcallpc` reads the index: from the two related environments it continues
    with different values of the local `index` (which `opscope` then uses as the new frame's outer
    frame). -/
theorem callpc_reads_the_closure_index :
    (match exec .callpc {} l0 (envClo 1) with | .ok (_, l) _ => some l.index | _ => none) = some 1 ∧
    (match exec .callpc {} l0 (envClo 2) with | .ok (_, l) _ => some l.index | _ => none) = some 2 := by
  decide +kernel

/-- WHY THE SIDE CONDITION.  Go's `==` on two closures compares the indices. -/
theorem forklabel_compares_closure_indices :
    (match goEq (.clo 5 1) (.clo 5 1) with | .eq b => some b | _ => none) = some true ∧
    (match goEq (.clo 5 1) (.clo 5 2) with | .eq b => some b | _ => none) = some false := by
  decide +kernel

/-! ### 6. the jump case with closures: every turn but the one at `callpc`

  The composite relation `CInv d d' lo lp eo ep` (Proofs/TailClosTurn.lean): the original run's
  environment `eo` is, up to closure indices (`PRel`), a middle environment — the original's scope
  stack and forks with the OPTIMISED run's data stack, paths stack and variables — which is related to
  the optimised run's environment `ep` by the invariant `Inv` of Props/C04Tail.lean, taken for the
  STRIPPED codes `d = c.map strip`, `d' = c'.map strip` (`pushpc t` replaced by `push null`, `callpc` by
  `call 0`: the invariant only looks at scope / call / ret / jump / fork / variable instructions, and a
  turn only looks at the instruction at `pc`).  Proved: the stripped codes satisfy the static
  conditions of the closure-free simulation whenever `c` passes the shape scan (closures allowed);
  the initial states are related; the relation is kept, with the stuttering of Props/C04Tail.lean,
  by every turn at an instruction other than `pushpc` / `callpc`, by the turn at `pushpc`, and by the
  turn at `callpc` (with the `scope` it jumps to) PROVIDED the two popped closures name corresponding
  frames (`CloGood`).
  NOT proved: that they do — the typed tracking described in the header.  The assembly of the turns
  into whole runs is done in section 7 for the runs on which no `callpc` is executed. -/

/-- The stripped codes satisfy the static conditions of the closure-free simulation
    (`C04Tail.tail_turn_diagram` applies to them), for every code that passes the shape scan
    `tailShapeCheck` — closures allowed — and the pass output without `callrec`; and they agree with
    the codes at every instruction other than `pushpc` / `callpc`. -/
theorem stripped_codes_satisfy_static_conditions {c c' : Array Instr} (hshape : tailShapeCheck c = true)
    (hopt : optTailV c = some c') (hnc : noCallrec c' = true) :
    TailStatic (c.map strip) (c'.map strip) ∧
    (∀ i, kept (c.getD i .bad) = true → (c.map strip).getD i .bad = c.getD i .bad) ∧
    (∀ i, kept (c'.getD i .bad) = true → (c'.map strip).getD i .bad = c'.getD i .bad) :=
  ⟨tailStatic_strip hshape hopt hnc, strip_getD_kept c, strip_getD_kept c'⟩

/-- `execute`'s initial states are related. -/
theorem initial_states_related_closures (c c' : Array Instr) (input : V) (vars : List V) :
    CFRel (c.map strip) (c'.map strip) (initSt input vars).env (initSt input vars).env :=
  initSt_cfrel c c' input vars

/-- THE TURN DIAGRAM WITH CLOSURES, 30 of 32 opcodes.  For every code `c` that passes the shape scan
    (closures allowed) and the pass output `c'` without `callrec`, from states related by `CInv`: on a
    turn at an instruction other than `pushpc` / `callpc` (in `c` at the original's pc, in `c'` at the
    optimised run's pc), if the original's turn ends the call properly, the optimised code's turn ends
    it with the same outcome up to closure indices (the same outcome if it is JSON), in related
    states; otherwise both make one turn and stay related, or the original makes a turn alone — the
    `call` of a dropped frame, the `ret` that pops one, a `jump` on the way — which consumes no oracle
    record (`tickAt … = 0`), and the states stay related; turns made together consume the same
    record, if any.  (`hE`: the side condition of `closure_indices_are_opaque`.) -/
theorem tail_turn_diagram_closures {c c' : Array Instr} (hshape : tailShapeCheck c = true)
    (hopt : optTailV c = some c') (hnc : noCallrec c' = true) (x : ExtRec) {lo lp : L} {eo ep : Env}
    (h : CInv (c.map strip) (c'.map strip) lo lp eo ep)
    (hk : kept (c.getD lo.pc.toNat .bad) = true) (hk' : kept (c'.getD lp.pc.toNat .bad) = true)
    (hE : ∀ n p i, lo.err ≠ some (.brk n (.clo p i))) :
    match stepE c x lo eo with
    | .fin o ef => o.proper = true →
        ∃ o' ef', stepE c' x lp ep = .fin o' ef' ∧ CloParam.OutR o o' ∧ CFRel (c.map strip) (c'.map strip) ef ef' ∧
          tickAt c lo = tickAt c' lp
    | .cont lo1 eo1 =>
      (∃ lp1 ep1, stepE c' x lp ep = .cont lp1 ep1 ∧ CInv (c.map strip) (c'.map strip) lo1 lp1 eo1 ep1 ∧
        tickAt c lo = tickAt c' lp) ∨
      (CInv (c.map strip) (c'.map strip) lo1 lp eo1 ep ∧ tickAt c lo = 0) :=
  turn_closures hshape hopt hnc x h hk hk' hE

/-- … and the turn at `pushpc` (31 of 32): both runs push the closure of their own top frame — two
    DIFFERENT values when a dropped frame lies below, related by `PRel` — and stay related. -/
theorem pushpc_turn_diagram_closures {c c' : Array Instr} (hshape : tailShapeCheck c = true)
    (hopt : optTailV c = some c') (hnc : noCallrec c' = true) (x : ExtRec) {lo lp : L} {eo ep : Env}
    (h : CInv (c.map strip) (c'.map strip) lo lp eo ep) (t : Int) (h0 : 0 ≤ lo.pc)
    (hc : c[lo.pc.toNat]? = some (.pushpc t)) :
    ∃ lo1 eo1 lp1 ep1, stepE c x lo eo = .cont lo1 eo1 ∧ stepE c' x lp ep = .cont lp1 ep1 ∧
      CInv (c.map strip) (c'.map strip) lo1 lp1 eo1 ep1 ∧ tickAt c lo = 0 ∧ tickAt c' lp = 0 :=
  pushpc_closures hshape hopt hnc x h t h0 hc

/-- … and the turn at `callpc` together with the turn at the `scope` it jumps to (32 of 32), GIVEN that the
    closures the two runs pop name corresponding frames (`CloGood`: the lookups `env.index` makes from
    the two frames agree for every scope id the code can name, both frames lie in the protected
    region of their scope stack and exist) and that the turn is not made in backtrack mode: both runs
    pop their closure, jump to its entry and push a frame whose outer frame is the closure's frame —
    a kept pair of the chain relation, whose lookups agree because those from the closure frames do
    — and stay related; no oracle record is consumed.
    (No instance is exhibited here: building a related pair of states at a `callpc` by hand means
    running the diagrams up to it.  The run of `codeUnused` in section 7 goes through a `pushpc` turn.)
    THE GAP of the closures case is exactly the hypothesis `hgood` (and `hbt`): which of the closure
    pairs that the two environments hold name corresponding frames is a fact about their history
    (never-assigned variable slots hold stale pairs, `leaked_closure_tells_the_runs_apart`), for which
    the typing of C08's checker has to be threaded through the simulation. -/
theorem callpc_turns_diagram_closures {c c' : Array Instr} (hshape : tailShapeCheck c = true)
    (hopt : optTailV c = some c') (hnc : noCallrec c' = true) (x : ExtRec) {lo lp : L} {eo ep : Env}
    (h : CInv (c.map strip) (c'.map strip) lo lp eo ep) (h0 : 0 ≤ lo.pc) (hc : c[lo.pc.toNat]? = some .callpc)
    (hbt : lo.backtrack = false)
    {pcT ia : Int} {so1 : Stack V} (hpop : eo.stack.pop? = some (.clo pcT ia, so1))
    {id v n : Int} (hT0 : 0 ≤ pcT) (hsc : c[pcT.toNat]? = some (.scope id v n))
    (hgood : ∀ ib sp1, ep.stack.pop? = some (.clo pcT ib, sp1) → CloGood (c.map strip) eo ep ia ib) :
    ∃ lo1 eo1 lo2 eo2 lp1 ep1 lp2 ep2, stepE c x lo eo = .cont lo1 eo1 ∧ stepE c x lo1 eo1 = .cont lo2 eo2 ∧
      stepE c' x lp ep = .cont lp1 ep1 ∧ stepE c' x lp1 ep1 = .cont lp2 ep2 ∧
      CInv (c.map strip) (c'.map strip) lo2 lp2 eo2 ep2 ∧ tickAt c lo = 0 ∧ tickAt c lo1 = 0 :=
  callpc_closures hshape hopt hnc x h h0 hc hbt hpop hT0 hsc hgood

/-- an outcome related to a JSON outcome is that outcome -/
theorem outR_json {o o' : Outcome} (h : CloParam.OutR o o') (hj : jsonOutcome o = true) : o' = o := by
  have key : ∀ {e e' : Err}, CloParam.ER e e' → jsonErr e = true → e' = e := by
    intro e e' he
    induction he with
    | refl e => intro _; rfl
    | value hv => intro hj; cases hv <;> simp [jsonErr] at hj ⊢
    | halt hv => intro hj; cases hv <;> simp [jsonErr] at hj ⊢
    | brk n hv => intro hj; cases hv <;> simp [jsonErr] at hj ⊢
    | tryEnd _ ih => intro hj; simp only [jsonErr] at hj; rw [ih hj]
  cases o <;> cases o' <;> simp only [CloParam.OutR, jsonOutcome] at h hj <;> try (first | rfl | cases hj)
  · cases h <;> simp at hj ⊢
  · rw [key h hj]

-- non-vacuity on the real bytecode `codeW` (the shape of `recurse(f)`): the hypotheses hold, so the
-- stripped codes satisfy the static conditions and the initial states are related
example (c' : Array Instr) (h : optTailV codeW = some c') : TailStatic (codeW.map strip) (c'.map strip) :=
  (stripped_codes_satisfy_static_conditions (by decide +kernel) h
    (C04Tail.noCallrec_of_map h (by decide +kernel))).1
-- … `strip` keeps the `scope` at 0 and the `load` at 10, not the `callpc` at 11 nor the `pushpc` at 25
example : kept (codeW.getD 0 .bad) = true ∧ kept (codeW.getD 10 .bad) = true ∧ kept (codeW.getD 11 .bad) = false ∧
    kept (codeW.getD 25 .bad) = false := by decide +kernel

/-- At `Next`'s entry, related environments give related locals (so the diagrams apply from the first
    turn of every call). -/
theorem entry_states_related_closures {c c' : Array Instr} (hshape : tailShapeCheck c = true)
    (hopt : optTailV c = some c') (hnc : noCallrec c' = true) (ext : Nat → ExtRec) {s s' : St}
    (h : CFRel (c.map strip) (c'.map strip) s.env s'.env) :
    CInv (c.map strip) (c'.map strip) (entry ⟨c, never, ext⟩ s) (entry ⟨c', never, ext⟩ s') s.env s'.env :=
  entry_cinv hshape hopt hnc ext h

-- … and the first turn of the first call on `[[1], 2]` is an instance of the diagram: all hypotheses of
-- `tail_turn_diagram_closures` hold there
example (c' : Array Instr) (h : optTailV codeW = some c') : True := by
  have hnc := C04Tail.noCallrec_of_map h (by decide +kernel)
  have hC := entry_states_related_closures (c := codeW) (by decide +kernel) h hnc noExt
    (initial_states_related_closures codeW c' (.jv (.arr [.arr [num 1], num 2])) [])
  have e0 : codeW.getD 0 .bad = .scope 1 1 0 := rfl
  have e : c'.getD 0 .bad = codeW.getD 0 .bad :=
    optTailV_getD (by decide +kernel) h 0 (by rw [e0]; intro j hj; cases hj)
  have hk : kept (codeW.getD (entry ⟨codeW, never, noExt⟩ (initSt (.jv (.arr [.arr [num 1], num 2])) [])).pc.toNat .bad) = true := by
    show kept (codeW.getD 0 .bad) = true
    rw [e0]; rfl
  have hk' : kept (c'.getD (entry ⟨c', never, noExt⟩ (initSt (.jv (.arr [.arr [num 1], num 2])) [])).pc.toNat .bad) = true := by
    show kept (c'.getD 0 .bad) = true
    rw [e, e0]; rfl
  have := tail_turn_diagram_closures (by decide +kernel) h hnc ({} : ExtRec) hC hk hk'
    (by intro n p i hh; cases hh)
  trivial

/-! ### 7. whole runs with closures that are created and passed, not called -/

/-- THE JUMP CASE WITH CLOSURES, proved part (whole runs).  For every code `c` that passes the shape
    scan `tailShapeCheck` — closures ALLOWED — and the pass output `c'` without `callrec`: from
    `execute`'s initial state on any JSON input and variable values, for every call-indexed oracle, at
    every fuel, if the first `n` calls of `Next` on `c` return JSON outcomes and the run-time guard
    `historyGuardC` holds of the ORIGINAL run — no turn executes `callpc`, and no turn starts with a
    pending `break` error that carries a closure — then `c'` returns the same `n` outcomes.  The
    program may create closures (`pushpc`), pass them to functions and keep them in variables, with
    dropped frames on the scope stack meanwhile — the two runs then hold DIFFERENT closure values
    (`scope_stacks_differ_with_a_closure_pending`); what it may not do, on the run in question, is
    call one.
    GAP to `optimizeTailRec_preserves_outputs_closures_statement`: the turns at `callpc`, i.e. the
    hypothesis `CloGood` of `callpc_turns_diagram_closures` (the assembly below treats every other
    turn, and would treat those turns given `CloGood`); the guard is a run-time hypothesis, decidable
    by evaluation, not a static one. -/
theorem optimizeTailRec_preserves_outputs_closures_partial (c c' : Array Instr) (hshape : tailShapeCheck c = true)
    (hopt : optTailV c = some c') (hnc : noCallrec c' = true) (ext : Nat → ExtRec) (fuel n : Nat)
    (input : JV) (vars : List JV)
    (hg : historyGuardC c ext fuel n (initJ input vars) = true)
    (hp : ∀ o ∈ historyC c ext fuel n (initJ input vars), jsonOutcome o = true) :
    historyC c' ext fuel n (initJ input vars) = historyC c ext fuel n (initJ input vars) :=
  closures_refines hshape hopt hnc ext fuel n (.jv input) (vars.map .jv) hg
    (fun o ho => ⟨proper_of_jsonOutcome (hp o ho), fun _ h => outR_json h (hp o ho)⟩)

/-- `def w(f): def r: if .a then (.a | r) else . end; r; w(.x)` — real bytecode: `w` receives the
    closure of `.x` (24: `pushpc`; 4: stored in its variable) and never calls it; the argument-free helper
    `r` calls itself in tail position (14). -/
def codeUnused : Array Instr :=
  #[.scope 1 1 0, .jump 19, .scope 2 2 1, .store 2 0, .store 2 1, .load 2 0, .jump 17, .scope 3 0 0, .dup, .expbegin,
    .index (.str [97]), .expend, .jumpifnot 16, .index (.str [97]), .call 7, .jump 16, .ret, .call 7, .ret,
    .store 1 0, .jump 24, .scope 4 0 0, .index (.str [120]), .ret, .pushpc 21, .load 1 0, .call 2, .ret]
def inputAA : JV := .obj [([97], .obj [([97], .null)])]

-- the hypotheses hold on `{"a":{"a":null}}` with the recorded answers of Props/C04Tail.lean (`.a` three
-- times): not closure-free, the pass rewrites the call at 14 into `jump 8`, the guard holds, JSON outcomes
example : tailShapeCheck codeUnused = true ∧ closureFree codeUnused = false ∧
    (optTailV codeUnused).map noCallrec = some true ∧
    (optTailV codeUnused).map (fun c' => ((c'[14]?).map view).map (fun i => (i.op, i.tgt))) = some (some ("jump", some 8)) ∧
    historyGuardC codeUnused C04Tail.extIf 300 3 (initJ inputAA []) = true ∧
    (historyC codeUnused C04Tail.extIf 300 3 (initJ inputAA [])).all jsonOutcome = true ∧
    C04Tail.tags (historyC codeUnused C04Tail.extIf 300 3 (initJ inputAA [])) = [0, 2, 2] := by
  decide +kernel
-- … so the theorem applies to the output of the pass
example (c' : Array Instr) (h : optTailV codeUnused = some c') :
    historyC c' C04Tail.extIf 300 3 (initJ inputAA []) = historyC codeUnused C04Tail.extIf 300 3 (initJ inputAA []) :=
  optimizeTailRec_preserves_outputs_closures_partial codeUnused c' (by decide +kernel) h
    (C04Tail.noCallrec_of_map h (by decide +kernel)) C04Tail.extIf 300 3 inputAA [] (by decide +kernel)
    (by have : (historyC codeUnused C04Tail.extIf 300 3 (initJ inputAA [])).all jsonOutcome = true := by decide +kernel
        rw [List.all_eq_true] at this; exact this)

/-- The two runs are not in the same state while the closure is held: after the first value the
    original has four frames on its scope stack, the optimised run three. -/
theorem scope_stacks_differ_with_a_closure_pending :
    (afterC codeUnused C04Tail.extIf 300 1 (initJ inputAA [])).env.scopes.data.size = 4 ∧
    (optTailV codeUnused).map (fun c' => (afterC c' C04Tail.extIf 300 1 (initJ inputAA [])).env.scopes.data.size) =
      some 3 := by
  decide +kernel

end Gojq.C04TailClos

/-
  C11 — one total order governs comparison, sorting, grouping and key order.
  Property theorems only; helper lemmas are in Gojq/Proofs/{CompareNum,Compare,Sort}.lean.

  Model: `cmp` (Model/Compare.lean) transliterates `gojq.Compare`; Model/Sort.lean
  transliterates its consumers in func.go / operator.go.  Domain of the order theorems:
  `JV.tame` — no NaN, no ±Inf, every float of magnitude below 2^53, INTEGERS OF ANY SIZE
  (exactly the domain of the property statement).  The consumers constrain keys only.

  Not stated here (covered by the Go-side oracle of harness/cmd/c11 only): the member order
  printed by the encoders (`encoder.go`, `cli/encoder.go`) — the encoders are modelled by C12.
-/
import Gojq.Proofs.Sort
namespace Gojq.C11
open Gojq

/-! ## 1. numbers -/

/-- `float64(z)` (and `bigToFloat(z)`) is exact for every integer of magnitude below 2^53. -/
theorem roundInt_id_small (z : Int) (h : z.natAbs < 2 ^ 53) : roundInt z = .flt (z : Rat) :=
  roundInt_small z h

/-- Converting an integer of magnitude ≥ 2^53 (of ANY size, *big.Int included) to float64 gives
    ±Inf or a float of magnitude ≥ 2^53 with the sign of the integer: rounding never carries a
    large integer across the band of floats the property admits. -/
theorem roundInt_big_large (z : Int) (h : 2 ^ 53 ≤ z.natAbs) :
    roundInt z = .inf (decide ((z : Rat) < 0)) ∨
    ∃ r : Rat, ((2 ^ 53 : Nat) : Rat) ≤ r ∧ roundInt z = .flt (if (z : Rat) < 0 then -r else r) :=
  roundInt_large z h

/-- On the domain, comparing two numbers — int/int exactly, int/float and big/float through the
    float64 conversion, float/float by IEEE `<`/`==` — is the order of their exact rational values. -/
theorem cmp_num_exact (a b : Num) (ha : a.tame = true) (hb : b.tame = true) :
    cmpNum a b = cmpRat a.val b.val :=
  cmpNum_exact a b ha hb

example : (Num.int (2 ^ 200)).tame = true ∧ (Num.flt (3 / 2)).tame = true := by decide +kernel
example : cmpNum (.int (2 ^ 200)) (.flt (3 / 2)) = .gt := by decide +kernel

/-! ## 2. `Compare` is a total preorder on the domain -/

/-- Reflexive: every NaN-free value with floats below 2^53 compares equal to itself. -/
theorem cmp_refl (a : JV) (ha : a.tame = true) : cmp a a = .eq :=
  Gojq.cmp_refl a ha

/-- Antisymmetric / total: `Compare(b, a)` is the mirror image of `Compare(a, b)`. -/
theorem cmp_swap (a b : JV) (ha : a.tame = true) (hb : b.tame = true) : cmp b a = (cmp a b).swap :=
  Gojq.cmp_swap a b ha hb

/-- Transitive: `a ≤ b` and `b ≤ c` give `a ≤ c` — nested values of any depth and width,
    integers of any size. -/
theorem cmp_trans (a b c : JV) (ha : a.tame = true) (hb : b.tame = true) (hc : c.tame = true)
    (h1 : cmp a b ≠ .gt) (h2 : cmp b c ≠ .gt) : cmp a c ≠ .gt :=
  compat_le (cmp_compat a b c ha hb hc) h1 h2

/-- Transitivity is strict as soon as one of the two steps is strict. -/
theorem cmp_trans_strict (a b c : JV) (ha : a.tame = true) (hb : b.tame = true) (hc : c.tame = true) :
    (cmp a b = .lt → cmp b c ≠ .gt → cmp a c = .lt) ∧ (cmp a b ≠ .gt → cmp b c = .lt → cmp a c = .lt) :=
  ⟨compat_lt_le (cmp_compat a b c ha hb hc), compat_le_lt (cmp_compat a b c ha hb hc)⟩

/-- Values that compare equal are interchangeable: they stand in the same relation to every third value. -/
theorem cmp_eq_congr (a b c : JV) (ha : a.tame = true) (hb : b.tame = true) (hc : c.tame = true)
    (h : cmp a b = .eq) : cmp a c = cmp b c ∧ cmp c a = cmp c b :=
  ⟨compat_eq_left (cmp_compat a b c ha hb hc) h,
   (compat_eq_right (cmp_compat c a b hc ha hb) h).symm⟩

/-- `Compare(a, b) == 0` exactly when `a` and `b` are the same JSON value up to the numeric value of
    the numbers inside (`1 ≃ 1.0`, `-0 ≃ 0`; same keys, same lengths). -/
theorem cmp_eq_iff (a b : JV) (ha : a.tame = true) (hb : b.tame = true) :
    cmp a b = .eq ↔ a.equiv b = true :=
  cmp_eq_iff_equiv a b ha hb

/-- null < false < true < numbers < strings < arrays < objects, for ALL values (NaN and huge floats
    included): a value of a lower type rank is below every value of a higher one. -/
theorem cmp_type_chain :
    (∀ a b : JV, typeIndex a < typeIndex b → cmp a b = .lt) ∧
    typeIndex .null = 0 ∧ typeIndex (.bool false) = 1 ∧ typeIndex (.bool true) = 2 ∧
    (∀ n, typeIndex (.num n) = 3) ∧ (∀ s, typeIndex (.str s) = 4) ∧
    (∀ xs, typeIndex (.arr xs) = 5) ∧ (∀ kvs, typeIndex (.obj kvs) = 6) := by
  refine ⟨fun a b h => ?_, rfl, rfl, rfl, fun _ => rfl, fun _ => rfl, fun _ => rfl, fun _ => rfl⟩
  rw [cmp_of_typeIndex_ne a b (by omega)]
  exact (cmpNat_lt_iff _ _).mpr h

/-- The hypothesis is needed: with the float 2^53 between the integers 2^53+1 and 2^53 the real
    comparison is NOT transitive (`2^53+1 ≤ 2^53.0 ≤ 2^53` but `2^53+1 > 2^53`). -/
theorem cmp_not_trans_untamed :
    ¬ ∀ a b c : JV, cmp a b ≠ .gt → cmp b c ≠ .gt → cmp a c ≠ .gt := by
  intro h
  exact h (.num (.int 9007199254740993)) (.num (.flt 9007199254740992)) (.num (.int 9007199254740992))
    (by decide +kernel) (by decide +kernel) (by decide +kernel)

/-- The hypothesis is needed for reflexivity too: `nan < nan` (the `lt` rule of compare.go). -/
theorem cmp_nan_not_refl : cmp (.num .nan) (.num .nan) = .lt := by decide

/-- `==`, `!=`, `<`, `<=`, `>`, `>=` are the six projections of `Compare`, and on the domain
    they are consistent with each other (`a < b ⇔ b > a`, `a <= b ⇔ ¬ a > b`, `a == b ⇔ a ≃ b`). -/
theorem ops_are_projections (a b : JV) :
    (opEq a b = true ↔ cmp a b = .eq) ∧ (opNe a b = true ↔ cmp a b ≠ .eq) ∧
    (opLt a b = true ↔ cmp a b = .lt) ∧ (opLe a b = true ↔ cmp a b ≠ .gt) ∧
    (opGt a b = true ↔ cmp a b = .gt) ∧ (opGe a b = true ↔ cmp a b ≠ .lt) := by
  simp [opEq, opNe, opLt, opLe, opGt, opGe]

theorem ops_consistent (a b : JV) (ha : a.tame = true) (hb : b.tame = true) :
    opLt a b = opGt b a ∧ opLe a b = opGe b a ∧ opLe a b = !opGt a b ∧ opGe a b = !opLt a b ∧
    opNe a b = !opEq a b ∧ opEq a b = opEq b a ∧ (opEq a b = true ↔ a.equiv b = true) := by
  have hs := Gojq.cmp_swap a b ha hb
  have he := cmp_eq_iff_equiv a b ha hb
  simp only [opEq, opNe, opLt, opLe, opGt, opGe, hs]
  cases h : cmp a b <;> simp_all [Ordering.swap] <;> rfl

example : (JV.arr [.num (.int 1), .obj [([97], .num (.flt (1 / 2)))], .num .nzero]).tame = true := by
  decide +kernel
example : cmp (.arr [.num (.int 1)]) (.arr [.num (.flt 1)]) = .eq := by decide +kernel
example : cmp (.obj [([97], .num (.int 1))]) (.obj [([97], .num (.int 2))]) = .lt := by decide +kernel
example : (JV.num (.int 1)).equiv (.num (.flt 1)) = true := by decide +kernel

/-! ## 3. sorting (`sort`, `sort_by`) -/

/-- `sort_by` returns a permutation of its input (no hypothesis: true for every input). -/
theorem sort_perm (l : List Item) : (sortItems l).Perm l :=
  sortItems_perm l

/-- …that is ordered by key… -/
theorem sort_sorted (l : List Item) (ht : ∀ it ∈ l, it.2.tame = true) :
    (sortItems l).Pairwise (fun a b => cmp a.2 b.2 ≠ .gt) :=
  sortItems_sorted l ht

/-- …and stable: for every key `k`, the items whose key equals `k` come out in input order. -/
theorem sort_stable (l : List Item) (ht : ∀ it ∈ l, it.2.tame = true) (k : JV) (hk : k.tame = true) :
    (sortItems l).filter (fun it => cmp it.2 k == .eq) = l.filter (fun it => cmp it.2 k == .eq) :=
  sortItems_filter k hk l ht

/-- These three facts determine the result: ANY ordered rearrangement that keeps equal-key items in
    input order is the list the model computes.  So the theorems do not depend on which stable
    algorithm `sort.SliceStable` uses (the model uses insertion sort). -/
theorem stable_sort_unique (l l' : List Item) (ht : ∀ it ∈ l, it.2.tame = true)
    (ht' : ∀ it ∈ l', it.2.tame = true)
    (hs : l'.Pairwise (fun a b => cmp a.2 b.2 ≠ .gt))
    (hst : ∀ k : JV, k.tame = true →
      l'.filter (fun it => cmp it.2 k == .eq) = l.filter (fun it => cmp it.2 k == .eq)) :
    l' = sortItems l :=
  stable_sort_unique' l l' ht ht' hs hst

/-- `sort` on an array of domain values: an ordered permutation of the elements. -/
theorem sort_values (vs : List JV) (ht : ∀ v ∈ vs, v.tame = true) :
    ∃ out, sort (.arr vs) = .ok (.arr out) ∧ out.Perm vs ∧ out.Pairwise (fun a b => cmp a b ≠ .gt) := by
  refine ⟨_, sort_arr vs, ?_, ?_⟩
  · have := (sortItems_perm (vs.zip vs)).map (·.1)
    rwa [zip_self_map_fst] at this
  · rw [List.pairwise_map]
    have hk : ∀ it ∈ vs.zip vs, it.2.tame = true := fun it h => by
      have := mem_zip_self h; rw [← this.1]; exact ht _ this.2
    refine List.Pairwise.imp_of_mem (fun {a b} ha hb h => ?_) (sortItems_sorted _ hk)
    rw [(mem_zip_self (mem_sortItems.mp ha)).1, (mem_zip_self (mem_sortItems.mp hb)).1]
    exact h

/-- `sort`/`sort_by` on non-arrays and on key arrays of the wrong length are errors, never a value. -/
theorem sort_errors (v x : JV) :
    (∀ vs ks, v = .arr vs → x = .arr ks → vs.length ≠ ks.length → sortBy v x = .error .length) ∧
    ((∀ vs, v ≠ .arr vs) → sortBy v x = .error .type) := by
  constructor
  · rintro vs ks rfl rfl h; simp [sortBy, mkItems, h, bind, Except.bind]
  · intro h
    cases v <;> simp_all [sortBy, mkItems, bind, Except.bind]

example : (sortItems [(.num (.int 0), .num (.int 2)), (.num (.int 1), .num (.flt 1)), (.num (.int 2), .num (.int 1))]
    == [(.num (.int 1), .num (.flt 1)), (.num (.int 2), .num (.int 1)), (.num (.int 0), .num (.int 2))]) = true := by
  decide +kernel
example : ∀ it ∈ [((JV.num (.int 0)), JV.num (.int 2)), (.num (.int 1), .num (.flt 1))], it.2.tame = true := by
  decide +kernel

/-! ## 4. `unique`, `unique_by` -/

/-- `unique_by` is `sort_by` followed by dropping every item whose key equals the key of its
    immediate predecessor (the code compares with the last KEPT key; on the domain that is the same). -/
theorem unique_eq_dedup_sort (l : List Item) (ht : ∀ it ∈ l, it.2.tame = true) :
    uniqueItems (sortItems l) = dedupAdj (sortItems l) :=
  uniqueItems_eq_dedupAdj _ (fun it h => ht it (mem_sortItems.mp h))

/-- The keys of the result are strictly increasing: no two results are equal. -/
theorem unique_strictly_increasing (l : List Item) (ht : ∀ it ∈ l, it.2.tame = true) :
    (uniqueItems (sortItems l)).Pairwise (fun a b => cmp a.2 b.2 = .lt) := by
  have hts : ∀ it ∈ sortItems l, it.2.tame = true := fun it h => ht it (mem_sortItems.mp h)
  have hs := sortItems_sorted l ht
  cases hsl : sortItems l with
  | nil => simp [uniqueItems]
  | cons r rest =>
    rw [hsl] at hts hs
    have hs' := List.pairwise_cons.mp hs
    obtain ⟨h1, h2⟩ := uniqueAux_strict rest r.2 (hts r (by simp)) (fun it h => hts it (by simp [h])) hs'.1 hs'.2
    exact List.pairwise_cons.mpr ⟨h2, h1⟩

example : (uniqueItems (sortItems [(.num (.int 1), .num (.int 1)), (.num (.flt 1), .num (.flt 1)), (.null, .null)])
    == [(.null, .null), (.num (.int 1), .num (.int 1))]) = true := by decide +kernel

/-! ## 5. `group_by` -/

/-- `group_by` partitions the sorted input by key equality: the groups concatenate to the sorted
    list, none is empty, all keys inside a group are equal, and keys of an earlier group are
    strictly below keys of a later group. -/
theorem group_by_partitions (l : List Item) (ht : ∀ it ∈ l, it.2.tame = true) :
    (groupItems (sortItems l)).flatten = sortItems l ∧
    (∀ g ∈ groupItems (sortItems l), g ≠ []) ∧
    (∀ g ∈ groupItems (sortItems l), ∀ a ∈ g, ∀ b ∈ g, cmp a.2 b.2 = .eq) ∧
    (groupItems (sortItems l)).Pairwise (fun g1 g2 => ∀ a ∈ g1, ∀ b ∈ g2, cmp a.2 b.2 = .lt) := by
  have hts : ∀ it ∈ sortItems l, it.2.tame = true := fun it h => ht it (mem_sortItems.mp h)
  have hflat := groupItems_flatten (sortItems l)
  refine ⟨hflat, fun g hg => ?_, fun g hg => ?_, groupItems_strict _ hts (sortItems_sorted l ht)⟩
  · obtain ⟨h, t, rfl, _⟩ := groupItems_uniform _ g hg
    simp
  · apply (groupItems_uniform _ g hg).pairwise_eq
    intro it hit
    apply hts
    rw [← hflat]
    exact List.mem_flatten.mpr ⟨g, hg, hit⟩

example : (groupItems (sortItems [(.num (.int 0), .num (.int 1)), (.num (.int 1), .null), (.num (.int 2), .num (.flt 1))])
    == [[(.num (.int 1), .null)], [(.num (.int 0), .num (.int 1)), (.num (.int 2), .num (.flt 1))]]) = true := by
  decide +kernel

/-! ## 6. `min`, `max`, `min_by`, `max_by` -/

/-- `min_by` returns the FIRST minimal item: everything before it is strictly greater, nothing after
    it is smaller. -/
theorem min_first_extreme (it : Item) (rest : List Item) (ht : ∀ a ∈ it :: rest, a.2.tame = true) :
    ∃ pre post, it :: rest = pre ++ minMaxLoop true it rest :: post ∧
      (∀ a ∈ pre, cmp a.2 (minMaxLoop true it rest).2 = .gt) ∧
      (∀ a ∈ post, cmp (minMaxLoop true it rest).2 a.2 ≠ .gt) := by
  have := minLoop_spec rest it [] [] (fun a h => ht a (by simpa using h)) (by simp) (by simp)
  simpa using this

/-- `max_by` returns the LAST maximal item: nothing before it is greater, everything after it is
    strictly smaller. -/
theorem max_last_extreme (it : Item) (rest : List Item) (ht : ∀ a ∈ it :: rest, a.2.tame = true) :
    ∃ pre post, it :: rest = pre ++ minMaxLoop false it rest :: post ∧
      (∀ a ∈ pre, cmp a.2 (minMaxLoop false it rest).2 ≠ .gt) ∧
      (∀ a ∈ post, cmp (minMaxLoop false it rest).2 a.2 = .gt) := by
  have := maxLoop_spec rest it [] [] (fun a h => ht a (by simpa using h)) (by simp) (by simp)
  simpa using this

/-- on the empty array both are `null` -/
theorem min_max_empty (isMin : Bool) : minMaxItems isMin [] = .null := rfl

example : (minMaxItems true [(.str [97], .num (.int 1)), (.str [98], .num (.flt 1)), (.str [99], .num (.int 2))] == .str [97]) = true := by
  decide +kernel
example : (minMaxItems false [(.str [97], .num (.int 2)), (.str [98], .num (.flt 2)), (.str [99], .num (.int 1))] == .str [98]) = true := by
  decide +kernel

/-! ## 7. `bsearch` -/

/-- On a sorted array of domain values `bsearch(t)` returns the index of an element equal to `t`,
    or `-1 - i` where `i` is the insertion point: every element before `i` is below `t` and every
    element from `i` on is above `t` (so in that case no element equals `t`).  The `sort.Search`
    loop is modelled literally (`searchLoop`), the fuel `n + 1` is shown sufficient. -/
theorem bsearch_spec (vs : List JV) (t : JV) (hv : ∀ v ∈ vs, v.tame = true) (ht : t.tame = true)
    (hs : vs.Pairwise (fun a b => cmp a b ≠ .gt)) :
    (∃ i : Nat, bsearchList vs t = (i : Int) ∧ ∃ v, vs[i]? = some v ∧ cmp v t = .eq) ∨
    (∃ i : Nat, bsearchList vs t = -(i : Int) - 1 ∧ i ≤ vs.length ∧
      (∀ k v, k < i → vs[k]? = some v → cmp v t = .lt) ∧
      (∀ k v, i ≤ k → vs[k]? = some v → cmp v t = .gt)) :=
  bsearchList_spec vs t hv ht hs

example : [JV.num (.int 1), .num (.flt 3), .num (.int 5)].Pairwise (fun a b => cmp a b ≠ .gt) ∧
    (∀ v ∈ [JV.num (.int 1), .num (.flt 3), .num (.int 5)], v.tame = true) := by decide +kernel
example : bsearchList [.num (.int 1), .num (.int 3), .num (.int 5)] (.num (.flt 3)) = 1 := by decide +kernel
example : bsearchList [.num (.int 1), .num (.int 3), .num (.int 5)] (.num (.int 4)) = -3 := by decide +kernel

/-! ## 8. `indices`, array subtraction, `keys`, iteration order -/

/-- `indices(xs)` on an array: exactly the positions where the next `len(xs)` elements compare equal
    to `xs` element by element, in increasing order (no result for an empty `xs`). -/
theorem indices_spec (vs xs : List JV) :
    (∀ i, i ∈ indicesList vs xs ↔
      xs ≠ [] ∧ i + xs.length ≤ vs.length ∧ cmpList ((vs.drop i).take xs.length) xs = .eq) ∧
    (indicesList vs xs).Pairwise (· < ·) :=
  ⟨fun _ => mem_indicesList, indicesList_increasing vs xs⟩

/-- `l - r` on arrays keeps, in order and with multiplicity, exactly the elements of `l` that
    compare equal to no element of `r`. -/
theorem array_sub_spec (l r : List JV) :
    (arraySub l r).Sublist l ∧ ∀ x, x ∈ arraySub l r ↔ x ∈ l ∧ ∀ y ∈ r, cmp x y ≠ .eq :=
  ⟨arraySub_sublist l r, fun _ => mem_arraySub⟩

/-- `keys` of an object lists its keys strictly increasing in the value order (which on strings is
    Go's bytewise `<`). -/
theorem keys_sorted (kvs : List (Bytes × JV)) (h : kvSorted kvs = true) :
    ∃ ks, keys (.obj kvs) = .ok (.arr ks) ∧ ks.Pairwise (fun a b => cmp a b = .lt) :=
  ⟨_, rfl, kvSorted_keys_pairwise kvs h⟩

/-- `[.[]]` on an object visits the values in the order of `keys`. -/
theorem iter_key_order (kvs : List (Bytes × JV)) :
    ∃ ks vs, keys (.obj kvs) = .ok (.arr ks) ∧ iterValues (.obj kvs) = .ok (.arr vs) ∧
      ks.zip vs = kvs.map (fun kv => (JV.str kv.1, kv.2)) := by
  refine ⟨_, _, rfl, rfl, ?_⟩
  induction kvs with
  | nil => rfl
  | cons kv rest ih => simp [ih]

example : kvSorted [([97], .null), ([97, 98], .null), ([98], .null)] = true := by decide
example : indicesList [.num (.int 1), .num (.flt 1), .num (.int 2)] [.num (.int 1)] = [0, 1] := by decide +kernel
example : (arraySub [.num (.int 1), .num (.int 2), .num (.flt 1)] [.num (.flt 1)] == [.num (.int 2)]) = true := by decide +kernel

end Gojq.C11

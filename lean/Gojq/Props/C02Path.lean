/-
  C02 — paths and update operators equal their defining reductions.
  This file: the GLOBAL path-tracking theorems about `Spec.eval` (Model/Spec.lean): for EVERY
  query, in every environment, at every fuel, the path the evaluator records is a real location
  of the root (A), hence every path `path(p)` emits leads — by `getpath` — to the value of the
  corresponding output of `p` (B), in the order of `p`'s outputs and as many (C).

  Coverage.  (A) is proved by induction on the fuel over ALL functions of the mutual evaluator and
  ALL syntactic forms — nothing is assumed: identity, `..`, literals, strings/interpolation/`@fmt`,
  `.k` `."k"` `.[q]` `.[a:b]` `.[]` and `?` on each, `(q)`, unary minus, `[q]`, `{…}` (incl. the
  `{k}` / `{$v}` / `{"k"}` short forms that navigate), `if`/`elif`, `try`/`catch`, `reduce`,
  `foreach`, `label`/`break`, `|`, `,`, `//`, `and`/`or`, arithmetic and comparison operators,
  `=`, `|=`, `op=`, `as`-bindings with array/object destructuring and `?//`, calls of `$variables`,
  closure parameters, local `def`s and jq-defined builtins (so `select`, `first`, `limit`,
  `recurse`, `paths`, `empty`, `error` … are covered through their definitions), and the special
  forms `path`, `getpath`, `_range`, `_last`, `setpath`, every other native.
  (Proofs/SpecPathInv.lean: `IH.all`; there is no `eval_path_inv_partial`.)

  What the statements say precisely — three things the model (and the code) force:
  * `nav`, not `getpath`, is the navigation that is always right: gojq indexes and slices STRINGS,
    `getpath` rejects them (known finding `path-through-string-index`).  `getpath` is obtained
    under `NoStringInside` (no proper prefix of the path leads to a string), and
    `string_index_path_is_not_a_getpath` shows the hypothesis cannot be dropped.
  * equality of values is up to the sign of a floating-point zero (`SameVal`): `pathIntact`
    compares float64 with Go's `==`, so a computed `-0.0` at a location holding `0.0` is "intact";
    `zero_sign_is_not_preserved` is the witness (also observed on the real code:
    `gojq -nc '[0.5-0.5] | [path(.[0] | -.)], [.[0] | -.], [getpath([0])]'` prints `[[0]]`, `[-0]`,
    `[0]`; jq 1.6 rejects it: "Invalid path expression with result -0").
  * "the corresponding output of `p`" is the output of the evaluation of `p` that `path(p)`
    performs (on `pathStart`, with tracking on).  It is NOT in general the output of `p` run
    without tracking: an invalid-path error caught by `try` makes the two runs differ
    (`tracked_run_is_not_the_untracked_run`, as in jq: `path(try ([1]|.[0]))` is empty).
  Hypothesis `Good` (objects have distinct keys, arrays are indexable by a Go `int`) holds of every
  value the implementation can build; `nice_is_good` gives a decidable sufficient condition.

  Helper definitions and lemmas: Proofs/SpecPath{Base,Nav,Comb,Unfold,Inv,Good,Sound,Examples}.lean.
-/
import Gojq.Proofs.SpecPathExamples
namespace Gojq.C02Path
open Gojq Gojq.Spec Gojq.C02

/-! ### (A) the invariant, for every query -/

/-- (A) THE PATH-TRACKING INVARIANT HOLDS OF EVERY OUTPUT OF EVERY QUERY.  Fix an interpretation
    `W` of the model's identities (`W.root` = the value the enclosing `path(…)` was started on,
    `W.ρ r` = the value root number `r` stands for), all of whose containers are `Good`.  If the
    environment's `$variables` carry truthful identities (`EnvOK`) and the input state does too
    and, when tracking is on, records a real location of the root (`Pre`), then every output `y`
    of `eval fuel cfg env q s` — any query, any fuel — again carries a truthful identity, and
    its tracking context (if any) records a path `c.path` with
    `nav W.root c.path = .ok w₀`, `w₀` equal to the recorded value `c.w` up to the sign of zero;
    and tracking is on in `y` exactly if it was on in `s` (`Post`). -/
theorem eval_path_inv (cfg : Cfg) (W : World) (hW : W.Good) (fuel : Nat) (env : Env) (q : Query) (s : St)
    (he : EnvOK W env) (hs : Pre W s) :
    ∀ y ∈ (eval fuel cfg env q s).outs, Post W s.ctx.isSome y :=
  (IH.all cfg hW fuel).eval env q s he hs

/-- (A), read with `getpath`: every output's recorded path, applied with `getpath` to the root,
    yields the recorded value (up to the sign of zero) — provided no proper prefix of the path
    leads to a string. -/
theorem eval_path_inv_getpath (cfg : Cfg) (W : World) (hW : W.Good) (fuel : Nat) (env : Env) (q : Query) (s : St)
    (he : EnvOK W env) (hs : Pre W s) :
    ∀ y ∈ (eval fuel cfg env q s).outs, ∀ c, y.ctx = some c → NoStringInside W.root c.path →
      ∃ w0, getpath W.root c.path = .ok w0 ∧ SameVal w0 c.w := by
  intro y hy c hc hns
  have hpost := eval_path_inv cfg W hW fuel env q s he hs y hy
  have hctx : CtxOK W (some c) := hc ▸ hpost.2.1
  obtain ⟨⟨w0, hw0, hsame⟩, _⟩ := hctx
  exact ⟨w0, getpath_of_nav _ _ _ hw0 hns, hsame⟩

/-- Tracking is never lost (nor gained) on the way: an output of a query run on a tracked state
    is tracked.  So `path(p)` never ends with the model's "tracking context lost" outcome. -/
theorem tracking_never_lost (cfg : Cfg) (W : World) (hW : W.Good) (fuel : Nat) (env : Env) (q : Query) (s : St)
    (he : EnvOK W env) (hs : Pre W s) :
    ∀ y ∈ (eval fuel cfg env q s).outs, y.ctx.isSome = s.ctx.isSome :=
  fun y hy => (eval_path_inv cfg W hW fuel env q s he hs y hy).2.2

/-! ### (B) `path(p)` is sound -/

/-- What `path(p)` is in the model (when no user definition shadows `path/1`): evaluate `p` on
    `pathStart` — the input with a fresh tracking context rooted at it — and for every output that
    is still the value last navigated to (`pathIntact`) emit the recorded path; the first output
    that is not ends the stream with an invalid-path error. -/
theorem path_is_tracked_run (fuel : Nat) (cfg : Cfg) (env : Env) (p : Query) (s : St)
    (h1 : lookupCall "path" 1 env.bs = .none) (h2 : cfg.builtins.find "path" 1 = none) :
    evalCall (fuel+1) cfg env "path" [p] s =
      (eval fuel cfg env p (pathStart fuel s)).bind fun x => pathEmit s x :=
  evalCall_path fuel cfg env p s h1 h2

/-- (B) `path(p)` IS SOUND, output by output.  The `i`-th output of `path(p)` on `s` is an array
    `q`; the `i`-th output `x` of the run of `p` that `path(p)` performs exists; and navigating
    `q` from the input `s.v` yields `x.v`, up to the sign of zero.
    (`W` interprets the identities: its root is the input, and the identity `path` gives the root
    is truthful — see `path_sound_input` for the instance needing no `W`.) -/
theorem path_sound (cfg : Cfg) (W : World) (hW : W.Good) (fuel : Nat) (env : Env) (p : Query) (s : St)
    (hroot : W.root = s.v) (he : EnvOK W env) (hid : IdOK W s.v (pathStart fuel s).id)
    (h1 : lookupCall "path" 1 env.bs = .none) (h2 : cfg.builtins.find "path" 1 = none) :
    ∀ (i : Nat) (y : St), (evalCall (fuel+1) cfg env "path" [p] s).outs[i]? = some y →
      ∃ x q w, (eval fuel cfg env p (pathStart fuel s)).outs[i]? = some x ∧
        y.v = .arr q ∧ nav s.v q = .ok w ∧ SameVal w x.v := by
  intro i y hy
  rw [evalCall_path fuel cfg env p s h1 h2] at hy
  obtain ⟨x, hx, ⟨c, hc, hint⟩, hv, _⟩ := bindList_pathEmit_get s _ _ i y hy
  have hpre : Pre W (pathStart fuel s) :=
    ⟨hid, ⟨s.v, by rw [hroot]; rfl, SameVal.rfl' _⟩, hid⟩
  have hpost := eval_path_inv cfg W hW fuel env p (pathStart fuel s) he hpre x (List.mem_of_getElem? hx)
  have hctx : CtxOK W (some c) := hc ▸ hpost.2.1
  obtain ⟨⟨w0, hw0, hsame⟩, hidc⟩ := hctx
  have hxc := pathIntact_same hpost.1 hidc hint
  refine ⟨x, c.path, w0, hx, ?_, hroot ▸ hw0, hsame.trans hxc.symm⟩
  rw [hv]; unfold pathOf; rw [hc]

/-- (B) for an input whose identity is a root identity or not known to the model (the program
    input `{ v := v, id := .known 0 [] }`, any freshly computed value): no interpretation has to
    be supplied. -/
theorem path_sound_input (cfg : Cfg) (fuel : Nat) (env : Env) (p : Query) (s : St)
    (hgood : Good s.v) (hsid : ∀ r q, s.id = .known r q → q = []) (he : EnvOK (worldOf s) env)
    (h1 : lookupCall "path" 1 env.bs = .none) (h2 : cfg.builtins.find "path" 1 = none) :
    ∀ (i : Nat) (y : St), (evalCall (fuel+1) cfg env "path" [p] s).outs[i]? = some y →
      ∃ x q w, (eval fuel cfg env p (pathStart fuel s)).outs[i]? = some x ∧
        y.v = .arr q ∧ nav s.v q = .ok w ∧ SameVal w x.v :=
  path_sound cfg (worldOf s) (worldOf_good hgood) fuel env p s rfl he (pathStart_pre fuel s hsid).1 h1 h2

/-- (B) for a `path(p)` call ANYWHERE inside a program: `W0` interprets the identities in scope
    (the `$variables` of the environment, closures included, and the input of the call carry
    truthful identities) and none of them uses the root number `fuel+1` that `path` gives a root
    whose identity the model does not know.  (Root numbers are fuel values and fuel decreases
    along every call chain, so the roots in scope at a call running at fuel `fuel+1` are `0` or
    larger than `fuel+1`; that reachability fact is not proved here, it is a hypothesis.) -/
theorem path_sound_anywhere (cfg : Cfg) (W0 : World) (hW0 : ∀ r, Good (W0.ρ r)) (fuel : Nat) (env : Env)
    (p : Query) (s : St) (hgood : Good s.v) (hs : IdOK W0 s.v s.id) (hsa : AvoidsRoot (fuel+1) s.id)
    (he : EnvAll (fun v id => IdOK W0 v id ∧ AvoidsRoot (fuel+1) id) env)
    (h1 : lookupCall "path" 1 env.bs = .none) (h2 : cfg.builtins.find "path" 1 = none) :
    ∀ (i : Nat) (y : St), (evalCall (fuel+1) cfg env "path" [p] s).outs[i]? = some y →
      ∃ x q w, (eval fuel cfg env p (pathStart fuel s)).outs[i]? = some x ∧
        y.v = .arr q ∧ nav s.v q = .ok w ∧ SameVal w x.v :=
  path_sound cfg (W0.reroot (fuel+1) s.v) (World.reroot_good hW0 _ hgood) fuel env p s rfl
    (EnvAll.toOK (fun _ _ h => h.1.reroot h.2) env he) (pathStart_id_reroot fuel s hs hsa) h1 h2

example : EnvAll (fun v id => IdOK (worldOf (inputSt inA)) v id ∧ AvoidsRoot (29+1) id) Env.empty
    ∧ AvoidsRoot (29+1) (inputSt inA).id ∧ IdOK (worldOf (inputSt inA)) (inputSt inA).v (inputSt inA).id := by
  refine ⟨EnvAll.empty _, ?_, ?_⟩
  · intro q h; cases h
  · intro r q h; cases h; exact ⟨inA, rfl, SameVal.rfl' _⟩

/-- (B) as the property states it, with `getpath`: every path `q` emitted by `path(p)` satisfies
    `s.v | getpath(q)` = the corresponding output of `p` (up to the sign of zero), provided no
    proper prefix of `q` leads to a string. -/
theorem path_sound_getpath (cfg : Cfg) (fuel : Nat) (env : Env) (p : Query) (s : St)
    (hgood : Good s.v) (hsid : ∀ r q, s.id = .known r q → q = []) (he : EnvOK (worldOf s) env)
    (h1 : lookupCall "path" 1 env.bs = .none) (h2 : cfg.builtins.find "path" 1 = none) :
    ∀ (i : Nat) (y : St), (evalCall (fuel+1) cfg env "path" [p] s).outs[i]? = some y →
      ∃ x q, (eval fuel cfg env p (pathStart fuel s)).outs[i]? = some x ∧ y.v = .arr q ∧
        (NoStringInside s.v q → ∃ w, getpath s.v q = .ok w ∧ SameVal w x.v) := by
  intro i y hy
  obtain ⟨x, q, w, hx, hv, hnav, hsame⟩ := path_sound_input cfg fuel env p s hgood hsid he h1 h2 i y hy
  exact ⟨x, q, hx, hv, fun hns => ⟨w, getpath_of_nav _ _ _ hnav hns, hsame⟩⟩

/-- The update operators only touch real locations: every path that `l |= f`, `l = x`, `l op= x`
    enumerate on the input `s.v` (`evalPaths`, i.e. the outputs of `path(l)`) can be navigated in
    `s.v`. -/
theorem update_paths_are_real (cfg : Cfg) (fuel : Nat) (env : Env) (l : Query) (s : St)
    (hgood : Good s.v) (hsid : ∀ r q, s.id = .known r q → q = []) (he : EnvOK (worldOf s) env)
    (h1 : lookupCall "path" 1 env.bs = .none) (h2 : cfg.builtins.find "path" 1 = none) :
    ∀ q ∈ (evalPaths (fuel+2) cfg env l s).1, ∃ w, nav s.v q = .ok w := by
  intro q hq
  obtain ⟨i, y, hy, rfl⟩ := evalPaths_mem (fuel+1) cfg env l s q hq
  obtain ⟨x, q', w, _, hv, hnav, _⟩ :=
    path_sound_input cfg fuel env l (withCtx none s) hgood hsid he h1 h2 i y hy
  rw [hv]
  exact ⟨w, hnav⟩

/-! ### (C) order and completeness -/

/-- (C) ORDER AND COUNT.  `path(p)` never has more outputs than `p` (its `i`-th output comes from
    `p`'s `i`-th: `path_sound`); if every output of `p` is intact (`Intact`: it is the value last
    navigated to) `path(p)` has exactly as many outputs as `p` and ends the way `p` ends — no output
    is dropped; and conversely, if `path(p)` ends normally then `p` ended normally, every output of
    `p` was intact and there are as many paths as outputs. -/
theorem paths_complete_order (fuel : Nat) (cfg : Cfg) (env : Env) (p : Query) (s : St)
    (h1 : lookupCall "path" 1 env.bs = .none) (h2 : cfg.builtins.find "path" 1 = none) :
    let rp := eval fuel cfg env p (pathStart fuel s)
    let r := evalCall (fuel+1) cfg env "path" [p] s
    r.outs.length ≤ rp.outs.length ∧
    ((∀ x ∈ rp.outs, Intact x) → r.outs.length = rp.outs.length ∧ r.stop = rp.stop) ∧
    (r.stop = .done → r.outs.length = rp.outs.length ∧ rp.stop = .done ∧ ∀ x ∈ rp.outs, Intact x) := by
  simp only
  rw [evalCall_path fuel cfg env p s h1 h2]
  exact bindList_pathEmit_length s _ _

/-! ### the hypotheses are satisfiable, and they are needed -/

/-- A decidable sufficient condition for `Good`: objects have strictly increasing keys and arrays
    are no longer than a Go `int` can index, everywhere in the value. -/
theorem nice_is_good (v : JV) (h : nice v = true) : Good v := good_of_nice h

/-- the hypotheses of (A)/(B)/(C) hold for the program input `{"a":[7,8]}` in the empty
    environment with the real builtins (non-vacuity of `eval_path_inv`, `eval_path_inv_getpath`,
    `tracking_never_lost`, `path_is_tracked_run`, `path_sound`, `path_sound_input`, `path_sound_anywhere`, `update_paths_are_real`,
    `path_sound_getpath`, `paths_complete_order`) -/
example : (worldOf (inputSt inA)).Good ∧ EnvOK (worldOf (inputSt inA)) .empty ∧ Pre (worldOf (inputSt inA)) (inputSt inA)
    ∧ (∀ r q, (inputSt inA).id = .known r q → q = [])
    ∧ lookupCall "path" 1 Env.empty.bs = .none ∧ cfgGo.builtins.find "path" 1 = none :=
  ⟨worldOf_good (good_of_nice (by decide +kernel)), EnvOK.empty _,
   ⟨fun r q h => by cases h; exact ⟨inA, rfl, SameVal.rfl' _⟩, True.intro⟩,
   fun r q h => by cases h; rfl, rfl, by decide +kernel⟩

example : nice inA = true := by decide +kernel

/-- `{"a":[7,8]} | path(.a[0])` is `["a",0]` (evaluated by the kernel on the model) -/
example : ((eval 30 cfgGo .empty (.call "path" [exA0]) (inputSt inA)).outs.map (·.v) ==
    [.arr [.str (B "a"), jvInt 0]]) = true := by decide +kernel

/-- `{"a":[7,8]} | path(..)` is `[]`, `["a"]`, `["a",0]`, `["a",1]` — through the jq-defined
    `recurse` of the real builtins (evaluated by the kernel on the model) -/
example : ((eval 60 cfgGo .empty (.call "path" [exRecurse]) (inputSt inA)).outs.map (·.v) ==
    [.arr [], .arr [.str (B "a")], .arr [.str (B "a"), jvInt 0], .arr [.str (B "a"), jvInt 1]]) = true := by
  decide +kernel

/-- `{"a":{"b":true}} | path(.a | select(.b))` is `["a"]` — `select` through its definition
    (evaluated by the kernel on the model) -/
example : ((eval 60 cfgGo .empty (.call "path" [exSelect]) (inputSt inAB)).outs.map (·.v) ==
    [.arr [.str (B "a")]]) = true := by decide +kernel

/-- The hypothesis `NoStringInside` of `path_sound_getpath` cannot be dropped (known finding
    `path-through-string-index`): `"abc" | path(.[0])` emits `[0]` — gojq indexes strings —
    but `"abc" | getpath([0])` is an error. -/
theorem string_index_path_is_not_a_getpath :
    ((eval 30 cfgGo .empty (.call "path" [exIdx0]) (inputSt (.str (B "abc")))).outs.map (·.v) == [.arr [jvInt 0]]) = true
    ∧ (getpath (.str (B "abc")) [jvInt 0]).toBool = false := by
  decide +kernel

/-- `SameVal` cannot be strengthened to equality: on the float input `0.0`, `path(-.)` emits the
    path `[]` although the output of `-.` is `-0.0` and `getpath([])` is `0.0` (Go's `==` on
    float64 in `pathIntact`; the real code does the same:
    `gojq -nc '(0.5-0.5) | [path(-.)], [-.], [getpath([])]'` prints `[[]]`, `[-0]`, `[0]`). -/
theorem zero_sign_is_not_preserved :
    ((eval 30 cfgGo .empty (.call "path" [exNeg]) (inputSt (.num (.flt 0)))).outs.map (·.v) == [.arr []]) = true
    ∧ ((eval 26 cfgGo .empty exNeg (pathStart 26 (inputSt (.num (.flt 0))))).outs.map (·.v) == [.num .nzero]) = true
    ∧ (match getpath (.num (.flt 0)) [] with | .ok w => w == .num (.flt 0) | .error _ => false) = true := by
  decide +kernel

/-- the stronger reading of "the corresponding output of `p`": the values of the tracked run of
    `p` (the one `path(p)` performs) are the values of `p` run without tracking -/
def tracked_run_is_untracked_run_statement : Prop :=
  ∀ (cfg : Cfg) (fuel : Nat) (env : Env) (p : Query) (s : St),
    (eval fuel cfg env p (pathStart fuel s)).outs.map (·.v) = (eval fuel cfg env p (withCtx none s)).outs.map (·.v)

/-- … which is FALSE, of jq's semantics itself: an invalid-path error is an error, `try` catches
    it.  `try ([1] | .[0])` emits `1`, but inside `path(…)` navigating from the constructed `[1]`
    is an invalid-path error, which the `try` swallows: `path(try ([1] | .[0]))` emits nothing.
    So `path(p)` agrees output by output with the run of `p` it performs (`path_sound`), not with
    an independent run of `p`. -/
theorem tracked_run_is_not_the_untracked_run : ¬ tracked_run_is_untracked_run_statement := by
  intro h
  have := congrArg List.length (h cfgGo 30 .empty exTry (inputSt .null))
  revert this
  decide +kernel

end Gojq.C02Path

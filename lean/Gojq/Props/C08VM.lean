/-
  C08 — no query text or input can crash the library: the bytecode interpreter, by a
  proof-carrying-code argument over the interpreter model of C07 (Model/VM.lean, the transliteration
  of `(*env).Next` in which every Go panic site is an explicit outcome `.panic site`).

  `safeCheck : Array VM.Instr → Bool` (Model/SafeVM.lean) is a decidable static checker: an abstract
  interpretation that annotates every reachable pc with a lower bound on the number of data-stack
  entries the current function activation owns (and whether a fork is certainly pending), and
  verifies the annotation locally.  In prose, the verifier accepts a code when
    * pc 0 is a `scope` without closure parameters and the last instruction is `ret`;
    * every `scope` is annotated with its entry height (closure arguments + input; the main program
      also owns the variable values `execute` pushed), its slot count is non-negative and agrees
      with the first `scope` of the same id;
    * at every annotated pc the instruction never pops below the activation's own entries
      (`pop`/`dup`/`const`/`store`/`append`/`jumpifnot`/`index`/`iter`/`pathbegin`/`forktrybegin`
      need 1, `callpc`/`pathend` need 2, `object n` needs 2n, a native call needs argc + 1 with
      0 ≤ argc ≤ 32 and enough arguments for its path-tracking tail, `call t` needs the entry
      height of `t`, `callrec t` exactly that, `ret` exactly 1), `forklabel` owns an entry or runs
      under a pending fork, every variable operand `[id, i]` names a slot of an existing scope,
      `call`/`callrec`/`pushpc` operands are `scope` instructions (`pushpc`: without parameters),
      and the operand is of the right Go type (no `bad` instruction);
    * every successor in the same activation — fall-through, jump target, and the target a fork-like
      instruction continues at when it is backtracked into — lies inside the code, is not a `scope`
      (function entries are entered by call / callrec / callpc only), and is annotated with a state
      that relies on no more than the instruction produces.
  THEOREM (T) `vm_total_wf_partial`: if `safeCheck` accepts the code then, from `execute`'s initial
  state, for every input, every context (cancelled at any poll or never), every sequence of native
  answers that contains no closure and no empty `[]pathValue` (`ExtClean`), every fuel and every
  number of `Next` calls, no call ends in a panic at one of the TWELVE covered sites
    stackPop, scopesPop, scopesData, valuesIndex, argsSlice, xsIndex, uncomparable, codesIndex, badOp,
    pathsPop, assertPathValue, assertInt
  as long as the calls before it ended properly (value, error, `(nil, false)`, context error).
  For the three sites of the paths stack the checker also tracks the number of `pathbegin`s an
  activation has open (`pathend` needs one; the paths stack is then a sequence of segments: path
  entries over the marker `pathValue{nil, v}` over the saved `expdepth`), requires the constant key
  of `opindex` to be non-nil, and the theorem ASSUMES of the natives what `KeysOK` says: at every
  turn of the run, `_index(x; k)` answers a value only for a non-null `k`, and `getpath(p)` only for
  an array `p` without null (both raise `expected … but got: null` otherwise) — a nil path pushed
  in path-tracking mode would be taken for the marker.
  NOT covered (the full statement is `vm_total_wf_statement`): `envIndex`, `assertClosure`,
  `assertArray` — they need a flow-sensitive kind discipline for variable slots across backtracking
  (`_assign`/`_modify` re-use one slot for a closure and then a value), liveness of the frame a
  closure points at, and the static scope chains.
  TIE (V): `safe_check_on_dump` — the `safe` stream of the C04 check runs `safeCheckView` (this very
  checker, on the dumped instruction syntax) on every real program: the code with no whole-code pass,
  with the tail-call pass only, and fully optimised (≈ 434 k instruction lists per quick run, the
  builtin.jq functions and the hand-written `_assign`/`_modify`/`_last` bytecode included); all accepted.
-/
import Gojq.Proofs.SafeVMRun
import Gojq.Proofs.SafeVMDump
namespace Gojq.C08VM
open Gojq Gojq.VM Gojq.SafeVM

/-- the recorded native answers never contain a closure (`[2]int`) or an empty `[]pathValue`:
    natives, `funcIndex2` and Go iterators return JSON values, iterators, opaque tokens, and errors
    carrying such values -/
def ExtClean (ext : Nat → ExtRec) : Prop := ∀ k, ExtOK (ext k)

/-- the panic sites the theorems below cover -/
theorem covered_sites :
    [Site.stackPop, .pathsPop, .scopesPop, .scopesData, .envIndex, .valuesIndex, .assertArray, .assertClosure,
      .assertPathValue, .assertInt, .argsSlice, .xsIndex, .uncomparable, .codesIndex, .badOp].filter covered =
    [.stackPop, .pathsPop, .scopesPop, .scopesData, .valuesIndex, .assertPathValue, .assertInt, .argsSlice,
      .xsIndex, .uncomparable, .codesIndex, .badOp] := by
  decide

/-- The check that the `safe` stream runs on a dumped instruction list is the check on the
    interpreter code it was dumped from. -/
theorem safe_check_on_dump (c : Array Instr) : safeCheckView (c.map viewS) = safeCheck c :=
  safeCheckView_view c

/-- … also for programs compiled with variables. -/
theorem safe_check_on_dump_vars (nvars : Nat) (c : Array Instr) :
    safeCheckViewN nvars (c.map viewS) = safeCheckN nvars c :=
  safeCheckViewN_view nvars c

/-- Acceptance means that SOME annotation passes the local verifier (the inferred one); soundness
    only uses the verifier. -/
theorem accepted_code_has_verified_annotation (nvars : Nat) (c : Array Instr) (h : safeCheckN nvars c = true) :
    ∃ ann, verify (c.map shape) nvars ann = true :=
  ⟨infer (c.map shape) nvars, h⟩

/-- the static context of an accepted code -/
def ctxOf (nvars : Nat) (c : Array Instr) : SC := ⟨c.map shape, nvars, infer (c.map shape) nvars⟩

/-- ONE INSTRUCTION.  For a verified code, every opcode run from a state that satisfies the
    invariant `Inv` (the data stack is split among the pending activations as the annotation says,
    every pending fork restores such a state, every closure anywhere points at a checked function
    entry, every frame's slots lie inside `values`) either yields a state that satisfies it again,
    or panics at an UNCOVERED site, or leaves the model (`stuck`). -/
theorem every_opcode_keeps_invariant (nvars : Nat) (c : Array Instr) (h : safeCheckN nvars c = true)
    (ins : Instr) (x : ExtRec) (hx : ExtOK x) (l : L) (e : Env) (hk : keyOK ins (stackList e.stack) x)
    (hc : codeAt (ctxOf nvars c) l.pc = some (shape ins)) (hI : Inv (ctxOf nvars c) l e) :
    match exec ins x l e with
    | .ok r e' => Post (ctxOf nvars c) r e'
    | .panic site => covered site = false
    | .stuck _ => True := by
  have := exec_post (checked_of_verify (S := ctxOf nvars c) h) ins hx hk hc hI
  unfold WP at this
  cases hex : exec ins x l e <;> rw [hex] at this <;> exact this

/-- ONE CALL of `Next` from a state between calls (reached from `s0` by calls that ended properly):
    it does not end in a covered panic, and if it ends properly the state it leaves is again such a
    state. -/
theorem every_call_keeps_invariant (nvars : Nat) (P : Params) (h : safeCheckN nvars P.code = true)
    (hext : ExtClean P.ext) (s0 : St) (hkeys : KeysOK P s0) (fuel : Nat) (s : St)
    (hR : Reach P s0 (entry P s) s) (hB : Between (ctxOf nvars P.code) P s) :
    NoCov (next P fuel s).1 ∧ (Proper (next P fuel s).1 →
      Between (ctxOf nvars P.code) P (next P fuel s).2 ∧ Reach P s0 (entry P (next P fuel s).2) (next P fuel s).2) :=
  next_inv (checked_of_verify (S := ctxOf nvars P.code) h) rfl hext hkeys fuel s hR hB

theorem SafeHist.get : ∀ {hs : List Outcome}, SafeHist hs → ∀ (k : Nat) (hk : k < hs.length),
    (∀ (j : Nat) (hj : j < k), Proper (hs[j]'(Nat.lt_trans hj hk))) → NoCov hs[k]
  | [], _, k, hk, _ => by simp at hk
  | o :: rest, h, 0, _, _ => h.1
  | o :: rest, h, k + 1, hk, hp => by
    have h0 : Proper o := hp 0 (Nat.succ_pos k)
    have := SafeHist.get (h.2 h0) k (by simpa using hk) (fun j hj => by
      have := hp (j + 1) (by omega)
      simpa using this)
    simpa using this

/-- (T) WHOLE RUNS.  If the checker accepts the code of `P` (compiled with `nvars` variables) then
    from `execute`'s initial state on any input and variable values (free of closures), under ANY
    context `P.cancelled` and any clean oracle of native answers `P.ext` that respects null keys
    (`KeysOK`), for every fuel and every number `n` of successive `Next` calls: the `k`-th call does not end in a panic at a covered site,
    provided the calls before it ended properly (value / error / `(nil, false)` / context error —
    after a panic at an uncovered site, a gap of the model or its loop bound nothing is claimed). -/
theorem vm_total_wf_partial (nvars : Nat) (P : Params) (h : safeCheckN nvars P.code = true)
    (hext : ExtClean P.ext) (input : V) (vars : List V) (hi : vpure input = true)
    (hv : ∀ v ∈ vars, vpure v = true) (hn : vars.length = nvars) (hkeys : KeysOK P (initSt input vars))
    (fuel n : Nat)
    (k : Nat) (hk : k < (history P fuel n (initSt input vars)).length)
    (hprev : ∀ (j : Nat) (hj : j < k), Proper ((history P fuel n (initSt input vars))[j]'(Nat.lt_trans hj hk)))
    (site : Site) (hs : covered site = true) :
    (history P fuel n (initSt input vars))[k] ≠ .panic site := by
  have C := checked_of_verify (S := ctxOf nvars P.code) h
  have hB := between_init C (P := P) rfl input vars hi hv hn
  have hS := history_safe C (P := P) rfl hext hkeys fuel n _ Reach.init hB
  have := SafeHist.get hS k hk hprev
  intro heq
  rw [heq] at this
  simp only [NoCov] at this
  rw [hs] at this
  cases this

/-- … in particular the FIRST call never ends in a covered panic, for programs without variables
    run on a JSON input. -/
theorem first_call_no_covered_panic (P : Params) (h : safeCheck P.code = true) (hext : ExtClean P.ext)
    (input : JV) (hkeys : KeysOK P (initSt (.jv input) [])) (fuel : Nat) (site : Site) (hs : covered site = true) :
    (next P fuel (initSt (.jv input) [])).1 ≠ .panic site := by
  have := vm_total_wf_partial 0 P h hext (.jv input) [] rfl (fun v hv => by simp at hv) rfl hkeys fuel 1 0
    (by simp [history]) (fun j hj => by omega) site hs
  simpa [history] using this

/-- THE FULL STATEMENT (not proved): the same for EVERY panic site.  Open: `envIndex`,
    `assertClosure`, `assertArray` (see the header). -/
def vm_total_wf_statement : Prop :=
  ∀ (nvars : Nat) (P : Params), safeCheckN nvars P.code = true → ExtClean P.ext →
  ∀ (input : V) (vars : List V), vpure input = true → (∀ v ∈ vars, vpure v = true) → vars.length = nvars →
  KeysOK P (initSt input vars) →
  ∀ (fuel n k : Nat) (hk : k < (history P fuel n (initSt input vars)).length),
    (∀ (j : Nat) (hj : j < k), Proper ((history P fuel n (initSt input vars))[j]'(Nat.lt_trans hj hk))) →
    ∀ site, (history P fuel n (initSt input vars))[k] ≠ .panic site

/-- answers that are JSON values, iterator handles, opaque tokens, iterator ends, or errors
    carrying a JSON value or a message are clean -/
theorem json_answers_clean (ext : Nat → ExtRec)
    (h : ∀ k, match (ext k).call with
      | some (.val (.jv _)) | some (.val (.iter _)) | some (.val .tok) | some (.val .emptyIter) => True
      | some (.err (.value (.jv _))) | some (.err (.halt (.jv _))) | some (.err (.brk _ (.jv _))) => True
      | some (.err (.msg _)) | some .iterEnd | none => True
      | _ => False) : ExtClean ext := by
  intro k
  have := h k
  unfold ExtOK
  split at this <;> simp_all [vpure, epure]

/-- `KeysOK` holds for every oracle when the code calls neither `_index` nor `getpath` (constant
    keys are compiled to `opindex`, whose key the checker requires to be non-nil) … -/
theorem keysOK_of_no_key_natives (P : Params) (s0 : St)
    (h : ∀ ins ∈ P.code.toList, ∀ n, ins ≠ .callNative .index n ∧ ins ≠ .callNative .getpath n) : KeysOK P s0 := by
  intro l s _
  have hmem : P.code.getD l.pc.toNat .bad = .bad ∨ P.code.getD l.pc.toNat .bad ∈ P.code.toList := by
    unfold Array.getD
    split
    · right; simp
    · left; rfl
  unfold keyOK
  split
  · rename_i n w hins _
    rcases hmem with hm | hm
    · rw [hm] at hins; cases hins
    · exact absurd hins (h _ hm n).1
  · rename_i n w hins _
    rcases hmem with hm | hm
    · rw [hm] at hins; cases hins
    · exact absurd hins (h _ hm n).2
  · trivial

/-- … and for every code when the oracle never answers a value (e.g. no native call is made) -/
theorem keysOK_of_no_values (P : Params) (s0 : St) (h : ∀ k w, (P.ext k).call ≠ some (.val w)) : KeysOK P s0 := by
  intro l s _
  unfold keyOK
  split
  · rename_i hc; exact absurd hc (h _ _)
  · rename_i hc; exact absurd hc (h _ _)
  · trivial

/-! ### non-vacuity: real bytecode (dumped from the real compiler; constants replaced by `null`,
    which the checker does not read) -/

/-- `.[]` -/
def codeIter : Array Instr := #[.scope 1 0 0, .iter, .ret]
/-- `.a as $x | $x` -/
def codeAs : Array Instr :=
  #[.scope 1 1 0, .dup, .expbegin, .index (.str [97]), .store 1 0, .expend, .pop, .load 1 0, .ret]
/-- `def f: 1; f` -/
def codeCall : Array Instr := #[.scope 1 0 0, .jump 5, .scope 2 0 0, .const .null, .ret, .call 2, .ret]
/-- `reduce .[] as $x (0; . + $x)` -/
def codeReduce : Array Instr :=
  #[.scope 1 3 0, .nop, .push .null, .store 1 0, .fork 22, .iter, .store 1 1, .load 1 0, .store 1 2, .jump 14,
    .scope 2 0 0, .pop, .load 1 1, .ret, .load 1 2, .pushpc 10, .callpc, .load 1 2, .load 1 2,
    .callNative .other 2, .store 1 0, .backtrack, .pop, .load 1 0, .ret]
/-- `label $l | 1, break $l` -/
def codeLabel : Array Instr :=
  #[.scope 1 1 0, .forklabel 1 0, .fork 5, .const .null, .jump 8, .pop, .load 1 0, .callNative .other 0, .ret]
/-- `try error catch .` -/
def codeTry : Array Instr := #[.scope 1 0 0, .forktrybegin 5, .callNative .other 0, .forktryend, .nop, .ret]
/-- `path(.a)` -/
def codePath : Array Instr :=
  #[.scope 1 1 0, .pathbegin, .store 1 0, .load 1 0, .index (.str [97]), .load 1 0, .pathend, .ret]
/-- `def f(g): g | g; f(.[])` — closures -/
def codeClosure : Array Instr :=
  #[.scope 1 1 0, .jump 11, .scope 2 2 1, .store 2 0, .store 2 1, .load 2 0, .load 2 1, .callpc, .load 2 1, .callpc,
    .ret, .store 1 0, .jump 16, .scope 3 0 0, .iter, .ret, .pushpc 13, .load 1 0, .call 2, .ret]
/-- `.a |= . + 1` — includes the hand-written `_modify` (a `forklabel` owning no entry, and the
    `load; call _break` whose fall-through joins with one more entry) -/
def codeModify : Array Instr :=
  #[.scope 1 1 0, .jump 50, .scope 2 6 2, .store 2 0, .store 2 1, .store 2 2, .push .null, .store 2 3, .push .null,
    .callNative .other 0, .store 2 4, .load 2 0, .fork 44, .pathbegin, .load 2 1, .callpc, .load 2 0, .pathend,
    .store 2 1, .forklabel 2 5, .load 2 0, .fork 41, .pop, .expbegin, .load 2 4, .load 2 0, .load 2 1, .load 2 4,
    .load 2 1, .load 2 0, .callNative .getpath 2, .load 2 2, .callpc, .expend, .callNative .other 3, .store 2 0,
    .load 2 0, .fork 39, .jump 43, .load 2 5, .callNative .other 0, .load 2 1, .append 2 3, .backtrack, .pop,
    .load 2 4, .load 2 3, .load 2 0, .callNative .other 2, .ret, .store 1 0, .jump 59, .scope 3 1 0, .store 3 0,
    .push .null, .load 3 0, .load 3 0, .callNative .other 2, .ret, .pushpc 52, .jump 64, .scope 6 0 0, .index (.str [97]),
    .ret, .pushpc 61, .load 1 0, .call 2, .ret]

-- the checker accepts them …
example : safeCheck codeIter = true ∧ safeCheck codeAs = true ∧ safeCheck codeCall = true ∧
    safeCheck codeReduce = true ∧ safeCheck codeLabel = true ∧ safeCheck codeTry = true ∧
    safeCheck codePath = true ∧ safeCheck codeClosure = true := by decide +kernel
example : safeCheck codeModify = true := by decide +kernel
-- … on the dump as well (`safe_check_on_dump`, re-checked by evaluation)
example : safeCheckView (codeReduce.map viewS) = true := by decide +kernel

def noExt : Nat → ExtRec := fun _ => {}
theorem noExt_clean : ExtClean noExt := fun _ => trivial
def never : Nat → Bool := fun _ => false

-- the theorem applies: `.[]` on `[1, 2]`, any number of calls (here the hypotheses are all
-- discharged; the run itself: two values, then `(nil, false)` forever)
def oTag : Outcome → Nat
  | .value _ => 0 | .error _ => 1 | .done => 2 | .ctxErr => 3 | .panic _ => 4 | .stuck _ => 5 | .outOfFuel => 6
def arr12 : JV := .arr [.num (.int 1), .num (.int 2)]
example : (history ⟨codeIter, never, noExt⟩ 50 4 (initSt (.jv arr12) [])).map oTag = [0, 0, 2, 2] := by decide +kernel
example (fuel n k : Nat) (hk : k < (history ⟨codeIter, never, noExt⟩ fuel n (initSt (.jv arr12) [])).length)
    (hprev : ∀ (j : Nat) (hj : j < k),
      Proper ((history ⟨codeIter, never, noExt⟩ fuel n (initSt (.jv arr12) []))[j]'(Nat.lt_trans hj hk))) :
    (history ⟨codeIter, never, noExt⟩ fuel n (initSt (.jv arr12) []))[k] ≠ .panic .stackPop :=
  vm_total_wf_partial 0 ⟨codeIter, never, noExt⟩ (by decide +kernel) noExt_clean (.jv arr12) [] rfl
    (fun v hv => by simp at hv) rfl (keysOK_of_no_values _ _ (fun k w h => by simp [noExt] at h)) fuel n k hk hprev
    .stackPop rfl

/-! ### the checker rejects what panics: witnesses -/

/-- one `pop` too many: rejected, and it does panic with `index out of range [-1]` -/
def codeUnderflow : Array Instr := #[.scope 1 0 0, .pop, .pop, .ret]
theorem underflow_rejected_and_panics :
    safeCheck codeUnderflow = false ∧
    oTag (next ⟨codeUnderflow, never, noExt⟩ 50 (initSt (.jv .null) [])).1 = 4 := by decide +kernel

/-- a variable operand outside its scope's slots: rejected, and `env.values[i]` panics (the scope has
    0 slots and `values` is empty) -/
def codeBadSlot : Array Instr := #[.scope 1 0 0, .load 1 3, .ret]
theorem bad_slot_rejected_and_panics :
    safeCheck codeBadSlot = false ∧
    oTag (next ⟨codeBadSlot, never, noExt⟩ 50 (initSt (.jv .null) [])).1 = 4 := by decide +kernel

/-- `pathend` without an open `pathbegin`: rejected, and `env.paths.top()` panics on the empty paths stack -/
def codePathendAlone : Array Instr := #[.scope 1 0 0, .dup, .pathend, .ret]
theorem pathend_alone_rejected_and_panics :
    safeCheck codePathendAlone = false ∧
    oTag (next ⟨codePathendAlone, never, noExt⟩ 50 (initSt (.jv .null) [])).1 = 4 := by decide +kernel

/-- an `opindex` with a nil key (never emitted: constant keys are strings and integers) is rejected:
    in path-tracking mode it would push a second marker -/
def codeNilKey : Array Instr := #[.scope 1 0 0, .index .null, .ret]
example : safeCheck codeNilKey = false := by decide +kernel

/-- a jump into a function body (a `scope` reached without a call): rejected -/
def codeJumpIntoEntry : Array Instr := #[.scope 1 0 0, .jump 2, .scope 2 0 0, .ret]
example : safeCheck codeJumpIntoEntry = false := by decide +kernel

/-- the repaired defect D1 (`1 + (label $l | .)`: `forklabel` with the variable of ANOTHER scope, which
    has no slots) has a shape the checker rejects: a variable operand naming a scope id that no
    `scope` instruction declares -/
def codeForeignLabel : Array Instr := #[.scope 1 0 0, .forklabel 7 0, .ret]
example : safeCheck codeForeignLabel = false := by decide +kernel

end Gojq.C08VM

/-
  C08 — no query text or input can crash the library: the bytecode interpreter, by a
  proof-carrying-code argument over the interpreter model of C07 (Model/VM.lean, the transliteration
  of `(*env).Next` in which every Go panic site is an explicit outcome `.panic site`).

  `safeCheck : Array VM.Instr → Bool` (Model/SafeVM.lean + Model/SafeVM2.lean) is a decidable static
  checker: two abstract interpretations that INFER an annotation of the code and then VERIFY it
  locally (only the verifiers `verify`, `verify2` matter for soundness).

  LAYER 1 (heights).  Per reachable pc: a lower bound on the number of data-stack entries the
  current function activation owns, whether a fork is certainly pending, and how many `pathbegin`s
  the activation has open.  The verifier accepts a code when
    * pc 0 is a `scope` without closure parameters and the last instruction is `ret`;
    * every `scope` is annotated with its entry height (closure arguments + input; the main program
      also owns the variable values `execute` pushed), its slot count is non-negative and agrees
      with the first `scope` of the same id;
    * at every annotated pc the instruction never pops below the activation's own entries
      (`pop`/`dup`/`const`/`store`/`append`/`jumpifnot`/`index`/`iter`/`pathbegin`/`forktrybegin`
      need 1, `callpc`/`pathend` need 2, `object n` needs 2n, a native call needs argc + 1 with
      0 ≤ argc ≤ 32 and enough arguments for its path-tracking tail, `call t` needs the entry
      height of `t`, `callrec t` exactly that, `ret` exactly 1), `forklabel` owns an entry or runs
      under a pending fork, every variable operand `[id, i]` names a slot of an existing scope,
      `call`/`callrec`/`pushpc` operands are `scope` instructions (`pushpc`: without parameters),
      `pathend` has an open `pathbegin`, the constant key of `opindex` is not nil, and the operand
      is of the right Go type (no `bad` instruction);
    * every successor in the same activation — fall-through, jump target, and the target a fork-like
      instruction continues at when it is backtracked into — lies inside the code, is not a `scope`
      (function entries are entered by call / callrec / callpc only), and is annotated with a state
      that relies on no more than the instruction produces.
  LAYER 2 (frames, closures, kinds).  Per pc: the function the pc belongs to, the KINDS of the top
  data-stack entries and of the current frame's variable slots (`clo` a closure made by a caller,
  `cloL` a closure made by this frame, `arr` an array, `any`).  Per function, certificates: `avail`
  (scope ids certainly on the static chain of a frame of that function), `assume` (variables of outer
  scopes the function loads expecting a kind) and `stab` (the one kind every `store` to a variable
  stores).  The verifier accepts when scope ids are unique, the main program assumes nothing, and
    * `load [id, i]`: `id` is available in the function (⇒ no `env.index` panic);
      `store`/`append`/`forklabel` only address the function's OWN frame;
    * `callpc` pops a `clo`/`cloL` (⇒ `.([2]int)` holds); `append` needs slot kind `arr` (⇒ `.([]any)`
      holds; only `push [...]` produces `arr`);
    * `pushpc t` / `call t`: the target is another function, everything it has available or assumes
      is available / holds here (`capOK`), `call`'s arguments are closures; `callrec t` targets the
      function itself (no parameters);
    * values are not restored on backtracking and callees can be re-entered later, so when control
      RESUMES in a frame (a call returns, a fork is backtracked into) a slot keeps its kind only if
      it is the slot's stable kind, and nothing is claimed about the data stack.
  THEOREM (T) `vm_total_wf`: if `safeCheck` accepts the code then, from `execute`'s initial state, for
  every input, every context (cancelled at any poll or never), every sequence of native answers that
  contains no closure and no empty `[]pathValue` (`ExtClean`) and respects null keys (`KeysOK`, below),
  every fuel and every number of `Next` calls, no call ends in a panic at ANY of the FIFTEEN sites
    stackPop, scopesPop, scopesData, valuesIndex, argsSlice, xsIndex, uncomparable, codesIndex, badOp,
    pathsPop, assertPathValue, assertInt                                       (layer 1)
    envIndex, assertClosure, assertArray                                       (layer 2)
  as long as the calls before it ended properly (value, error, `(nil, false)`, context error).
  `vm_total_wf_partial` is the same for the twelve layer-1 sites from the layer-1 check alone.
  ASSUMED of the natives (`KeysOK`): at every turn of the run, `_index(x; k)` answers a value only
  for a non-null `k`, and `getpath(p)` only for an array `p` without null (both raise
  `expected … but got: null` otherwise) — in path-tracking mode a nil path would be taken for the
  marker `pathValue{nil, v}` of `pathbegin`, and a non-array path would fail `.([]any)`.
  TIE (V): `safe_check_on_dump` — the `safe` stream of the C04 check runs `safeCheckView` (this very
  checker, on the dumped instruction syntax) on every real program: the code with no whole-code pass,
  with the tail-call pass only, and fully optimised (≈ 434 k instruction lists per quick run, the
  builtin.jq functions and the hand-written `_assign`/`_modify`/`_last` bytecode included); all accepted.
-/
import Gojq.Proofs.SafeVM2Run
import Gojq.Proofs.SafeVMDump
namespace Gojq.C08VM
open Gojq Gojq.VM Gojq.SafeVM

/-- the recorded native answers never contain a closure (`[2]int`) or an empty `[]pathValue`:
    natives, `funcIndex2` and Go iterators return JSON values, iterators, opaque tokens, and errors
    carrying such values -/
def ExtClean (ext : Nat → ExtRec) : Prop := ∀ k, ExtOK (ext k)

/-- every panic site of the interpreter model is covered by one of the two layers … -/
theorem covered_sites : ∀ s : Site, (covered s || covered2 s) = true := by
  intro s; cases s <;> rfl

/-- … layer 2 covers exactly these three (layer 1 the other twelve) -/
theorem covered_sites_layer2 :
    [Site.stackPop, .pathsPop, .scopesPop, .scopesData, .envIndex, .valuesIndex, .assertArray, .assertClosure,
      .assertPathValue, .assertInt, .argsSlice, .xsIndex, .uncomparable, .codesIndex, .badOp].filter covered2 =
    [.envIndex, .assertArray, .assertClosure] := by
  decide

/-- The check that the `safe` stream runs on a dumped instruction list is the check on the
    interpreter code it was dumped from. -/
theorem safe_check_on_dump (c : Array Instr) : safeCheckView (c.map viewS) = safeCheck c :=
  safeCheckView_view c

/-- … also for programs compiled with variables. -/
theorem safe_check_on_dump_vars (nvars : Nat) (c : Array Instr) :
    safeCheckViewN nvars (c.map viewS) = safeCheckN nvars c :=
  safeCheckViewN_view nvars c

theorem layer1 {nvars : Nat} {c : Array Instr} (h : safeCheckN nvars c = true) :
    checkShapes (c.map shape) nvars = true := by
  unfold safeCheckN at h
  simp only [Bool.and_eq_true] at h
  exact h.1

theorem layer2 {nvars : Nat} {c : Array Instr} (h : safeCheckN nvars c = true) :
    checkShapes2 (c.map shape) = true := by
  unfold safeCheckN at h
  simp only [Bool.and_eq_true] at h
  exact h.2

/-- Acceptance means that SOME annotation and SOME certificate pass the local verifiers (the
    inferred ones); soundness only uses the verifiers. -/
theorem accepted_code_has_verified_annotation (nvars : Nat) (c : Array Instr) (h : safeCheckN nvars c = true) :
    (∃ ann, verify (c.map shape) nvars ann = true) ∧ (∃ Ct, verify2 (c.map shape) Ct = true) :=
  ⟨⟨infer (c.map shape) nvars, layer1 h⟩, ⟨inferCert (c.map shape), layer2 h⟩⟩

/-- the static context of an accepted code -/
def ctxOf (nvars : Nat) (c : Array Instr) : SC := ⟨c.map shape, nvars, infer (c.map shape) nvars⟩
/-- … and its layer-2 certificate -/
def certOf (c : Array Instr) : Cert := inferCert (c.map shape)

theorem checked1 {nvars : Nat} {c : Array Instr} (h : safeCheckN nvars c = true) : Checked (ctxOf nvars c) :=
  checked_of_verify (S := ctxOf nvars c) (layer1 h)

theorem checked2 {nvars : Nat} {c : Array Instr} (h : safeCheckN nvars c = true) :
    Checked2 (ctxOf nvars c) (certOf c) :=
  checked2_of_verify (S := ctxOf nvars c) (Ct := certOf c) (layer2 h)

/-- ONE INSTRUCTION, layer 1.  For a verified code, every opcode run from a state that satisfies the
    invariant `Inv` (the data stack is split among the pending activations as the annotation says,
    every pending fork restores such a state, every closure anywhere points at a checked function
    entry, every frame's slots lie inside `values`, the paths stack is a sequence of segments) either
    yields a state that satisfies it again, or panics at a site of layer 2, or leaves the model
    (`stuck`). -/
theorem every_opcode_keeps_invariant (nvars : Nat) (c : Array Instr) (h : safeCheckN nvars c = true)
    (ins : Instr) (x : ExtRec) (hx : ExtOK x) (l : L) (e : Env) (hk : keyOK ins (stackList e.stack) x)
    (hc : codeAt (ctxOf nvars c) l.pc = some (shape ins)) (hI : Inv (ctxOf nvars c) l e) :
    match exec ins x l e with
    | .ok r e' => Post (ctxOf nvars c) r e'
    | .panic site => covered site = false
    | .stuck _ => True := by
  have := exec_post (checked1 h) ins hx hk hc hI
  unfold WP at this
  cases hex : exec ins x l e <;> rw [hex] at this <;> exact this

/-- ONE INSTRUCTION, layer 2.  From a state that also satisfies `Inv2` (every frame's static chain
    contains the scopes its function has available, the variables a function assumes hold their
    stable kind, the kinds annotated for the top of the stack and the current frame's slots hold,
    every suspended frame and pending fork resumes in such a state) every opcode yields such a state
    again and does not panic at `envIndex`, `assertClosure`, `assertArray`. -/
theorem every_opcode_keeps_kinds (nvars : Nat) (c : Array Instr) (h : safeCheckN nvars c = true)
    (ins : Instr) (x : ExtRec) (hx : ExtOK x) (l : L) (e : Env) (hk : keyOK ins (stackList e.stack) x)
    (hc : codeAt (ctxOf nvars c) l.pc = some (shape ins)) (hI : Inv (ctxOf nvars c) l e)
    (hI2 : Inv2 (ctxOf nvars c) (certOf c) l e) :
    match exec ins x l e with
    | .ok r e' => Post2 (ctxOf nvars c) (certOf c) r e'
    | .panic site => covered2 site = false
    | .stuck _ => True := by
  have := exec2_post (checked1 h) (checked2 h) ins hx hk hc hI hI2
  unfold WP2 at this
  cases hex : exec ins x l e <;> rw [hex] at this <;> exact this

/-- ONE CALL of `Next` from a state between calls (reached from `s0` by calls that ended properly):
    it does not end in a panic, and if it ends properly the state it leaves is again such a state. -/
theorem every_call_keeps_invariant (nvars : Nat) (P : Params) (h : safeCheckN nvars P.code = true)
    (hext : ExtClean P.ext) (s0 : St) (hkeys : KeysOK P s0) (fuel : Nat) (s : St)
    (hR : Reach P s0 (entry P s) s) (hB : Between (ctxOf nvars P.code) P s)
    (hB2 : Between2 (ctxOf nvars P.code) (certOf P.code) P s) :
    NoPanic (next P fuel s).1 ∧ (Proper (next P fuel s).1 →
      Between (ctxOf nvars P.code) P (next P fuel s).2 ∧
      Between2 (ctxOf nvars P.code) (certOf P.code) P (next P fuel s).2 ∧
      Reach P s0 (entry P (next P fuel s).2) (next P fuel s).2) :=
  loop12_inv (checked1 h) (checked2 h) rfl hext hkeys fuel _ s hR hB hB2

theorem SafeHist.get : ∀ {hs : List Outcome}, SafeHist hs → ∀ (k : Nat) (hk : k < hs.length),
    (∀ (j : Nat) (hj : j < k), Proper (hs[j]'(Nat.lt_trans hj hk))) → NoCov hs[k]
  | [], _, k, hk, _ => by simp at hk
  | o :: rest, h, 0, _, _ => h.1
  | o :: rest, h, k + 1, hk, hp => by
    have h0 : Proper o := hp 0 (Nat.succ_pos k)
    have := SafeHist.get (h.2 h0) k (by simpa using hk) (fun j hj => by
      have := hp (j + 1) (by omega)
      simpa using this)
    simpa using this

theorem SafeHist2.get : ∀ {hs : List Outcome}, SafeHist2 hs → ∀ (k : Nat) (hk : k < hs.length),
    (∀ (j : Nat) (hj : j < k), Proper (hs[j]'(Nat.lt_trans hj hk))) → NoPanic hs[k]
  | [], _, k, hk, _ => by simp at hk
  | o :: rest, h, 0, _, _ => h.1
  | o :: rest, h, k + 1, hk, hp => by
    have h0 : Proper o := hp 0 (Nat.succ_pos k)
    have := SafeHist2.get (h.2 h0) k (by simpa using hk) (fun j hj => by
      have := hp (j + 1) (by omega)
      simpa using this)
    simpa using this

/-- THE FULL STATEMENT of (T): for EVERY panic site. -/
def vm_total_wf_statement : Prop :=
  ∀ (nvars : Nat) (P : Params), safeCheckN nvars P.code = true → ExtClean P.ext →
  ∀ (input : V) (vars : List V), vpure input = true → (∀ v ∈ vars, vpure v = true) → vars.length = nvars →
  KeysOK P (initSt input vars) →
  ∀ (fuel n k : Nat) (hk : k < (history P fuel n (initSt input vars)).length),
    (∀ (j : Nat) (hj : j < k), Proper ((history P fuel n (initSt input vars))[j]'(Nat.lt_trans hj hk))) →
    ∀ site, (history P fuel n (initSt input vars))[k] ≠ .panic site

/-- (T) WHOLE RUNS, ALL SITES.  If the checker accepts the code of `P` (compiled with `nvars`
    variables) then from `execute`'s initial state on any input and variable values (free of
    closures), under ANY context `P.cancelled` and any clean oracle of native answers `P.ext` that
    respects null keys (`KeysOK`), for every fuel and every number `n` of successive `Next` calls: the
    `k`-th call does not end in a panic — at any site —, provided the calls before it ended properly
    (value / error / `(nil, false)` / context error; after a gap of the model or its loop bound
    nothing is claimed). -/
theorem vm_total_wf : vm_total_wf_statement := by
  intro nvars P h hext input vars hi hv hn hkeys fuel n k hk hprev site
  have C := checked1 h
  have C2 := checked2 h
  have hB := between_init C (P := P) rfl input vars hi hv hn
  have hB2 := between2_init C C2 (P := P) rfl input vars hi hv
  have hS := history12_safe C C2 (P := P) rfl hext hkeys fuel n _ Reach.init hB hB2
  have := SafeHist2.get hS k hk hprev
  intro heq
  rw [heq] at this
  exact this

/-- (T), layer 1 alone: the height check `checkShapes` suffices for the twelve sites it covers. -/
theorem vm_total_wf_partial (nvars : Nat) (P : Params) (h : checkShapes (P.code.map shape) nvars = true)
    (hext : ExtClean P.ext) (input : V) (vars : List V) (hi : vpure input = true)
    (hv : ∀ v ∈ vars, vpure v = true) (hn : vars.length = nvars) (hkeys : KeysOK P (initSt input vars))
    (fuel n : Nat)
    (k : Nat) (hk : k < (history P fuel n (initSt input vars)).length)
    (hprev : ∀ (j : Nat) (hj : j < k), Proper ((history P fuel n (initSt input vars))[j]'(Nat.lt_trans hj hk)))
    (site : Site) (hs : covered site = true) :
    (history P fuel n (initSt input vars))[k] ≠ .panic site := by
  have C := checked_of_verify (S := ctxOf nvars P.code) h
  have hB := between_init C (P := P) rfl input vars hi hv hn
  have hS := history_safe C (P := P) rfl hext hkeys fuel n _ Reach.init hB
  have := SafeHist.get hS k hk hprev
  intro heq
  rw [heq] at this
  simp only [NoCov] at this
  rw [hs] at this
  cases this

/-- … in particular the FIRST call never panics, for programs without variables run on a JSON input. -/
theorem first_call_no_panic (P : Params) (h : safeCheck P.code = true) (hext : ExtClean P.ext)
    (input : JV) (hkeys : KeysOK P (initSt (.jv input) [])) (fuel : Nat) (site : Site) :
    (next P fuel (initSt (.jv input) [])).1 ≠ .panic site := by
  have := vm_total_wf 0 P h hext (.jv input) [] rfl (fun v hv => by simp at hv) rfl hkeys fuel 1 0
    (by simp [history]) (fun j hj => by omega) site
  simpa [history] using this

/-- answers that are JSON values, iterator handles, opaque tokens, iterator ends, or errors
    carrying a JSON value or a message are clean -/
theorem json_answers_clean (ext : Nat → ExtRec)
    (h : ∀ k, match (ext k).call with
      | some (.val (.jv _)) | some (.val (.iter _)) | some (.val .tok) | some (.val .emptyIter) => True
      | some (.err (.value (.jv _))) | some (.err (.halt (.jv _))) | some (.err (.brk _ (.jv _))) => True
      | some (.err (.msg _)) | some .iterEnd | none => True
      | _ => False) : ExtClean ext := by
  intro k
  have := h k
  unfold ExtOK
  split at this <;> simp_all [vpure, epure]

/-- `KeysOK` holds for every oracle when the code calls neither `_index` nor `getpath` (constant
    keys are compiled to `opindex`, whose key the checker requires to be non-nil) … -/
theorem keysOK_of_no_key_natives (P : Params) (s0 : St)
    (h : ∀ ins ∈ P.code.toList, ∀ n, ins ≠ .callNative .index n ∧ ins ≠ .callNative .getpath n) : KeysOK P s0 := by
  intro l s _
  have hmem : P.code.getD l.pc.toNat .bad = .bad ∨ P.code.getD l.pc.toNat .bad ∈ P.code.toList := by
    unfold Array.getD
    split
    · right; simp
    · left; rfl
  unfold keyOK
  split
  · rename_i n w hins _
    rcases hmem with hm | hm
    · rw [hm] at hins; cases hins
    · exact absurd hins (h _ hm n).1
  · rename_i n w hins _
    rcases hmem with hm | hm
    · rw [hm] at hins; cases hins
    · exact absurd hins (h _ hm n).2
  · trivial

/-- … and for every code when the oracle never answers a value (e.g. no native call is made) -/
theorem keysOK_of_no_values (P : Params) (s0 : St) (h : ∀ k w, (P.ext k).call ≠ some (.val w)) : KeysOK P s0 := by
  intro l s _
  unfold keyOK
  split
  · rename_i hc; exact absurd hc (h _ _)
  · rename_i hc; exact absurd hc (h _ _)
  · trivial

/-! ### non-vacuity: real bytecode (dumped from the real compiler; constants the checker does not
    read — all but array constants of `push` and the keys of `index` — replaced by `null`) -/

/-- `.[]` -/
def codeIter : Array Instr := #[.scope 1 0 0, .iter, .ret]
/-- `.a as $x | $x` -/
def codeAs : Array Instr :=
  #[.scope 1 1 0, .dup, .expbegin, .index (.str [97]), .store 1 0, .expend, .pop, .load 1 0, .ret]
/-- `def f: 1; f` -/
def codeCall : Array Instr := #[.scope 1 0 0, .jump 5, .scope 2 0 0, .const .null, .ret, .call 2, .ret]
/-- `reduce .[] as $x (0; . + $x)` -/
def codeReduce : Array Instr :=
  #[.scope 1 3 0, .nop, .push .null, .store 1 0, .fork 22, .iter, .store 1 1, .load 1 0, .store 1 2, .jump 14,
    .scope 2 0 0, .pop, .load 1 1, .ret, .load 1 2, .pushpc 10, .callpc, .load 1 2, .load 1 2,
    .callNative .other 2, .store 1 0, .backtrack, .pop, .load 1 0, .ret]
/-- `label $l | 1, break $l` -/
def codeLabel : Array Instr :=
  #[.scope 1 1 0, .forklabel 1 0, .fork 5, .const .null, .jump 8, .pop, .load 1 0, .callNative .other 0, .ret]
/-- `try error catch .` -/
def codeTry : Array Instr := #[.scope 1 0 0, .forktrybegin 5, .callNative .other 0, .forktryend, .nop, .ret]
/-- `path(.a)` -/
def codePath : Array Instr :=
  #[.scope 1 1 0, .pathbegin, .store 1 0, .load 1 0, .index (.str [97]), .load 1 0, .pathend, .ret]
/-- `def f(g): g | g; f(.[])` — closures -/
def codeClosure : Array Instr :=
  #[.scope 1 1 0, .jump 11, .scope 2 2 1, .store 2 0, .store 2 1, .load 2 0, .load 2 1, .callpc, .load 2 1, .callpc,
    .ret, .store 1 0, .jump 16, .scope 3 0 0, .iter, .ret, .pushpc 13, .load 1 0, .call 2, .ret]
/-- `.a |= . + 1` — includes the hand-written `_modify` (a `forklabel` owning no entry, and the
    `load; call _break` whose fall-through joins with one more entry) -/
def codeModify : Array Instr :=
  #[.scope 1 1 0, .jump 50, .scope 2 6 2, .store 2 0, .store 2 1, .store 2 2, .push (.arr []), .store 2 3, .push .null,
    .callNative .other 0, .store 2 4, .load 2 0, .fork 44, .pathbegin, .load 2 1, .callpc, .load 2 0, .pathend,
    .store 2 1, .forklabel 2 5, .load 2 0, .fork 41, .pop, .expbegin, .load 2 4, .load 2 0, .load 2 1, .load 2 4,
    .load 2 1, .load 2 0, .callNative .getpath 2, .load 2 2, .callpc, .expend, .callNative .other 3, .store 2 0,
    .load 2 0, .fork 39, .jump 43, .load 2 5, .callNative .other 0, .load 2 1, .append 2 3, .backtrack, .pop,
    .load 2 4, .load 2 3, .load 2 0, .callNative .other 2, .ret, .store 1 0, .jump 59, .scope 3 1 0, .store 3 0,
    .push .null, .load 3 0, .load 3 0, .callNative .other 2, .ret, .pushpc 52, .jump 64, .scope 6 0 0, .index (.str [97]),
    .ret, .pushpc 61, .load 1 0, .call 2, .ret]

-- the checker (both layers) accepts them …
example : safeCheck codeIter = true ∧ safeCheck codeAs = true ∧ safeCheck codeCall = true ∧
    safeCheck codeReduce = true ∧ safeCheck codeLabel = true ∧ safeCheck codeTry = true ∧
    safeCheck codePath = true ∧ safeCheck codeClosure = true := by decide +kernel
example : safeCheck codeModify = true := by decide +kernel
-- … on the dump as well (`safe_check_on_dump`, re-checked by evaluation)
example : safeCheckView (codeReduce.map viewS) = true := by decide +kernel

def noExt : Nat → ExtRec := fun _ => {}
theorem noExt_clean : ExtClean noExt := fun _ => trivial
def never : Nat → Bool := fun _ => false

-- the theorem applies: `.[]` on `[1, 2]`, any number of calls (here the hypotheses are all
-- discharged; the run itself: two values, then `(nil, false)` forever)
def oTag : Outcome → Nat
  | .value _ => 0 | .error _ => 1 | .done => 2 | .ctxErr => 3 | .panic _ => 4 | .stuck _ => 5 | .outOfFuel => 6
def arr12 : JV := .arr [.num (.int 1), .num (.int 2)]
example : (history ⟨codeIter, never, noExt⟩ 50 4 (initSt (.jv arr12) [])).map oTag = [0, 0, 2, 2] := by decide +kernel
example (fuel n k : Nat) (hk : k < (history ⟨codeIter, never, noExt⟩ fuel n (initSt (.jv arr12) [])).length)
    (hprev : ∀ (j : Nat) (hj : j < k),
      Proper ((history ⟨codeIter, never, noExt⟩ fuel n (initSt (.jv arr12) []))[j]'(Nat.lt_trans hj hk)))
    (site : Site) :
    (history ⟨codeIter, never, noExt⟩ fuel n (initSt (.jv arr12) []))[k] ≠ .panic site :=
  vm_total_wf 0 ⟨codeIter, never, noExt⟩ (by decide +kernel) noExt_clean (.jv arr12) [] rfl
    (fun v hv => by simp at hv) rfl (keysOK_of_no_values _ _ (fun k w h => by simp [noExt] at h)) fuel n k hk hprev
    site

/-! ### the checker rejects what panics: witnesses -/

/-- the panic site a first call ends in (15 = none) -/
def panicOf (c : Array Instr) : Option Site :=
  match (next ⟨c, never, noExt⟩ 50 (initSt (.jv .null) [])).1 with
  | .panic s => some s
  | _ => none

/-- one `pop` too many: rejected, and it does panic with `index out of range [-1]` -/
def codeUnderflow : Array Instr := #[.scope 1 0 0, .pop, .pop, .ret]
theorem underflow_rejected_and_panics :
    safeCheck codeUnderflow = false ∧ panicOf codeUnderflow = some .stackPop := by decide +kernel

/-- a variable operand outside its scope's slots: rejected, and `env.values[i]` panics (the scope has
    0 slots and `values` is empty) -/
def codeBadSlot : Array Instr := #[.scope 1 0 0, .load 1 3, .ret]
theorem bad_slot_rejected_and_panics :
    safeCheck codeBadSlot = false ∧ panicOf codeBadSlot = some .valuesIndex := by decide +kernel

/-- `pathend` without an open `pathbegin`: rejected, and `env.paths.top()` panics on the empty paths stack -/
def codePathendAlone : Array Instr := #[.scope 1 0 0, .dup, .pathend, .ret]
theorem pathend_alone_rejected_and_panics :
    safeCheck codePathendAlone = false ∧ (panicOf codePathendAlone).isSome = true := by decide +kernel

/-- LAYER 2: `callpc` on a value that is not a closure — the heights are fine, the kinds are not:
    rejected, and `.([2]int)` panics -/
def codeCallpcValue : Array Instr := #[.scope 1 0 0, .dup, .callpc, .ret]
theorem callpc_value_rejected_and_panics :
    checkShapes (codeCallpcValue.map shape) 0 = true ∧ safeCheck codeCallpcValue = false ∧
    panicOf codeCallpcValue = some .assertClosure := by decide +kernel

/-- LAYER 2: `append` to a variable that holds the input instead of an array: rejected, and `.([]any)` panics -/
def codeAppendValue : Array Instr := #[.scope 1 1 0, .dup, .dup, .store 1 0, .append 1 0, .ret]
theorem append_value_rejected_and_panics :
    checkShapes (codeAppendValue.map shape) 0 = true ∧ safeCheck codeAppendValue = false ∧
    panicOf codeAppendValue = some .assertArray := by decide +kernel

/-- LAYER 2: a `load` of the variable of a scope that is not on the static chain (the slot exists, the
    frame does not): rejected, and `env.index` panics -/
def codeLoadForeign : Array Instr := #[.scope 1 0 0, .jump 4, .scope 2 1 0, .ret, .pop, .load 2 0, .ret]
theorem load_foreign_rejected_and_panics :
    checkShapes (codeLoadForeign.map shape) 0 = true ∧ safeCheck codeLoadForeign = false ∧
    panicOf codeLoadForeign = some .envIndex := by decide +kernel

/-- an `opindex` with a nil key (never emitted: constant keys are strings and integers) is rejected:
    in path-tracking mode it would push a second marker -/
def codeNilKey : Array Instr := #[.scope 1 0 0, .index .null, .ret]
example : safeCheck codeNilKey = false := by decide +kernel

/-- a jump into a function body (a `scope` reached without a call): rejected -/
def codeJumpIntoEntry : Array Instr := #[.scope 1 0 0, .jump 2, .scope 2 0 0, .ret]
example : safeCheck codeJumpIntoEntry = false := by decide +kernel

/-- the repaired defect D1 (`1 + (label $l | .)`: `forklabel` with the variable of ANOTHER scope, which
    has no slots) has a shape the checker rejects: a variable operand naming a scope id that no
    `scope` instruction declares -/
def codeForeignLabel : Array Instr := #[.scope 1 0 0, .forklabel 7 0, .ret]
example : safeCheck codeForeignLabel = false := by decide +kernel

end Gojq.C08VM

/-
  C20, per-program theorems for the builtin iteration forms: range, while, until, repeat,
  recurse, limit, first, last, reduce, foreach, inputs (plus label/break and path(..) over
  a generator).  Bytecode: Gojq/Generated/Programs.lean (real compiler, regenerated every
  run); certificates: Gojq/Generated/Certs/<program>.lean (untrusted, kernel-checked here).
  Each `example` shows the hypothesis is inhabited beyond the initial shape.
-/
import Gojq.Props.C20
import Gojq.Generated.Programs
import Gojq.Generated.Certs.range1
import Gojq.Generated.Certs.range2
import Gojq.Generated.Certs.range3
import Gojq.Generated.Certs.whileLoop
import Gojq.Generated.Certs.untilLoop
import Gojq.Generated.Certs.repeatLoop
import Gojq.Generated.Certs.recurseF
import Gojq.Generated.Certs.recurseCond
import Gojq.Generated.Certs.limitRepeat
import Gojq.Generated.Certs.limitRange
import Gojq.Generated.Certs.firstRange
import Gojq.Generated.Certs.lastRange
import Gojq.Generated.Certs.reduceRange
import Gojq.Generated.Certs.foreachRange
import Gojq.Generated.Certs.foreachExtract
import Gojq.Generated.Certs.inputsAll
import Gojq.Generated.Certs.inputsReduce
import Gojq.Generated.Certs.labelBreak
import Gojq.Generated.Certs.pathRange
namespace Gojq.C20
open Gojq.ShVM Gojq.Generated

/-- range: `range(N)` (N = 10^9) — after ANY number of VM instructions, on any data, the
    interpreter footprint is at most the certified bound and no Go panic site is reached. -/
theorem bounded_range1 : ∀ n s, ReachN Programs.range1 n s →
    footprint s ≤ Certs.range1_bound ∧ stuckFree Programs.range1 s = true :=
  bounded_of_certificate _ Certs.range1_I Certs.range1_succ _ (by decide +kernel)

example : ReachN Programs.range1 1 (Certs.range1_I.getD 1 (init [])) :=
  .succ .zero (mem_step_of_isSucc (by decide +kernel))

/-- range: `range(5; N)` (N = 10^9) — after ANY number of VM instructions, on any data, the
    interpreter footprint is at most the certified bound and no Go panic site is reached. -/
theorem bounded_range2 : ∀ n s, ReachN Programs.range2 n s →
    footprint s ≤ Certs.range2_bound ∧ stuckFree Programs.range2 s = true :=
  bounded_of_certificate _ Certs.range2_I Certs.range2_succ _ (by decide +kernel)

example : ReachN Programs.range2 1 (Certs.range2_I.getD 1 (init [])) :=
  .succ .zero (mem_step_of_isSucc (by decide +kernel))

/-- range: `range(0; N; 3)` (N = 10^9) — after ANY number of VM instructions, on any data, the
    interpreter footprint is at most the certified bound and no Go panic site is reached. -/
theorem bounded_range3 : ∀ n s, ReachN Programs.range3 n s →
    footprint s ≤ Certs.range3_bound ∧ stuckFree Programs.range3 s = true :=
  bounded_of_certificate _ Certs.range3_I Certs.range3_succ _ (by decide +kernel)

example : ReachN Programs.range3 1 (Certs.range3_I.getD 1 (init [])) :=
  .succ .zero (mem_step_of_isSucc (by decide +kernel))

/-- while: `0 | while(. < N; . + 1)` (N = 10^9) — after ANY number of VM instructions, on any data, the
    interpreter footprint is at most the certified bound and no Go panic site is reached. -/
theorem bounded_whileLoop : ∀ n s, ReachN Programs.whileLoop n s →
    footprint s ≤ Certs.whileLoop_bound ∧ stuckFree Programs.whileLoop s = true :=
  bounded_of_certificate _ Certs.whileLoop_I Certs.whileLoop_succ _ (by decide +kernel)

example : ReachN Programs.whileLoop 1 (Certs.whileLoop_I.getD 1 (init [])) :=
  .succ .zero (mem_step_of_isSucc (by decide +kernel))

/-- until: `0 | until(. >= N; . + 1)` (N = 10^9) — after ANY number of VM instructions, on any data, the
    interpreter footprint is at most the certified bound and no Go panic site is reached. -/
theorem bounded_untilLoop : ∀ n s, ReachN Programs.untilLoop n s →
    footprint s ≤ Certs.untilLoop_bound ∧ stuckFree Programs.untilLoop s = true :=
  bounded_of_certificate _ Certs.untilLoop_I Certs.untilLoop_succ _ (by decide +kernel)

example : ReachN Programs.untilLoop 1 (Certs.untilLoop_I.getD 1 (init [])) :=
  .succ .zero (mem_step_of_isSucc (by decide +kernel))

/-- repeat: `repeat(1)` (N = 10^9) — after ANY number of VM instructions, on any data, the
    interpreter footprint is at most the certified bound and no Go panic site is reached. -/
theorem bounded_repeatLoop : ∀ n s, ReachN Programs.repeatLoop n s →
    footprint s ≤ Certs.repeatLoop_bound ∧ stuckFree Programs.repeatLoop s = true :=
  bounded_of_certificate _ Certs.repeatLoop_I Certs.repeatLoop_succ _ (by decide +kernel)

example : ReachN Programs.repeatLoop 1 (Certs.repeatLoop_I.getD 1 (init [])) :=
  .succ .zero (mem_step_of_isSucc (by decide +kernel))

/-- recurse: `0 | recurse(. + 1)` (N = 10^9) — after ANY number of VM instructions, on any data, the
    interpreter footprint is at most the certified bound and no Go panic site is reached. -/
theorem bounded_recurseF : ∀ n s, ReachN Programs.recurseF n s →
    footprint s ≤ Certs.recurseF_bound ∧ stuckFree Programs.recurseF s = true :=
  bounded_of_certificate _ Certs.recurseF_I Certs.recurseF_succ _ (by decide +kernel)

example : ReachN Programs.recurseF 1 (Certs.recurseF_I.getD 1 (init [])) :=
  .succ .zero (mem_step_of_isSucc (by decide +kernel))

/-- recurse: `0 | recurse(. + 1; . < N)` (N = 10^9) — after ANY number of VM instructions, on any data, the
    interpreter footprint is at most the certified bound and no Go panic site is reached. -/
theorem bounded_recurseCond : ∀ n s, ReachN Programs.recurseCond n s →
    footprint s ≤ Certs.recurseCond_bound ∧ stuckFree Programs.recurseCond s = true :=
  bounded_of_certificate _ Certs.recurseCond_I Certs.recurseCond_succ _ (by decide +kernel)

example : ReachN Programs.recurseCond 1 (Certs.recurseCond_I.getD 1 (init [])) :=
  .succ .zero (mem_step_of_isSucc (by decide +kernel))

/-- limit: `limit(N; repeat(1))` (N = 10^9) — after ANY number of VM instructions, on any data, the
    interpreter footprint is at most the certified bound and no Go panic site is reached. -/
theorem bounded_limitRepeat : ∀ n s, ReachN Programs.limitRepeat n s →
    footprint s ≤ Certs.limitRepeat_bound ∧ stuckFree Programs.limitRepeat s = true :=
  bounded_of_certificate _ Certs.limitRepeat_I Certs.limitRepeat_succ _ (by decide +kernel)

example : ReachN Programs.limitRepeat 1 (Certs.limitRepeat_I.getD 1 (init [])) :=
  .succ .zero (mem_step_of_isSucc (by decide +kernel))

/-- limit: `limit(N; range(N))` (N = 10^9) — after ANY number of VM instructions, on any data, the
    interpreter footprint is at most the certified bound and no Go panic site is reached. -/
theorem bounded_limitRange : ∀ n s, ReachN Programs.limitRange n s →
    footprint s ≤ Certs.limitRange_bound ∧ stuckFree Programs.limitRange s = true :=
  bounded_of_certificate _ Certs.limitRange_I Certs.limitRange_succ _ (by decide +kernel)

example : ReachN Programs.limitRange 1 (Certs.limitRange_I.getD 1 (init [])) :=
  .succ .zero (mem_step_of_isSucc (by decide +kernel))

/-- first: `repeat(1) | first(range(5; N))` (N = 10^9) — after ANY number of VM instructions, on any data, the
    interpreter footprint is at most the certified bound and no Go panic site is reached. -/
theorem bounded_firstRange : ∀ n s, ReachN Programs.firstRange n s →
    footprint s ≤ Certs.firstRange_bound ∧ stuckFree Programs.firstRange s = true :=
  bounded_of_certificate _ Certs.firstRange_I Certs.firstRange_succ _ (by decide +kernel)

example : ReachN Programs.firstRange 1 (Certs.firstRange_I.getD 1 (init [])) :=
  .succ .zero (mem_step_of_isSucc (by decide +kernel))

/-- last: `last(range(N))` (N = 10^9) — after ANY number of VM instructions, on any data, the
    interpreter footprint is at most the certified bound and no Go panic site is reached. -/
theorem bounded_lastRange : ∀ n s, ReachN Programs.lastRange n s →
    footprint s ≤ Certs.lastRange_bound ∧ stuckFree Programs.lastRange s = true :=
  bounded_of_certificate _ Certs.lastRange_I Certs.lastRange_succ _ (by decide +kernel)

example : ReachN Programs.lastRange 1 (Certs.lastRange_I.getD 1 (init [])) :=
  .succ .zero (mem_step_of_isSucc (by decide +kernel))

/-- reduce: `reduce range(N) as $x (0; . + $x)` (N = 10^9) — after ANY number of VM instructions, on any data, the
    interpreter footprint is at most the certified bound and no Go panic site is reached. -/
theorem bounded_reduceRange : ∀ n s, ReachN Programs.reduceRange n s →
    footprint s ≤ Certs.reduceRange_bound ∧ stuckFree Programs.reduceRange s = true :=
  bounded_of_certificate _ Certs.reduceRange_I Certs.reduceRange_succ _ (by decide +kernel)

example : ReachN Programs.reduceRange 1 (Certs.reduceRange_I.getD 1 (init [])) :=
  .succ .zero (mem_step_of_isSucc (by decide +kernel))

/-- foreach: `foreach range(N) as $x (0; . + $x)` (N = 10^9) — after ANY number of VM instructions, on any data, the
    interpreter footprint is at most the certified bound and no Go panic site is reached. -/
theorem bounded_foreachRange : ∀ n s, ReachN Programs.foreachRange n s →
    footprint s ≤ Certs.foreachRange_bound ∧ stuckFree Programs.foreachRange s = true :=
  bounded_of_certificate _ Certs.foreachRange_I Certs.foreachRange_succ _ (by decide +kernel)

example : ReachN Programs.foreachRange 1 (Certs.foreachRange_I.getD 1 (init [])) :=
  .succ .zero (mem_step_of_isSucc (by decide +kernel))

/-- foreach: `foreach range(N) as $x (0; . + $x; [$x, .])` (N = 10^9) — after ANY number of VM instructions, on any data, the
    interpreter footprint is at most the certified bound and no Go panic site is reached. -/
theorem bounded_foreachExtract : ∀ n s, ReachN Programs.foreachExtract n s →
    footprint s ≤ Certs.foreachExtract_bound ∧ stuckFree Programs.foreachExtract s = true :=
  bounded_of_certificate _ Certs.foreachExtract_I Certs.foreachExtract_succ _ (by decide +kernel)

example : ReachN Programs.foreachExtract 1 (Certs.foreachExtract_I.getD 1 (init [])) :=
  .succ .zero (mem_step_of_isSucc (by decide +kernel))

/-- inputs: `inputs` (N = 10^9) — after ANY number of VM instructions, on any data, the
    interpreter footprint is at most the certified bound and no Go panic site is reached. -/
theorem bounded_inputsAll : ∀ n s, ReachN Programs.inputsAll n s →
    footprint s ≤ Certs.inputsAll_bound ∧ stuckFree Programs.inputsAll s = true :=
  bounded_of_certificate _ Certs.inputsAll_I Certs.inputsAll_succ _ (by decide +kernel)

example : ReachN Programs.inputsAll 1 (Certs.inputsAll_I.getD 1 (init [])) :=
  .succ .zero (mem_step_of_isSucc (by decide +kernel))

/-- inputs: `reduce inputs as $x (0; . + $x)` (N = 10^9) — after ANY number of VM instructions, on any data, the
    interpreter footprint is at most the certified bound and no Go panic site is reached. -/
theorem bounded_inputsReduce : ∀ n s, ReachN Programs.inputsReduce n s →
    footprint s ≤ Certs.inputsReduce_bound ∧ stuckFree Programs.inputsReduce s = true :=
  bounded_of_certificate _ Certs.inputsReduce_I Certs.inputsReduce_succ _ (by decide +kernel)

example : ReachN Programs.inputsReduce 1 (Certs.inputsReduce_I.getD 1 (init [])) :=
  .succ .zero (mem_step_of_isSucc (by decide +kernel))

/-- limit: `repeat(1) | label $out | foreach range(N) as $i (0; . + 1; if . > 3 then ., break $out else empty end)` (N = 10^9) — after ANY number of VM instructions, on any data, the
    interpreter footprint is at most the certified bound and no Go panic site is reached. -/
theorem bounded_labelBreak : ∀ n s, ReachN Programs.labelBreak n s →
    footprint s ≤ Certs.labelBreak_bound ∧ stuckFree Programs.labelBreak s = true :=
  bounded_of_certificate _ Certs.labelBreak_I Certs.labelBreak_succ _ (by decide +kernel)

example : ReachN Programs.labelBreak 1 (Certs.labelBreak_I.getD 1 (init [])) :=
  .succ .zero (mem_step_of_isSucc (by decide +kernel))

/-- range: `path(range(N) as $i | .[$i]?)` (N = 10^9) — after ANY number of VM instructions, on any data, the
    interpreter footprint is at most the certified bound and no Go panic site is reached. -/
theorem bounded_pathRange : ∀ n s, ReachN Programs.pathRange n s →
    footprint s ≤ Certs.pathRange_bound ∧ stuckFree Programs.pathRange s = true :=
  bounded_of_certificate _ Certs.pathRange_I Certs.pathRange_succ _ (by decide +kernel)

example : ReachN Programs.pathRange 1 (Certs.pathRange_I.getD 1 (init [])) :=
  .succ .zero (mem_step_of_isSucc (by decide +kernel))

end Gojq.C20

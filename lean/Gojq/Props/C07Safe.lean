/-
  C07 ∘ C08 — "after an error the iterator can be advanced", UNCONDITIONALLY for code accepted by the
  bytecode checker.  Property theorems only; the lemmas are in Gojq/Proofs/VMAfterErrorCompose.lean.

  Props/C07AfterError.lean proves the after-error theorems for ARBITRARY bytecode under the run-time
  hypothesis `historyGuard` (the VM is never about to execute `opforklabel` forward with no pending
  fork on an empty data stack), and reduces the full statement of C07 to panic-freedom of ordinary
  execution.  Props/C08VM.lean proves panic-freedom (`vm_total_wf`) for code accepted by the static
  checker `safeCheckN`, through invariants `Inv` / `Inv2` that every opcode preserves.  Here the two
  are composed:

  * `turn_invariant_of_safeCheck`: the checker's invariants hold at every TURN of a run (inside calls,
    not only between them) — an induction over the turns (`SafeVM.Reach`) with C08's one-turn lemmas;
  * `historyGuard_of_safeCheck`: hence the guard holds at every turn (`labelGuard_of_safe_inv`: at an
    `opforklabel` the annotation satisfies `1 ≤ h ∨ pend`);
  * `after_error_advancable_safe`: the full statement `after_error_advancable_statement` of
    Props/C07.lean for accepted code and clean oracles — after an error value no later `Next` call
    panics, at any fuel, under any later context and any later clean native answers;
  * the after-error theorems of Props/C07AfterError.lean without `historyGuard` (`…_safe`).

  REMAINING HYPOTHESES (`SafeRun`, literally those of `vm_total_wf`):
    - the code is accepted: `safeCheckN nvars P.code = true` (validated on every real program by the
      `safe` stream of the C04 check, `C08VM.safe_check_on_dump_vars`);
    - `ExtClean P.ext`: no native answer contains a closure or an empty `[]pathValue`;
    - `KeysOK`: `_index` / `getpath` answer a value only for non-null keys / null-free array paths;
    - the input and the variable values contain no closure, and there are `nvars` of them;
    - the calls BEFORE the one that returned the error ended properly (value, error, `(nil, false)`,
      context error): after a gap of the model (`stuck`) or its loop bound nothing is claimed.
  For the calls AFTER the error a different context and oracle `Q` may be used (as in the statement
  of Props/C07.lean); `Q.ext` must then be clean and respect null keys as well — for the re-entry
  theorems (first turn, `(nil, false)` at once) `Q` is arbitrary.
-/
import Gojq.Props.C07AfterError
import Gojq.Props.C08VM
import Gojq.Proofs.VMAfterErrorCompose
namespace Gojq.C07
open Gojq Gojq.VM Gojq.SafeVM Gojq.C08VM

/-- The hypotheses of C08's `vm_total_wf` on a run: accepted code, clean oracles that respect null
    keys, closure-free input and variable values, as many as the code was compiled with. -/
structure SafeRun (nvars : Nat) (P : Params) (input : V) (vars : List V) : Prop where
  accepted : safeCheckN nvars P.code = true
  clean : ExtClean P.ext
  inputPure : vpure input = true
  varsPure : ∀ v ∈ vars, vpure v = true
  varsLen : vars.length = nvars
  keys : KeysOK P (initSt input vars)

/-! ### 1. the checker's invariant at every turn; the guard -/

/-- For accepted code the invariants of C08's soundness proof hold at EVERY turn of the run: at the
    first turn of the first call, at every turn that follows a turn, and at the first turn of every
    call that follows a properly ended call (`SafeVM.Reach`) — and that turn is not a panic. -/
theorem turn_invariant_of_safeCheck (nvars : Nat) (P : Params) (input : V) (vars : List V)
    (H : SafeRun nvars P input vars) (l : L) (s : St) (hR : Reach P (initSt input vars) l s) :
    Inv (ctxOf nvars P.code) l s.env ∧ Inv2 (ctxOf nvars P.code) (certOf P.code) l s.env ∧
    ∀ site st, step P l s ≠ .fin (.panic site) st := by
  have C := checked1 H.accepted
  have C2 := checked2 H.accepted
  have hB := between_init C (P := P) rfl input vars H.inputPure H.varsPure H.varsLen
  have hB2 := between2_init C C2 (P := P) rfl input vars H.inputPure H.varsPure
  obtain ⟨i1, i2⟩ := reach_inv12 C C2 rfl H.clean H.keys hB hB2 hR
  exact ⟨i1, i2, reach_step_noPanic C C2 rfl H.clean H.keys hB hB2 hR⟩

/-- The first turn of the call made after `n` properly ended calls is such a turn. -/
theorem reach_after_proper (P : Params) (fuel : Nat) (s0 : St) (n : Nat)
    (hprev : ∀ j, j < n → Proper (next P fuel (after P fuel j s0)).1) :
    Reach P s0 (entry P (after P fuel n s0)) (after P fuel n s0) :=
  reach_after fuel n s0 Reach.init ((properCalls_iff P fuel n s0).mpr hprev)

/-- THE GUARD IS DISCHARGED.  For accepted code the run-time guard of Props/C07AfterError.lean holds
    at every turn of the first `n + 1` calls of `Next`, at every fuel, provided the first `n` calls
    ended properly (the last one may end in any way).  Layer 1 of the checker (heights) suffices. -/
theorem historyGuard_of_checkShapes (nvars : Nat) (P : Params) (h : checkShapes (P.code.map shape) nvars = true)
    (hext : ExtClean P.ext) (input : V) (vars : List V) (hi : vpure input = true)
    (hv : ∀ v ∈ vars, vpure v = true) (hn : vars.length = nvars) (hkeys : KeysOK P (initSt input vars))
    (fuel n : Nat) (hprev : ∀ j, j < n → Proper (next P fuel (after P fuel j (initSt input vars))).1) :
    historyGuard P fuel (n + 1) (initSt input vars) = true := by
  have C := checked_of_verify (S := ctxOf nvars P.code) h
  have hB := between_init C (P := P) rfl input vars hi hv hn
  exact historyGuard_of_properCalls C rfl hext hkeys hB fuel n _ Reach.init
    ((properCalls_iff P fuel n _).mpr hprev)

/-- … in the terms of `vm_total_wf`. -/
theorem historyGuard_of_safeCheck (nvars : Nat) (P : Params) (input : V) (vars : List V)
    (H : SafeRun nvars P input vars) (fuel n : Nat)
    (hprev : ∀ j, j < n → Proper (next P fuel (after P fuel j (initSt input vars))).1) :
    historyGuard P fuel (n + 1) (initSt input vars) = true :=
  historyGuard_of_checkShapes nvars P (layer1 H.accepted) H.clean input vars H.inputPure H.varsPure H.varsLen
    H.keys fuel n hprev

/-- … for every number of calls when ALL calls end properly (e.g. with enough fuel on a run the
    model covers). -/
theorem historyGuard_of_safeCheck_all (nvars : Nat) (P : Params) (input : V) (vars : List V)
    (H : SafeRun nvars P input vars) (fuel : Nat)
    (hall : ∀ j, Proper (next P fuel (after P fuel j (initSt input vars))).1) (n : Nat) :
    historyGuard P fuel n (initSt input vars) = true := by
  cases n with
  | zero => rfl
  | succ n => exact historyGuard_of_safeCheck nvars P input vars H fuel n (fun j _ => hall j)

/-- The strengthened fork/stack invariant of Props/C07AfterError.lean (`reachable_invariant2`) in
    every state reached by properly ended calls, without the guard. -/
theorem reachable_invariant2_safe (nvars : Nat) (P : Params) (input : V) (vars : List V)
    (H : SafeRun nvars P input vars) (fuel n : Nat)
    (hprev : ∀ j, j < n → Proper (next P fuel (after P fuel j (initSt input vars))).1) :
    EnvInv2 P (after P fuel n (initSt input vars)).env := by
  apply reachable_invariant2
  cases n with
  | zero => rfl
  | succ n => exact historyGuard_of_safeCheck nvars P input vars H fuel n (fun j hj => hprev j (by omega))

/-! ### 2. the full statement of C07 for accepted code -/

/-- THE STATE AFTER AN ERROR IS A CHECKED STATE.  When the call after `n` properly ended calls
    returns an error, the state it leaves satisfies the between-calls invariants of C08 (both
    layers) — under ANY parameters `Q` with the same code — and is a turn of the run. -/
theorem after_error_state_is_checked (nvars : Nat) (P : Params) (input : V) (vars : List V)
    (H : SafeRun nvars P input vars) (fuel n : Nat)
    (hprev : ∀ j, j < n → Proper (next P fuel (after P fuel j (initSt input vars))).1)
    (e : Err) (s' : St) (h : next P fuel (after P fuel n (initSt input vars)) = (.error e, s'))
    (Q : Params) (hcode : Q.code = P.code) :
    Between (ctxOf nvars P.code) Q s' ∧ Between2 (ctxOf nvars P.code) (certOf P.code) Q s' ∧
    Reach P (initSt input vars) (entry P s') s' := by
  have hR := reach_after_proper P fuel _ n hprev
  obtain ⟨i1, i2, _⟩ := turn_invariant_of_safeCheck nvars P input vars H _ _ hR
  have := (every_call_keeps_invariant nvars P H.accepted H.clean _ H.keys fuel _ hR i1 i2).2
  rw [h] at this
  obtain ⟨b1, b2, r⟩ := this trivial
  exact ⟨b1.code hcode, b2.code hcode, r⟩

/-- ⟦full, for accepted code⟧ `after_error_advancable_statement` of Props/C07.lean restricted to
    checker-accepted code and clean oracles: after an error value has been emitted, NO later `Next`
    call panics — the `k`-th call after the error does not end in a panic at any of the 15 sites, at
    any fuel `fuel'`, under any later context `Q.cancelled` and any later native answers `Q.ext`
    that are clean and respect null keys, as long as the calls between the error and it ended
    properly. -/
theorem after_error_later_calls_safe (nvars : Nat) (P : Params) (input : V) (vars : List V)
    (H : SafeRun nvars P input vars) (fuel n : Nat)
    (hprev : ∀ j, j < n → Proper (next P fuel (after P fuel j (initSt input vars))).1)
    (e : Err) (s' : St) (h : next P fuel (after P fuel n (initSt input vars)) = (.error e, s'))
    (Q : Params) (hcode : Q.code = P.code) (hextQ : ExtClean Q.ext) (hkeysQ : KeysOK Q s')
    (fuel' m k : Nat) (hk : k < (history Q fuel' m s').length)
    (hbetween : ∀ (j : Nat) (hj : j < k), Proper ((history Q fuel' m s')[j]'(Nat.lt_trans hj hk)))
    (site : Site) : (history Q fuel' m s')[k] ≠ .panic site := by
  obtain ⟨b1, b2, _⟩ := after_error_state_is_checked nvars P input vars H fuel n hprev e s' h Q hcode
  have hS : (ctxOf nvars P.code).code = Q.code.map shape := by rw [hcode]; rfl
  have hsafe := history12_safe (checked1 H.accepted) (checked2 H.accepted) hS hextQ hkeysQ fuel' m s'
    Reach.init b1 b2
  have := SafeHist2.get' hsafe k hk hbetween
  intro heq
  rw [heq] at this
  exact this

/-- … in the very form of `after_error_advancable_statement`: the NEXT call does not panic. -/
theorem after_error_advancable_safe (nvars : Nat) (P : Params) (input : V) (vars : List V)
    (H : SafeRun nvars P input vars) (fuel n : Nat)
    (hprev : ∀ j, j < n → Proper (next P fuel (after P fuel j (initSt input vars))).1)
    (e : Err) (s' : St) (h : next P fuel (after P fuel n (initSt input vars)) = (.error e, s'))
    (Q : Params) (hcode : Q.code = P.code) (hextQ : ExtClean Q.ext) (hkeysQ : KeysOK Q s') :
    ∀ fuel' site, (next Q fuel' s').1 ≠ .panic site := by
  intro fuel' site
  have := after_error_later_calls_safe nvars P input vars H fuel n hprev e s' h Q hcode hextQ hkeysQ fuel' 1 0
    (by simp [history]) (fun j hj => by omega) site
  simpa [history] using this

/-- `after_error_advancable_statement` (Props/C07.lean) restricted to accepted code, clean oracles that
    respect null keys, and properly ended earlier calls. -/
def after_error_advancable_safe_statement : Prop :=
  ∀ (nvars : Nat) (P : Params) (input : V) (vars : List V), SafeRun nvars P input vars →
  ∀ (fuel n : Nat), (∀ j, j < n → Proper (next P fuel (after P fuel j (initSt input vars))).1) →
  ∀ (e : Err) (s' : St), next P fuel (after P fuel n (initSt input vars)) = (.error e, s') →
  ∀ (Q : Params), Q.code = P.code → ExtClean Q.ext → KeysOK Q s' →
  ∀ fuel' site, (next Q fuel' s').1 ≠ .panic site

/-- … it holds. -/
theorem after_error_advancable_safe_holds : after_error_advancable_safe_statement :=
  after_error_advancable_safe

/-- … with the same context and oracle after the error (only the fuel may differ): nothing is
    assumed beyond the hypotheses of `vm_total_wf`. -/
theorem after_error_advancable_safe_same (nvars : Nat) (P : Params) (input : V) (vars : List V)
    (H : SafeRun nvars P input vars) (fuel n : Nat)
    (hprev : ∀ j, j < n → Proper (next P fuel (after P fuel j (initSt input vars))).1)
    (e : Err) (s' : St) (h : next P fuel (after P fuel n (initSt input vars)) = (.error e, s')) :
    ∀ fuel' site, (next P fuel' s').1 ≠ .panic site := by
  obtain ⟨_, _, r⟩ := after_error_state_is_checked nvars P input vars H fuel n hprev e s' h P rfl
  exact after_error_advancable_safe nvars P input vars H fuel n hprev e s' h P rfl H.clean (H.keys.from r)

/-! ### 3. the after-error theorems without the guard -/

/-- `after_error_re_entry_total` for accepted code: when the call after `n` properly ended calls
    returns an error, the first turn of the call after it — the re-entry of the instruction at the
    saved pc — is not a panic for EVERY opcode at the saved pc (`opforklabel` finds the value beneath
    its label), under ANY later context and native answers (no hypothesis on `Q`'s oracles). -/
theorem after_error_re_entry_total_safe (nvars : Nat) (P : Params) (input : V) (vars : List V)
    (H : SafeRun nvars P input vars) (fuel n : Nat)
    (hprev : ∀ j, j < n → Proper (next P fuel (after P fuel j (initSt input vars))).1)
    (e : Err) (s' : St) (h : next P fuel (after P fuel n (initSt input vars)) = (.error e, s')) :
    ∀ (Q : Params), Q.code = P.code → ∀ site st, step Q (entry Q s') s' ≠ .fin (.panic site) st :=
  after_error_re_entry_total P fuel input vars n (historyGuard_of_safeCheck nvars P input vars H fuel n hprev) e s' h

/-- `after_error_re_entry_total_call` / `after_error_state_is_backtrack_state` for accepted code: the
    state left by the error satisfies the fork/stack invariants again, no fork is left, and — entered
    by the next call under any `Q` with the same code — it is a backtracking state of the same kind
    as after any fork pop (pc past the end or at an opcode that can break the loop; `opiter` /
    `opforklabel` find a value to pop), with no error pending; it is ALSO a state in which the
    checker's invariants hold (`after_error_state_is_checked`), which is what makes ordinary
    execution from it panic-free. -/
theorem after_error_state_is_backtrack_state_safe (nvars : Nat) (P : Params) (input : V) (vars : List V)
    (H : SafeRun nvars P input vars) (fuel n : Nat)
    (hprev : ∀ j, j < n → Proper (next P fuel (after P fuel j (initSt input vars))).1)
    (e : Err) (s' : St) (h : next P fuel (after P fuel n (initSt input vars)) = (.error e, s'))
    (Q : Params) (hcode : Q.code = P.code) :
    BacktrackState Q (entry Q s') s'.env ∧ (entry Q s').err = none ∧ s'.env.forks = [] ∧
    BottomIterOK P s'.env ∧ s'.env.backtrack = true ∧
    Between (ctxOf nvars P.code) Q s' ∧ Between2 (ctxOf nvars P.code) (certOf P.code) Q s' := by
  have hg := historyGuard_of_safeCheck nvars P input vars H fuel n hprev
  obtain ⟨hg1, hg2⟩ := historyGuard_succ P fuel n _ hg
  have hE := after_inv2 P fuel n _ (initSt_inv2 P input vars) hg1
  obtain ⟨hB, herr, hf⟩ := after_error_state_is_backtrack_state P fuel _ hE hg2 e s' h Q hcode
  have hcall := after_error_re_entry_total_call P fuel _ hE (reachable_iter_invariant P fuel input vars n) hg2 e s' h
  obtain ⟨b1, b2, _⟩ := after_error_state_is_checked nvars P input vars H fuel n hprev e s' h Q hcode
  exact ⟨hB, herr, hf, hcall.2.1, hcall.2.2.2.1, b1, b2⟩

/-- `error_then_done_at` for accepted code: after the error, the next call returns `(nil, false)` at
    its first turn (or the context error if that turn's poll finds the context cancelled), at every
    fuel and under any `Q`, and the iterator is terminal from then on — unless the saved pc is at an
    `opfork` (its alternative runs) or at an `opiter` holding a restored iteration state. -/
theorem error_then_done_at_safe (nvars : Nat) (P : Params) (input : V) (vars : List V)
    (H : SafeRun nvars P input vars) (fuel n : Nat)
    (hprev : ∀ j, j < n → Proper (next P fuel (after P fuel j (initSt input vars))).1)
    (e : Err) (s' : St) (h : next P fuel (after P fuel n (initSt input vars)) = (.error e, s'))
    (hsaved : SavedEnds P.code s'.env) (Q : Params) (hcode : Q.code = P.code) (fuel' : Nat) :
    ∃ st, Terminal Q st ∧
      (next Q fuel' s' = (.done, st) ∨ (Q.cancelled s'.polls = true ∧ next Q fuel' s' = (.ctxErr, st))) := by
  have hg := historyGuard_of_safeCheck nvars P input vars H fuel n hprev
  obtain ⟨hg1, hg2⟩ := historyGuard_succ P fuel n _ hg
  exact error_then_done_at P fuel _ (after_inv2 P fuel n _ (initSt_inv2 P input vars) hg1) hg2 e s' h hsaved Q hcode fuel'

/-- `error_then_done_history` for accepted code: … and if the context is not cancelled at the poll
    of the re-entry, every later call returns `(nil, false)`. -/
theorem error_then_done_history_safe (nvars : Nat) (P : Params) (input : V) (vars : List V)
    (H : SafeRun nvars P input vars) (fuel n : Nat)
    (hprev : ∀ j, j < n → Proper (next P fuel (after P fuel j (initSt input vars))).1)
    (e : Err) (s' : St) (h : next P fuel (after P fuel n (initSt input vars)) = (.error e, s'))
    (hsaved : SavedEnds P.code s'.env) (Q : Params) (hcode : Q.code = P.code)
    (hnc : Q.cancelled s'.polls = false) (fuel' m : Nat) :
    history Q fuel' m s' = List.replicate m Outcome.done := by
  have hg := historyGuard_of_safeCheck nvars P input vars H fuel n hprev
  obtain ⟨hg1, hg2⟩ := historyGuard_succ P fuel n _ hg
  exact error_then_done_history P fuel _ (after_inv2 P fuel n _ (initSt_inv2 P input vars) hg1) hg2 e s' h hsaved
    Q hcode hnc fuel' m

/-- `error_then_done` on runs: an error RAISED by the turn that returned it (no fork was pending) is
    followed by `(nil, false)`.  This one needs neither the guard nor acceptance of the code (an
    `opforklabel` never raises): stated for every state reachable from `execute`, arbitrary code,
    inputs, oracles. -/
theorem error_then_done_reachable (P : Params) (fuel : Nat) (input : V) (vars : List V) (n : Nat)
    (e : Err) (s' : St) (h : next P fuel (after P fuel n (initSt input vars)) = (.error e, s'))
    (hraised : (lastTurn P fuel (entry P (after P fuel n (initSt input vars))) (after P fuel n (initSt input vars))).1.err = none)
    (Q : Params) (hcode : Q.code = P.code) (fuel' : Nat) :
    ∃ st, Terminal Q st ∧
      (next Q fuel' s' = (.done, st) ∨ (Q.cancelled s'.polls = true ∧ next Q fuel' s' = (.ctxErr, st))) :=
  error_then_done P fuel _ (reachable_invariant P fuel input vars n) e s' h hraised Q hcode fuel'

/-- The reduction of Props/C07AfterError.lean closed.  `after_error_advancable_of_backtrack_safe` asks
    for panic-freedom of ordinary execution from ALL backtracking states (false for arbitrary code);
    for accepted code it holds for the backtracking states OF THE RUN: from every turn of the run — in
    particular every turn in backtrack mode: after every fork pop, at every re-entry after an error —
    the rest of the call does not panic, at any fuel. -/
theorem backtrack_states_of_run_safe (nvars : Nat) (P : Params) (input : V) (vars : List V)
    (H : SafeRun nvars P input vars) (l : L) (s : St) (hR : Reach P (initSt input vars) l s)
    (fuel' : Nat) (site : Site) : (loop P fuel' l s).1 ≠ .panic site := by
  obtain ⟨i1, i2, _⟩ := turn_invariant_of_safeCheck nvars P input vars H l s hR
  have := (loop12_inv (checked1 H.accepted) (checked2 H.accepted) rfl H.clean H.keys fuel' l s hR i1 i2).1
  intro heq
  rw [heq] at this
  exact this

/-! ### non-vacuity: the real bytecodes of Props/C07AfterError.lean -/

/-- `KeysOK` for code that calls neither `_index` nor `getpath`, decided on the code -/
theorem keysOK_of_noKeyNative (P : Params) (s0 : St) (h : P.code.all noKeyNative = true) : KeysOK P s0 := by
  apply keysOK_of_no_key_natives
  intro ins hmem n
  exact noKeyNative_spec (Array.all_eq_true'.mp h ins (by simpa using hmem)) n

/-- the oracles of the examples are clean: they answer error values carrying a string, or `{}` -/
theorem extErrAt_clean (k : Nat) : ExtClean (extErrAt k) := by
  intro j
  by_cases hj : j = k <;> simp [extErrAt, ExtOK, hj, vpure, epure]

/-- … -/
theorem extErrAt2_clean (a b : Nat) : ExtClean (extErrAt2 a b) := by
  intro j
  by_cases hj : j = a ∨ j = b <;> simp [extErrAt2, ExtOK, hj, vpure, epure]

/-- … -/
theorem extModify_clean : ExtClean extModify := by
  intro j
  by_cases hj : j = 48 <;> simp [extModify, ExtOK, hj, vpure, epure]

-- the checker accepts the three programs (`.a |= error("x")` was compiled with the variable `$ARGS`)
example : safeCheckN 0 codeLabelError = true ∧ safeCheckN 0 codeIterError = true ∧ safeCheckN 0 codeFirstError = true := by
  decide +kernel
example : safeCheckN 1 codeModifyError = true := by decide +kernel

/-- `label $l | error("x")` on `null`: all hypotheses hold -/
theorem safeRun_labelError : SafeRun 0 ⟨codeLabelError, noCancel, extErrAt 5⟩ (.jv .null) [] :=
  ⟨by decide +kernel, extErrAt_clean 5, rfl, fun v hv => by simp at hv, rfl,
    keysOK_of_noKeyNative _ _ (by decide +kernel)⟩

/-- `.[] | error` on `[1, 2]`: all hypotheses hold -/
theorem safeRun_iterError : SafeRun 0 ⟨codeIterError, noCancel, extErrAt2 2 5⟩ (.jv (.arr [.num (.int 1), .num (.int 2)])) [] :=
  ⟨by decide +kernel, extErrAt2_clean 2 5, rfl, fun v hv => by simp at hv, rfl,
    keysOK_of_noKeyNative _ _ (by decide +kernel)⟩

/-- `label $l | error("x")` calls neither `_index` nor `getpath` -/
theorem labelError_noKeyNative : codeLabelError.all noKeyNative = true := by decide +kernel
/-- `label $l | error("x")` with the native `error` answering at poll 5 -/
abbrev pLabelError : Params := ⟨codeLabelError, noCancel, extErrAt 5⟩

-- `label $l | error("x")`: the guard at every turn of the first call, now a THEOREM instance …
example : historyGuard pLabelError 50 1 sNull = true :=
  historyGuard_of_safeCheck 0 _ _ _ safeRun_labelError 50 0 (fun j hj => by omega)
/-- … the first call does return an error, with the saved pc at the `opforklabel` … -/
theorem labelError_first : ∃ e s', next pLabelError 50 sNull = (.error e, s') ∧ s'.env.pc = 1 := by
  obtain ⟨e, s', h⟩ := error_of_tag (r := next pLabelError 50 sNull) (by decide +kernel)
  refine ⟨e, s', h, ?_⟩
  have : s' = (next pLabelError 50 sNull).2 := by rw [h]
  rw [this]; decide +kernel
-- … and the theorems apply.  The call after the error does not panic, at any fuel (same oracle) …
example (fuel' : Nat) (site : Site) :
    ∃ e s', next pLabelError 50 sNull = (.error e, s') ∧ (next pLabelError fuel' s').1 ≠ .panic site := by
  obtain ⟨e, s', h, _⟩ := labelError_first
  exact ⟨e, s', h, after_error_advancable_safe_same 0 _ _ _ safeRun_labelError 50 0 (fun j hj => by omega) e s' h fuel' site⟩
-- … nor under ANY later context and the later natives never answering (clean; no `_index` / `getpath`
-- in the code, so null keys are respected): the next call, and every later call
example (cancelled : Nat → Bool) (fuel' : Nat) (site : Site) :
    ∃ e s', next pLabelError 50 sNull = (.error e, s') ∧
      (next ⟨codeLabelError, cancelled, fun _ => {}⟩ fuel' s').1 ≠ .panic site := by
  obtain ⟨e, s', h, _⟩ := labelError_first
  exact ⟨e, s', h, after_error_advancable_safe 0 _ _ _ safeRun_labelError 50 0 (fun j hj => by omega) e s' h
    ⟨codeLabelError, cancelled, fun _ => {}⟩ rfl (fun _ => trivial) (keysOK_of_noKeyNative _ _ labelError_noKeyNative)
    fuel' site⟩
example (cancelled : Nat → Bool) (fuel' m k : Nat) (site : Site) :
    ∃ e s', next pLabelError 50 sNull = (.error e, s') ∧
      ∀ (hk : k < (history ⟨codeLabelError, cancelled, fun _ => {}⟩ fuel' m s').length),
      (∀ (j : Nat) (hj : j < k), Proper ((history ⟨codeLabelError, cancelled, fun _ => {}⟩ fuel' m s')[j]'(Nat.lt_trans hj hk))) →
      (history ⟨codeLabelError, cancelled, fun _ => {}⟩ fuel' m s')[k] ≠ .panic site := by
  obtain ⟨e, s', h, _⟩ := labelError_first
  exact ⟨e, s', h, fun hk hb => after_error_later_calls_safe 0 _ _ _ safeRun_labelError 50 0 (fun j hj => by omega) e s' h
    ⟨codeLabelError, cancelled, fun _ => {}⟩ rfl (fun _ => trivial) (keysOK_of_noKeyNative _ _ labelError_noKeyNative)
    fuel' m k hk hb site⟩
-- the first turn of the next call does not panic whatever the context and the natives answer later
example (cancelled : Nat → Bool) (ext : Nat → ExtRec) (site : Site) (st : St) :
    ∃ e s', next pLabelError 50 sNull = (.error e, s') ∧
      step ⟨codeLabelError, cancelled, ext⟩ (entry ⟨codeLabelError, cancelled, ext⟩ s') s' ≠ .fin (.panic site) st := by
  obtain ⟨e, s', h, _⟩ := labelError_first
  exact ⟨e, s', h, after_error_re_entry_total_safe 0 _ _ _ safeRun_labelError 50 0 (fun j hj => by omega) e s' h
    ⟨codeLabelError, cancelled, ext⟩ rfl site st⟩
-- the state after the error is a backtracking state AND a checked state
example (cancelled : Nat → Bool) (ext : Nat → ExtRec) :
    ∃ e s', next pLabelError 50 sNull = (.error e, s') ∧
      BacktrackState ⟨codeLabelError, cancelled, ext⟩ (entry ⟨codeLabelError, cancelled, ext⟩ s') s'.env ∧
      s'.env.forks = [] ∧ Between (ctxOf 0 codeLabelError) ⟨codeLabelError, cancelled, ext⟩ s' := by
  obtain ⟨e, s', h, _⟩ := labelError_first
  have := after_error_state_is_backtrack_state_safe 0 _ _ _ safeRun_labelError 50 0 (fun j hj => by omega) e s' h
    ⟨codeLabelError, cancelled, ext⟩ rfl
  exact ⟨e, s', h, this.1, this.2.2.1, this.2.2.2.2.2.1⟩
/-- the saved pc is the `opforklabel`, not an `opfork` / `opiter`: the next call ends at once -/
theorem labelError_saved : ∃ e s', next pLabelError 50 sNull = (.error e, s') ∧ SavedEnds codeLabelError s'.env := by
  obtain ⟨e, s', h, hpc⟩ := labelError_first
  refine ⟨e, s', h, ?_⟩
  unfold SavedEnds; rw [hpc]; simp [codeLabelError]
example (cancelled : Nat → Bool) (ext : Nat → ExtRec) (fuel' : Nat) :
    ∃ e s', next pLabelError 50 sNull = (.error e, s') ∧ ∃ st, Terminal ⟨codeLabelError, cancelled, ext⟩ st ∧
      (next ⟨codeLabelError, cancelled, ext⟩ fuel' s' = (.done, st) ∨
        (cancelled s'.polls = true ∧ next ⟨codeLabelError, cancelled, ext⟩ fuel' s' = (.ctxErr, st))) := by
  obtain ⟨e, s', h, hsaved⟩ := labelError_saved
  exact ⟨e, s', h, error_then_done_at_safe 0 _ _ _ safeRun_labelError 50 0 (fun j hj => by omega) e s' h hsaved
    ⟨codeLabelError, cancelled, ext⟩ rfl fuel'⟩
/-- every call of this run ends properly (the error, then `(nil, false)` for ever:
    `error_then_done_history_safe`) … -/
theorem labelError_all_proper : ∀ j, Proper (next pLabelError 50 (after pLabelError 50 j (initSt (.jv .null) []))).1 := by
  intro j
  obtain ⟨e, s', h, hsaved⟩ := labelError_saved
  have hh := error_then_done_history_safe 0 _ _ _ safeRun_labelError 50 0 (fun j hj => by omega) e s' h hsaved
    pLabelError rfl rfl 50 j
  have hall : ∀ o ∈ history pLabelError 50 (j + 1) (initSt (.jv .null) []), Proper o := by
    intro o ho
    have h' : next pLabelError 50 (initSt (.jv .null) []) = (.error e, s') := h
    simp only [history, h', List.mem_cons] at ho
    rcases ho with rfl | ho
    · trivial
    · rw [hh] at ho
      rw [List.eq_of_mem_replicate ho]
      trivial
  exact (properCalls_iff pLabelError 50 (j + 1) _).mp ((properCalls_iff_history pLabelError 50 (j + 1) _).mpr hall) j
    (by omega)
-- … so the guard holds at every turn of ANY number of calls, as a theorem instance, and the
-- fork/stack invariant `EnvInv2` in every state of the run
example (n : Nat) : historyGuard pLabelError 50 n sNull = true :=
  historyGuard_of_safeCheck_all 0 _ _ _ safeRun_labelError 50 labelError_all_proper n
example (n : Nat) : EnvInv2 pLabelError (after pLabelError 50 n sNull).env :=
  reachable_invariant2_safe 0 _ _ _ safeRun_labelError 50 n (fun j _ => labelError_all_proper j)
-- the checker's invariants at the first turn of every call of this run; from there the rest of the
-- call does not panic at any fuel
example (n : Nat) : Inv (ctxOf 0 codeLabelError) (entry pLabelError (after pLabelError 50 n sNull))
    (after pLabelError 50 n sNull).env :=
  (turn_invariant_of_safeCheck 0 _ _ _ safeRun_labelError _ _
    (reach_after_proper pLabelError 50 _ n (fun j _ => labelError_all_proper j))).1
example (n fuel' : Nat) (site : Site) : (next pLabelError fuel' (after pLabelError 50 n sNull)).1 ≠ .panic site :=
  backtrack_states_of_run_safe 0 _ _ _ safeRun_labelError _ _
    (reach_after_proper pLabelError 50 _ n (fun j _ => labelError_all_proper j)) fuel' site

-- `.[] | error` on `[1, 2]`: the first call returns an error (propagated to the `opiter`, which then
-- CONTINUES), the second call returns the second error — the hypothesis "earlier calls ended
-- properly" is decided on the run —, and the call after the second error does not panic
/-- the first call of `.[] | error` on `[1, 2]` ends properly (decided on the run) -/
theorem iterError_first_proper : ∀ j, j < 1 → Proper (next ⟨codeIterError, noCancel, extErrAt2 2 5⟩ 50
    (after ⟨codeIterError, noCancel, extErrAt2 2 5⟩ 50 j (initSt (.jv (.arr [.num (.int 1), .num (.int 2)])) []))).1 := by
  decide +kernel
example : historyGuard ⟨codeIterError, noCancel, extErrAt2 2 5⟩ 50 2 sOneTwo = true :=
  historyGuard_of_safeCheck 0 _ _ _ safeRun_iterError 50 1 iterError_first_proper
example (fuel' : Nat) (site : Site) :
    ∃ e s', next ⟨codeIterError, noCancel, extErrAt2 2 5⟩ 50 (after ⟨codeIterError, noCancel, extErrAt2 2 5⟩ 50 1 sOneTwo) = (.error e, s') ∧
      (next ⟨codeIterError, noCancel, extErrAt2 2 5⟩ fuel' s').1 ≠ .panic site := by
  obtain ⟨e, s', h⟩ := error_of_tag
    (r := next ⟨codeIterError, noCancel, extErrAt2 2 5⟩ 50 (after ⟨codeIterError, noCancel, extErrAt2 2 5⟩ 50 1 sOneTwo))
    (by decide +kernel)
  exact ⟨e, s', h, after_error_advancable_safe_same 0 _ _ _ safeRun_iterError 50 1 iterError_first_proper e s' h fuel' site⟩

/-- `KeysOK` for a concrete run that ends within `k` turns, decided by evaluation (`keysRun`: `keyOK` at
    each of the first `k` turns, then a turn past the end with no fork left) -/
theorem keysOK_of_finite_run (P : Params) (s0 : St) (k : Nat) (h : keysRun P k (entry P s0, s0) = true) :
    KeysOK P s0 :=
  keysOK_of_run P s0 k h

/-- `.a |= error("x")` on `{}` with `$ARGS = null`: all hypotheses hold.  The code calls `getpath` (in
    the hand-written `_modify`), so `KeysOK` is a fact of the run: it is decided on the run's turns. -/
theorem safeRun_modifyError : SafeRun 1 ⟨codeModifyError, noCancel, extModify⟩ (.jv (.obj [])) [.jv .null] :=
  ⟨by decide +kernel, extModify_clean, rfl, fun v hv => by simp at hv; subst hv; rfl, rfl,
    keysOK_of_finite_run _ _ 300 (by decide +kernel)⟩

-- `.a |= error("x")`: `_modify`'s `opforklabel` IS executed on an empty data stack (Props/C07AfterError.lean:
-- `labelOnEmpty` holds at a turn of this run), under the pending `opfork` of `_modify`'s `reduce` — the
-- checker's clause `1 ≤ h ∨ pend` —; the guard is a theorem instance, the first call returns the error
-- (saved pc at that `opfork`), and the call after it (which runs the alternative) does not panic
example : historyGuard ⟨codeModifyError, noCancel, extModify⟩ 200 1 sModify = true :=
  historyGuard_of_safeCheck 1 _ _ _ safeRun_modifyError 200 0 (fun j hj => by omega)
example (fuel' : Nat) (site : Site) :
    ∃ e s', next ⟨codeModifyError, noCancel, extModify⟩ 200 sModify = (.error e, s') ∧
      (next ⟨codeModifyError, noCancel, extModify⟩ fuel' s').1 ≠ .panic site := by
  obtain ⟨e, s', h⟩ := error_of_tag (r := next ⟨codeModifyError, noCancel, extModify⟩ 200 sModify) (by decide +kernel)
  exact ⟨e, s', h, after_error_advancable_safe_same 1 _ _ _ safeRun_modifyError 200 0 (fun j hj => by omega) e s' h fuel' site⟩

end Gojq.C07

/-
  C02 (item 4 and items 2–3) — the heap side of "update operators equal their defining reductions".

  Model: Gojq/Model/Heap.lean (labelled trees; `upd`, `release`, `modifyStep`, `modifyAll` transliterate
  func.go / compiler.go after the fixes abf8186, 97b79ee, 622959f; `getpath`, `setpath`, `delpaths` on
  `JV` are the defining value semantics).  Helper lemmas: Gojq/Proofs/Heap*.lean.

  Scope: path elements are object keys and array indices (any sign, extension with `null`, `null`
  turned into a container); update queries may yield an output or be `empty` (deferred `delpaths`).
  SLICE path elements are not in the model (a slice is a second header onto a cell; labelled trees
  cannot say that): for them the property is covered by the search oracle harness/c02oracle only.
-/
import Gojq.Proofs.HeapChain
import Gojq.Proofs.HeapAlgebra
import Gojq.Proofs.HeapDel
import Gojq.Proofs.HeapFull
namespace Gojq.C02Heap
open Gojq Gojq.Heap

/-- **In-place updates are unobservable.**  `update(v, p, n, a)` writes the containers on the path in
    place when the allocator owns them.  If every owned label occurs at most once in `v` and not at all
    in the inserted value `n` (what D5 violated), then: replaying the logged in-place writes through
    every reference of the result changes nothing — with the plain replay `applyLog` and with the exact
    last-write-wins replay `observe` —, the result denotes `setpath`, and every written cell is owned. -/
theorem upd_unobservable (p : Path) (v n : T) (A : List Nat) (f : Nat) (v' : T) (A' : List Nat) (f' : Nat) (log : Log)
    (h : upd A f p v n = some (v', A', f', log))
    (hu : Uniq A v) (hnA : ∀ a ∈ A, a ∉ n.ids)
    (hv : ∀ j ∈ v.ids, j < f) (hn : ∀ j ∈ n.ids, j < f) (hA : ∀ a ∈ A, a < f) :
    applyLog log v' = v' ∧ (∀ fuel, observe log fuel v' = v') ∧
    setpath p (abs v) (abs n) = some (abs v') ∧ (∀ e ∈ log, e.1 ∈ A) :=
  have hc := upd_cons p v n A f v' A' f' log h hu hnA hv hn hA
  ⟨applyLog_id log v' hc, fun fuel => observe_id log fuel v' hc, upd_abs p v n A f _ h,
   fun e he => ((upd_book p v n A f v' A' f' log h hv hn hA).2.2.2.2.2.2 e he).1⟩

/-- `update` never fails where `setpath` is defined differently: whenever it returns, its value is
    `setpath`'s, without any hypothesis on labels (the copy/in-place decision does not influence the
    tree that is returned; only aliases could see the difference). -/
theorem upd_denotes_setpath (p : Path) (v n : T) (A : List Nat) (f : Nat) r (h : upd A f p v n = some r) :
    setpath p (abs v) (abs n) = some (abs r.1) := upd_abs p v n A f r h

/-- **`release` establishes the hypothesis of `upd_unobservable`.**  After `a.release(x)` (622959f) no
    label of `x` is owned, so whatever the update query builds from parts of `x` and containers of its
    own holds no owned label.  Needs: owned labels unique in `x`, owned part of `x` top-closed. -/
theorem release_establishes (x : T) (A : List Nat) (ht : tc A x) (hu : Uniq A x) :
    (∀ a ∈ x.ids, a ∉ release A x) ∧ (∀ a ∈ release A x, a ∈ A) ∧
    (∀ a ∈ A, a ∉ x.ids → a ∈ release A x) :=
  ⟨release_est x A ht hu, release_sub x A, fun a h1 h2 => release_keep x A a h1 h2⟩

/-- **The invariant is re-established by every iteration of `_modify`**: owned labels unique in the
    value, owned part top-closed, counter above all labels.  Moreover the iteration's in-place writes are
    unobservable, hit only cells owned before it, and its result denotes
    `setpath(p; getpath(p) | q)`. -/
theorem invariant_preserved (q : T → Nat → T × Nat) (hq : QOK q) (v : T) (A : List Nat) (f : Nat) (p : Path)
    (v' : T) (A' : List Nat) (f' : Nat) (log : Log)
    (h : modifyStep q (v, A, f) p = some (v', A', f', log)) (inv : Inv A f v) :
    Inv A' f' v' ∧ applyLog log v' = v' ∧ (∀ e ∈ log, e.1 ∈ A) ∧
    ∃ x, getp p v = some x ∧ getpath p (abs v) = some (abs x) ∧
      setpath p (abs v) (abs (q x f).1) = some (abs v') := by
  obtain ⟨i1, hc, hl, x, hx, hs⟩ := modifyStep_sound q hq v A f p v' A' f' log h inv
  exact ⟨i1, applyLog_id log v' hc, hl, x, hx, getp_abs p v x hx, hs⟩

/-- C02 item 4 as far as the model can express it: `_modify` in full — for every list of key/index
    paths, every update query that at each path either yields an output or is `empty` (the path is then
    collected and all collected paths are deleted at the end by `_delpaths`), started with an empty
    allocator on a value without placeholders whose objects have strictly increasing keys — computes the
    defining reduction `modifyVFull` (jq 1.7's `_modify`: first output stored with `setpath`, deferred
    `delpaths`).  ⟦full⟧ C02.4 additionally quantifies over SLICE path elements: outside the model. -/
def modify_refines_statement : Prop :=
  ∀ (q : T → Nat → Option (T × Nat)) (qv : JV → Option JV), QOK' q →
    (∀ x f, (q x f).map (fun r => abs r.1) = qv (abs x)) →
    (∀ y z, JV.wf y = true → qv y = some z → JV.wf z = true) →
    ∀ (ps : List Path) (v : T) (f : Nat) (r : T), (∀ j ∈ v.ids, j < f) → holeFree v → JV.wf (abs v) = true →
      modifyFull q ps v f = some r → modifyVFull qv ps (abs v) = some (abs r)

/-- **`_modify` refines its defining reduction** — `modify_refines_partial`: for every list of
    key/index paths, in any order and however they overlap (ancestors, descendants, equal paths, paths
    through values produced by earlier updates, missing keys, negative and out-of-range indices), and
    every update query that builds its output from parts of its input and containers of its own
    (duplicating, re-embedding, replacing, dropping — `QOK'`) or is `empty`, the allocator-based
    reduction with its in-place writes, its `release` before each query and its final mark-then-sweep
    `_delpaths` returns exactly what the reduction over plain values returns.
    Gap to ⟦full⟧ C02.4: slice paths only (covered by harness/c02oracle). -/
theorem modify_refines_partial : modify_refines_statement := by
  intro q qv hq habs hqwf ps v f r hv hf hw h
  exact modifyFull_sound q qv hq habs hqwf ps v f hv hf hw r h

/-- the update-only fragment (every path gets an output), without the hypotheses on placeholders and
    key order that only the final `delpaths` needs -/
theorem modify_refines_updates_only (q : T → Nat → T × Nat) (qv : JV → JV) (hq : QOK q)
    (habs : ∀ x f, abs (q x f).1 = qv (abs x)) (ps : List Path) (v : T) (f : Nat) (r : T × List Nat × Nat)
    (hv : ∀ j ∈ v.ids, j < f) (h : modifyAll q ps (v, [], f) = some r) :
    modifyV qv ps (abs v) = some (abs r.1) :=
  (modifyAll_sound q qv hq habs ps v [] f r (inv_empty v f hv) h).1

/-- the same from any state satisfying the invariant, with the invariant re-established at the end -/
theorem modify_refines_from_invariant (q : T → Nat → T × Nat) (qv : JV → JV) (hq : QOK q)
    (habs : ∀ x f, abs (q x f).1 = qv (abs x)) (ps : List Path) (v : T) (A : List Nat) (f : Nat)
    (r : T × List Nat × Nat) (inv : Inv A f v) (h : modifyAll q ps (v, A, f) = some r) :
    modifyV qv ps (abs v) = some (abs r.1) ∧ Inv r.2.1 r.2.2 r.1 :=
  ⟨(modifyAll_sound q qv hq habs ps v A f r inv h).1, (modifyAll_sound q qv hq habs ps v A f r inv h).2.1⟩

/-! ### registered cells are live: why fresh labels are a faithful model of addresses -/

/-- The model draws the label of a new container from a counter, so a new label never equals a
    registered one.  Go addresses behave like that only while the registered container is LIVE: the
    address of a collected array can be handed out again.  **Every registered label occurs in the
    current value** throughout a `_modify` reduction started with an empty allocator, for every list of
    key/index paths and every update query: the subtree an update replaces has been released before
    (622959f) and an owned array that is re-allocated is unregistered (`a.free`, abb84a0).
    Before abb84a0 this was false — `upd` kept the label of the re-allocated array registered — and the
    C05 re-run oracle found the consequence: results of `|=` that changed from run to run with GC timing. -/
theorem registered_cells_live (q : T → Nat → T × Nat) (hq : QOK q) (ps : List Path) (v : T) (f : Nat)
    (r : T × List Nat × Nat) (hv : ∀ j ∈ v.ids, j < f) (h : modifyAll q ps (v, [], f) = some r) :
    ∀ a ∈ r.2.1, a ∈ r.1.ids :=
  modifyAll_live q hq ps v [] f r (inv_empty v f hv) (by simp) h

/-- a single `update`: a registered cell that is no longer reachable was dead before or sat in the
    subtree that was replaced (which `_modify` releases first; `_assign` does not, but it places no
    container into the value that was allocated after the reduction began) -/
theorem update_keeps_registered_live (p : Path) (v n : T) (A : List Nat) (f : Nat) v' A' f' log
    (h : upd A f p v n = some (v', A', f', log)) :
    ∀ a ∈ A', a ∉ v'.ids → a ∈ A ∧ (a ∉ v.ids ∨ a ∈ (subE p v).ids) :=
  upd_live p v n A f v' A' f' log h

/-- the re-allocation of an owned array unregisters it (the repair abb84a0 on the model): the owned
    one-element array in cell 5 outgrows its capacity -/
example : (upd [5] 10 [.idx 1] (.node 5 false 1 [([], T.null)]) (.leaf (.bool true))).map (fun r => r.2.1) = some [10] := by rfl

/-! ### value-level algebra (C02 item 2) -/

/-- `getpath (setpath v p x) p = x` whenever `setpath` succeeds -/
theorem getpath_setpath (p : Path) (v n w : JV) (h : setpath p v n = some w) : getpath p w = some n :=
  getpath_setpath_lemma p v n w h

/-- `setpath v p (getpath v p) = v` for every path of `v` -/
theorem setpath_getpath (p : Path) (v : JV) (h : validPath p v) :
    ∃ x, getpath p v = some x ∧ setpath p v x = some v :=
  setpath_getpath_lemma p v h

/-- a write through `p` does not change what is stored under `q` when the two paths part into different
    keys or different NON-NEGATIVE indices (`Indep`), however deep, also when the write extends an array
    or turns `null` into a container -/
theorem setpath_other (p q : Path) (v n w : JV) (hi : Indep p q) (h : setpath p v n = some w) :
    getpath q w = getpath q v :=
  setpath_other_lemma p q v n w hi h

/-- why `setpath_other` asks for non-negative indices: a write that extends an array moves the elements
    that negative indices denote.  `[0,1] | setpath([5]; 9) | getpath([-1])` is `9`, not `1`. -/
theorem setpath_other_negative_counterexample :
    ¬ ∀ (v n w : JV), setpath [.idx 5] v n = some w → getpath [.idx (-1)] w = getpath [.idx (-1)] v := by
  intro h
  have := h (.arr [.bool false, .bool true]) .null _ rfl
  simp [getpath, resolve, List.getD] at this

/-- on well-formed objects (strictly increasing keys) the key scan used by `getpath`/`setpath` is the
    map lookup -/
theorem kvFind_is_lookup (k : Bytes) (kvs : List (Bytes × JV)) (h : kvSorted kvs = true) :
    kvFind k kvs = kvLookup k kvs := kvFind_eq_kvLookup k kvs h

/-! ### `delpaths` (C02 item 3) -/

/-- **`delpaths` does not depend on the order of the path list**: all paths are interpreted against
    the original value (the defining mark-then-sweep semantics `delpaths` of the model deletes, in one
    structural pass, exactly the positions that the paths denote in `v`). -/
theorem delpaths_order_irrelevant (v : JV) (ps ps' : List Path) (h : ps.Perm ps') :
    delpaths ps v = delpaths ps' v := delpaths_perm v ps ps' h

/-- **Mark-then-sweep deletes the positions that the paths denote in the ORIGINAL value** (C02 item 3,
    `delpaths_original_indices`): func.go's `delpaths` — mark every path with `struct{}{}` through `update`,
    copying or writing in place as the allocator allows, then `deleteEmpty` over the owned containers —
    returns, whenever it succeeds, exactly the value-level `delpaths ps (abs v)`, for every list of
    key/index paths (ancestors, descendants, duplicates, missing keys, out-of-range and negative
    indices, in any order), every allocator and every value without placeholders whose objects have
    strictly increasing keys.  Together with `delpaths_order_irrelevant`: independent of the order of `ps`. -/
theorem delpaths_original_indices (A : List Nat) (f : Nat) (ps : List Path) (v : T) r
    (hfree : holeFree v) (hwf : JV.wf (abs v) = true) (h : delpathsT A f ps v = some r) :
    abs r.1 = delpaths ps (abs v) :=
  delpathsT_abs A f ps v r hfree hwf h

/-- whenever two orders of the same paths both succeed, func.go's `delpaths` returns the same value
    (success itself can depend on the order when a path runs through a scalar that an earlier path
    deleted: `{"a":1} | delpaths([["a"],["a","b"]])` is `{}`, the other order is an error — such lists
    never come from `path(…)`) -/
theorem delpaths_code_order_irrelevant (A A' : List Nat) (f f' : Nat) (ps ps' : List Path) (v : T) r r'
    (hfree : holeFree v) (hwf : JV.wf (abs v) = true) (hp : ps.Perm ps')
    (h : delpathsT A f ps v = some r) (h' : delpathsT A' f' ps' v = some r') : abs r.1 = abs r'.1 := by
  rw [delpathsT_abs A f ps v r hfree hwf h, delpathsT_abs A' f' ps' v r' hfree hwf h', delpaths_perm _ _ _ hp]

/-- the marking pass writes only cells registered in the allocator it is given or allocated by itself,
    and the sweep stores only into registered cells -/
theorem delpaths_writes_confined (A : List Nat) (f : Nat) (ps : List Path) (v : T)
    (v' : T) (A' : List Nat) (f' : Nat) (log : Log) (sw : List Nat)
    (h : delpathsT A f ps v = some (v', A', f', log, sw)) :
    (∀ e ∈ log, e.1 ∈ A') ∧ (∀ a ∈ sw, a ∈ A') ∧ (∀ a ∈ A', a ∈ A ∨ (f ≤ a ∧ a < f')) := by
  simp only [delpathsT] at h
  split at h
  · simp only [Option.some.injEq, Prod.mk.injEq] at h
    obtain ⟨rfl, rfl, rfl, rfl, rfl⟩ := h
    exact ⟨by simp, by simp, fun a ha => Or.inl ha⟩
  · split at h
    · cases h
    · rename_i u A1 f1 log1 hm
      simp only [Option.some.injEq, Prod.mk.injEq] at h
      obtain ⟨rfl, rfl, rfl, rfl, rfl⟩ := h
      obtain ⟨_, _, h2, h3⟩ := markAll_confined ps v A f [] u A1 f1 log1 hm (by simp)
      exact ⟨h3, sweepWrites_sub A1 u, h2⟩

/-! ### non-vacuity -/

/-- the update query `[., .]` (duplicates its input inside a container of its own) -/
def dup : T → Nat → T × Nat := fun x f => (.node f false 2 [([], x), ([], x)], f + 1)

theorem dup_ok : QOK dup := by
  intro x f
  refine ⟨Nat.le_succ f, ?_⟩
  intro j hj
  simp only [dup, T.ids, idsK, List.append_nil, List.mem_cons, List.mem_append] at hj
  rcases hj with rfl | hj | hj
  · exact Or.inr ⟨Nat.le_refl _, Nat.lt_succ_self _⟩
  · exact Or.inl hj
  · exact Or.inl hj

/-- the hypotheses of `upd_unobservable`, `release_establishes` and `invariant_preserved` are satisfiable with
    owned cells present: the owned array 5 holding the owned object 6 and a shared object 1 -/
example : Inv [5, 6] 10 (.node 5 false 2 [([], .node 6 true 0 [([97], T.null)]), ([], .node 1 true 0 [])]) where
  uniq := by intro a ha; simp at ha; rcases ha with rfl | rfl <;> simp [T.ids, idsK, T.null]
  top := by simp [tc, tcK, T.null, idsK]
  hv := by intro j hj; simp [T.ids, idsK, T.null] at hj; omega
  hA := by intro a ha; simp at ha; omega

example : (release [5, 6] (.node 5 false 2 [([], .node 6 true 0 [([97], T.null)]), ([], .node 1 true 0 [])])) = [] := by rfl

/-- an update query that is `empty` on `null` and duplicates everything else satisfies `QOK'` -/
example : QOK' (fun x f => match x with | .leaf .null => none | _ => some (dup x f)) := by
  intro x f n f1 h
  have hd : dup x f = (n, f1) := by
    cases x with
    | leaf s => cases s <;> simp_all
    | hole => simp_all
    | node id o c ks => simp_all
  have := dup_ok x f
  rw [hd] at this
  refine ⟨this.1, this.2, ?_⟩
  intro hx
  have hn : n = .node f false 2 [([], x), ([], x)] := by simp only [dup, Prod.mk.injEq] at hd; exact hd.1.symm
  rw [hn]
  simp [holeFree, holeFreeK, hx]

/-- `[false,null,true] | (.[0], .[1]) |= empty` on the model: both paths are collected and deleted at the end,
    against the original indices -/
example : (modifyFull (fun _ _ => none) [[.idx 0], [.idx 1]]
    (.node 0 false 3 [([], .leaf (.bool false)), ([], T.null), ([], .leaf (.bool true))]) 10).map abs =
    some (.arr [.bool true]) := by rfl

/-- D5's witness `[[null]] | (.[0][0], .[0], .[0][0][0]) |= [., .]` on the model of the FIXED code gives
    the value of the defining reduction, `[[[[[null,null],[null,null]]],[[null,null]]]]`. -/
example :
    (modifyAll dup [[.idx 0, .idx 0], [.idx 0], [.idx 0, .idx 0, .idx 0]]
      (.node 0 false 1 [([], .node 1 false 1 [([], T.null)])], [], 10)).map (fun r => abs r.1) =
    some (.arr [.arr [.arr [.arr [.arr [.null, .null], .arr [.null, .null]]], .arr [.arr [.null, .null]]]]) := by
  rfl

example : setpath [.idx 1, .key [97]] (.arr [.null]) (.bool true) = some (.arr [.null, .obj [([97], .bool true)]]) := by rfl
example : validPath [.idx (-1)] (.arr [.null, .bool true]) := ⟨1, by decide, trivial⟩
example : Indep [.key [97], .idx 0] [.key [97], .idx 2] := Or.inr ⟨rfl, Or.inl ⟨by decide, by decide, by decide⟩⟩
example : delpaths [[.idx 1], [.idx 2]] (.arr [.bool false, .null, .null, .bool true]) = .arr [.bool false, .bool true] := by rfl
example : holeFree (.node 0 false 1 [([], .node 1 true 0 [([97], T.null), ([98], T.null)])]) := by
  simp [holeFree, holeFreeK, T.null]
example : (delpathsT [] 10 [[.idx 0, .key [97]]] (.node 0 false 1 [([], .node 1 true 0 [([97], T.null), ([98], T.null)])])).map
    (fun r => (abs r.1, r.2.2.2.2)) = some (.arr [.obj [([98], .null)]], [11, 10]) := by rfl

end Gojq.C02Heap

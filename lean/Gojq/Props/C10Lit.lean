/-
  C10 — "number literals are not degraded": integer literals of ANY number of digits.

  `parseNumberLit` (Model/Native.lean) is the model of `toNumber` / `parseNumber` on a jq number
  token, the function `Spec.eval` uses for the term `.number text`; the `eval` stream of C01 and the
  `arith` stream of C10 compare it with the real lexer → compiler → interpreter on literals of up to
  400 digits.  Until now exactness of literals was an oracle (search) only.  Here it is a theorem of
  the model, for every digit string and every integer:

    * `digits_literal_exact`      : a non-empty string of decimal digits (leading zeros allowed, any
                                    length) reads as exactly the integer it denotes — never a float;
    * `nat_literal_exact`, `int_text_exact` : the decimal text of every integer reads back as that integer;
    * `literal_evaluates_exactly` : `Spec.eval`'s term evaluation of such a literal outputs exactly it;
    * `literals_injective`        : two different integers never read as the same number (no rounding
                                    to a common float: 2^64 and 2^64+1 stay apart), and
    * `literal_sum_exact` / `literal_product_exact` : arithmetic on two literals is the exact integer
                                    (the literal theorems composed with `C10.add_exact` / `mul_exact`).
  Witness `huge_exponent_literal_is_not_an_integer`: `1e401` is read as +infinity (the theorems are
  about plain digit strings only, as the property is).
-/
import Gojq.Proofs.MiniSpecLit
import Gojq.Props.C10

namespace Gojq.C10Lit
open Gojq Gojq.Spec Gojq.MiniSpec

/-- a non-empty string of decimal digits reads as exactly the integer it denotes -/
theorem digits_literal_exact (cs : List Char) (hne : cs ≠ []) (hall : ∀ c ∈ cs, c.isDigit = true) :
    parseNumberLit (String.ofList cs) = some (.int (Nat.ofDigitChars 10 cs 0 : Int)) := by
  simpa using parse_digits cs hne hall false

/-- the decimal text of every natural number reads back as that number -/
theorem nat_literal_exact (n : Nat) : parseNumberLit (toString n) = some (.int (n : Int)) := by
  have h := parse_digits (Nat.toDigits 10 n) Nat.toDigits_ne_nil
    (fun c hc => Nat.isDigit_of_mem_toDigits (by omega) (by omega) hc) false
  simp only [Bool.false_eq_true, if_false, Nat.ofDigitChars_ten_toDigits] at h
  rw [← h, Nat.toString_eq_ofList_toDigits]

/-- … and of every integer (the text `-d…` is what `tostring` / the encoder print; in a query the
    sign is the unary operator, `Spec.unaryNumber?`) -/
theorem int_text_exact (i : Int) : parseNumberLit (toString i) = some (.int i) := by
  cases i with
  | ofNat n =>
    have : toString (Int.ofNat n) = toString n := rfl
    rw [this, nat_literal_exact]; rfl
  | negSucc n =>
    have : toString (Int.negSucc n) = String.ofList ('-' :: Nat.toDigits 10 (n+1)) := by
      show "-" ++ toString (n+1) = _
      rw [Nat.toString_eq_ofList_toDigits]
      apply String.toList_inj.mp
      simp
    have h := parse_digits (Nat.toDigits 10 (n+1)) Nat.toDigits_ne_nil
      (fun c hc => Nat.isDigit_of_mem_toDigits (by omega) (by omega) hc) true
    simp only [if_true, Nat.ofDigitChars_ten_toDigits] at h
    rw [this, h]
    simp [Int.negSucc_eq]

/-- the interpreter specification outputs exactly the integer the literal denotes -/
theorem literal_evaluates_exactly (fuel : Nat) (cfg : Cfg) (env : Env) (n : Nat) (s : St) :
    evalCore (fuel + 1) cfg env (.number (toString n)) s = .one (computed s (.num (.int (n : Int)))) := by
  simp only [evalCore]
  rw [nat_literal_exact]

/-- different integers never read as the same number -/
theorem literals_injective (a b : Nat) (h : parseNumberLit (toString a) = parseNumberLit (toString b)) :
    a = b := by
  rw [nat_literal_exact, nat_literal_exact] at h
  injection h with h
  injection h with h
  exact Int.ofNat.inj h

/-- the sum of two integer literals of any size is the exact integer -/
theorem literal_sum_exact (a b : Nat) :
    (do let x ← parseNumberLit (toString a); let y ← parseNumberLit (toString b); pure (opAddNum x y)) =
      some (.int ((a : Int) + b)) := by
  rw [nat_literal_exact, nat_literal_exact]
  simp [C10.add_exact]

/-- the product of two integer literals of any size is the exact integer -/
theorem literal_product_exact (a b : Nat) :
    (do let x ← parseNumberLit (toString a); let y ← parseNumberLit (toString b); pure (opMulNum x y)) =
      some (.int ((a : Int) * b)) := by
  rw [nat_literal_exact, nat_literal_exact]
  simp [C10.mul_exact]

/-- not vacuous / not degraded: 2^64 and 2^64 + 1 are read as themselves -/
example : parseNumberLit "18446744073709551617" = some (.int 18446744073709551617) :=
  nat_literal_exact 18446744073709551617

/-- an exponent literal beyond the float range is read as an infinity, not as an integer: the
    theorems above are about plain digit strings only, as the property is -/
theorem huge_exponent_literal_is_not_an_integer : parseNumberLit "1e401" = some (.inf false) := by
  decide

end Gojq.C10Lit

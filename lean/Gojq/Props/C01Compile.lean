/-
  C01.3 — the compiler and the backtracking VM agree with the reference semantics on a
  fragment of jq with closures, recursion, error handling and state-threading loops
  (Model/MiniVM.lean): identity, constants, pipe, comma, `.[]`, `.name`, `empty`, `[q]`, `error`,
  `try b`, `try b catch h`, `if c then a else b end`, `l // r`, `$x`, `src as $x | body`,
  `reduce src as $x (init; upd)`, `foreach src as $x (init; upd; ext)`, object construction
  `{(k): v, a: v, "a": v, a, "a", $x, …}` with generator keys and values, one-filter-parameter
  functions `def f(g): …` with arbitrary recursion, the parameter `g`, calls `f(a)` whose argument
  is passed as a closure.  What the fragment takes from the host library — `funcIndex2` behind
  `.name` and the texts of the two error messages `catch` can receive — is a parameter
  (`IterMsg`): the theorems hold for every choice of it.

  `compile` emits the instructions compiler.go emits for these forms with all optimisations
  off and `step` is the `Next()` loop for the opcodes they use; both are tied to the code on
  every run by the `mini` stream (instruction-list equality and output equality on random
  programs).  Proofs: Proofs/MiniVM{Yields,Compile,Refine,RefineCall,RefineTry,RefineCond,
  RefineVar,RefineLoop,RefineForeach,RefineObj,Prog}.lean — one lemma `cy_<construct>` per construct,
  assembled by induction on the fuel.

  Object constructions are `obj spine` with the entries as a left-nested spine `objSnoc (… objStart …) k v`
  / `objSnocC … key v` inside `Q` (`Q.Closed` demands a non-empty spine under every `obj`; a spine alone is
  not a query: the reference semantics gives it no meaning and the theorems say nothing about it).
  `delay q` is `q` with one more unit of reference fuel and no instruction (`delay_emits_no_code`).

  Restrictions of the fragment (`Prog.WF` / `Q.Closed`): functions are top-level with exactly one
  filter parameter, and a `$variable` is only used in the scope that binds it — not inside the
  argument expression of a call made in that scope (variables of enclosing FRAMES read through
  `outerindex` are not covered; the parameter closure is).
  Scope of the claim: the fragment, and the model's abstractions listed in Model/MiniVM.lean
  (the persistent stacks as immutable lists — justified by Props/C01Stack.lean; `expdepth`
  ignored).  For the rest of the core grammar agreement with `Spec.eval` is observed (stream
  `eval`), not proved; the framework has no full compiler/VM model against which the full
  statement (DESIGN §6 C01.3 `compile_refines_spec`) could be written down.
-/
import Gojq.Proofs.MiniVMProg
import Gojq.Proofs.MiniVMObjSpec
import Gojq.Proofs.MiniVMStrip
namespace Gojq.C01Compile
open Gojq Gojq.MiniVM

variable [IterMsg]

/-- Compiler correctness, in its compositional form.  Let `code` contain the functions laid out
    as `compileFuncDef` does (`FuncsOK`).  Take ANY query `q` of the fragment whose code sits at
    `p` inside the scope entered at `e` of function `g`; start the machine there with ANY input
    `v` on ANY stack `S`, ANY pending forks `F`, registers `R`, offset `o` above the scope's static
    registers, and frames `fr` whose top is that scope and which — together with the registers
    in a set `P` lying below the segment's own — realise the environment `ρ` (`EnvOK`:
    walking `outerindex` finds the frame of `g`, whose register 1 holds the closure: the code of
    the argument and the frame it was created in, recursively; and every variable in scope sits
    in its register of the current frame, holding the value the reference environment gives it).  Then, if the reference evaluation
    with fuel `n` does not run out of fuel, the machine `Yields` exactly its outputs: for each
    output `w` in order it reaches the exit `p + len` with `w :: S` on the stack, the same frames,
    registers changed only in the scope's own static registers and above `o` (never in `P`),
    and — whatever the rest of the program does to registers other than those it must keep
    (the static ones, `P`, and the frames allocated so far) — resumes from the forks it left
    pending; after the last output it fails into `F` carrying the error the reference
    evaluation ends with (or none). -/
theorem compile_yields {code defs entry nf} (hfun : FuncsOK code defs entry nf)
    (n : Nat) (q : Q) (g : Ctx) (e p : Nat) (hep : e ≤ p) (hseg : Seg code p (compile entry g e p q))
    (hcl : q.Closed nf (g.vars.map (·.1))) (ρ : Env) (v : V) (S : List SV) (F : List Fork) (R : Regs) (fr : List Frame)
    (o : Nat) (cp : CP)
    (P : Nat → Prop) (htop : TopIs fr e) (hge : scopeOf entry g ≤ e) (hpar : q.HasParam → ρ.clo ≠ .none)
    (hP : ∀ a, P a → a < base fr + (p - e))
    (henv : EnvOK code entry nf P R fr ρ g)
    (hoff : base fr + (p + (compile entry g e p q).length - e) ≤ o) (hnd : ND (eval defs n g ρ q v).stop) :
    Yields code (Own (base fr) e p (compile entry g e p q).length) P o fr F (p + (compile entry g e p q).length) S
      (.run p (.v v :: S) F false none R fr o cp) (eval defs n g ρ q v).outs (eval defs n g ρ q v).stop.toErr :=
  MiniVM.compile_yields hfun n q g e p hep hseg hcl ρ v S F R fr o cp P htop hge hpar hP henv hoff hnd

/-- The layout `compileProg` produces (what `Compile` produces: `scope; jump…; scope; store; store;
    load; body; ret; …; main; ret`) satisfies the layout hypothesis of `compile_yields`, for
    every well-scoped program. -/
theorem compileProg_layout (p : Prog) (hwf : p.WF) :
    FuncsOK (compileProg p) p.defsFn (entryOf p.defs) p.defs.length :=
  funcsOK_compileProg p hwf

example : exProg.WF :=
  ⟨by intro q hq; simp [exProg] at hq; subst hq; simp [Q.Closed, exProg], by simp [Q.Closed, exProg],
   by simp [Q.HasParam, exProg]⟩

/-- Whole programs: for every well-scoped program of the fragment, every input and every fuel
    for which the reference semantics does not run out of fuel, running the compiled program —
    `env.execute`, then `Next()` until exhaustion — returns exactly the reference outputs, in
    order, and then stops with the reference's uncaught error if there is one (`Next` returns
    it) or with none (`Next` returns `(nil, false)`). -/
theorem compile_refines_spec_fragment (p : Prog) (hwf : p.WF) (v : V) (n : Nat)
    (hnd : ND (eval p.defsFn n ⟨none, []⟩ ⟨.none, []⟩ p.main v).stop) :
    Run (compileProg p) (initCfg (compileProg p) v)
      (eval p.defsFn n ⟨none, []⟩ ⟨.none, []⟩ p.main v).outs (eval p.defsFn n ⟨none, []⟩ ⟨.none, []⟩ p.main v).stop.toErr :=
  prog_refines p hwf v n hnd

example : ND (@eval exMsg exProg.defsFn 40 ⟨none, []⟩ ⟨.none, []⟩ exProg.main exInput).stop := by decide
example : exTry.WF ∧ exTryCont.WF :=
  ⟨⟨by simp [exTry], by simp [Q.Closed, exTry], by simp [Q.HasParam, exTry]⟩,
   ⟨by simp [exTryCont], by simp [Q.Closed, exTryCont], by simp [Q.HasParam, exTryCont]⟩⟩

/-- The same about the EXECUTABLE interpreter the correspondence stream runs (`runProg`, i.e.
    `exec`: iterate `step`, collect what `Next()` returns): with enough fuel — and then with any
    larger amount — it finishes with exactly the reference outputs and the reference error.
    In particular the machine never gets stuck (no Go panic) on compiled code. -/
theorem compile_refines_spec_fragment_exec (p : Prog) (hwf : p.WF) (v : V) (n : Nat)
    (hnd : ND (eval p.defsFn n ⟨none, []⟩ ⟨.none, []⟩ p.main v).stop) :
    ∃ fuel, ∀ k, runProg p (fuel + k) v =
      .finished (eval p.defsFn n ⟨none, []⟩ ⟨.none, []⟩ p.main v).outs
        ((eval p.defsFn n ⟨none, []⟩ ⟨.none, []⟩ p.main v).stop.toErr.map .plain) := by
  obtain ⟨fuel, h⟩ := run_exec (prog_refines p hwf v n hnd) []
  exact ⟨fuel, fun k => exec_mono _ _ _ _ _ (by simpa using h) k⟩

/-- the mini VM on the example: 4 outputs (the input, `[]`, `[[]]`, `[]`), no error -/
example : (match @runProg exMsg exProg 400 exInput with | .finished outs none => outs.length | _ => 0) = 4 := by
  decide +kernel

/-- `try ((.[] | error), 1) catch [.]` on `[7, 8]` is `[7]`: the handler runs on the error value and
    the body is not resumed -/
example : (match @runProg exMsg exTry 400 exInput2 with
    | .finished [.arr [.num (.int 7)]] none => true | _ => false) = true := by decide +kernel

/-- `(try 1 catch 2) | error`: no output, the uncaught error value `1` — `try` does not intercept
    an error of its continuation -/
example : (match @runProg exMsg exTryCont 400 exInput2 with
    | .finished [] (some (.plain (.user (.num (.int 1))))) => true | _ => false) = true := by decide +kernel

/-- `reduce .[] as $x (0; [., $x])` on `[7, 8]` is `[[0,7],8]` — on the machine and in the reference
    semantics -/
example : (match @runProg exMsg exReduce 400 exInput2 with
    | .finished [.arr [.arr [.num (.int 0), .num (.int 7)], .num (.int 8)]] none => true | _ => false) = true
    ∧ (match @eval exMsg exReduce.defsFn 40 ⟨none, []⟩ ⟨.none, []⟩ exReduce.main exInput2 with
    | ⟨[.arr [.arr [.num (.int 0), .num (.int 7)], .num (.int 8)]], .done⟩ => true | _ => false) = true := by
  decide +kernel

/-- `reduce .[] as $x (0; empty)` on `[7, 8]` is `0`: an empty update keeps the state (gojq; jq ≥ 1.6
    gives `null`) -/
example : (match @runProg exMsg exReduceEmpty 400 exInput2 with
    | .finished [.num (.int 0)] none => true | _ => false) = true := by decide +kernel

/-- `foreach .[] as $x (0; $x, [.]; [$x, .])` on `[7, 8]` is `[7,7], [7,[0]], [8,8], [8,[[0]]]`: both
    outputs of the update are extracted, each computed from the state the element started with, and
    the second element starts from the LAST output `[0]` of the first -/
example : (match @runProg exMsg exForeach 600 exInput2 with
    | .finished [.arr [.num (.int 7), .num (.int 7)], .arr [.num (.int 7), .arr [.num (.int 0)]],
                 .arr [.num (.int 8), .num (.int 8)], .arr [.num (.int 8), .arr [.arr [.num (.int 0)]]]] none => true
    | _ => false) = true := by decide +kernel

/-- What the machine emits is determined: two complete runs from the same state agree. -/
theorem run_deterministic {code c o1 e1 o2 e2} (r1 : Run code c o1 e1) (r2 : Run code c o2 e2) :
    o1 = o2 ∧ e1 = e2 := by
  obtain ⟨n1, h1⟩ := run_exec r1 []
  obtain ⟨n2, h2⟩ := run_exec r2 []
  have a := exec_mono _ _ _ _ _ h1 n2
  have b := exec_mono _ _ _ _ _ h2 n1
  rw [Nat.add_comm n2 n1, a] at b
  simp only [List.reverse_nil, List.nil_append, Outcome.finished.injEq] at b
  refine ⟨b.1, ?_⟩
  have h := b.2
  cases e1 <;> cases e2 <;> simp_all

/-- An error raised by the rest of the program while the forks a segment left behind are pending
    unwinds through all of them unchanged: every `fork` / `iter` re-entered with `backtrack` and
    `err` set breaks the loop again, and the `forktryend` fork pushed after each output of a `try`
    body wraps the error in a `tryEndError` which the `forktrybegin` of that `try` unwraps and
    passes on instead of catching — `try` does not intercept errors of its continuation. -/
theorem error_unwinds_through_forks {code F'} (h : ForksOK code F') (F : List Fork) (x : VErr) (R : Regs) :
    Steps code (.fail (F' ++ F) (some x) R) (.fail F (some x) R) :=
  err_through h F x R

example {code : Code} : ForksOK code [] := ForksOK.nil

/-! ## object construction -/

/-- `{(k1): v1, (k2): v2}` -/
def obj2 (k1 v1 k2 v2 : Q) : Q := .obj (.objSnoc (.objSnoc .objStart k1 v1) k2 v2)

/-- The order of evaluation of an object construction, as the reference semantics has it (and, by
    `compile_yields`, the compiled code): the FIRST key is the outermost loop, each key is
    evaluated before its value, the LAST value is the innermost loop; every key and value is
    evaluated on the input of the whole construction; the object is built (and a non-string key
    reported) only after all entries have produced a value. -/
theorem object_evaluation_order (defs : Name → Q) (n : Nat) (g : Ctx) (ρ : Env) (k1 v1 k2 v2 : Q) (x : V) :
    eval defs (n+1) g ρ (obj2 k1 v1 k2 v2) x =
      (eval defs n g ρ k1 x).bindG fun a => (eval defs n g ρ v1 x).bindG fun b =>
      (eval defs n g ρ k2 x).bindG fun c => (eval defs n g ρ v2 x).bindG fun d =>
        objOfPairs [(a, b), (c, d)] := rfl

/-- … and for entries with constant keys (`{a: v1, "b": v2}`, `{a}`, `{$x}`): only the values loop -/
theorem object_evaluation_order_const (defs : Name → Q) (n : Nat) (g : Ctx) (ρ : Env) (a b : V) (v1 v2 : Q) (x : V) :
    eval defs (n+1) g ρ (.obj (.objSnocC (.objSnocC .objStart a v1) b v2)) x =
      (eval defs n g ρ v1 x).bindG fun w1 => (eval defs n g ρ v2 x).bindG fun w2 =>
        objOfPairs [(a, w1), (b, w2)] := rfl

/-- The instructions of `{(k1): v1, (k2): v2}` are compileObject's: `store r; load r; k1; load r; v1;
    load r; k2; load r; v2; object 2`. -/
theorem object_code_shape (entry : Name → Nat) (g : Ctx) (e p : Nat) (k1 v1 k2 v2 : Q) :
    compile entry g e p (obj2 k1 v1 k2 v2) =
      [.store e (p - e), .load e (p - e)] ++ compile entry g e (p + 2) k1 ++ [.load e (p - e)] ++
        compile entry g e (p + 2 + k1.size + 1) v1 ++ [.load e (p - e)] ++
        compile entry g e (p + 2 + k1.size + 1 + v1.size + 1) k2 ++ [.load e (p - e)] ++
        compile entry g e (p + 2 + k1.size + 1 + v1.size + 1 + k2.size + 1) v2 ++ [.object 2] := by
  simp only [obj2, compile, Q.entries, compile_length, List.length_append, List.length_cons, List.length_nil,
    List.nil_append, List.append_assoc, List.cons_append]
  have e1 : p + (0 + 1) + 1 = p + 2 := by omega
  have e2 : p + (k1.size + (v1.size + 1) + 1 + 1) + 1 = p + 2 + k1.size + 1 + v1.size + 1 := by omega
  rw [e1, e2]

omit [IterMsg] in
/-- what `opobject` builds: a later entry overrides an earlier one with the same key … -/
theorem object_last_duplicate_wins (k : Bytes) (v1 v2 : V) :
    objOfPairs [(.str k, v1), (.str k, v2)] = ⟨[.obj [(k, v2)]], .done⟩ := by
  simp [objOfPairs, objOfPairsRev, kvInsert]

omit [IterMsg] in
/-- … and the LAST entry whose key is not a string is the one reported -/
theorem object_last_bad_key_reported (v1 v2 : V) :
    objOfPairs [(.null, v1), (.bool true, v2)] = ⟨[], .err (.keyNotStr (.bool true))⟩ := by
  simp [objOfPairs, objOfPairsRev]

omit [IterMsg] in
/-- The object `opobject` builds from the evaluated pairs (the loop of execute.go: pop the pairs last
    entry first, stop at the first key that is not a string, keep a key already present) is what
    `Spec.evalObject` prescribes at its last step (Model/Spec.lean, same expressions): the LAST
    entry whose key is not a string is the error; otherwise `JV.mkObj` of the string-keyed pairs in
    the order of the entries — insert in order, a later duplicate replaces the earlier one. -/
theorem object_built_as_Spec_evalObject (acc : List (V × V)) :
    objOfPairs acc =
      match acc.reverse.find? (fun (k, _) => match k with | .str _ => false | _ => true) with
      | some (k, _) => ⟨[], .err (.keyNotStr k)⟩
      | none => ⟨[JV.mkObj (acc.filterMap fun (k, v) => match k with | .str b => some (b, v) | _ => none)], .done⟩ :=
  objOfPairs_eq_spec acc

/-- `delay q` (Model/MiniVM.lean) is the query `q` with one more unit of REFERENCE fuel — the relation
    `Tr` of Model/MiniSpec.lean uses it to give the mini reference evaluator the fuel `Spec.evalObject`
    spends per object entry.  It emits no instruction: the compiled program is that of the program
    without its `delay`s (`Prog.strip`), which is what the `mini` stream compares with the real
    compiler's output … -/
theorem delay_emits_no_code (p : Prog) (hwf : p.WF) : compileProg p.strip = compileProg p :=
  compileProg_strip p hwf

/-- … and so the machine runs are the same -/
theorem delay_same_runs (p : Prog) (hwf : p.WF) (fuel : Nat) (v : V) : runProg p.strip fuel v = runProg p fuel v := by
  simp only [runProg, compileProg_strip p hwf]

/-- `{("a","b"): .[], "c": .}`, `{"a": 1, "a": 2}`, `{"a": ., (1): error}` -/
def exObj : Prog := ⟨[], .obj (.objSnocC (.objSnoc .objStart (.comma (.const (.str [97])) (.const (.str [98]))) .iter) (.str [99]) .id)⟩
def exObjDup : Prog := ⟨[], obj2 (.const (.str [97])) (.const (.num (.int 1))) (.const (.str [97])) (.const (.num (.int 2)))⟩
def exObjKey : Prog := ⟨[], obj2 (.const (.str [97])) .id (.const (.num (.int 1))) (.const .null)⟩
def exObjErr : Prog := ⟨[], obj2 (.const (.num (.int 1))) .id (.const (.str [97])) .error⟩

example : exObj.WF ∧ exObjDup.WF ∧ exObjKey.WF ∧ exObjErr.WF := by
  refine ⟨⟨by simp [exObj], ?_, by simp [Q.HasParam, exObj]⟩, ⟨by simp [exObjDup], ?_, by simp [Q.HasParam, exObjDup, obj2]⟩,
    ⟨by simp [exObjKey], ?_, by simp [Q.HasParam, exObjKey, obj2]⟩, ⟨by simp [exObjErr], ?_, by simp [Q.HasParam, exObjErr, obj2]⟩⟩ <;>
  simp [Q.Closed, Q.IsSpine, exObj, exObjDup, exObjKey, exObjErr, obj2]

/-- `{("a","b"): .[], "c": .}` on `[7,8]`: the first key is the outermost loop —
    `{"a":7,"c":[7,8]}, {"a":8,…}, {"b":7,…}, {"b":8,…}` — on the machine and in the reference semantics -/
example : (match @runProg exMsg exObj 400 exInput2 with
    | .finished [.obj [([97], .num (.int 7)), ([99], _)], .obj [([97], .num (.int 8)), ([99], _)],
                 .obj [([98], .num (.int 7)), ([99], _)], .obj [([98], .num (.int 8)), ([99], _)]] none => true
    | _ => false) = true
    ∧ (match @eval exMsg exObj.defsFn 40 ⟨none, []⟩ ⟨.none, []⟩ exObj.main exInput2 with
    | ⟨[.obj [([97], .num (.int 7)), ([99], _)], .obj [([97], .num (.int 8)), ([99], _)],
        .obj [([98], .num (.int 7)), ([99], _)], .obj [([98], .num (.int 8)), ([99], _)]], .done⟩ => true
    | _ => false) = true := by decide +kernel

/-- `{"a": 1, "a": 2}` is `{"a": 2}` -/
example : (match @runProg exMsg exObjDup 400 exInput2 with
    | .finished [.obj [([97], .num (.int 2))]] none => true | _ => false) = true := by decide +kernel

/-- `{"a": ., (1): null}`: no output, the key error for `1` -/
example : (match @runProg exMsg exObjKey 400 exInput2 with
    | .finished [] (some (.plain (.keyNotStr (.num (.int 1))))) => true | _ => false) = true := by decide +kernel

/-- `{(1): ., "a": error}`: the error of the value comes before the object is built (the bad key `1` is
    never reported) -/
example : (match @runProg exMsg exObjErr 400 exInput2 with
    | .finished [] (some (.plain (.user _))) => true | _ => false) = true := by decide +kernel


end Gojq.C01Compile

/-
  C12 — every emitted value serialises to valid JSON that reads back equal.
  Property theorems only; helper lemmas are in Gojq/Proofs/Encode*.lean.

  Model (Gojq/Model/Encode.lean): `encodeString`/`encodeValue` transliterate /repo/encoder.go
  (= gojq.Marshal, tojson, tostring on non-strings, @json, @text); `Cli.enc` is /repo/cli/encoder.go
  as a machine over the byte buffer (colours, writeIndent, the block-doubling copy loop of
  writeIndentInternal, the 8 KiB flush as a list of chunks); `parseJson` is an RFC 8259 reader;
  `Utf8.sanitize` maps every invalid byte to U+FFFD.
-/
import Gojq.Proofs.Encode
import Gojq.Proofs.EncodeStr
import Gojq.Proofs.EncodeNum
import Gojq.Proofs.EncodeParse
import Gojq.Proofs.EncodeStrip
import Gojq.Proofs.EncodeIndent
namespace Gojq.C12
open Gojq Gojq.Encode

/-! ## strings -/

/-- The string encoder's output is `"` body `"`; the body contains no byte below 0x20 (no raw
    control character), and every `"` or `\` in it belongs to a backslash escape with a legal
    letter (`escapedOk`) — for every byte string, valid UTF-8 or not. -/
theorem encodeString_ascii_safe (s : Bytes) :
    ∃ body, encodeString s = cQuote :: (body ++ [cQuote]) ∧ (∀ x ∈ body, 0x20 ≤ x.toNat) ∧ escapedOk body = true := by
  have hp := pieces_shapes (encStrAux_pieces s.length s (Nat.le_refl _))
  exact ⟨_, rfl, shapes_noCtl hp, escapedOk_shapes hp⟩

/-- The string encoder's output is valid UTF-8 for every input byte string. -/
theorem encodeString_valid_utf8 (s : Bytes) : Utf8.valid (encodeString s) = true :=
  (valid_encodeString s).valid

/-- Reading back an encoded string gives the input with every invalid byte replaced by U+FFFD —
    for all byte strings. -/
theorem string_roundtrip (s : Bytes) : parseJson (encodeString s) = some (.str (Utf8.sanitize s)) :=
  parseJson_encodeValue (.str s) rfl

/-- Valid UTF-8 reads back unchanged, and what is read back is always valid UTF-8. -/
theorem string_roundtrip_valid (s : Bytes) :
    (Utf8.valid s = true → parseJson (encodeString s) = some (.str s)) ∧ Utf8.valid (Utf8.sanitize s) = true := by
  refine ⟨fun h => ?_, sanitize_valid s⟩
  rw [string_roundtrip, sanitize_of_valid s h]

/-- `utf8.DecodeRune` followed by `utf8.AppendRune` restores a well-formed sequence: the
    copy-based sanitiser of the encoders equals decode-all-then-re-encode. -/
theorem decode_encode_rune (s : Bytes) : sanitizeBytes s = Utf8.sanitize s := sanitizeBytes_eq s

/-! ## values -/

/-- Integers of any size read back exactly. -/
theorem int_roundtrip (z : Int) : parseJson (encodeValue (.num (.int z))) = some (.num (.int z)) :=
  parseJson_encodeValue _ rfl

/-- NaN is written as `null`; ±infinity as ±1.7976931348623157e+308, which reads back as
    ±MaxFloat64. -/
theorem nonfinite_roundtrip :
    parseJson (encodeValue (.num .nan)) = some .null ∧
    parseJson (encodeValue (.num (.inf false))) = some (.num (.flt maxFloat64)) ∧
    parseJson (encodeValue (.num (.inf true))) = some (.num (.flt (-maxFloat64))) := by
  refine ⟨parseJson_encodeValue _ rfl, ?_, ?_⟩
  · rw [parseJson_encodeValue _ rfl]; simp [readBack, readBackNum, readBackFlt_max]
  · rw [parseJson_encodeValue _ rfl]; simp [readBack, readBackNum, readBackFlt_negmax]

/-- The full round trip: the library encoder's text of ANY value (any nesting, any strings and
    keys) reads back as `readBack v` — strings and keys sanitised, NaN ↦ null, ±inf ↦ ±MaxFloat64,
    integers exact, floats as `readBackFlt` (see `float_readback_faithful`).
    Full statement; proved below for every value whose floats the shortest-digit search covers. -/
def encode_roundtrip_statement : Prop := ∀ v : JV, parseJson (encodeValue v) = some (readBack v)

/-- `encode_roundtrip_statement` for every value all of whose finite floats have shortest digits
    found by the model's search (`modelled v`; the search tries 1..17 significant digits, which
    always suffices for a float64 — that classical fact is the one thing not proved here; the
    correspondence streams never met a float the search does not cover).  By mutual structural
    induction on values, element lists and member lists. -/
theorem encode_roundtrip_partial (v : JV) (h : modelled v = true) :
    parseJson (encodeValue v) = some (readBack v) :=
  parseJson_encodeValue v h

/-- `tojson | fromjson` is `readBack`: the identity up to NaN ↦ null, ±inf ↦ ±MaxFloat64, U+FFFD
    replacement and integral floats read as integer literals. -/
theorem tojson_fromjson (v : JV) (h : modelled v = true) : fromjson (tojson v) = some (readBack v) :=
  encode_roundtrip_partial v h

/-- `tostring` (and `@text`) is `tojson` (and `@json`) on everything that is not a string, and the
    identity on strings. -/
theorem tostring_is_tojson (v : JV) : (∀ s, v ≠ .str s) → tostring v = tojson v := by
  intro h
  cases v with
  | str s => exact absurd rfl (h s)
  | _ => rfl

mutual
  /-- no finite float below (NaN and ±inf allowed) -/
  def noFiniteFloat : JV → Bool
    | .num (.flt _) => false
    | .num .nzero => false
    | .arr xs => noFiniteFloatList xs
    | .obj kvs => noFiniteFloatKvs kvs
    | _ => true
  def noFiniteFloatList : List JV → Bool
    | [] => true
    | x :: xs => noFiniteFloat x && noFiniteFloatList xs
  def noFiniteFloatKvs : List (Bytes × JV) → Bool
    | [] => true
    | (_, x) :: xs => noFiniteFloat x && noFiniteFloatKvs xs
end

mutual
  theorem readBack_exact : ∀ v : JV, noFiniteFloat v = true → modelled v = true ∧ readBack v = sanitizeJV v
    | .null, _ => ⟨rfl, rfl⟩
    | .bool _, _ => ⟨rfl, rfl⟩
    | .str _, _ => ⟨rfl, rfl⟩
    | .num (.int _), _ => ⟨rfl, rfl⟩
    | .num .nan, _ => ⟨rfl, rfl⟩
    | .num (.inf false), _ => ⟨rfl, by simp [readBack, readBackNum, sanitizeJV, readBackFlt_max]⟩
    | .num (.inf true), _ => ⟨rfl, by simp [readBack, readBackNum, sanitizeJV, readBackFlt_negmax]⟩
    | .num (.flt _), h => by simp [noFiniteFloat] at h
    | .num .nzero, h => by simp [noFiniteFloat] at h
    | .arr xs, h => by
      have := readBackList_exact xs (by simpa [noFiniteFloat] using h)
      exact ⟨by simpa [modelled] using this.1, by simp [readBack, sanitizeJV, this.2]⟩
    | .obj kvs, h => by
      have := readBackKvs_exact kvs (by simpa [noFiniteFloat] using h)
      exact ⟨by simpa [modelled] using this.1, by simp [readBack, sanitizeJV, this.2]⟩
  theorem readBackList_exact : ∀ xs : List JV, noFiniteFloatList xs = true →
      modelledList xs = true ∧ readBackList xs = sanitizeList xs
    | [], _ => ⟨rfl, rfl⟩
    | x :: xs, h => by
      simp only [noFiniteFloatList, Bool.and_eq_true] at h
      have h1 := readBack_exact x h.1
      have h2 := readBackList_exact xs h.2
      exact ⟨by simp [modelledList, h1.1, h2.1], by simp [readBackList, sanitizeList, h1.2, h2.2]⟩
  theorem readBackKvs_exact : ∀ kvs : List (Bytes × JV), noFiniteFloatKvs kvs = true →
      modelledKvs kvs = true ∧ readBackKvs kvs = sanitizeKvs kvs
    | [], _ => ⟨rfl, rfl⟩
    | (k, x) :: xs, h => by
      simp only [noFiniteFloatKvs, Bool.and_eq_true] at h
      have h1 := readBack_exact x h.1
      have h2 := readBackKvs_exact xs h.2
      exact ⟨by simp [modelledKvs, h1.1, h2.1], by simp [readBackKvs, sanitizeKvs, h1.2, h2.2]⟩
end

/-- Without finite floats (integers of any size, strings, NaN, ±inf, containers of any depth and
    width) the text reads back EXACTLY as the sanitised value — no side condition. -/
theorem encode_roundtrip_exact (v : JV) (h : noFiniteFloat v = true) :
    parseJson (encodeValue v) = some (sanitizeJV v) := by
  obtain ⟨h1, h2⟩ := readBack_exact v h
  rw [encode_roundtrip_partial v h1, h2]

/-- What a finite non-zero float reads back as: the float itself, or — when it is integral and
    printed without fraction and exponent — an integer literal `±m·10^k` whose magnitude rounds
    (to nearest even) to the float's magnitude, i.e. a number gojq compares equal to it.
    (`.int 0` is the answer for `q = 0` and the junk value where the digit search fails.) -/
theorem float_readback_faithful (q : Rat) :
    readBackFlt q = .int 0 ∨ readBackFlt q = .flt q ∨
    ∃ (m : Nat) (k : Nat), readBackFlt q = .int (if q < 0 then -((m * 10 ^ k : Nat) : Int) else ((m * 10 ^ k : Nat) : Int)) ∧
      roundRat ((m : Rat) * pow10 k) = .flt (if q < 0 then -q else q) :=
  readBackFlt_faithful q

/-- Two values with the same text read back the same: the encoding is injective up to what
    sanitisation identifies. -/
theorem encode_injective_on_readback (v w : JV) (hv : modelled v = true) (hw : modelled w = true)
    (h : encodeValue v = encodeValue w) : readBack v = readBack w := by
  have h1 := encode_roundtrip_partial v hv
  have h2 := encode_roundtrip_partial w hw
  rw [h] at h1; rw [h1] at h2; exact Option.some.inj h2

/-- The library encoder's whole output is valid UTF-8 and contains no byte below 0x20, for every
    value (also where the float search fails). -/
theorem encode_valid_utf8_no_control (v : JV) :
    Utf8.valid (encodeValue v) = true ∧ ∀ x ∈ encodeValue v, 0x20 ≤ x.toNat :=
  ⟨(valid_encodeValue v).valid, noCtl_encodeValue v⟩

/-! ## the command's encoder -/

/-- `writeIndentInternal(n, block)` appends exactly `n` copies of the unit — for ALL `n` and any
    non-empty constant block (loop invariant: the buffer ends with at least `l` units), although
    the loop copies from the buffer it is writing to and doubles `l`. (The buffer is kept reversed
    in the model, hence the units in front.) -/
theorem indent_exact (u : UInt8) (n L : Nat) (wr : Bytes) (hL : 1 ≤ L) :
    Cli.writeIndentInternal n (List.replicate L u) wr = List.replicate n u ++ wr :=
  Cli.writeIndentInternal_spec u n L wr hL

/-- `writeIndent` at `e.depth = depth` appends one newline and exactly `depth` units (tabs with
    `--tab`, else spaces), whatever the buffer holds. -/
theorem indent_exact_newline (o : Cli.Opts) (depth : Int) (b : Cli.Buf) :
    (Cli.writeIndent o depth b).total = b.total ++ cNl :: List.replicate depth.toNat o.unit :=
  Cli.total_writeIndent o depth b

/-- Walking the command's real output bytes (colours removed) with a bracket-depth counter: after
    every newline outside a string the run of units (tabs with `--tab`, else spaces) has length
    exactly `depth × indent` — `(depth − 1) × indent` before a closing bracket — and the output
    never ends inside such a run: for every indenting mode (`indent ≥ 0`), every accepted colour
    record and every value, at every depth. -/
theorem indent_exact_output (o : Cli.Opts) (ho : ∀ c, o.color = some c → c.Valid) (hi : o.indent ≥ 0) (v : JV) :
    indentOk o.unit o.indent.toNat .out 0 (stripSGR (Cli.encodeCli o v)) = true :=
  indentOk_encodeCli o (optsOK_of_valid o ho) hi v

/-- Compact mode (`-c`, indent −1): minus colours the command writes exactly the library
    encoder's bytes — no white space at all. -/
theorem compact_is_marshal (o : Cli.Opts) (ho : ∀ c, o.color = some c → c.Valid) (hi : o.indent < 0) (v : JV) :
    stripSGR (Cli.encodeCli o v) = encodeValue v :=
  compact_encodeCli o (optsOK_of_valid o ho) hi v

/-- Flushing changes nothing but chunk boundaries: from ANY buffer state (any flushed chunks, any
    pending bytes) encoding a value at nesting level `level` adds exactly the layout
    `render o level v`, in which every newline is followed by `level × indent` units
    (`Cli.newline`), to the bytes written so far. -/
theorem cli_chunks_concat (o : Cli.Opts) (level : Nat) (v : JV) (b : Cli.Buf) :
    (Cli.enc o ((level : Int) * o.indent) v b).total = b.total ++ Cli.render o level v :=
  Cli.enc_total o level v b

/-- The concatenation of the chunks `marshal` writes is the layout at level 0. -/
theorem cli_output_is_layout (o : Cli.Opts) (v : JV) :
    (Cli.marshalChunks o v).flatten = Cli.render o 0 v :=
  Cli.encodeCli_eq_render o v

/-- All modes agree: removing SGR sequences and white space outside strings from the command's
    output gives the library encoder's text, for EVERY option record (any indent incl. compact,
    tabs or spaces, no colours or any colours `setColors` accepts) and every value. -/
theorem cli_modes_agree (o : Cli.Opts) (ho : ∀ c, o.color = some c → c.Valid) (v : JV) :
    stripWs (stripSGR (Cli.encodeCli o v)) = encodeValue v := by
  rw [Cli.encodeCli_eq_render]; exact strip_render o (optsOK_of_valid o ho) 0 v

/-- hence the command's output, stripped, reads back like the library's -/
theorem cli_roundtrip (o : Cli.Opts) (ho : ∀ c, o.color = some c → c.Valid) (v : JV) (h : modelled v = true) :
    parseJson (stripWs (stripSGR (Cli.encodeCli o v))) = some (readBack v) := by
  rw [cli_modes_agree o ho v]; exact encode_roundtrip_partial v h

/-- The command's output is valid UTF-8 in every mode. -/
theorem cli_valid_utf8 (o : Cli.Opts) (ho : ∀ c, o.color = some c → c.Valid) (v : JV) :
    Utf8.valid (Cli.encodeCli o v) = true := by
  rw [Cli.encodeCli_eq_render]; exact (valid_render o (optsOK_of_valid o ho) 0 v).valid

/-! ## non-vacuity: concrete instances of the statements above -/

-- DEL, an invalid byte, a quote, U+2028 (not escaped), a control byte
example : encodeString [0x7f, 0xff, 0x22, 0xe2, 0x80, 0xa8, 0x1f] =
    [0x22, 0x5c, 0x75, 0x30, 0x30, 0x37, 0x66, 0x5c, 0x75, 0x66, 0x66, 0x66, 0x64, 0x5c, 0x22, 0xe2, 0x80, 0xa8,
     0x5c, 0x75, 0x30, 0x30, 0x31, 0x66, 0x22] := by decide
example : parseJson (encodeString [0x7f, 0xff, 0x22]) = some (.str [0x7f, 0xEF, 0xBF, 0xBD, 0x22]) := by
  rw [string_roundtrip]; exact congrArg (fun b => some (JV.str b)) (by decide)
-- a value the exact theorem applies to, and a float the partial theorem applies to
example : noFiniteFloat (.arr [.num (.int (-12345678901234567890)), .obj [([0xff], .num .nan)], .num (.inf true)]) = true := by decide
example : modelled (.arr [.num (.flt ((1 : Rat) / 2)), .num (.flt 100)]) = true := by decide +kernel
example : parseJson (encodeValue (.arr [.num (.flt ((1 : Rat) / 2)), .num (.flt 100)])) =
    some (.arr [.num (.flt ((1 : Rat) / 2)), .num (.int 100)]) := by
  have h1 : readBackFlt ((1 : Rat) / 2) = .flt ((1 : Rat) / 2) := by decide +kernel
  have h2 : readBackFlt 100 = .int 100 := by decide +kernel
  rw [encode_roundtrip_partial _ (by decide +kernel)]
  simp [readBack, readBackList, readBackNum, h1, h2]
example : tostring (.str [0x61]) = .str [0x61] ∧ (∀ s, JV.num (.int 1) ≠ .str s) := ⟨rfl, fun _ h => by cases h⟩
-- an integral float is read back as an integer literal (third alternative of `float_readback_faithful`)
example : readBackFlt 100 = .int 100 := by decide +kernel
-- indentation beyond the 32-space block: the doubling loop runs
example : Cli.writeIndentInternal 100 (List.replicate 32 cSpace) [cNl] = List.replicate 100 cSpace ++ [cNl] := by decide
-- the walker is not trivially true: one space where two are due is rejected, the right layout accepted
example : indentOk cSpace 2 .out 0 [0x5b, 0x0a, 0x20, 0x31, 0x0a, 0x5d] = false := by decide
example : indentOk cSpace 2 .out 0 [0x5b, 0x0a, 0x20, 0x20, 0x31, 0x0a, 0x5d] = true := by decide
example : (⟨2, false, some Cli.defaultColors⟩ : Cli.Opts).indent ≥ 0 ∧ (⟨-1, false, none⟩ : Cli.Opts).indent < 0 := by decide
-- the default colours are accepted colours
example : Cli.defaultColors.Valid := defaultColors_valid
example : Cli.encodeCli ⟨2, false, some Cli.defaultColors⟩ (.arr [.null]) =
    [0x5b, 0x0a, 0x20, 0x20, 0x1b, 0x5b, 0x39, 0x30, 0x6d, 0x6e, 0x75, 0x6c, 0x6c, 0x1b, 0x5b, 0x30, 0x6d, 0x0a, 0x5d] := by decide
example : stripWs (stripSGR (Cli.encodeCli ⟨2, false, some Cli.defaultColors⟩ (.arr [.null]))) = [0x5b, 0x6e, 0x75, 0x6c, 0x6c, 0x5d] := by decide

end Gojq.C12

/-
  lexer.go transliterated at byte level.

  State.  The Go lexer keeps `source` and an index `offset`; here the state keeps the number of
  bytes consumed (`offset`) TOGETHER WITH the unread suffix `rest` (so `source = consumed ++ rest`
  and `offset + rest.length = len(source)`).  `l.peek()` is `rest.headD 0`: Go's peek returns 0 at
  the end of the source, so the end and a NUL byte are indistinguishable to the callers of peek
  that do not also test the offset — exactly as in the code (skipComment and Lex do test).  The only UNCHECKED index of
  lexer.go is `l.source[l.offset]` in `next`; it is the explicit outcome `panic` here (and proved
  unreachable).  Slices `l.source[i:j]` are `take`s of the suffix the scan started from.

  Every scanner is a structural recursion on the unread suffix and returns how many bytes it
  consumed, which replaces the in-place `l.offset++` / `l.offset--` bookkeeping:

    identLen            = scanIdent          (isIdent(·, true)*)
    scanIdentOrModule   = scanIdentOrModule  (ident [`::` ident])
    scanNumber          = scanNumber         (states Lead / Float / ExpLead / Exp; ok=false is Go's negative result)
    nextAux             = next + skipComment (modes; white space, `#` comments with gojq's backslash / CR rules)
    scanString          = the `for i := l.offset …` loop of scanString up to its first return

  Token codes, the keyword table and the operator spellings come from Gojq.Generated.Lalr.
-/
import Gojq.Model.Utf8
import Gojq.Generated.Lalr
namespace Gojq.Lexer
open Gojq Gojq.Generated.Lalr

/-! ### character classes (lexer.go: isWhite isIdent isHex isNumber) -/

def isWhite (c : UInt8) : Bool := c == 9 || c == 10 || c == 13 || c == 32
def isNumber (c : UInt8) : Bool := 48 ≤ c && c ≤ 57
def isIdent (c : UInt8) (tail : Bool) : Bool :=
  (97 ≤ c && c ≤ 122) || (65 ≤ c && c ≤ 90) || c == 95 || (tail && isNumber c)
def isHex (c : UInt8) : Bool := (97 ≤ c && c ≤ 102) || (65 ≤ c && c ≤ 70) || isNumber c

/-- `l.peek()` -/
def peek (r : Bytes) : UInt8 := r.headD 0

/-! ### scanners -/

/-- `scanIdent`: number of bytes it advances over -/
def identLen : Bytes → Nat
  | [] => 0
  | c :: r => if isIdent c true then identLen r + 1 else 0

/-- `scanIdentOrModule` (bytes consumed, isModule) -/
def scanIdentOrModule (r : Bytes) : Nat × Bool :=
  let n := identLen r
  match r.drop n with
  | 58 :: 58 :: c :: r2 => if isIdent c false then (n + 3 + identLen r2, true) else (n, false)
  | _ => (n, false)

inductive NumState where
  | lead | float | expSign | expLead | exp
  deriving DecidableEq, Repr

/-- `scanNumber(state)`: (bytes consumed, ok); ok = false is the negative return value.
    `expSign` is `numberStateExpLead` entered right after `e`/`E`, where the code first skips one
    optional sign (`switch l.peek() { case '-', '+': l.offset++ }`). -/
def scanNumber : NumState → Bytes → Nat × Bool
  | .lead, [] => (0, true)
  | .float, [] => (0, true)
  | .expSign, [] => (0, false)
  | .expLead, [] => (0, false)
  | .exp, [] => (0, true)
  | st, c :: r =>
    if st == .lead || st == .float then
      if isNumber c then let (n, ok) := scanNumber st r; (n + 1, ok)
      else if c == 46 then
        if st != .lead then (1, false) else let (n, ok) := scanNumber .float r; (n + 1, ok)
      else if c == 101 || c == 69 then let (n, ok) := scanNumber .expSign r; (n + 1, ok)
      else if isIdent c false then (1, false)
      else (0, true)
    else if st == .expSign && (c == 45 || c == 43) then let (n, ok) := scanNumber .expLead r; (n + 1, ok)
    else if !isNumber c then
      if isIdent c false then (1, false)
      else if st != .exp then (0, false) else (0, true)
    else let (n, ok) := scanNumber .exp r; (n + 1, ok)

/-- result of `next()` -/
inductive Next where
  | char (ch : UInt8) (consumed : Nat)   -- `return ch, false`; consumed includes ch
  | eof (consumed : Nat)                 -- `return 0, true`
  | panic                                -- `l.source[l.offset]` with offset == len(source)
  deriving Repr, DecidableEq

inductive Mode where
  | normal      -- the loop of next()
  | comment     -- the loop of skipComment()
  | afterBs     -- skipComment, just after `case '\\': l.offset++`
  | afterBsCR   -- …, just after the `\r` that followed the backslash
  deriving DecidableEq, Repr

/-- `next()` with `skipComment()` inlined as modes; `n` = bytes consumed so far.
    A comment ends BEFORE `\n` or `\r` (skipComment returns false without consuming it) and
    `next` then reads that byte as white space — inlined in the comment branch.  Inside a comment a
    backslash consumes a following backslash, LF, CR or CR LF; a NUL byte inside a comment is an
    ordinary comment byte (`case 0: if len(l.source) == l.offset { return true }; l.offset++`). -/
def nextAux : Mode → Bytes → Nat → Next
  | .normal, [], _ => .panic
  | _, [], n => .eof n
  | mode, c :: r, n =>
    if mode == .normal then
      if c == 35 then nextAux .comment r (n + 1)
      else if !isWhite c then .char c (n + 1)
      else if r.isEmpty then .eof (n + 1)
      else nextAux .normal r (n + 1)
    else if (mode == .afterBs && (c == 92 || c == 10)) || (mode == .afterBsCR && c == 10) then
      nextAux .comment r (n + 1)
    else if mode == .afterBs && c == 13 then nextAux .afterBsCR r (n + 1)
    else if c == 92 then nextAux .afterBs r (n + 1)
    else if c == 10 || c == 13 then
      -- skipComment returns false; next(): ch = LF | CR is white
      if r.isEmpty then .eof (n + 1) else nextAux .normal r (n + 1)
    else nextAux .comment r (n + 1)

def next (r : Bytes) : Next := nextAux .normal r 0

/-- number of leading hex digits among the first four bytes -/
def hexPrefix : Bytes → Nat
  | a :: r => if !isHex a then 0 else
    match r with
    | b :: r => if !isHex b then 1 else
      match r with
      | c :: r => if !isHex c then 2 else
        match r with
        | d :: _ => if !isHex d then 3 else 4
        | [] => 3
      | [] => 2
    | [] => 1
  | [] => 0

/-- where the loop of `scanString` stops; positions are relative to the `l.offset` the scan
    started from -/
inductive StrScan where
  | invalidEscape (endOff len : Nat)   -- l.offset := endOff; l.token := the `len` bytes before it
  | interp (k : Nat)                   -- `\(` with the backslash at position k
  | quote (k : Nat)                    -- `"` at position k
  | unterminated
  deriving Repr, DecidableEq

def scanString : Bytes → Nat → StrScan
  | [], _ => .unterminated
  | c :: r, k =>
    if c == 92 then
      match r with
      | [] => .unterminated
      | e :: r' =>
        if e == 117 then
          match r' with
          | a :: b :: c' :: d :: r4 =>
            if isHex a && isHex b && isHex c' && isHex d then scanString r4 (k + 6)
            else .invalidEscape (k + 2 + hexPrefix r') (hexPrefix r' + 2)
          | _ => .invalidEscape (k + 2 + hexPrefix r') (hexPrefix r' + 2)
        else if e == 34 || e == 47 || e == 92 || e == 98 || e == 102 || e == 110 || e == 114 || e == 116 then
          scanString r' (k + 2)
        else if e == 40 then .interp k
        else .invalidEscape (k + 2) 2
    else if c == 34 then .quote k
    else scanString r (k + 1)

/-! ### string values: `unquote` = encoding/json string decoding of the scanned text -/

def hexVal (c : UInt8) : Nat :=
  if 48 ≤ c && c ≤ 57 then c.toNat - 48
  else if 97 ≤ c && c ≤ 102 then c.toNat - 87
  else c.toNat - 55

/-- `getu4` on the four digits -/
def u4 (a b c d : UInt8) : Nat := hexVal a * 4096 + hexVal b * 256 + hexVal c * 16 + hexVal d

/-- decode the text between the quotes (escapes were validated by `scanString`).  Mirrors
    `unquoteBytes` of encoding/json: `\uXXXX` surrogate pairs combine, a lone surrogate and every
    invalid UTF-8 byte become U+FFFD; control bytes pass (quoteAndEscape turns them into `\u00XX`
    first, which decodes to the same byte). -/
def unquote : Nat → Bytes → Bytes
  | 0, _ => []
  | _, [] => []
  | fuel + 1, c :: r =>
    if c == 92 then
      match r with
      | [] => []
      | e :: r' =>
        if e == 117 then
          match r' with
          | a :: b :: c' :: d :: r4 =>
            let rr := u4 a b c' d
            if 0xD800 ≤ rr && rr < 0xE000 then
              match r4 with
              | 92 :: 117 :: a2 :: b2 :: c2 :: d2 :: r10 =>
                let rr1 := u4 a2 b2 c2 d2
                if rr < 0xDC00 && 0xDC00 ≤ rr1 && rr1 < 0xE000 && isHex a2 && isHex b2 && isHex c2 && isHex d2 then
                  Utf8.encodeRune ((rr - 0xD800) * 1024 + (rr1 - 0xDC00) + 0x10000) ++ unquote fuel r10
                else Utf8.encodeRune Utf8.runeError ++ unquote fuel r4
              | _ => Utf8.encodeRune Utf8.runeError ++ unquote fuel r4
            else Utf8.encodeRune rr ++ unquote fuel r4
          | _ => []
        else
          let b : UInt8 := if e == 98 then 8 else if e == 102 then 12 else if e == 110 then 10
            else if e == 114 then 13 else if e == 116 then 9 else e
          b :: unquote fuel r'
    else if c < 128 then c :: unquote fuel r
    else
      let (rr, w, _) := Utf8.decodeRune (c :: r)
      Utf8.encodeRune rr ++ unquote fuel ((c :: r).drop (max w 1))

def unquoteStr (s : Bytes) : Bytes := unquote (s.length + 1) s

/-! ### Lex -/

/-- the lexer fields that change (`source` is `consumed ++ rest`) -/
structure LState where
  offset : Nat
  rest : Bytes
  inString : Bool := false
  token : Bytes := []          -- l.token
  tokenType : Int := 0         -- l.tokenType (deferred assignment in Lex)
  panicked : Bool := false     -- an unchecked index failed (proved unreachable)
  deriving Repr, DecidableEq

def LState.init (src : Bytes) : LState := { offset := 0, rest := src }

/-- what Lex stores in `*lval` for this token.  Fields it does not assign keep the previous
    token's values in Go; no semantic action reads such a stale field (the `%token<…>` types). -/
structure LVal where
  token : Bytes := []
  operator : Nat := 0
  deriving Repr, DecidableEq, Inhabited

def bytesLookup {α : Type} (k : Bytes) : List (Bytes × α) → Option α
  | [] => none
  | (k', v) :: rest => if k == k' then some v else bytesLookup k rest

/-- a literal operator spelling: token code and Operator from the table extracted from Lex -/
def opEntry (sp : Bytes) : Int × Nat :=
  match bytesLookup sp lexOps with
  | some e => e
  | none => (tokInvalid, 0)   -- spelling no longer assigned in lexer.go; caught by `lexOps_cover` (Props/C09)

/-- what one call of Lex decides once `next` has returned the byte `ch` with `r` unread (or, in
    interpolation mode, with `r` = the whole unread source): how many FURTHER bytes of `r` it
    consumes, the new `l.token` (none = left unchanged: Lex does not assign it for single-byte
    tokens and for tokStringQuery / tokStringEnd), the token code, `*lval`, and the
    new `l.inString` (none = unchanged). -/
structure Scan where
  n : Nat
  token : Option Bytes
  ty : Int
  lval : LVal := {}
  inString : Option Bool := none
  deriving Repr, DecidableEq

/-- `scanString(start)`; `open_ = some '"'` when Lex has just consumed the opening quote
    (start = l.offset - 1), `none` in interpolation mode (start = l.offset).  The token text
    `l.source[start : l.offset]` is the opening quote (if any) followed by a prefix of `r`. -/
def scanStringTok (inString : Bool) (open_ : Option UInt8) (r : Bytes) : Scan :=
  let slice (k : Nat) : Bytes := match open_ with | some q => q :: r.take k | none => r.take k
  match scanString r 0 with
  | .unterminated => { n := r.length, token := some [], ty := tokUnterminatedString }
  | .invalidEscape e len => { n := e, token := some ((r.take e).drop (e - len)), ty := tokInvalidEscapeSequence }
  | .interp k =>
    if !inString then { n := 0, token := some (slice 0), ty := tokStringStart, inString := some true }  -- l.token = l.source[start:l.offset]
    else if k == 0 then { n := 2, token := none, ty := tokStringQuery, inString := some false }
    else { n := k, token := some (slice k), ty := tokString, lval := { token := unquoteStr (r.take k) } }
  | .quote k =>
    if !inString then { n := k + 1, token := some (slice (k + 1)), ty := tokString, lval := { token := unquoteStr (r.take k) } }
    else if k > 0 then { n := k, token := some (slice k), ty := tokString, lval := { token := unquoteStr (r.take k) } }
    else { n := 1, token := none, ty := tokStringEnd, inString := some false }

/-- the `switch` of Lex on the byte `ch` returned by `next()`, `r` = the unread source after it -/
def scanTok (inString : Bool) (ch : UInt8) (r : Bytes) : Scan :=
  let tokText (n : Nat) : Bytes := ch :: r.take n
  let single : Scan := { n := 0, token := none, ty := ch.toNat }
  let op (sp : Bytes) : Scan :=
    let (t, o) := opEntry sp
    { n := sp.length - 1, token := some sp, ty := t, lval := { operator := o } }
  let number (st : NumState) : Scan :=
    let (n, ok) := scanNumber st r
    if ok then { n := n, token := some (tokText n), ty := tokNumber, lval := { token := tokText n } }
    else { n := n, token := some (tokText n), ty := tokInvalid }
  if isIdent ch false then
    let (n, isModule) := scanIdentOrModule r
    let t := tokText n
    let ty := if isModule then tokModuleIdent else (bytesLookup t keywords).getD tokIdent
    { n := n, token := some t, ty := ty, lval := { token := t } }
  else if isNumber ch then number .lead
  else if ch == 46 then
    let c := peek r
    if c == 46 then op [46, 46]
    else if isIdent c false then
      let n := identLen r
      { n := n, token := some (tokText n), ty := tokIndex, lval := { token := r.take n } }
    else if isNumber c then number .float
    else single
  else if ch == 36 then
    if isIdent (peek r) false then
      let (n, isModule) := scanIdentOrModule r
      let t := tokText n
      { n := n, token := some t, ty := if isModule then tokModuleVariable else tokVariable, lval := { token := t } }
    else single
  else if ch == 124 then (if peek r == 61 then op [124, 61] else single)
  else if ch == 63 then
    -- `if l.peek() == '/' { l.offset++; if l.peek() == '/' { … return tokDestAltOp }; l.offset-- }`
    (if peek r == 47 && peek (r.drop 1) == 47 then op [63, 47, 47] else single)
  else if ch == 43 then (if peek r == 61 then op [43, 61] else single)
  else if ch == 45 then (if peek r == 61 then op [45, 61] else single)
  else if ch == 42 then (if peek r == 61 then op [42, 61] else single)
  else if ch == 47 then
    if peek r == 61 then op [47, 61]
    else if peek r == 47 then (if peek (r.drop 1) == 61 then op [47, 47, 61] else op [47, 47])
    else single
  else if ch == 37 then (if peek r == 61 then op [37, 61] else single)
  else if ch == 61 then (if peek r == 61 then op [61, 61] else op [61])
  else if ch == 33 then (if peek r == 61 then op [33, 61] else single)
  else if ch == 62 then (if peek r == 61 then op [62, 61] else op [62])
  else if ch == 60 then (if peek r == 61 then op [60, 61] else op [60])
  else if ch == 64 then
    if isIdent (peek r) true then
      let n := identLen r
      { n := n, token := some (tokText n), ty := tokFormat, lval := { token := tokText n } }
    else single
  else if ch == 34 then scanStringTok inString (some ch) r
  else if ch == 0 then { n := 0, token := some [0], ty := tokInvalid }   -- `case 0: l.token = "\x00"; return tokInvalid`
  else if ch ≥ 128 then
    -- _, size := utf8.DecodeRuneInString(l.source[l.offset-1:]); l.offset += size - 1
    -- l.token = l.source[l.offset-size : l.offset]   (the bytes themselves, also when they are not valid UTF-8)
    let size := (Utf8.decodeRune (ch :: r)).2.1
    { n := size - 1, token := some (tokText (size - 1)), ty := ch.toNat }
  else single

/-- commit a scan: consume `w` bytes (what `next` read, including `ch`) plus `sc.n`, update
    l.token / l.tokenType (the deferred assignment) / l.inString -/
def commit (s : LState) (w : Nat) (sc : Scan) : Int × LVal × LState :=
  (sc.ty, sc.lval, { s with offset := s.offset + (w + sc.n), rest := s.rest.drop (w + sc.n),
                            token := sc.token.getD s.token, tokenType := sc.ty,
                            inString := sc.inString.getD s.inString })

/-- `Lex`: returns the character code (the Go return value), the semantic value, the new state -/
def lex (s : LState) : Int × LVal × LState :=
  if s.rest.isEmpty then commit s 0 { n := 0, token := some [], ty := eof }
  else if s.inString then commit s 0 (scanStringTok true none s.rest)
  else
    match next s.rest with
    | .panic => (eof, {}, { s with panicked := true, tokenType := eof })
    | .eof n => commit s n { n := 0, token := some [], ty := eof }
    | .char ch w => commit s w (scanTok s.inString ch (s.rest.drop w))

/-- `(*lexer).Error`: the ParseError it builds (offset, token, tokenType) -/
structure ParseError where
  offset : Nat
  token : Bytes
  tokenType : Int
  deriving Repr, DecidableEq

def parseError (s : LState) : ParseError :=
  let token := if s.tokenType != eof && s.tokenType < 128 then [UInt8.ofNat s.tokenType.toNat] else s.token
  { offset := s.offset, token := token, tokenType := s.tokenType }

/-- the class of `(*ParseError).Error()` -/
def ParseError.kind (e : ParseError) : String :=
  if e.tokenType == eof then "eof"
  else if e.tokenType == tokInvalid then "invalid"
  else if e.tokenType == tokInvalidEscapeSequence then "escape"
  else if e.tokenType == tokUnterminatedString then "unterminated"
  else "unexpected"

/-- all tokens of a source when no parser feeds `inString` back (used by lexer-only theorems and
    the `tokens` debugging stream): stops at the first eof / error token -/
def lexAll : Nat → LState → List (Int × LVal × Nat)
  | 0, _ => []
  | fuel + 1, s =>
    let (ty, lv, s') := lex s
    if ty == eof || ty == 0 || ty == tokInvalid || ty == tokInvalidEscapeSequence || ty == tokUnterminatedString then
      [(ty, lv, s'.offset)]
    else (ty, lv, s'.offset) :: lexAll fuel s'

end Gojq.Lexer

/-
  C18 — modules: file-system resolution and the compiler's scope bookkeeping for
  `import` / `include`.  Core Lean only.

  Transliterates
    module_loader.go : NewModuleLoader, LoadInitModules, LoadModuleWithMeta, LoadJSONWithMeta,
                       lookupModule, parseModule (search rewriting), resolvePath
    compiler.go      : Compile (globals, init modules), compile, compileImport, compileModule,
                       pushVariable/createVariable, lookupFuncOrVariable / compileFunc (name
                       resolution inside a top-level definition), compileFuncDef (the funcinfo
                       is appended BEFORE the body is compiled)
  A function body is abstracted to the list of its call sites; what a call resolves to is
  rendered as a string (`tag(sub,sub,…)`), which is exactly what the correspondence harness
  observes by running the real compiled code (each generated body returns its tag and the
  results of its calls).

  `Cfg.isolate` selects the scope boundary at `import … as a` that the repaired compiler has
  (true = the code as it is now; false = the code before the repair, kept to carry the
  counter-example D9 in Props/C18.lean).
-/
namespace Gojq.Modules

/-! ## 1. path arithmetic (`path/filepath` on unix), over `List Char` so that `decide` works -/

abbrev Path := String

def splitSlash : List Char → List Char → List (List Char)
  | acc, [] => [acc.reverse]
  | acc, c :: cs => if c == '/' then acc.reverse :: splitSlash [] cs else splitSlash (c :: acc) cs

def joinSlash : List (List Char) → List Char
  | [] => []
  | [s] => s
  | s :: rest => s ++ '/' :: joinSlash rest

def isAbsL : List Char → Bool
  | '/' :: _ => true
  | _ => false

def hasPrefixL : List Char → List Char → Bool
  | [], _ => true
  | _ :: _, [] => false
  | a :: as, b :: bs => a == b && hasPrefixL as bs

/-- the segment walk of `filepath.Clean`; `acc` is the reversed output -/
def cleanSegs (rooted : Bool) : List (List Char) → List (List Char) → List (List Char)
  | acc, [] => acc.reverse
  | acc, s :: rest =>
    if s == [] || s == ['.'] then cleanSegs rooted acc rest
    else if s == ['.', '.'] then
      match acc with
      | [] => if rooted then cleanSegs rooted [] rest else cleanSegs rooted [s] rest
      | a :: acc' =>
        if a == ['.', '.'] then cleanSegs rooted (s :: a :: acc') rest
        else cleanSegs rooted acc' rest
    else cleanSegs rooted (s :: acc) rest

/-- `filepath.Clean` -/
def cleanL (p : List Char) : List Char :=
  if p == [] then ['.'] else
  let rooted := isAbsL p
  let body := joinSlash (cleanSegs rooted [] (splitSlash [] p))
  if rooted then '/' :: body else if body == [] then ['.'] else body

def clean (p : Path) : Path := String.ofList (cleanL p.toList)

/-- `filepath.Join`: empty elements are ignored, the result is cleaned, all-empty gives "" -/
def join (elems : List Path) : Path :=
  let es := (elems.map String.toList).filter (· != [])
  if es == [] then "" else String.ofList (cleanL (joinSlash es))

def dropTrailingSlashes (p : List Char) : List Char :=
  (p.reverse.dropWhile (· == '/')).reverse

/-- text after the last '/' -/
def afterLastSlash (p : List Char) : List Char :=
  (p.reverse.takeWhile (· != '/')).reverse

/-- text up to and including the last '/' -/
def uptoLastSlash (p : List Char) : List Char :=
  (p.reverse.dropWhile (· != '/')).reverse

/-- `filepath.Base` -/
def base (p : Path) : Path :=
  if p == "" then "." else
  let q := afterLastSlash (dropTrailingSlashes p.toList)
  if q == [] then "/" else String.ofList q

/-- `filepath.Dir` -/
def dir (p : Path) : Path := String.ofList (cleanL (uptoLastSlash p.toList))

def isAbs (p : Path) : Bool := isAbsL p.toList

/-! ## 2. the ambient parameters of resolution and the abstract file system -/

/-- what `resolvePath` reads from the process -/
structure Env where
  cwd : Path
  /-- `$HOME` (`none`: unset or empty, `os.UserHomeDir` fails) -/
  home : Option Path
  /-- directory of the symlink-resolved executable (`none`: `os.Executable` fails) -/
  origin : Option Path

/-- `resolvePath(path, dir)` -/
def resolvePath (env : Env) (path dir : Path) : Path :=
  let p := path.toList
  if isAbsL p then path
  else if hasPrefixL ['~', '/'] p then
    match env.home with
    | none => ""
    | some h => join [h, String.ofList (p.drop 2)]
  else if hasPrefixL "$ORIGIN/".toList p then
    match env.origin with
    | none => ""
    | some o => join [o, String.ofList (p.drop 8)]
  else join [dir, path]

/-- `NewModuleLoader(paths)`: each path resolved with dir "", empty results dropped -/
def newModuleLoader (env : Env) (paths : List Path) : List Path :=
  (paths.map (resolvePath env · "")).filter (· != "")

inductive MetaVal where
  | str (s : String)
  | other            -- null, number, array, object, true, false
  deriving Repr, DecidableEq, Inhabited

abbrev Meta := Option (List (String × MetaVal))

/-- a call site in a function body -/
inductive Call where
  | fn (name : String) (arity : Nat)
  /-- variable reference; `name` without the leading `$` (may be `d::d`) -/
  | var (name : String)
  deriving Repr, DecidableEq, Inhabited

structure Def where
  name : String
  arity : Nat
  /-- the unique string the generated body returns -/
  tag : String
  calls : List Call
  deriving Repr, DecidableEq, Inhabited

structure Import where
  /-- ImportPath or IncludePath -/
  path : String
  /-- "" for `include`, `a` for `import … as a`, `$d` for a data import -/
  alias : String
  isData : Bool
  md : Meta
  deriving Repr, Inhabited

structure Module where
  imports : List Import
  defs : List Def
  deriving Repr, Inhabited

inductive Node where
  | dir
  | jq (m : Module)
  /-- a JSON data file; `id` stands for its array of values -/
  | json (id : String)
  /-- a file whose content does not parse -/
  | bad
  deriving Repr, Inhabited

/-- the file system: absolute clean path ↦ node -/
abbrev FS := List (Path × Node)

def absPath (env : Env) (p : Path) : Path :=
  if isAbs p then clean p else join [env.cwd, p]

def FS.stat (fs : FS) (env : Env) (p : Path) : Option Node :=
  match fs.find? (fun e => e.1 == absPath env p) with
  | some e => some e.2
  | none => none

/-! ## 3. lookupModule -/

/-- the loop of `lookupModule`: per base directory `name.ext`, then `name/<basename>.ext` -/
def lookupIn (ex : Path → Bool) (name ext : String) : List Path → Option Path
  | [] => none
  | b :: rest =>
    if ex (join [b, name ++ ext]) then some (join [b, name ++ ext])
    else if ex (join [b, name, base name ++ ext]) then some (join [b, name, base name ++ ext])
    else lookupIn ex name ext rest

/-- the stated candidate order -/
def candidates (name ext : String) : List Path → List Path
  | [] => []
  | b :: rest => join [b, name ++ ext] :: join [b, name, base name ++ ext] :: candidates name ext rest

def findLast {α} (p : α → Bool) : List α → Option α
  | [] => none
  | x :: xs =>
    match findLast p xs with
    | some y => some y
    | none => if p x then some x else none

/-- `meta["search"].(string)`: `ToValue` builds a map, so the last `search` key wins -/
def searchOf : Meta → Option String
  | none => none
  | some kvs =>
    match findLast (fun kv => kv.1 == "search") kvs with
    | some (_, .str s) => some s
    | _ => none

/-- the directory list `lookupModule` walks -/
def searchPaths (env : Env) (paths : List Path) (m : Meta) : List Path :=
  match searchOf m with
  | some s => if resolvePath env s "" != "" then resolvePath env s "" :: paths else paths
  | none => paths

def lookupModule (env : Env) (fs : FS) (paths : List Path) (name ext : String) (m : Meta) : Option Path :=
  lookupIn (fun p => (fs.stat env p).isSome) name ext (searchPaths env paths m)

/-- `parseModule`'s rewriting of every string-valued `search` entry against the file's directory -/
def rewriteMeta (env : Env) (d : Path) : Meta → Meta
  | none => none
  | some kvs => some (kvs.map fun kv =>
      match kv with
      | (k, .str s) =>
        if k == "search" then
          (if resolvePath env s d != "" then (k, .str (resolvePath env s d)) else (k, .other))
        else (k, .str s)
      | kv => kv)

def rewriteSearch (env : Env) (d : Path) (m : Module) : Module :=
  { m with imports := m.imports.map fun i => { i with md := rewriteMeta env d i.md } }

inductive LoadErr where
  | notFound | unreadable | invalid | fuel
  deriving Repr, DecidableEq, Inhabited

/-- `LoadModuleWithMeta` -/
def loadModuleFile (env : Env) (fs : FS) (paths : List Path) (name : String) (m : Meta) :
    Except LoadErr (Path × Module) :=
  match lookupModule env fs paths name ".jq" m with
  | none => .error .notFound
  | some p =>
    match fs.stat env p with
    | some (.jq q) => .ok (p, rewriteSearch env (dir p) q)
    | some .bad => .error .invalid
    | _ => .error .unreadable

/-- `LoadJSONWithMeta`: the identity of the value array -/
def loadJSONFile (env : Env) (fs : FS) (paths : List Path) (name : String) (m : Meta) :
    Except LoadErr String :=
  match lookupModule env fs paths name ".json" m with
  | none => .error .notFound
  | some p =>
    match fs.stat env p with
    | some (.json id) => .ok id
    | some .bad => .error .invalid
    | _ => .error .unreadable

/-- `LoadInitModules`: every search path whose base name is `.jq` and that is a regular file -/
def loadInitModules (env : Env) (fs : FS) : List Path → Except LoadErr (List (Path × Module))
  | [] => .ok []
  | p :: rest =>
    if base p != ".jq" then loadInitModules env fs rest
    else
      match fs.stat env p with
      | none => loadInitModules env fs rest
      | some .dir => loadInitModules env fs rest
      | some (.jq q) =>
        match loadInitModules env fs rest with
        | .ok qs => .ok ((p, rewriteSearch env (dir p) q) :: qs)
        | .error e => .error e
      | some _ => .error .invalid

/-! ## 4. module trees (imports resolved) -/

mutual
  inductive MTree where
    | node (file : Path) (imports : List ITree) (defs : List Def)
  inductive ITree where
    /-- `include` (alias "") or `import … as alias` of a module -/
    | mod (alias : String) (t : MTree)
    /-- `import … as $alias` (alias without `$`); `id` is the value array -/
    | data (alias : String) (id : String)
    | fail (e : LoadErr)
end

/-- resolve one import against the file system; `fuel` bounds the import depth (the real
    compiler does not terminate on an import cycle) -/
def loadImport (env : Env) (fs : FS) (paths : List Path) : Nat → Import → ITree
  | 0, _ => .fail .fuel
  | n + 1, i =>
    if i.isData then
      match loadJSONFile env fs paths i.path i.md with
      | .ok id => .data (String.ofList (i.alias.toList.drop 1)) id
      | .error e => .fail e
    else
      match loadModuleFile env fs paths i.path i.md with
      | .ok (p, q) => .mod i.alias (.node (absPath env p) (q.imports.map (loadImport env fs paths n)) q.defs)
      | .error e => .fail e

/-! ## 5. the compiler's scope bookkeeping -/

structure FuncInfo where
  name : String
  argcnt : Nat
  /-- rendering of what calling it yields: `tag(sub,…)` -/
  res : String
  deriving Repr, DecidableEq, Inhabited

structure VarInfo where
  name : String
  depth : Nat
  res : String
  deriving Repr, DecidableEq, Inhabited

structure Scope where
  funcs : List FuncInfo := []
  variables : List VarInfo := []
  depth : Nat := 0
  deriving Repr, DecidableEq, Inhabited

inductive CErr where
  | load (e : LoadErr)
  | undefinedFunc (name : String) (arity : Nat)
  | undefinedVar (name : String)
  deriving Repr, DecidableEq, Inhabited

structure Cfg where
  /-- scope boundary at `import … as a` (the repaired code) -/
  isolate : Bool := true
  /-- number of entries of the main scope's variable list that are the `WithVariables` names -/
  globalcnt : Nat := 0
  /-- names that resolve after all user scopes (builtins); rendered `B:name/arity` -/
  builtins : List (String × Nat) := []

def renderSubs : List String → String
  | [] => ""
  | [s] => s
  | s :: rest => s ++ "," ++ renderSubs rest

def render (tag : String) (subs : List String) : String := tag ++ "(" ++ renderSubs subs ++ ")"

def lookupFunc (funcs : List FuncInfo) (name : String) (arity : Nat) : Option FuncInfo :=
  findLast (fun f => f.name == name && f.argcnt == arity) funcs

def lookupVar (vars : List VarInfo) (name : String) : Option VarInfo :=
  findLast (fun v => v.name == name) vars

/-- resolution of one call site inside the body of top-level definition `self`
    (`compileFunc`: user scopes innermost first — the definition's own funcinfo is the last
    entry of the enclosing scope — then builtins) -/
def resolveCall (cfg : Cfg) (sc : Scope) (self : Option (String × Nat)) : Call → Except CErr String
  | .fn name arity =>
    if self == some (name, arity) then .ok "self"
    else
      match lookupFunc sc.funcs name arity with
      | some f => .ok f.res
      | none =>
        if cfg.builtins.contains (name, arity) then .ok ("B:" ++ name ++ "/" ++ toString arity)
        else .error (.undefinedFunc name arity)
  | .var name =>
    match lookupVar sc.variables ("$" ++ name) with
    | some v => .ok v.res
    | none => .error (.undefinedVar name)

def resolveCalls (cfg : Cfg) (sc : Scope) (self : Option (String × Nat)) : List Call → Except CErr (List String)
  | [] => .ok []
  | c :: cs =>
    match resolveCall cfg sc self c with
    | .error e => .error e
    | .ok r =>
      match resolveCalls cfg sc self cs with
      | .error e => .error e
      | .ok rs => .ok (r :: rs)

/-- `compileFuncDef` of a top-level definition -/
def compileDef (cfg : Cfg) (sc : Scope) (d : Def) : Except CErr Scope :=
  match resolveCalls cfg sc (some (d.name, d.arity)) d.calls with
  | .error e => .error e
  | .ok subs => .ok { sc with funcs := sc.funcs ++ [⟨d.name, d.arity, render d.tag subs⟩] }

def compileDefs (cfg : Cfg) : List Def → Scope → Except CErr Scope
  | [], sc => .ok sc
  | d :: ds, sc =>
    match compileDef cfg sc d with
    | .error e => .error e
    | .ok sc' => compileDefs cfg ds sc'

def prefixF (alias : String) (f : FuncInfo) : FuncInfo := { f with name := alias ++ "::" ++ f.name }

/-- `createVariable` -/
def createVariable (sc : Scope) (name res : String) : Scope :=
  { sc with variables := sc.variables ++ [⟨name, sc.depth, res⟩] }

/-- `pushVariable`: a variable of the same name and depth is reused (its slot is overwritten
    at run time, so every reference shows the new value) -/
def pushVariable (sc : Scope) (name res : String) : Scope :=
  if sc.variables.any (fun v => v.name == name && v.depth == sc.depth) then
    { sc with variables := sc.variables.map fun v =>
        if v.name == name && v.depth == sc.depth then { v with res := res } else v }
  else createVariable sc name res

/-- the data branch of `compileImport`: `$d` and `$d::d` -/
def pushData (sc : Scope) (alias id : String) : Scope :=
  createVariable (createVariable sc ("$" ++ alias) ("D:" ++ id)) ("$" ++ alias ++ "::" ++ alias) ("D:" ++ id)

mutual
  /-- `compileModule(q, alias)` -/
  def compileMod (cfg : Cfg) : MTree → String → Scope → Except CErr Scope
    | .node _ imps defs, alias, sc =>
      let sc1 : Scope := { sc with depth := sc.depth + 1 }
      if alias = "" then
        match compileImports cfg imps sc1 with
        | .error e => .error e
        | .ok sc2 =>
          match compileDefs cfg defs sc2 with
          | .error e => .error e
          | .ok sc3 => .ok { sc3 with depth := sc.depth, variables := sc3.variables.take sc.variables.length }
      else if cfg.isolate then
        let inner : Scope := { sc1 with funcs := [], variables := sc.variables.take (min cfg.globalcnt sc.variables.length) }
        match compileImports cfg imps inner with
        | .error e => .error e
        | .ok sc2 =>
          match compileDefs cfg defs sc2 with
          | .error e => .error e
          | .ok sc3 => .ok { sc with funcs := sc.funcs ++ sc3.funcs.map (prefixF alias) }
      else
        match compileImports cfg imps sc1 with
        | .error e => .error e
        | .ok sc2 =>
          match compileDefs cfg defs sc2 with
          | .error e => .error e
          | .ok sc3 =>
            .ok { funcs := sc3.funcs.take sc.funcs.length ++ (sc3.funcs.drop sc.funcs.length).map (prefixF alias),
                  variables := sc3.variables.take sc.variables.length, depth := sc.depth }
  /-- the import loop of `compile` / `compileModule` (`compileImport` per entry) -/
  def compileImports (cfg : Cfg) : List ITree → Scope → Except CErr Scope
    | [], sc => .ok sc
    | .mod alias t :: rest, sc =>
      match compileMod cfg t alias sc with
      | .error e => .error e
      | .ok sc' => compileImports cfg rest sc'
    | .data alias id :: rest, sc => compileImports cfg rest (pushData sc alias id)
    | .fail e :: _, _ => .error (.load e)
end

/-- `Compile`'s variable loop: `pushVariable` per `WithVariables` name; rendered `G:name` -/
def initScope : List String → Scope → Scope
  | [], sc => sc
  | n :: ns, sc => initScope ns (pushVariable sc n ("G:" ++ n))

/-- `Compile`: globals, init modules (as includes), the main query's imports, its definitions,
    then the probe call at top level. -/
def compileMain (isolate : Bool) (builtins : List (String × Nat)) (globals : List String)
    (inits : List MTree) (main : MTree) (probe : Call) : Except CErr String :=
  let sc0 := initScope globals {}
  let cfg : Cfg := { isolate := isolate, globalcnt := sc0.variables.length, builtins := builtins }
  match main with
  | .node _ imps defs =>
    match compileImports cfg (inits.map (ITree.mod "") ++ imps) sc0 with
    | .error e => .error e
    | .ok sc1 =>
      match compileDefs cfg defs sc1 with
      | .error e => .error e
      | .ok sc2 => resolveCall cfg sc2 none probe

/-- everything from the file system: loader construction, init modules, main imports -/
def compileFromFS (isolate : Bool) (builtins : List (String × Nat)) (env : Env) (fs : FS)
    (rawPaths : List Path) (globals : List String) (main : Module) (probe : Call) (fuel : Nat) :
    Except CErr String :=
  let paths := newModuleLoader env rawPaths
  match loadInitModules env fs paths with
  | .error e => .error (.load e)
  | .ok inits =>
    let initTrees := inits.map fun pq =>
      MTree.node (absPath env pq.1) (pq.2.imports.map (loadImport env fs paths fuel)) pq.2.defs
    compileMain isolate builtins globals initTrees
      (.node "<main>" (main.imports.map (loadImport env fs paths fuel)) main.defs) probe

/-! ## 6. the specification side: textual inclusion with renaming -/

def prefixCall (alias : String) : Call → Call
  | .fn n a => .fn (alias ++ "::" ++ n) a
  | .var n => .var n

/-- rename a block of definitions that came from `import … as alias` -/
def renameDefs (alias : String) (ds : List Def) : List Def :=
  ds.map fun d => { d with name := alias ++ "::" ++ d.name, calls := d.calls.map (prefixCall alias) }

mutual
  /-- the definitions a module's text amounts to once its own imports are inlined -/
  def inlineMod : MTree → List Def
    | .node _ imps defs => inlineImports imps ++ defs
  /-- `include` splices, `import … as a` splices with every name of the block prefixed -/
  def inlineImports : List ITree → List Def
    | [] => []
    | .mod alias t :: rest =>
      (if alias = "" then inlineMod t else renameDefs alias (inlineMod t)) ++ inlineImports rest
    | .data _ _ :: rest => inlineImports rest
    | .fail _ :: rest => inlineImports rest
end

mutual
  /-- name/arity list a module makes visible to whoever includes it -/
  def visibleMod : MTree → List (String × Nat)
    | .node _ imps defs => visibleImports imps ++ defs.map fun d => (d.name, d.arity)
  def visibleImports : List ITree → List (String × Nat)
    | [] => []
    | .mod alias t :: rest =>
      (if alias = "" then visibleMod t else (visibleMod t).map fun na => (alias ++ "::" ++ na.1, na.2))
        ++ visibleImports rest
    | .data _ _ :: rest => visibleImports rest
    | .fail _ :: rest => visibleImports rest
end

/-- variables visible after an import header: only the header's own data imports -/
def visibleVars : List ITree → List String
  | [] => []
  | .data alias _ :: rest => ("$" ++ alias) :: ("$" ++ alias ++ "::" ++ alias) :: visibleVars rest
  | _ :: rest => visibleVars rest

/-! ## 7. modulemeta -/

/-- insertion into a list sorted by (name, arity) — `sort.Slice` in `listModuleDefs` -/
def defLt (a b : String × Nat) : Bool := a.1 < b.1 || (a.1 == b.1 && a.2 < b.2)

def insertDef (x : String × Nat) : List (String × Nat) → List (String × Nat)
  | [] => [x]
  | y :: ys => if defLt y x then y :: insertDef x ys else x :: y :: ys

def sortDefs : List (String × Nat) → List (String × Nat)
  | [] => []
  | x :: xs => insertDef x (sortDefs xs)

def startsWithUnderscore (s : String) : Bool :=
  match s.toList with
  | '_' :: _ => true
  | _ => false

/-- `listModuleDefs`: names not starting with `_`, sorted by name then arity -/
def listModuleDefs (m : Module) : List (String × Nat) :=
  sortDefs ((m.defs.filter fun d => !startsWithUnderscore d.name).map fun d => (d.name, d.arity))

structure Dep where
  relpath : String
  /-- alias without `$`; `none` for include -/
  as : Option String
  isData : Bool
  md : Meta
  deriving Repr, Inhabited

/-- `listModuleDeps`: one entry per import, in order -/
def listModuleDeps (m : Module) : List Dep :=
  m.imports.map fun i =>
    { relpath := i.path
      as := if i.alias = "" then none
            else some (if i.isData then String.ofList (i.alias.toList.drop 1) else i.alias)
      isData := i.isData
      md := i.md }

end Gojq.Modules

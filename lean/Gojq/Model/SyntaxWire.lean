/-
  Reader for the s-expression form of `Query` produced by harness/jqast (driver side only).
-/
import Gojq.Model.Syntax
import Gojq.Model.Wire
namespace Gojq.SyntaxWire
open Gojq Gojq.Wire

abbrev P (α : Type) := List String → Option (α × List String)

def hexBytes (tok : String) : Option Bytes :=
  match tok.toList with
  | 'x' :: hs => hexToBytes hs
  | _ => none

def pBytes : P Bytes
  | tok :: rest => (hexBytes tok).map (·, rest)
  | [] => none

def pName : P String
  | tok :: rest => (hexBytes tok).bind fun b =>
      (String.fromUTF8? (ByteArray.mk b.toArray)).map (·, rest)
  | [] => none

def expect (s : String) : P Unit
  | tok :: rest => if tok == s then some ((), rest) else none
  | [] => none

def pOp : P Op
  | tok :: rest =>
    let o : Option Op := match tok with
      | "pipe" => some .pipe | "comma" => some .comma | "add" => some .add | "sub" => some .sub
      | "mul" => some .mul | "div" => some .div | "mod" => some .mod | "eq" => some .eq | "ne" => some .ne
      | "gt" => some .gt | "lt" => some .lt | "ge" => some .ge | "le" => some .le | "and" => some .and
      | "or" => some .or | "alt" => some .alt | "assign" => some .assign | "modify" => some .modify
      | "updAdd" => some .updAdd | "updSub" => some .updSub | "updMul" => some .updMul
      | "updDiv" => some .updDiv | "updMod" => some .updMod | "updAlt" => some .updAlt
      | _ => none
    o.map (·, rest)
  | [] => none

partial def pList {α : Type} (p : P α) : P (List α) := fun toks =>
  match toks with
  | "[" :: rest =>
    let rec go (toks : List String) (acc : List α) : Option (List α × List String) :=
      match toks with
      | "]" :: rest => some (acc.reverse, rest)
      | _ => match p toks with
        | some (x, rest) => go rest (x :: acc)
        | none => none
    go rest []
  | _ => none

def pOpt {α : Type} (p : P α) : P (Option α) := fun toks =>
  match toks with
  | "none" :: rest => some (none, rest)
  | "(" :: "some" :: rest =>
    match p rest with
    | some (x, ")" :: rest') => some (some x, rest')
    | _ => none
  | _ => none

mutual
  partial def pQuery : P Query := fun toks =>
    match toks with
    | "(" :: "term" :: rest => do
      let (ds, r) ← pList pFuncDef rest
      let (t, r) ← pTerm r
      let (_, r) ← expect ")" r
      pure (.term ds t, r)
    | "(" :: "binop" :: rest => do
      let (ds, r) ← pList pFuncDef rest
      let (o, r) ← pOp r
      let (l, r) ← pQuery r
      let (q, r) ← pQuery r
      let (_, r) ← expect ")" r
      pure (.binop ds o l q, r)
    | "(" :: "bind" :: rest => do
      let (ds, r) ← pList pFuncDef rest
      let (s, r) ← pQuery r
      let (ps, r) ← pList pPattern r
      let (b, r) ← pQuery r
      let (_, r) ← expect ")" r
      pure (.bind ds s ps b, r)
    | _ => none
  partial def pFuncDef : P FuncDef := fun toks =>
    match toks with
    | "(" :: "def" :: rest => do
      let (nm, r) ← pName rest
      let (ps, r) ← pList pName r
      let (b, r) ← pQuery r
      let (_, r) ← expect ")" r
      pure (.mk nm ps b, r)
    | _ => none
  partial def pTerm : P Term := fun toks =>
    match toks with
    | "(" :: "t" :: rest => do
      let (c, r) ← pCore rest
      let (ss, r) ← pList pSuffix r
      let (_, r) ← expect ")" r
      pure (.mk c ss, r)
    | _ => none
  partial def pCore : P TermCore := fun toks =>
    match toks with
    | "id" :: r => some (.identity, r)
    | "rec" :: r => some (.recurse, r)
    | "null" :: r => some (.null, r)
    | "true" :: r => some (.true_, r)
    | "false" :: r => some (.false_, r)
    | "(" :: "index" :: rest => do
      let (i, r) ← pIndex rest; let (_, r) ← expect ")" r; pure (.index i, r)
    | "(" :: "func" :: rest => do
      let (nm, r) ← pName rest
      let (as, r) ← pList pQuery r
      let (_, r) ← expect ")" r
      pure (.func nm as, r)
    | "(" :: "object" :: rest => do
      let (kvs, r) ← pList pObjKV rest; let (_, r) ← expect ")" r; pure (.object kvs, r)
    | "(" :: "array" :: rest => do
      let (q, r) ← pOpt pQuery rest; let (_, r) ← expect ")" r; pure (.array q, r)
    | "(" :: "number" :: rest => do
      let (t, r) ← pName rest; let (_, r) ← expect ")" r; pure (.number t, r)
    | "(" :: "unary" :: rest => do
      let (o, r) ← pOp rest; let (t, r) ← pTerm r; let (_, r) ← expect ")" r; pure (.unary o t, r)
    | "(" :: "format" :: rest => do
      let (f, r) ← pName rest; let (s, r) ← pOpt pStr r; let (_, r) ← expect ")" r; pure (.format f s, r)
    | "(" :: "str" :: rest => do
      let (s, r) ← pStr rest; let (_, r) ← expect ")" r; pure (.str s, r)
    | "(" :: "if" :: rest => do
      let (c, r) ← pQuery rest
      let (t, r) ← pQuery r
      let (es, r) ← pList pElif r
      let (e, r) ← pOpt pQuery r
      let (_, r) ← expect ")" r
      pure (.if_ c t es e, r)
    | "(" :: "try" :: rest => do
      let (b, r) ← pQuery rest; let (c, r) ← pOpt pQuery r; let (_, r) ← expect ")" r; pure (.try_ b c, r)
    | "(" :: "reduce" :: rest => do
      let (s, r) ← pQuery rest; let (p, r) ← pPattern r; let (st, r) ← pQuery r; let (u, r) ← pQuery r
      let (_, r) ← expect ")" r; pure (.reduce s p st u, r)
    | "(" :: "foreach" :: rest => do
      let (s, r) ← pQuery rest; let (p, r) ← pPattern r; let (st, r) ← pQuery r; let (u, r) ← pQuery r
      let (x, r) ← pOpt pQuery r
      let (_, r) ← expect ")" r; pure (.foreach s p st u x, r)
    | "(" :: "label" :: rest => do
      let (nm, r) ← pName rest; let (b, r) ← pQuery r; let (_, r) ← expect ")" r; pure (.label nm b, r)
    | "(" :: "break" :: rest => do
      let (nm, r) ← pName rest; let (_, r) ← expect ")" r; pure (.break_ nm, r)
    | "(" :: "query" :: rest => do
      let (q, r) ← pQuery rest; let (_, r) ← expect ")" r; pure (.query q, r)
    | _ => none
  partial def pElif : P (Query × Query) := fun toks =>
    match toks with
    | "(" :: "elif" :: rest => do
      let (c, r) ← pQuery rest; let (t, r) ← pQuery r; let (_, r) ← expect ")" r; pure ((c, t), r)
    | _ => none
  partial def pSuffix : P Suffix := fun toks =>
    match toks with
    | "iter" :: r => some (.iter, r)
    | "opt" :: r => some (.optional, r)
    | "(" :: "sindex" :: rest => do
      let (i, r) ← pIndex rest; let (_, r) ← expect ")" r; pure (.index i, r)
    | _ => none
  partial def pIndex : P Index := fun toks =>
    match toks with
    | "(" :: "name" :: rest => do
      let (b, r) ← pBytes rest; let (_, r) ← expect ")" r; pure (.name b, r)
    | "(" :: "istr" :: rest => do
      let (s, r) ← pStr rest; let (_, r) ← expect ")" r; pure (.str s, r)
    | "(" :: "at" :: rest => do
      let (q, r) ← pQuery rest; let (_, r) ← expect ")" r; pure (.at q, r)
    | "(" :: "slice" :: rest => do
      let (a, r) ← pOpt pQuery rest; let (b, r) ← pOpt pQuery r; let (_, r) ← expect ")" r; pure (.slice a b, r)
    | _ => none
  partial def pStr : P Str := fun toks =>
    match toks with
    | "(" :: "lit" :: rest => do
      let (b, r) ← pBytes rest; let (_, r) ← expect ")" r; pure (.lit b, r)
    | "(" :: "interp" :: rest => do
      let (qs, r) ← pList pQuery rest; let (_, r) ← expect ")" r; pure (.interp qs, r)
    | _ => none
  partial def pObjKV : P ObjKV := fun toks =>
    match toks with
    | "(" :: "kv" :: rest => do
      let (k, r) ← pObjKey rest; let (v, r) ← pOpt pQuery r; let (_, r) ← expect ")" r; pure (.mk k v, r)
    | _ => none
  partial def pObjKey : P ObjKey := fun toks =>
    match toks with
    | "(" :: "kname" :: rest => do
      let (b, r) ← pBytes rest; let (_, r) ← expect ")" r; pure (.name b, r)
    | "(" :: "kvar" :: rest => do
      let (b, r) ← pName rest; let (_, r) ← expect ")" r; pure (.var b, r)
    | "(" :: "kstr" :: rest => do
      let (s, r) ← pStr rest; let (_, r) ← expect ")" r; pure (.str s, r)
    | "(" :: "kquery" :: rest => do
      let (q, r) ← pQuery rest; let (_, r) ← expect ")" r; pure (.query q, r)
    | _ => none
  partial def pPattern : P Pattern := fun toks =>
    match toks with
    | "(" :: "pvar" :: rest => do
      let (b, r) ← pName rest; let (_, r) ← expect ")" r; pure (.var b, r)
    | "(" :: "parr" :: rest => do
      let (ps, r) ← pList pPattern rest; let (_, r) ← expect ")" r; pure (.array ps, r)
    | "(" :: "pobj" :: rest => do
      let (kvs, r) ← pList pPatKV rest; let (_, r) ← expect ")" r; pure (.object kvs, r)
    | _ => none
  partial def pPatKV : P PatKV := fun toks =>
    match toks with
    | "(" :: "pkv" :: rest => do
      let (k, r) ← pObjKey rest; let (v, r) ← pOpt pPattern r; let (_, r) ← expect ")" r; pure (.mk k v, r)
    | _ => none
end

end Gojq.SyntaxWire

/-
  Heap model, part 2: SLICE path elements `{"start":…,"end":…}` (C02 item 4, C05.1, C06).

  Extends `Gojq/Model/Heap.lean` (labelled trees, allocator = list of owned labels, fresh counter, log of
  in-place writes) with what /repo/func.go does for a slice element of a path, in the tree after the
  fixes abf8186 (capacity-limited view), 622959f (`release`, clone of a final slice), abb84a0 (`free`) and
  bcc8a71 (`free` of the array that carried the elements of an updated slice):

    updateArraySlice                      → `enterSlice`, `view`, `plugSlice`    (inside `updS`, `markS`)
    update / updateObject / updateArrayIndex → `plugE` ∘ `enter`                 (the same code as `upd`)
    update(…, struct{}{}, a)              → `markS`  (`plugDel` ∘ `enterDel`, `plugSliceDel`)
    delpaths                              → `delpathsST`
    funcGetpath / funcIndex2 / slice      → `getpS`
    funcGetpathWithAllocator              → `getpReleaseS`  (a final slice is cloned, its ELEMENTS released)
    one iteration / the reduction of `_modify` → `modifyStepS`, `modifyAllS`
    the reduction of `_assign`            → `assignAllS`
  and the defining value semantics on `JV`: `getpathS`, `setpathS`, `modifyVS`, `assignVS`.

  How a Go slice header fits labelled trees.  `updateArraySlice` recurses into `v[start:end:end]`: the
  same elements, capacity `end-start`, and an ADDRESS that is
    * the address of `v` itself when `start = 0`, and also when `start = end` (Go does not advance the
      pointer of a slice whose new capacity is 0) — the view carries the LABEL of `v`, so
      `a.allocated(view) = a.allocated(v)`: an index inside the view is written in place into the cell
      of `v`; an index beyond it finds `i ≥ cap`, so the view is re-allocated and `a.free(view)`
      unregisters THE CELL OF `v` (observed on the real code);
    * an interior address otherwise, which is never registered: the view carries a label drawn from the
      counter (registered labels are below the counter).
  A write through a view that shares the label of `v` changes only a prefix of the cell: the log entry
  is completed with the elements behind the view (`rebase`).
  The result of the recursion is copied ELEMENT-WISE into `v` (in place, when `v` is owned and the
  length is unchanged) or into a new array; the array `u` that carried the elements is dropped.  When
  the recursion allocated it (`updateArrayIndex` copying a view that is not owned) it is registered:
  before bcc8a71 it STAYED registered — a dead registered cell whose address the Go runtime hands out
  again (found with this model: `Props/C05Slices.lean`, `dead_registration_before_bcc8a71`); now it is
  unregistered (`freeU`).

  Bounds are integers or `null` (what `toInt` / `toIntCeil` deliver); other bound types are Go errors
  outside the model.  Core Lean only.
-/
import Gojq.Model.Heap
namespace Gojq.Heap
open Gojq

/-- path element: `.k`, `.[i]` or `.[s:e]` (`none` = `null` bound) -/
inductive PES where
  | key (k : Bytes)
  | idx (i : Int)
  | slice (s e : Option Int)
  deriving Repr, DecidableEq, Inhabited

abbrev PathS := List PES

def PE.toS : PE → PES
  | .key k => .key k
  | .idx i => .idx i

/-- Go's `clampIndex(i, minimum, maximum)` -/
def clampIndex (i : Int) (lo hi : Nat) : Nat :=
  let j := if i < 0 then i + hi else i
  if j < lo then lo else if j < hi then j.toNat else hi

/-- `start`, `end` of `updateArraySlice` / `slice` for an array of length `len` -/
def sliceBounds (s e : Option Int) (len : Nat) : Nat × Nat :=
  let st := match s with
    | none => 0
    | some i => clampIndex i 0 len
  let en := match e with
    | none => len
    | some i => clampIndex i st len
  (st, en)

/-! ### value-level (defining) semantics -/

def sliceV (s e : Option Int) (xs : List JV) : List JV :=
  let b := sliceBounds s e xs.length
  (xs.drop b.1).take (b.2 - b.1)

/-- `getpath(p)` with slices (funcGetpath / funcIndex2 / funcSlice): `none` = error -/
def getpathS : PathS → JV → Option JV
  | [], v => some v
  | e :: p, v =>
    match e, v with
    | .key _, .null => getpathS p .null
    | .key k, .obj kvs => getpathS p ((kvFind k kvs).getD .null)
    | .idx _, .null => getpathS p .null
    | .idx i, .arr xs =>
      match resolve i xs.length with
      | .inr j => getpathS p (xs.getD j .null)
      | _ => getpathS p .null
    | .slice _ _, .null => getpathS p .null
    | .slice s e, .arr xs => getpathS p (.arr (sliceV s e xs))
    | _, _ => none

/-- the array that replaces `xs[start:end]` must be an array -/
def spliceV (s e : Option Int) (xs : List JV) : JV → Option JV
  | .arr us =>
    let b := sliceBounds s e xs.length
    some (.arr (xs.take b.1 ++ us ++ xs.drop b.2))
  | _ => none

/-- `setpath(p; n)` with slices and value semantics (func.go `update` with a nil allocator) -/
def setpathS : PathS → JV → JV → Option JV
  | [], _, n => some n
  | e :: p, v, n =>
    match e, v with
    | .key k, .null => (setpathS p .null n).map fun u => .obj [(k, u)]
    | .key k, .obj kvs => (setpathS p ((kvFind k kvs).getD .null) n).map fun u => .obj (kvInsert k u kvs)
    | .idx i, .null =>
      match resolve i 0 with
      | .beyond i => if i ≥ maxIndex then none
                     else (setpathS p .null n).map fun u => .arr (List.replicate i .null ++ [u])
      | _ => none
    | .idx i, .arr xs =>
      match resolve i xs.length with
      | .neg => none
      | .inr j => (setpathS p (xs.getD j .null) n).map fun u => .arr (xs.set j u)
      | .beyond i => if i ≥ maxIndex then none
                     else (setpathS p .null n).map fun u => .arr (xs ++ List.replicate (i - xs.length) .null ++ [u])
    | .slice s e, .null => (setpathS p (.arr []) n).bind (spliceV s e [])
    | .slice s e, .arr xs => (setpathS p (.arr (sliceV s e xs)) n).bind (spliceV s e xs)
    | _, _ => none

/-! ### the allocator level -/

/-- what a slice element finds: the cell of the array (`none` for `null`, a nil slice) and its three parts -/
structure SFocus where
  cell : Option (Nat × Nat)
  pre : Kids
  mid : Kids
  post : Kids
  deriving Repr

def enterSlice (s e : Option Int) : T → Option SFocus
  | .leaf .null => some ⟨none, [], [], []⟩
  | .node id false c ks =>
    let b := sliceBounds s e ks.length
    some ⟨some (id, c), ks.take b.1, (ks.drop b.1).take (b.2 - b.1), ks.drop b.2⟩
  | _ => none

/-- label of the view `v[start:end:end]` and the counter after it: the label of `v` when the view has the
    address of `v` (`start = 0`, or capacity 0), else a label from the counter (an interior address) -/
def viewLabel (sf : SFocus) (f : Nat) : Nat × Nat :=
  match sf.cell with
  | some (id, _) => if sf.pre.isEmpty || sf.mid.isEmpty then (id, f) else (f, f + 1)
  | none => (f, f + 1)

/-- the view as a tree: same elements, capacity = length -/
def view (sf : SFocus) (f : Nat) : T := .node (viewLabel sf f).1 false sf.mid.length sf.mid

/-- a write through a view that starts at the base of cell `id` changes a prefix of the cell: what lies
    behind the view is still there -/
def rebase (id : Nat) (post : Kids) (log : Log) : Log :=
  log.map fun e => if e.1 = id then (e.1, e.2 ++ post) else e

/-- the part of `updateObject` / `updateArrayIndex` after the recursive call (the same code as in `upd`) -/
def plugE (cell : Option (Nat × Nat)) (o : Bool) (fo : Focus) (r : T × List Nat × Nat × Log) :
    T × List Nat × Nat × Log :=
  let kids := fo.pre ++ (fo.key, r.1) :: fo.post
  match cell with
  | some (id, c) =>
    if id ∈ r.2.1 then
      if fo.fits then (.node id o c kids, r.2.1, r.2.2.1, r.2.2.2 ++ [(id, kids)])
      else (.node r.2.2.1 o fo.capO kids, r.2.2.1 :: r.2.1.filter (· ≠ id), r.2.2.1 + 1, r.2.2.2)
    else (.node r.2.2.1 o fo.capN kids, r.2.2.1 :: r.2.1, r.2.2.1 + 1, r.2.2.2)
  | none => (.node r.2.2.1 o fo.capN kids, r.2.2.1 :: r.2.1, r.2.2.1 + 1, r.2.2.2)

/-- `a.makeArray(l, 0)` registers the address of the new array.  An array of capacity 0 has no address
    of its own (every `make([]any, 0, 0)` is Go's `zerobase`); registering that address is unobservable
    (nothing can be written into such an array, and `allocated` only ever licenses writes or a `free`):
    the model does not register it. -/
def regFresh (l : Nat) (kids : Kids) (A : List Nat) : List Nat := if kids.isEmpty then A else l :: A

/-- root label of a container -/
def T.root? : T → Option Nat
  | .node id _ _ _ => some id
  | _ => none

/-- `if len(u) > 0 && &u[0] != &w[start] { a.free(u) }` (bcc8a71): the array `u` that carried the new
    elements is dropped after the element-wise copy, so its address is unregistered — unless `u` IS the
    memory of `w` at `start` (the view written in place, or returned untouched): `same` -/
def freeU (same : Bool) (u : T) (uks : Kids) (A : List Nat) : List Nat :=
  if uks.isEmpty || same then A
  else match u.root? with
    | some l => A.filter (· ≠ l)
    | none => A

/-- the part of `updateArraySlice` after the recursive call, `case []any`: the elements of `u` replace
    the elements of the view — in place (`w = v`, `copy(w[start:], u)`) when the length is unchanged and
    `v` is (still) registered, else in a new array of exactly the needed capacity (`makeArray(l, 0)`),
    and `v` is unregistered (`a.free(v)`).  `u` itself is dropped and unregistered (`freeU`).
    `vl` is the label of the view the recursion started from. -/
def plugSlice (sf : SFocus) (vl : Nat) (r : T × List Nat × Nat × Log) : Option (T × List Nat × Nat × Log) :=
  match r.1 with
  | .node ul false _ uks =>
    let kids := sf.pre ++ uks ++ sf.post
    match sf.cell with
    | some (id, c) =>
      if uks.length = sf.mid.length ∧ id ∈ r.2.1 then
        some (.node id false c kids, freeU (ul == vl) r.1 uks r.2.1, r.2.2.1,
          (if sf.pre.isEmpty then rebase id sf.post r.2.2.2 else r.2.2.2) ++ (if uks.isEmpty then [] else [(id, kids)]))
      else some (.node r.2.2.1 false kids.length kids,
        regFresh r.2.2.1 kids (freeU false r.1 uks (r.2.1.filter (· ≠ id))), r.2.2.1 + 1, r.2.2.2)
    | none => some (.node r.2.2.1 false kids.length kids, regFresh r.2.2.1 kids (freeU false r.1 uks r.2.1), r.2.2.1 + 1, r.2.2.2)
  | _ => none

/-- `update(v, path, n, a)` of func.go for `n ≠ struct{}{}`, paths with slices.
    Result: (new value, allocator, fresh counter, in-place writes); `none` = Go error. -/
def updS (A : List Nat) (f : Nat) : PathS → T → T → Option (T × List Nat × Nat × Log)
  | [], _, n => some (n, A, f, [])
  | .key k :: p, v, n =>
    match enter (.key k) v with
    | none => none
    | some (cell, o, fo) => (updS A f p fo.child n).map (plugE cell o fo)
  | .idx i :: p, v, n =>
    match enter (.idx i) v with
    | none => none
    | some (cell, o, fo) => (updS A f p fo.child n).map (plugE cell o fo)
  | .slice s e :: p, v, n =>
    match enterSlice s e v with
    | none => none
    | some sf => (updS A (viewLabel sf f).2 p (view sf f) n).bind (plugSlice sf (viewLabel sf f).1)

/-- after the recursive call of the marking pass, key/index element (as in `mark`) -/
def plugDel (id : Nat) (o : Bool) (c cCopy : Nat) (pre : Kids) (key : Bytes) (post : Kids)
    (r : T × List Nat × Nat × Log) : T × List Nat × Nat × Log :=
  let kids := pre ++ (key, r.1) :: post
  if id ∈ r.2.1 then (.node id o c kids, r.2.1, r.2.2.1, r.2.2.2 ++ [(id, kids)])
  else (.node r.2.2.1 o cCopy kids, r.2.2.1 :: r.2.1, r.2.2.1 + 1, r.2.2.2)

/-- after the recursive call of the marking pass, slice element: `case []any` as `plugSlice`;
    `case struct{}` (the path ended at the slice): every element of the range is replaced by the
    placeholder, in `v` itself when it is registered, else in a copy (`makeArray(len(v), 0)`) -/
def plugSliceDel (sf : SFocus) (vl : Nat) (r : T × List Nat × Nat × Log) : Option (T × List Nat × Nat × Log) :=
  match r.1 with
  | .hole =>
    match sf.cell with
    | some (id, c) =>
      let kids := sf.pre ++ sf.mid.map (fun x => (x.1, T.hole)) ++ sf.post
      if id ∈ r.2.1 then some (.node id false c kids, r.2.1, r.2.2.1, r.2.2.2 ++ [(id, kids)])
      else some (.node r.2.2.1 false kids.length kids, r.2.2.1 :: r.2.1, r.2.2.1 + 1, r.2.2.2)
    | none => none
  | _ => plugSlice sf vl r

/-- `update(v, path, struct{}{}, a)` with slices: the marking pass of `delpaths` -/
def markS (A : List Nat) (f : Nat) : PathS → T → Option (T × List Nat × Nat × Log)
  | [], _ => some (.hole, A, f, [])
  | .key k :: p, v =>
    match enterDel (.key k) v with
    | .err => none
    | .same => some (v, A, f, [])
    | .at id o c cCopy pre key child post => (markS A f p child).map (plugDel id o c cCopy pre key post)
  | .idx i :: p, v =>
    match enterDel (.idx i) v with
    | .err => none
    | .same => some (v, A, f, [])
    | .at id o c cCopy pre key child post => (markS A f p child).map (plugDel id o c cCopy pre key post)
  | .slice s e :: p, v =>
    match v with
    | .hole => some (v, A, f, [])                  -- `case struct{}: return v, nil`
    | _ =>
      match enterSlice s e v with
      | none => none
      | some sf =>
        if sf.mid.isEmpty then some (v, A, f, [])  -- `start == end && n == struct{}{}`
        else (markS A (viewLabel sf f).2 p (view sf f)).bind (plugSliceDel sf (viewLabel sf f).1)

/-- the marking loop of `delpaths` -/
def markAllS : List PathS → T × List Nat × Nat × Log → Option (T × List Nat × Nat × Log)
  | [], s => some s
  | p :: ps, (v, A, f, log) =>
    match markS A f p v with
    | none => none
    | some (v1, A1, f1, log1) => markAllS ps (v1, A1, f1, log ++ log1)

/-- `delpaths(v, ps, a)` with slices; the last component lists the cells written by the sweep -/
def delpathsST (A : List Nat) (f : Nat) (ps : List PathS) (v : T) : Option (T × List Nat × Nat × Log × List Nat) :=
  if ps.isEmpty then some (v, A, f, [], [])
  else match markAllS ps (v, A, f, []) with
    | none => none
    | some (u, A1, f1, log) => some (sweep A1 u, A1, f1, log, sweepWrites A1 u)

/-- tree-level `getpath` with slices.  A slice step yields a second header onto the cell: the same
    label, capacity `cap - start` (`vs[start:end]`, two-index slice).  Such a header is only an
    intermediate here: `getpReleaseS` clones a final slice. -/
def getpS : PathS → T → Option T
  | [], v => some v
  | e :: p, v =>
    match e, v with
    | .key _, .leaf .null => getpS p T.null
    | .key k, .node _ true _ ks => getpS p ((splitKey k ks).2.1.getD T.null)
    | .idx _, .leaf .null => getpS p T.null
    | .idx i, .node _ false _ ks =>
      match resolve i ks.length with
      | .inr j => match splitIdx j ks with
        | some r => getpS p r.2.1
        | none => getpS p T.null
      | _ => getpS p T.null
    | .slice _ _, .leaf .null => getpS p T.null
    | .slice s e, .node id false c ks =>
      let b := sliceBounds s e ks.length
      getpS p (.node id false (c - b.1) ((ks.drop b.1).take (b.2 - b.1)))
    | _, _ => none

def endsWithSlice : PathS → Bool
  | [] => false
  | [.slice _ _] => true
  | [_] => false
  | _ :: p => endsWithSlice p

/-- `funcGetpathWithAllocator` (622959f): the value handed to the update query.  When the path ends
    with a slice and finds an array, the ELEMENTS are released and the slice is cloned
    (`slices.Clone`: a new cell, not registered, capacity = length for the lengths the size classes of
    Go's allocator do not round, see the driver); otherwise the value itself is released. -/
def getpReleaseS (A : List Nat) (f : Nat) (p : PathS) (v : T) : Option (T × List Nat × Nat) :=
  match getpS p v with
  | none => none
  | some x =>
    match endsWithSlice p, x with
    | true, .node _ false _ xs => some (.node f false xs.length xs, releaseK A xs, f + 1)
    | _, _ => some (x, release A x, f)

/-- One iteration of `_modify` whose update query yields an output (paths with slices). -/
def modifyStepS (q : T → Nat → T × Nat) (st : T × List Nat × Nat) (p : PathS) : Option (T × List Nat × Nat × Log) :=
  match getpReleaseS st.2.1 st.2.2 p st.1 with
  | none => none
  | some (x, A1, f1) =>
    let r := q x f1
    updS A1 r.2 p st.1 r.1

/-- `_modify(paths; q)` restricted to paths on which the update query yields an output -/
def modifyAllS (q : T → Nat → T × Nat) : List PathS → T × List Nat × Nat → Option (T × List Nat × Nat)
  | [], st => some st
  | p :: ps, st =>
    match modifyStepS q st p with
    | none => none
    | some (v', A', f', log) => modifyAllS q ps (applyLog log v', A', f')

/-- the defining reduction `reduce path(paths) as $p (.; setpath($p; getpath($p) | q))` on values -/
def modifyVS (qv : JV → JV) : List PathS → JV → Option JV
  | [], w => some w
  | p :: ps, w =>
    match getpathS p w with
    | none => none
    | some x =>
      match setpathS p w (qv x) with
      | none => none
      | some w' => modifyVS qv ps w'

/-- `_modify(paths; q)` in full, paths with slices.  `q x f = none`: the update query is `empty` at this
    path — the path is appended to `$d` (the value found was released, or cloned, all the same); at the
    end all collected paths are deleted with `_delpaths` (compileModify). -/
def modifyFullAuxS (q : T → Nat → Option (T × Nat)) :
    List PathS → T × List Nat × Nat → List PathS → Option ((T × List Nat × Nat) × List PathS)
  | [], st, d => some (st, d)
  | p :: ps, st, d =>
    match getpReleaseS st.2.1 st.2.2 p st.1 with
    | none => none
    | some (x, A1, f1) =>
      match q x f1 with
      | none => modifyFullAuxS q ps (st.1, A1, f1) (d ++ [p])
      | some (n, f2) =>
        match updS A1 f2 p st.1 n with
        | none => none
        | some (v', A', f', log) => modifyFullAuxS q ps (applyLog log v', A', f') d

def modifyFullS (q : T → Nat → Option (T × Nat)) (ps : List PathS) (v : T) (f : Nat) : Option T :=
  match modifyFullAuxS q ps (v, [], f) [] with
  | none => none
  | some ((v', A', f'), d) => (delpathsST A' f' d v').map (·.1)

/-- the update part of the defining reduction of `|=` on values (jq 1.7 `_modify`): first output of the
    update query stored with `setpath`, paths where it is empty collected -/
def modifyVAuxS (qv : JV → Option JV) : List PathS → JV → List PathS → Option (JV × List PathS)
  | [], w, d => some (w, d)
  | p :: ps, w, d =>
    match getpathS p w with
    | none => none
    | some x =>
      match qv x with
      | none => modifyVAuxS qv ps w (d ++ [p])
      | some y =>
        match setpathS p w y with
        | none => none
        | some w' => modifyVAuxS qv ps w' d

/-- `_assign(paths; $x)` (compiler.go compileAssign): `reduce path(paths) as $p (.; _setpath($p; $x))`
    with one allocator for the whole reduction; nothing is released (the value `$x` exists before the
    reduction starts).  The next iteration sees the value with the in-place writes replayed. -/
def assignAllS (n : T) : List PathS → T × List Nat × Nat → Option (T × List Nat × Nat)
  | [], st => some st
  | p :: ps, st =>
    match updS st.2.1 st.2.2 p st.1 n with
    | none => none
    | some (v', A', f', log) => assignAllS n ps (applyLog log v', A', f')

/-- the defining reduction `reduce path(paths) as $p (.; setpath($p; $x))` on values -/
def assignVS (n : JV) : List PathS → JV → Option JV
  | [], w => some w
  | p :: ps, w =>
    match setpathS p w n with
    | none => none
    | some w' => assignVS n ps w'

end Gojq.Heap

/-
  Result type of the Go `int` callbacks of the arithmetic operators (operator.go), used by the
  GENERATED definitions in Generated/IntFns.lean (translator: verifgen intfns).
  The wrapping arithmetic itself (`wrap64`, `goDiv`, `goMod`, `minInt`, `maxInt`) is Model/Arith.lean.
-/
import Gojq.Model.Arith
namespace Gojq.GoInt
open Gojq

/-- what an int callback returns -/
inductive R where
  | int (z : Int)        -- a Go `int` (the value the wrapping expression produced)
  | big (z : Int)        -- a `*big.Int` (exact)
  | fdiv (l r : Int)     -- `float64(l) / float64(r)`
  | zeroDiv              -- `&zeroDivisionError{…}`
  | zeroMod              -- `&zeroModuloError{…}`
  deriving Repr, DecidableEq

/-- the integer a result denotes, if it is one -/
def R.val : R → Option Int
  | .int z => some z
  | .big z => some z
  | _ => none

/-- a Go `int` result is a value the machine integer can hold (nothing was lost by wrapping is a
    separate statement: `val` equals the exact result) -/
def R.Honest : R → Prop
  | .int z => InRange z
  | _ => True

end Gojq.GoInt

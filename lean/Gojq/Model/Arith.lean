/-
  Numeric operators of operator.go / func.go on `Num` (DESIGN §6 C10).
  Go `int` fast paths are written over `wrap64`, i.e. they say exactly what the wrapping
  Go expression computes; the `*big.Int` fallback is exact `Int` arithmetic; float64
  arithmetic is exact-then-`roundRat`.
-/
import Gojq.Model.Float
namespace Gojq

def minInt : Int := -9223372036854775808
def maxInt : Int := 9223372036854775807

/-- the value fits Go's 64-bit `int` -/
abbrev InRange (x : Int) : Prop := minInt ≤ x ∧ x ≤ maxInt

instance (x : Int) : Decidable (InRange x) := by unfold InRange; infer_instance

/-- two's-complement wrap-around of a mathematical integer to int64 -/
def wrap64 (x : Int) : Int := (x + 9223372036854775808) % 18446744073709551616 - 9223372036854775808

/-- `negate(v int) any` (operator.go): promotes at `math.MinInt`, else wrapping `-v` -/
def negateInt (v : Int) : Int :=
  if v = minInt then -v else wrap64 (-v)

/-- int fast path of `funcOpAdd`: `if v := l + r; (v >= l) == (r >= 0) { return v }` else big -/
def addInt (l r : Int) : Int :=
  let v := wrap64 (l + r)
  if (decide (v ≥ l)) = (decide (r ≥ 0)) then v else l + r

/-- int fast path of `funcOpSub`: `if v := l - r; (v <= l) == (r >= 0) { return v }` else big -/
def subInt (l r : Int) : Int :=
  let v := wrap64 (l - r)
  if (decide (v ≤ l)) = (decide (r ≥ 0)) then v else l - r

/-- Go's `/` on int64 (truncated; wraps only for MinInt / -1, which the callers exclude) -/
def goDiv (a b : Int) : Int := wrap64 (Int.tdiv a b)
/-- Go's `%` on int64 -/
def goMod (a b : Int) : Int := Int.tmod a b

/-- int fast path of `funcOpMul`:
    `if r == -1 { return negate(l) }; if v := l * r; r == 0 || v/r == l { return v }` else big -/
def mulInt (l r : Int) : Int :=
  if r = -1 then negateInt l else
  let v := wrap64 (l * r)
  if r = 0 ∨ goDiv v r = l then v else l * r

/-- result of an arithmetic native: a number or an error class -/
inductive ArithErr where
  | zeroDivision | zeroModulo
  deriving Repr, DecidableEq

/-! ### float64 arithmetic (IEEE-754 round-to-nearest-even, via exact rationals) -/

/-- sign bit of a float-carrier number -/
def Num.signNeg : Num → Bool
  | .flt q => q < 0
  | .nzero => true
  | .inf neg => neg
  | .int z => z < 0
  | .nan => false

def signedZero (neg : Bool) : Num := if neg then .nzero else .flt 0

def fneg : Num → Num
  | .flt q => if q == 0 then .nzero else .flt (-q)
  | .nzero => .flt 0
  | .inf neg => .inf (!neg)
  | .nan => .nan
  | .int z => .int (-z)

def fabs : Num → Num
  | .flt q => .flt (if q < 0 then -q else q)
  | .nzero => .flt 0
  | .inf _ => .inf false
  | .nan => .nan
  | .int z => .int z.natAbs

def fadd (a b : Num) : Num :=
  match a, b with
  | .nan, _ => .nan
  | _, .nan => .nan
  | .inf s, .inf t => if s == t then .inf s else .nan
  | .inf s, _ => .inf s
  | _, .inf t => .inf t
  | .nzero, .nzero => .nzero
  | a, b =>
    match a.toRat?, b.toRat? with
    | some x, some y => roundRat (x + y)   -- an exact zero sum is +0 in round-to-nearest
    | _, _ => .nan

def fsub (a b : Num) : Num := fadd a (fneg b)

def fmul (a b : Num) : Num :=
  match a, b with
  | .nan, _ => .nan
  | _, .nan => .nan
  | a, b =>
    let neg := a.signNeg != b.signNeg
    match a.toRat?, b.toRat? with
    | some x, some y => if x * y == 0 then signedZero neg else roundRat (x * y)
    | none, some y => if y == 0 then .nan else .inf neg
    | some x, none => if x == 0 then .nan else .inf neg
    | none, none => .inf neg

/-- IEEE division; the Go code tests `r == 0.0` before dividing, see `opDiv` -/
def fdiv (a b : Num) : Num :=
  match a, b with
  | .nan, _ => .nan
  | _, .nan => .nan
  | a, b =>
    let neg := a.signNeg != b.signNeg
    match a.toRat?, b.toRat? with
    | some x, some y =>
      if y == 0 then (if x == 0 then .nan else .inf neg)
      else if x == 0 then signedZero neg else roundRat (x / y)
    | none, some _ => .inf neg
    | some _, none => signedZero neg
    | none, none => .nan

/-- `floatToInt` (func.go): truncation with saturation; NaN ↦ MinInt -/
def floatToInt : Num → Int
  | .nan => minInt
  | .inf neg => if neg then minInt else maxInt
  | .nzero => 0
  | .int z => z
  | .flt q =>
    if (minInt : Rat) ≤ q ∧ q < (9223372036854775808 : Rat) then
      (if q < 0 then -((-q).floor) else q.floor)
    else if 0 < q then maxInt else minInt

def Num.isZeroF : Num → Bool
  | .flt q => q == 0
  | .nzero => true
  | _ => false

/-! ### the five operators on numbers, through `binopTypeSwitch` -/

/-- which callback `binopTypeSwitch` selects for two numbers:
    ints (both Go `int`), bigs (both integers, at least one `*big.Int`), floats otherwise -/
inductive NumPath where | ints | bigs | floats
  deriving Repr, DecidableEq

def numPath : Num → Num → NumPath
  | .int l, .int r => if InRange l ∧ InRange r then .ints else .bigs
  | _, _ => .floats

def opAddNum (a b : Num) : Num :=
  match a, b with
  | .int l, .int r => if InRange l ∧ InRange r then .int (addInt l r) else .int (l + r)
  | a, b => fadd a.toFlt b.toFlt

def opSubNum (a b : Num) : Num :=
  match a, b with
  | .int l, .int r => if InRange l ∧ InRange r then .int (subInt l r) else .int (l - r)
  | a, b => fsub a.toFlt b.toFlt

def opMulNum (a b : Num) : Num :=
  match a, b with
  | .int l, .int r => if InRange l ∧ InRange r then .int (mulInt l r) else .int (l * r)
  | a, b => fmul a.toFlt b.toFlt

def opDivNum (a b : Num) : Except ArithErr Num :=
  match a, b with
  | .int l, .int r =>
    if InRange l ∧ InRange r then
      if r = 0 then .error .zeroDivision
      else if r = -1 then .ok (.int (negateInt l))
      else if goMod l r = 0 then .ok (.int (goDiv l r))
      else .ok (fdiv (roundInt l) (roundInt r))
    else
      if r = 0 then .error .zeroDivision
      else if Int.emod l r = 0 then .ok (.int (Int.ediv l r))   -- big.Int.DivMod is Euclidean
      else .ok (fdiv (roundInt l) (roundInt r))
  | a, b =>
    let x := a.toFlt; let y := b.toFlt
    if y.isZeroF then .error .zeroDivision else .ok (fdiv x y)

def opModNum (a b : Num) : Except ArithErr Num :=
  match a, b with
  | .int l, .int r =>
    if InRange l ∧ InRange r then
      if r = 0 then .error .zeroModulo
      else if r = -1 then .ok (.int 0)
      else .ok (.int (goMod l r))
    else
      if r = 0 then .error .zeroModulo else .ok (.int (Int.tmod l r))  -- big.Int.Rem is truncated
  | a, b =>
    let x := a.toFlt; let y := b.toFlt
    if x == .nan ∨ y == .nan then .ok .nan
    else
      let ri := floatToInt y
      if ri = 0 then .error .zeroModulo
      else .ok (.int (goMod (floatToInt x) ri))

/-- `funcOpNegate` on a number -/
def opNegNum : Num → Num
  | .int z => if InRange z then .int (negateInt z) else .int (-z)
  | n => fneg n

/-- `funcAbs` / the numeric case of `funcLength` -/
def absNum : Num → Num
  | .int z => if InRange z then (if z ≥ 0 then .int z else .int (negateInt z)) else .int z.natAbs
  | n => fabs n

end Gojq

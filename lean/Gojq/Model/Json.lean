/-
  Shared value model (DESIGN §3.1).  Core Lean only: no Mathlib, no Std import,
  so every driver can be linked as a `lean_exe`.
-/
namespace Gojq

/-- Go strings are arbitrary byte sequences, not necessarily valid UTF-8. -/
abbrev Bytes := List UInt8

/-- Numbers as gojq distinguishes them after normalisation.
    `int z`  : Go `int` or `*big.Int` (one representation; magnitude unbounded)
    `flt q`  : a finite non-zero-or-positive-zero float64, as the exact rational it denotes
    `nzero`  : float64 negative zero
    `nan`, `inf neg` : the non-finite float64 values. -/
inductive Num where
  | int (z : Int)
  | flt (q : Rat)
  | nzero
  | nan
  | inf (neg : Bool)
  deriving Repr, DecidableEq, Inhabited

/-- JSON values.  Objects are association lists; well-formed objects have strictly
    increasing keys (bytewise), see `JV.WF`. -/
inductive JV where
  | null
  | bool (b : Bool)
  | num (n : Num)
  | str (s : Bytes)
  | arr (xs : List JV)
  | obj (kvs : List (Bytes × JV))
  deriving Repr, Inhabited

namespace Bytes

def ofString (s : String) : Bytes := s.toUTF8.toList

/-- bytewise lexicographic comparison (Go's `<` on strings) -/
def cmp : Bytes → Bytes → Ordering
  | [], [] => .eq
  | [], _ :: _ => .lt
  | _ :: _, [] => .gt
  | a :: as, b :: bs =>
    if a < b then .lt else if b < a then .gt else cmp as bs

def lt (a b : Bytes) : Bool := cmp a b == .lt

end Bytes

mutual
  def JV.beq : JV → JV → Bool
    | .null, .null => true
    | .bool a, .bool b => a == b
    | .num a, .num b => decide (a = b)
    | .str a, .str b => a == b
    | .arr a, .arr b => JV.beqList a b
    | .obj a, .obj b => JV.beqKvs a b
    | _, _ => false
  def JV.beqList : List JV → List JV → Bool
    | [], [] => true
    | x :: xs, y :: ys => JV.beq x y && JV.beqList xs ys
    | _, _ => false
  def JV.beqKvs : List (Bytes × JV) → List (Bytes × JV) → Bool
    | [], [] => true
    | (k, x) :: xs, (l, y) :: ys => k == l && JV.beq x y && JV.beqKvs xs ys
    | _, _ => false
end

/-- structural (representation-level) equality: `int 1 ≠ flt 1` here. -/
instance : BEq JV := ⟨JV.beq⟩

/-- insert/replace a key in a sorted association list (`m[k] = v`) -/
def kvInsert (k : Bytes) (v : JV) : List (Bytes × JV) → List (Bytes × JV)
  | [] => [(k, v)]
  | (k', v') :: rest =>
    match Bytes.cmp k k' with
    | .lt => (k, v) :: (k', v') :: rest
    | .eq => (k, v) :: rest
    | .gt => (k', v') :: kvInsert k v rest

def kvLookup (k : Bytes) : List (Bytes × JV) → Option JV
  | [] => none
  | (k', v') :: rest => if k == k' then some v' else kvLookup k rest

def kvErase (k : Bytes) : List (Bytes × JV) → List (Bytes × JV)
  | [] => []
  | (k', v') :: rest => if k == k' then rest else (k', v') :: kvErase k rest

/-- keys strictly increasing -/
def kvSorted : List (Bytes × JV) → Bool
  | [] => true
  | [_] => true
  | (k, _) :: (k', v') :: rest => Bytes.lt k k' && kvSorted ((k', v') :: rest)

mutual
  /-- well-formedness: every object has strictly increasing keys -/
  def JV.wf : JV → Bool
    | .arr xs => JV.wfList xs
    | .obj kvs => kvSorted kvs && JV.wfKvs kvs
    | _ => true
  def JV.wfList : List JV → Bool
    | [] => true
    | x :: xs => JV.wf x && JV.wfList xs
  def JV.wfKvs : List (Bytes × JV) → Bool
    | [] => true
    | (_, x) :: xs => JV.wf x && JV.wfKvs xs
end

/-- build a well-formed object from arbitrary pairs; later duplicates win (Go map assignment order) -/
def JV.mkObj (kvs : List (Bytes × JV)) : JV :=
  .obj (kvs.foldl (fun acc (k, v) => kvInsert k v acc) [])

def JV.typeName : JV → String
  | .null => "null" | .bool _ => "boolean" | .num _ => "number"
  | .str _ => "string" | .arr _ => "array" | .obj _ => "object"

end Gojq

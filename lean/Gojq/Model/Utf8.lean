/-
  Go's UTF-8 decoding/encoding (`unicode/utf8`: DecodeRuneInString, `for range string`,
  `[]rune(s)`, `utf8.AppendRune`, `strings.Builder.WriteRune`) over byte lists.
  An invalid or truncated sequence decodes to U+FFFD and consumes exactly ONE byte.
-/
import Gojq.Model.Json
namespace Gojq.Utf8
open Gojq

def runeError : Nat := 0xFFFD
def maxRune : Nat := 0x10FFFF

def isCont (b : UInt8) : Bool := 0x80 ≤ b.toNat && b.toNat ≤ 0xBF

/-- `utf8.DecodeRune`: the rune, its width in bytes, and whether the encoding was valid.
    On the empty input Go returns (RuneError, 0); callers here never pass `[]`. -/
def decodeRune : Bytes → Nat × Nat × Bool
  | [] => (runeError, 0, false)
  | b0 :: rest =>
    let x := b0.toNat
    if x < 0x80 then (x, 1, true)
    else if x < 0xC2 then (runeError, 1, false)
    else if x < 0xE0 then
      match rest with
      | b1 :: _ => if isCont b1 then ((x % 32) * 64 + b1.toNat % 64, 2, true) else (runeError, 1, false)
      | _ => (runeError, 1, false)
    else if x < 0xF0 then
      match rest with
      | b1 :: b2 :: _ =>
        let lo := if x == 0xE0 then 0xA0 else 0x80
        let hi := if x == 0xED then 0x9F else 0xBF
        if lo ≤ b1.toNat && b1.toNat ≤ hi && isCont b2 then
          ((x % 16) * 4096 + (b1.toNat % 64) * 64 + b2.toNat % 64, 3, true)
        else (runeError, 1, false)
      | _ => (runeError, 1, false)
    else if x < 0xF5 then
      match rest with
      | b1 :: b2 :: b3 :: _ =>
        let lo := if x == 0xF0 then 0x90 else 0x80
        let hi := if x == 0xF4 then 0x8F else 0xBF
        if lo ≤ b1.toNat && b1.toNat ≤ hi && isCont b2 && isCont b3 then
          ((x % 8) * 262144 + (b1.toNat % 64) * 4096 + (b2.toNat % 64) * 64 + b3.toNat % 64, 4, true)
        else (runeError, 1, false)
      | _ => (runeError, 1, false)
    else (runeError, 1, false)

/-- `utf8.AppendRune` / `WriteRune`: surrogates and out-of-range runes encode as U+FFFD -/
def encodeRune (r : Nat) : Bytes :=
  let b (n : Nat) : UInt8 := UInt8.ofNat n
  if r < 0x80 then [b r]
  else if r < 0x800 then [b (0xC0 + r / 64), b (0x80 + r % 64)]
  else if (0xD800 ≤ r && r ≤ 0xDFFF) || r > maxRune then [0xEF, 0xBF, 0xBD]
  else if r < 0x10000 then [b (0xE0 + r / 4096), b (0x80 + (r / 64) % 64), b (0x80 + r % 64)]
  else [b (0xF0 + r / 262144), b (0x80 + (r / 4096) % 64), b (0x80 + (r / 64) % 64), b (0x80 + r % 64)]

/-- `[]rune(s)` / `for _, r := range s`: fuel = length bound makes the recursion structural -/
def runesAux : Nat → Bytes → List Nat
  | 0, _ => []
  | _, [] => []
  | fuel + 1, s =>
    let (r, w, _) := decodeRune s
    r :: runesAux fuel (s.drop (max w 1))

def runes (s : Bytes) : List Nat := runesAux s.length s

/-- valid UTF-8: every decode step is valid -/
def validAux : Nat → Bytes → Bool
  | 0, s => s.isEmpty
  | _, [] => true
  | fuel + 1, s =>
    let (_, w, ok) := decodeRune s
    ok && validAux fuel (s.drop (max w 1))

def valid (s : Bytes) : Bool := validAux s.length s

def encodeRunes (rs : List Nat) : Bytes := rs.flatMap encodeRune

/-- `strings.ToValidUTF8`-like sanitisation as the JSON encoders do it: each invalid byte ↦ U+FFFD -/
def sanitize (s : Bytes) : Bytes := encodeRunes (runes s)

end Gojq.Utf8

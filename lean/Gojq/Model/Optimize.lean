/-
  The two whole-code passes of compiler.go, transliterated (DESIGN §6 C04):
  `optimizeTailRec` and `optimizeCodeOps`.  Instructions carry their operand opaquely: the
  passes only look at opcodes, integer targets and the `[id, varcnt, argcnt]` of `opscope`.
  Go panics (nil dereference on a missing successor, index out of range) and the
  non-termination of the jump-following loop are explicit `none` outcomes.
-/
namespace Gojq.Opt

structure Instr where
  op : String
  /-- integer operand (jump / fork / call target), if the operand is an int -/
  tgt : Option Int := none
  /-- any other operand, opaque -/
  arg : String := "_"
  /-- the `[id, varcnt, argcnt]` operand of `opscope` -/
  ints : List Int := []
  deriving Repr, DecidableEq, Inhabited

abbrev Code := Array Instr

def isTargetOp (op : String) : Bool :=
  op == "fork" || op == "forktrybegin" || op == "forkalt" || op == "jump" || op == "jumpifnot"

/-- `targets[k]` = some jump/fork instruction has operand `k` -/
def targetsOf (code : Code) : Array Bool :=
  code.foldl (fun t c =>
    if isTargetOp c.op then
      match c.tgt with
      | some k => if 0 ≤ k ∧ k.toNat < t.size then t.set! k.toNat true else t
      | none => t
    else t) (Array.replicate (code.size + 1) false)

def isPushLike (op : String) : Bool := op == "push" || op == "dup" || op == "load"

/-- one iteration `i` of the backward loop of `optimizeCodeOps`; `none` = the Go code would panic -/
def codeOpsStep (targets : Array Bool) (code : Code) (i : Nat) : Option Code :=
  match code[i]? with
  | none => none
  | some c =>
    if isPushLike c.op then
      if targets.getD (i + 1) false then some code else
      match code[i + 1]? with
      | none => none                     -- `next` is nil: nil dereference
      | some nx =>
        if nx.op == "pop" then some ((code.set! i { c with op := "nop" }).set! (i + 1) { nx with op := "nop" })
        else if nx.op == "const" then some ((code.set! i { c with op := "nop" }).set! (i + 1) { nx with op := "push" })
        else some code
    else if c.op == "jump" || c.op == "jumpifnot" then
      match c.tgt with
      | none => none                     -- failed type assertion
      | some j =>
        if j - 1 == (i : Int) then some (code.set! i { c with op := "nop" })
        else if j < 0 then none
        else match code[j.toNat]? with
          | none => none                 -- index out of range
          | some t => if t.op == "jump" then some (code.set! i { c with tgt := t.tgt }) else some code
    else some code

/-- `(*compiler).optimizeCodeOps` -/
def optimizeCodeOps (code : Code) : Option Code :=
  let targets := targetsOf code
  (List.range code.size).reverse.foldlM (codeOpsStep targets) code

/-- parse `"a,b,c"` -/
def parseInts (s : String) : List Int :=
  (s.splitOn ",").filterMap fun t => t.toInt?

/-- follow jumps from `j` to the first non-jump instruction; fuel guards against jump cycles -/
def followJumps (code : Code) : Nat → Nat → Option Instr
  | 0, _ => none
  | fuel + 1, j =>
    match code[j]? with
    | none => some { op := "<end>" }      -- the Go loop ends when j ≥ len
    | some c =>
      if c.op == "jump" then
        match c.tgt with
        | some t => if t < 0 then none else followJumps code fuel t.toNat
        | none => none
      else some c

structure TRState where
  code : Code
  pcs : List Nat            -- innermost scope first
  scopes : List (Nat × Bool)
  stop : Bool := false

/-- one iteration of the loop of `optimizeTailRec` -/
def tailRecStep (st : TRState) (i : Nat) : Option TRState :=
  if st.stop then some st else
  match st.code[i]? with
  | none => none
  | some c =>
    if c.op == "scope" then
      let st := { st with pcs := i :: st.pcs }
      match c.ints with
      | [_, v1, v2] => if v2 == 0 then some { st with scopes := (i, v1 == 0) :: st.scopes } else some st
      | _ => none
    else if c.op == "call" then
      match c.tgt, st.pcs with
      | some j, top :: _ =>
        if j != (top : Int) then some st else
        match st.scopes.lookup top with
        | none => some st
        | some canjump =>
          match followJumps st.code (st.code.size + 1) (i + 1) with
          | none => none
          | some t =>
            if t.op == "ret" then
              if canjump then some { st with code := st.code.set! i { c with op := "jump", tgt := some ((top : Int) + 1) } }
              else some { st with code := st.code.set! i { c with op := "callrec" } }
            else some st
      | _, _ => some st
    else if c.op == "ret" then
      match st.pcs with
      | [] => some { st with stop := true }
      | _ :: rest => some { st with pcs := rest }
    else some st

/-- `(*compiler).optimizeTailRec` -/
def optimizeTailRec (code : Code) : Option Code :=
  ((List.range code.size).foldlM tailRecStep { code := code, pcs := [], scopes := [] }).map (·.code)

end Gojq.Opt

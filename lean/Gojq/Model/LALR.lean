/-
  The stock goyacc driver loop (`yyParserImpl.Parse` in parser.go, section `yaccpar`) over the
  tables regenerated from the working tree (`Gojq.Generated.Lalr`).  Transliteration:

    yystack / yynewstate : push state; `yyPact[state] <= yyFlag` is a "simple state" (default
                           action taken WITHOUT reading a look-ahead); otherwise the look-ahead
                           is read lazily (`yyrcvr.char < 0`) and a shift is tried through
                           yyAct / yyChk;
    yydefault            : yyDef[state]; `-2` consults the exception table yyExca (reads the
                           look-ahead if there is none yet); a negative result accepts, `0` is an
                           error, `n > 0` reduces by production n: pop yyR2[n] entries, goto through
                           yyPgo / yyAct / yyChk on yyR1[n];
    error                : the grammar has no `error` production, so the recovery loop pops the
                           whole stack and returns 1 after ONE call of `yylex.Error` — modelled as
                           `reject` carrying the token source as it was at that call (DESIGN C09 gap).

  The driver is generic in the token source `σ` (so the same definition runs over a plain token
  list in the kernel-checked precedence theorems and over the real lexer state in `Model/Parse`)
  and produces a generic parse tree: rule number + children, tokens as leaves.
  Tables are literal `List Int` read with `List.getD` (kernel-friendly, DESIGN §4.1).
-/
import Gojq.Generated.Lalr
namespace Gojq.LALR
open Gojq.Generated.Lalr

/-- generic parse tree; `τ` is the semantic payload of a token (`yySymType` as filled by Lex) -/
inductive PT (τ : Type) where
  | tok (t : Int) (v : τ)
  | node (rule : Nat) (kids : List (PT τ))
  deriving Repr, Inhabited

/-- table read; Go would panic on an out-of-range index: the driver below only reads inside the
    ranges the stock loop checks, `tblOob` makes any other read visible as outcome `stuck`. -/
def get (l : List Int) (i : Int) : Int := if i < 0 then 0 else l.getD i.toNat 0

/-- `yylex1`: translate the lexer's character code into the internal token number -/
def translate (char : Int) : Int :=
  let token :=
    if char ≤ 0 then get yyTok1 0
    else if char < yyTok1.length then get yyTok1 char
    else if char ≥ yyPrivate && char < yyPrivate + yyTok2.length then get yyTok2 (char - yyPrivate)
    else tok3 yyTok3 char
  if token == 0 then get yyTok2 1 else token
where tok3 : List Int → Int → Int
  | a :: b :: rest, c => if a == c then b else tok3 rest c
  | _, _ => 0

/-- exception table lookup: find the `(-1, state)` header, then scan pairs until the token
    matches or a negative entry (the default) is met -/
def excaFind : List Int → Int → Int → Option Int
  | a :: b :: rest, state, tok =>
    if a == -1 && b == state then scan rest tok else excaFind rest state tok
  | _, _, _ => none
where scan : List Int → Int → Option Int
  | a :: b :: rest, tok => if a < 0 || a == tok then some b else scan rest tok
  | _, _ => none

def popN {τ : Type} : Nat → List (Int × PT τ) → List (PT τ) → Option (List (PT τ) × List (Int × PT τ))
  | 0, st, acc => some (acc, st)
  | n+1, (_, t) :: st, acc => popN n st (t :: acc)
  | _+1, [], _ => none

/-- a token source: `next` is `yylex1 ∘ Lex` (internal token number, payload, new state);
    `onReduce` is the side effect a semantic action has on the lexer. -/
structure Source (σ τ : Type) where
  next : σ → Int × τ × σ
  onReduce : Nat → σ → σ

inductive Outcome (σ τ : Type) where
  | accept (t : PT τ) (s : σ)
  | reject (state : Int) (look : Int) (s : σ)   -- `yylex.Error` was called in this state
  | stuck                                       -- fuel exhausted or a table read the loop does not guard
  deriving Inhabited

/-- goto after reducing by production `r` with `st0` on top of the stack -/
def gotoState (r : Int) (st0 : Int) : Int :=
  let nt := get yyR1 r
  let g := get yyPgo nt
  let j := g + st0 + 1
  if j ≥ yyLast then get yyAct g else
    let c := get yyAct j
    if get yyChk c != -nt then get yyAct g else c

/-- `if yyrcvr.char < 0 { yyrcvr.char, yytoken = yylex1(yylex, &yyrcvr.lval) }`: read the
    look-ahead unless there is one -/
def ensureLook {σ τ : Type} (src : Source σ τ) (look : Option (Int × τ)) (s : σ) : (Int × τ) × σ :=
  match look with
  | some lk => (lk, s)
  | none => let r := src.next s; ((r.1, r.2.1), r.2.2)

/-- `yynewstate`: the shift attempt in `state`.  Result: look-ahead afterwards, token source
    afterwards, and the state to shift to (none = go to `yydefault`).  A simple state
    (`yyPact[state] <= yyFlag`) does not read a look-ahead. -/
def shiftOf {σ τ : Type} (src : Source σ τ) (state : Int) (look : Option (Int × τ)) (s : σ) :
    Option (Int × τ) × σ × Option Int :=
  let yyn := get yyPact state
  if yyn ≤ yyFlag then (look, s, none) else
    let ls := ensureLook src look s
    let j := yyn + ls.1.1
    if j < 0 || j ≥ yyLast then (some ls.1, ls.2, none) else
      let n := get yyAct j
      if get yyChk n == ls.1.1 then (some ls.1, ls.2, some n) else (some ls.1, ls.2, none)

/-- `yydefault`: the default action of `state` (`-2` = consult the exception table, which needs
    the look-ahead).  Result: look-ahead, token source, action (none = no table entry). -/
def defaultOf {σ τ : Type} (src : Source σ τ) (state : Int) (look : Option (Int × τ)) (s : σ) :
    Option (Int × τ) × σ × Option Int :=
  let d := get yyDef state
  if d == -2 then
    let ls := ensureLook src look s
    (some ls.1, ls.2, excaFind yyExca state ls.1.1)
  else (look, s, some d)

/-- the driver; `stack` head = top, each entry (state, tree); `look` = the look-ahead if read -/
def run {σ τ : Type} (src : Source σ τ) : Nat → List (Int × PT τ) → Option (Int × τ) → σ → Outcome σ τ
  | 0, _, _, _ => .stuck
  | fuel+1, stack, look, s =>
    match stack with
    | [] => .stuck
    | (state, top) :: _ =>
      match shiftOf src state look s with
      | (some lk, s1, some n) => run src fuel ((n, .tok lk.1 lk.2) :: stack) none s1
      | (none, _, some _) => .stuck
      | (look1, s1, none) =>
        match defaultOf src state look1 s1 with
        | (_, _, none) => .stuck
        | (look2, s2, some r) =>
          if r < 0 then .accept top s2
          else if r == 0 then .reject state (match look2 with | some lk => lk.1 | none => -1) s2
          else
            match popN (get yyR2 r).toNat stack [] with
            | none => .stuck
            | some (_, []) => .stuck
            | some (kids, (st0, t0) :: rest) =>
              run src fuel ((gotoState r st0, .node r.toNat kids) :: (st0, t0) :: rest) look2 (src.onReduce r.toNat s2)

/-- initial call: state 0 on the stack -/
def start {σ τ : Type} [Inhabited τ] (src : Source σ τ) (fuel : Nat) (s : σ) : Outcome σ τ :=
  run src fuel [(0, .tok 0 default)] none s

/-! ### token-list instance (used by the kernel-checked precedence theorems) -/

/-- tokens are INTERNAL token numbers; the list end is `$end` (yyEofCode) forever -/
def listSource : Source (List Int) Unit where
  next := fun l => match l with
    | [] => (yyEofCode, (), [])
    | t :: rest => (t, (), rest)
  onReduce := fun _ l => l

def parseToks (toks : List Int) : Outcome (List Int) Unit :=
  start listSource (60 * (toks.length + 2)) toks

/-- bracketing of a parse tree as a flat token list with parentheses `lp`/`rp`: unit
    productions and ε-productions are invisible, every other production is a parenthesised
    group of its children — a rule-number independent view of the tree shape -/
def lp : Int := -1
def rp : Int := -2

def flat : List (List Int) → List Int
  | [] => []
  | x :: xs => x ++ flat xs

mutual
  def bracket {τ : Type} : PT τ → List Int
    | .tok t _ => [t]
    | .node _ kids =>
      match bracketList kids with
      | [] => []
      | [b] => b
      | bs => lp :: (flat bs ++ [rp])
  def bracketList {τ : Type} : List (PT τ) → List (List Int)
    | [] => []
    | k :: ks =>
      match bracket k with
      | [] => bracketList ks
      | b => b :: bracketList ks
end

/-- result of parsing a token list, as a bracketing -/
inductive Shape where
  | ok (b : List Int)
  | syntaxError
  | other
  deriving Repr, DecidableEq, Inhabited

def shapeOf (toks : List Int) : Shape :=
  match parseToks toks with
  | .accept t _ => .ok (bracket t)
  | .reject _ _ _ => .syntaxError
  | .stuck => .other

end Gojq.LALR

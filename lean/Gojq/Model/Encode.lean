/-
  JSON encoders of gojq (DESIGN §6 C12).

  * `encodeString`, `encodeInt`, `encodeFloat`, `encodeValue` — the library encoder
    (/repo/encoder.go: encode, encodeFloat64, encodeString, encodeArray, encodeObject), which is
    also `tojson`, `tostring` on non-strings, `@json`, `@text` (func.go: funcToJSON).
  * `Cli.*` — the command's encoder (/repo/cli/encoder.go) as a machine over a byte buffer
    (`Buf`): colours, `writeIndent` / `writeIndentInternal` (block-doubling copy loop), the
    8 KiB flush as a list of chunks; and `Cli.render`, the pure layout it is proved equal to.
  * `parseJson` — a total RFC 8259 reader (the "reads back" side of the property).
  * `stripSGR`, `stripWs` — removal of SGR sequences / white space outside strings.

  The two Go copies of `encodeString` / `encodeFloat64` (library and cli) are textually the
  same loop; the model has one function and the correspondence streams `string`/`marshal`
  (library copy) and `cli` (cli copy) tie each copy to it.
  `s[start:i]` batching in the Go loop only coalesces writes; the model emits per rune.
  Core Lean only.
-/
import Gojq.Model.Float
import Gojq.Model.Utf8
namespace Gojq.Encode
open Gojq

/-! ### byte constants -/
def cQuote : UInt8 := 0x22      -- "
def cBackslash : UInt8 := 0x5c  -- \
def cComma : UInt8 := 0x2c
def cColon : UInt8 := 0x3a
def cLBrack : UInt8 := 0x5b
def cRBrack : UInt8 := 0x5d
def cLBrace : UInt8 := 0x7b
def cRBrace : UInt8 := 0x7d
def cMinus : UInt8 := 0x2d
def cPlus : UInt8 := 0x2b
def cDot : UInt8 := 0x2e
def cZero : UInt8 := 0x30
def cE : UInt8 := 0x65          -- e
def cNl : UInt8 := 0x0a
def cSpace : UInt8 := 0x20
def cTab : UInt8 := 0x09
def cEsc : UInt8 := 0x1b
def bNull : Bytes := [0x6e, 0x75, 0x6c, 0x6c]
def bTrue : Bytes := [0x74, 0x72, 0x75, 0x65]
def bFalse : Bytes := [0x66, 0x61, 0x6c, 0x73, 0x65]

/-! ### strings (encoder.go encodeString) -/

/-- `"0123456789abcdef"[n]` -/
def hexDigit (n : Nat) : UInt8 := if n < 10 then UInt8.ofNat (48 + n) else UInt8.ofNat (87 + n)

/-- what the loop writes for one byte `b < utf8.RuneSelf` -/
def escByte (b : UInt8) : Bytes :=
  let x := b.toNat
  if 0x20 ≤ x ∧ x ≤ 0x7e ∧ x ≠ 0x22 ∧ x ≠ 0x5c then [b]
  else if x = 0x22 then [0x5c, 0x22]
  else if x = 0x5c then [0x5c, 0x5c]
  else if x = 0x08 then [0x5c, 0x62]
  else if x = 0x0c then [0x5c, 0x66]
  else if x = 0x0a then [0x5c, 0x6e]
  else if x = 0x0d then [0x5c, 0x72]
  else if x = 0x09 then [0x5c, 0x74]
  else [0x5c, 0x75, 0x30, 0x30, hexDigit (x / 16), hexDigit (x % 16)]

/-- `�` -/
def escFFFD : Bytes := [0x5c, 0x75, 0x66, 0x66, 0x66, 0x64]

/-- the byte loop of `encodeString` (between the quotes); fuel ≥ length -/
def encStrAux : Nat → Bytes → Bytes
  | 0, _ => []
  | _, [] => []
  | fuel + 1, b :: rest =>
    if b.toNat < 0x80 then escByte b ++ encStrAux fuel rest
    else
      let (c, size, _) := Utf8.decodeRune (b :: rest)
      if c = Utf8.runeError ∧ size = 1 then escFFFD ++ encStrAux fuel rest
      else (b :: rest).take size ++ encStrAux fuel ((b :: rest).drop size)

def encodeString (s : Bytes) : Bytes := cQuote :: (encStrAux s.length s ++ [cQuote])

/-! ### integers (strconv.AppendInt, big.Int.Append) -/

def digitByte (d : Nat) : UInt8 := UInt8.ofNat (48 + d)

/-- decimal digits of `n`, most significant first, in front of `acc`; fuel > number of digits -/
def natDigitsAux : Nat → Nat → Bytes → Bytes
  | 0, _, acc => acc
  | fuel + 1, n, acc =>
    if n < 10 then digitByte n :: acc
    else natDigitsAux fuel (n / 10) (digitByte (n % 10) :: acc)

def natDigits (n : Nat) : Bytes := natDigitsAux (n + 1) n []

def encodeInt (z : Int) : Bytes :=
  if z < 0 then cMinus :: natDigits z.natAbs else natDigits z.natAbs

/-! ### floats (encodeFloat64: strconv.AppendFloat(f, 'f'|'e', -1, 64) + clean-up) -/

def pow10 (k : Int) : Rat := (10 : Rat) ^ k

/-- floor(log10 a) for a positive rational -/
def ilog10 (a : Rat) : Int :=
  let e0 : Int := (ilog2 a * 78913) / 262144
  if pow10 (e0 + 1) ≤ a then e0 + 1 else if a < pow10 e0 then e0 - 1 else e0

/-- drop trailing decimal zeros of the mantissa: `m·10^k` is unchanged -/
def trimZeros : Nat → Nat → Int → Nat × Int
  | 0, m, k => (m, k)
  | fuel + 1, m, k => if m ≠ 0 ∧ m % 10 = 0 then trimZeros fuel (m / 10) (k + 1) else (m, k)

/-- does the decimal `m·10^k` read back (round to nearest even) as the double `x`? -/
def readsBack (x : Rat) (m : Nat) (k : Int) : Bool := roundRat ((m : Rat) * pow10 k) == .flt x

/-- shortest round-trip search (strconv's `ryuFtoaShortest` as a specification): for
    p = 1, 2, … significant digits, the two p-digit neighbours of `x`; those that read back;
    the closer one, ties to the even digit.  `e = ilog10 x`, fuel bounds p.  The result is
    returned with trailing zeros removed and only if it (still) reads back. -/
def shortestAux (x : Rat) (e : Int) : Nat → Nat → Option (Nat × Int)
  | 0, _ => none
  | fuel + 1, p =>
    let k : Int := e - (p : Int) + 1
    let s : Rat := x / pow10 k
    let lo : Nat := s.floor.toNat
    let hi : Nat := lo + 1
    let okLo := readsBack x lo k
    let okHi := readsBack x hi k
    let dLo : Rat := s - (lo : Rat)
    let dHi : Rat := (hi : Rat) - s
    let pick : Option Nat :=
      if okLo && okHi then
        (if dLo < dHi then some lo else if dHi < dLo then some hi else if lo % 2 = 0 then some lo else some hi)
      else if okLo then some lo
      else if okHi then some hi
      else none
    match pick with
    | some m =>
      let r := trimZeros 400 m k
      if r.1 ≠ 0 ∧ readsBack x r.1 r.2 then some r else none
    | none => shortestAux x e fuel (p + 1)

/-- shortest decimal `(m, k)`, meaning `m·10^k`, that reads back as the positive double `x`;
    precisions 1..17 are tried (17 always suffices for a double — not proved here, the
    driver answers "unmodelled" should the search fail). -/
def shortestDigits (x : Rat) : Option (Nat × Int) := shortestAux x (ilog10 x) 17 1

/-- two-or-more-digit exponent of `%e` -/
def expDigits (n : Nat) : Bytes := if n < 10 then [cZero, digitByte n] else natDigits n

/-- `%e` with the shortest digits `ds` and decimal point position `dp` (value = 0.ds × 10^dp) -/
def fmtE (ds : Bytes) (dp : Int) : Bytes :=
  let ex := dp - 1
  let mant := match ds with
    | [] => [cZero]
    | [d] => [d]
    | d :: rest => d :: cDot :: rest
  mant ++ [cE, if ex < 0 then cMinus else cPlus] ++ expDigits ex.natAbs

/-- `%f` with the shortest digits -/
def fmtF (ds : Bytes) (dp : Int) : Bytes :=
  if dp ≤ 0 then [cZero, cDot] ++ List.replicate (-dp).toNat cZero ++ ds
  else if ds.length ≤ dp.toNat then ds ++ List.replicate (dp.toNat - ds.length) cZero
  else ds.take dp.toNat ++ [cDot] ++ ds.drop dp.toNat

/-- gojq's clean-up of `e-09` to `e-9`: `if n >= 4 && buf[n-4] == 'e' && buf[n-3] == '-' &&
    buf[n-2] == '0' { buf[n-2] = buf[n-1]; buf = buf[:n-1] }` — the last four bytes, read from the end -/
def cleanExp (buf : Bytes) : Bytes :=
  match buf.reverse with
  | d :: z :: m :: e :: rest =>
    if e = cE ∧ m = cMinus ∧ z = cZero then (d :: m :: e :: rest).reverse else buf
  | _ => buf

def maxFloat64 : Rat := ((2 : Rat) ^ (53 : Int) - 1) * (2 : Rat) ^ (971 : Int)

/-- the float64 constant `1e-6` of `x < 1e-6` (the double nearest to 10⁻⁶, which is below it) -/
def f64_1e_6 : Rat := (4722366482869645 : Rat) / (2 : Rat) ^ (72 : Int)
/-- the float64 constant `1e21` (exactly 10²¹) -/
def f64_1e21 : Rat := 1000000000000000000000

/-- digits of a positive finite double in gojq's format; `none` if the shortest search failed -/
def fmtPos (a : Rat) : Option Bytes :=
  match shortestDigits a with
  | none => none
  | some (m, k) =>
    let ds := natDigits m
    let dp : Int := (ds.length : Int) + k
    if a < f64_1e_6 ∨ f64_1e21 ≤ a then some (cleanExp (fmtE ds dp)) else some (fmtF ds dp)

/-- `encodeFloat64` on a finite non-NaN value given as the rational it denotes (`-0` apart) -/
def encodeFloat (q : Rat) : Option Bytes :=
  if q == 0 then some [cZero]
  else if q < 0 then (fmtPos (-q)).map (cMinus :: ·)
  else fmtPos q

/-- text the model emits where the float search failed (never on a double, see `shortestDigits`) -/
def unmodelledFloat : Bytes := [0x3f]   -- "?"

def encodeNum : Num → Bytes
  | .int z => encodeInt z
  | .nan => bNull
  | .nzero => [cMinus, cZero]
  | .inf neg => (encodeFloat (if neg then -maxFloat64 else maxFloat64)).getD unmodelledFloat
  | .flt q => (encodeFloat q).getD unmodelledFloat

/-! ### library encoder (encoder.go encode / encodeArray / encodeObject) -/

mutual
  def encodeValue : JV → Bytes
    | .null => bNull
    | .bool true => bTrue
    | .bool false => bFalse
    | .num n => encodeNum n
    | .str s => encodeString s
    | .arr xs => cLBrack :: (encodeElems xs ++ [cRBrack])
    | .obj kvs => cLBrace :: (encodeMembers kvs ++ [cRBrace])
  /-- array elements separated by commas -/
  def encodeElems : List JV → Bytes
    | [] => []
    | [x] => encodeValue x
    | x :: y :: rest => encodeValue x ++ cComma :: encodeElems (y :: rest)
  /-- object members in list order (a well-formed object is sorted, as `sort.Slice` makes it) -/
  def encodeMembers : List (Bytes × JV) → Bytes
    | [] => []
    | [(k, x)] => encodeString k ++ cColon :: encodeValue x
    | (k, x) :: y :: rest => encodeString k ++ cColon :: (encodeValue x ++ cComma :: encodeMembers (y :: rest))
end

mutual
  /-- does the model cover the value (every float has its shortest digits)? -/
  def modelled : JV → Bool
    | .num (.flt q) => (encodeFloat q).isSome
    | .arr xs => modelledList xs
    | .obj kvs => modelledKvs kvs
    | _ => true
  def modelledList : List JV → Bool
    | [] => true
    | x :: xs => modelled x && modelledList xs
  def modelledKvs : List (Bytes × JV) → Bool
    | [] => true
    | (_, x) :: xs => modelled x && modelledKvs xs
end

/-! ### the command's encoder (cli/encoder.go, cli/color.go) -/
namespace Cli

/-- cli/color.go: the eight colour variables; `none` is Go's `nil` (no colour). The value is the
    parameter text `c` of `newColor(c) = "\x1b[" + c + "m"`. -/
structure Colors where
  null : Option Bytes
  false_ : Option Bytes
  true_ : Option Bytes
  number : Option Bytes
  string : Option Bytes
  objectKey : Option Bytes
  array : Option Bytes
  object : Option Bytes
  deriving Repr

def newColor (c : Bytes) : Bytes := [cEsc, 0x5b] ++ c ++ [0x6d]
def resetColor : Bytes := newColor [0x30]

/-- the defaults of cli/color.go -/
def defaultColors : Colors :=
  { null := some [0x39, 0x30], false_ := some [0x33, 0x33], true_ := some [0x33, 0x33],
    number := some [0x33, 0x36], string := some [0x33, 0x32], objectKey := some [0x33, 0x34, 0x3b, 0x31],
    array := none, object := none }

/-- encoder options: `indent` as passed to `newEncoder` (-1 compact, 1 with `--tab`, else n);
    `color = none` is `noColor = true`. -/
structure Opts where
  indent : Int
  tab : Bool
  color : Option Colors
  deriving Repr

def Opts.col (o : Opts) (f : Colors → Option Bytes) : Option Bytes :=
  match o.color with
  | none => none
  | some c => (f c).map newColor

/-- the indentation unit -/
def Opts.unit (o : Opts) : UInt8 := if o.tab then cTab else cSpace
/-- the constant block passed to `writeIndentInternal` (16 tabs / 32 spaces) -/
def Opts.block (o : Opts) : Bytes := if o.tab then List.replicate 16 cTab else List.replicate 32 cSpace

/-- `e.out` (the chunks written so far, oldest first) and `e.w` (the bytes.Buffer): its content
    is kept REVERSED in `wr` (last written byte first) so that a write costs its own length,
    and `len` is `e.w.Len()`. -/
structure Buf where
  out : List Bytes
  wr : Bytes
  len : Nat
  deriving Repr

def Buf.empty : Buf := ⟨[], [], 0⟩
def Buf.write (b : Buf) (bs : Bytes) : Buf := { b with wr := bs.reverse ++ b.wr, len := b.len + bs.length }
def Buf.flush (b : Buf) : Buf := { out := b.out ++ [b.wr.reverse], wr := [], len := 0 }
/-- everything written so far, flushed or not -/
def Buf.total (b : Buf) : Bytes := b.out.flatten ++ b.wr.reverse
/-- `len` is the length of the buffer content -/
def Buf.WF (b : Buf) : Prop := b.len = b.wr.length

/-- `write(bs, color)` / `writeByte` / the colour bracket of `encodeString`: `color` is already
    `none` when `noColor` or when the Go variable is nil -/
def writeCol (b : Buf) (bs : Bytes) (color : Option Bytes) : Buf :=
  match color with
  | none => b.write bs
  | some c => ((b.write c).write bs).write resetColor

/-- the copy loop of `writeIndentInternal` on the reversed buffer content:
    `for n -= l; n > 0; n, l = n-l, l*2 { if n < l { l = n }; w.Write(w.Bytes()[w.Len()-l:]) }`
    — the last `l` bytes of the buffer are `(wr.take l).reverse`; appending them gives
    `wr.take l ++ wr` in reversed form. -/
def indentLoop : Nat → Nat → Nat → Bytes → Bytes
  | 0, _, _, wr => wr
  | fuel + 1, n, l, wr =>
    if n > 0 then
      let l := if n < l then n else l
      indentLoop fuel (n - l) (l * 2) (wr.take l ++ wr)
    else wr

/-- `writeIndentInternal(n, spaces)` on the reversed buffer content -/
def writeIndentInternal (n : Nat) (spaces : Bytes) (wr : Bytes) : Bytes :=
  let l := spaces.length
  if n ≤ l then (spaces.take n).reverse ++ wr
  else indentLoop n (n - l) l (spaces.reverse ++ wr)

/-- `writeIndent()` at `e.depth = depth` -/
def writeIndent (o : Opts) (depth : Int) (b : Buf) : Buf :=
  let b := b.write [cNl]
  if depth > 0 then { b with wr := writeIndentInternal depth.toNat o.block b.wr, len := b.len + depth.toNat } else b

/-- the test at the end of `encode`: `if e.w.Len() > 8*1024 { return e.flush() }` -/
def checkFlush (b : Buf) : Buf := if b.len > 8 * 1024 then b.flush else b

def numColor (o : Opts) : Num → Option Bytes
  | .nan => o.col (·.null)
  | _ => o.col (·.number)

mutual
  /-- `encode(v)` with `e.depth = depth` -/
  def enc (o : Opts) (depth : Int) : JV → Buf → Buf
    | .null, b => checkFlush (writeCol b bNull (o.col (·.null)))
    | .bool true, b => checkFlush (writeCol b bTrue (o.col (·.true_)))
    | .bool false, b => checkFlush (writeCol b bFalse (o.col (·.false_)))
    | .num n, b => checkFlush (writeCol b (encodeNum n) (numColor o n))
    | .str s, b => checkFlush (writeCol b (encodeString s) (o.col (·.string)))
    | .arr xs, b =>
      let b := writeCol b [cLBrack] (o.col (·.array))
      let b := encElems o (depth + o.indent) xs true b
      let b := if !xs.isEmpty && o.indent ≥ 0 then writeIndent o depth b else b
      checkFlush (writeCol b [cRBrack] (o.col (·.array)))
    | .obj kvs, b =>
      let b := writeCol b [cLBrace] (o.col (·.object))
      let b := encMembers o (depth + o.indent) kvs true b
      let b := if !kvs.isEmpty && o.indent ≥ 0 then writeIndent o depth b else b
      checkFlush (writeCol b [cRBrace] (o.col (·.object)))
  def encElems (o : Opts) (depth : Int) : List JV → Bool → Buf → Buf
    | [], _, b => b
    | x :: xs, first, b =>
      let b := if first then b else writeCol b [cComma] (o.col (·.array))
      let b := if o.indent ≥ 0 then writeIndent o depth b else b
      encElems o depth xs false (enc o depth x b)
  def encMembers (o : Opts) (depth : Int) : List (Bytes × JV) → Bool → Buf → Buf
    | [], _, b => b
    | (k, x) :: xs, first, b =>
      let b := if first then b else writeCol b [cComma] (o.col (·.object))
      let b := if o.indent ≥ 0 then writeIndent o depth b else b
      let b := writeCol b (encodeString k) (o.col (·.objectKey))
      let b := writeCol b [cColon] (o.col (·.object))
      let b := if o.indent ≥ 0 then b.write [cSpace] else b
      encMembers o depth xs false (enc o depth x b)
end

/-- `marshal(v, w)`: encode, then the final flush; the result is the list of `Write` calls -/
def marshalChunks (o : Opts) (v : JV) : List Bytes := ((enc o 0 v Buf.empty).flush).out

/-- the bytes the command writes for one value -/
def encodeCli (o : Opts) (v : JV) : Bytes := (marshalChunks o v).flatten

/-! #### the layout as a pure function (what the machine is proved to produce) -/

/-- a coloured token -/
def tok (bs : Bytes) (color : Option Bytes) : Bytes :=
  match color with
  | none => bs
  | some c => c ++ bs ++ resetColor

/-- newline + indentation at nesting level `level` (nothing in compact mode) -/
def newline (o : Opts) (level : Nat) : Bytes :=
  if o.indent ≥ 0 then cNl :: List.replicate (level * o.indent.toNat) o.unit else []

mutual
  def render (o : Opts) (level : Nat) : JV → Bytes
    | .null => tok bNull (o.col (·.null))
    | .bool true => tok bTrue (o.col (·.true_))
    | .bool false => tok bFalse (o.col (·.false_))
    | .num n => tok (encodeNum n) (numColor o n)
    | .str s => tok (encodeString s) (o.col (·.string))
    | .arr xs =>
      tok [cLBrack] (o.col (·.array)) ++ renderElems o (level + 1) xs true
        ++ (if xs.isEmpty then [] else newline o level) ++ tok [cRBrack] (o.col (·.array))
    | .obj kvs =>
      tok [cLBrace] (o.col (·.object)) ++ renderMembers o (level + 1) kvs true
        ++ (if kvs.isEmpty then [] else newline o level) ++ tok [cRBrace] (o.col (·.object))
  def renderElems (o : Opts) (level : Nat) : List JV → Bool → Bytes
    | [], _ => []
    | x :: xs, first =>
      (if first then [] else tok [cComma] (o.col (·.array))) ++ newline o level
        ++ render o level x ++ renderElems o level xs false
  def renderMembers (o : Opts) (level : Nat) : List (Bytes × JV) → Bool → Bytes
    | [], _ => []
    | (k, x) :: xs, first =>
      (if first then [] else tok [cComma] (o.col (·.object))) ++ newline o level
        ++ tok (encodeString k) (o.col (·.objectKey)) ++ tok [cColon] (o.col (·.object))
        ++ (if o.indent ≥ 0 then [cSpace] else []) ++ render o level x ++ renderMembers o level xs false
end

end Cli

/-! ### removing SGR sequences and insignificant white space -/

/-- remove `ESC … m` (SGR sequences `ESC [ params m`); the flag says "inside a sequence" -/
def stripSGRGo : Bool → Bytes → Bytes
  | _, [] => []
  | false, b :: rest => if b = cEsc then stripSGRGo true rest else b :: stripSGRGo false rest
  | true, b :: rest => if b = 0x6d then stripSGRGo false rest else stripSGRGo true rest

def stripSGR (s : Bytes) : Bytes := stripSGRGo false s

def isWs (b : UInt8) : Bool := b = 0x20 || b = 0x0a || b = 0x0d || b = 0x09

/-- white-space stripper state: outside a string / inside / inside after a backslash -/
inductive WsState where | out | str | esc
  deriving Repr, DecidableEq

def stripWsGo : WsState → Bytes → Bytes
  | _, [] => []
  | .out, b :: rest =>
    if isWs b then stripWsGo .out rest
    else if b = cQuote then b :: stripWsGo .str rest
    else b :: stripWsGo .out rest
  | .str, b :: rest =>
    if b = cQuote then b :: stripWsGo .out rest
    else if b = cBackslash then b :: stripWsGo .esc rest
    else b :: stripWsGo .str rest
  | .esc, b :: rest => b :: stripWsGo .str rest

/-- remove white space outside string literals -/
def stripWs (s : Bytes) : Bytes := stripWsGo .out s

/-! ### walking an output to check its indentation -/

/-- outside a string / inside / after a backslash / counting indentation units after a newline -/
inductive IndState where | out | str | esc | ind (k : Nat)
  deriving Repr

def isOpen (b : UInt8) : Bool := b = cLBrack || b = cLBrace
def isClose (b : UInt8) : Bool := b = cRBrack || b = cRBrace

/-- one byte outside a string: new state and bracket depth -/
def outStep (depth : Nat) (b : UInt8) : IndState × Nat :=
  if b = cQuote then (.str, depth)
  else if isOpen b then (.out, depth + 1)
  else if isClose b then (.out, depth - 1)
  else if b = cNl then (.ind 0, depth)
  else (.out, depth)

/-- walk a colour-free output with `depth` open brackets: after every newline outside a string
    the run of `unit` bytes must have length `depth × indent` — `(depth - 1) × indent` if the
    next byte closes a bracket — and the output must not end inside such a run -/
def indentOk (unit : UInt8) (indent : Nat) : IndState → Nat → Bytes → Bool
  | .ind _, _, [] => false
  | _, _, [] => true
  | .str, d, b :: t =>
    if b = cQuote then indentOk unit indent .out d t
    else if b = cBackslash then indentOk unit indent .esc d t
    else indentOk unit indent .str d t
  | .esc, d, _ :: t => indentOk unit indent .str d t
  | .out, d, b :: t => indentOk unit indent (outStep d b).1 (outStep d b).2 t
  | .ind k, d, b :: t =>
    if b = unit then indentOk unit indent (.ind (k + 1)) d t
    else (k == (if isClose b then d - 1 else d) * indent) && indentOk unit indent (outStep d b).1 (outStep d b).2 t

/-! ### a JSON reader (RFC 8259) -/

def hexVal (b : UInt8) : Option Nat :=
  let x := b.toNat
  if 0x30 ≤ x ∧ x ≤ 0x39 then some (x - 0x30)
  else if 0x61 ≤ x ∧ x ≤ 0x66 then some (x - 0x61 + 10)
  else if 0x41 ≤ x ∧ x ≤ 0x46 then some (x - 0x41 + 10)
  else none

def hex4 (a b c d : UInt8) : Option Nat :=
  match hexVal a, hexVal b, hexVal c, hexVal d with
  | some x, some y, some z, some w => some (((x * 16 + y) * 16 + z) * 16 + w)
  | _, _, _, _ => none

def fffd : Bytes := [0xEF, 0xBF, 0xBD]

/-- flush a pending high surrogate that was not followed by a low one (U+FFFD, as encoding/json) -/
def pendingOut (hi : Option Nat) : Bytes := match hi with | none => [] | some _ => fffd

/-- string body after the opening quote: decoded bytes and the input after the closing quote.
    `hi` is a pending `\uD800–\uDBFF` escape. Raw bytes ≥ 0x20 are copied (validity of the
    encoders' output as UTF-8 is a separate theorem); raw control bytes are rejected. -/
def parseStrAux : Option Nat → Bytes → Option (Bytes × Bytes)
  | _, [] => none
  | hi, b :: rest =>
    if b = cQuote then some (pendingOut hi, rest)
    else if b = cBackslash then
      match rest with
      | [] => none
      | e :: rest' =>
        if e = 0x75 then
          match rest' with
          | a :: b :: c :: d :: rest'' =>
            match hex4 a b c d with
            | none => none
            | some u =>
              if 0xDC00 ≤ u ∧ u ≤ 0xDFFF then
                match hi with
                | some h =>
                  (parseStrAux none rest'').map fun (s, r) =>
                    (Utf8.encodeRune (0x10000 + (h - 0xD800) * 1024 + (u - 0xDC00)) ++ s, r)
                | none => (parseStrAux none rest'').map fun (s, r) => (fffd ++ s, r)
              else if 0xD800 ≤ u ∧ u ≤ 0xDBFF then
                (parseStrAux (some u) rest'').map fun (s, r) => (pendingOut hi ++ s, r)
              else
                (parseStrAux none rest'').map fun (s, r) => (pendingOut hi ++ Utf8.encodeRune u ++ s, r)
          | _ => none
        else
          let lit : Option UInt8 :=
            if e = 0x22 then some 0x22 else if e = 0x5c then some 0x5c else if e = 0x2f then some 0x2f
            else if e = 0x62 then some 0x08 else if e = 0x66 then some 0x0c else if e = 0x6e then some 0x0a
            else if e = 0x72 then some 0x0d else if e = 0x74 then some 0x09 else none
          match lit with
          | none => none
          | some c => (parseStrAux none rest').map fun (s, r) => (pendingOut hi ++ c :: s, r)
    else if b.toNat < 0x20 then none
    else (parseStrAux none rest).map fun (s, r) => (pendingOut hi ++ b :: s, r)

def isDigit (b : UInt8) : Bool := 0x30 ≤ b.toNat && b.toNat ≤ 0x39

/-- maximal run of digits and the rest -/
def spanDigits : Bytes → Bytes × Bytes
  | [] => ([], [])
  | b :: rest => if isDigit b then let (ds, r) := spanDigits rest; (b :: ds, r) else ([], b :: rest)

def digitVal (b : UInt8) : Nat := b.toNat - 0x30

/-- value of a digit string (most significant first), on top of `acc` -/
def digitsVal (acc : Nat) (ds : Bytes) : Nat := ds.foldl (fun a b => a * 10 + digitVal b) acc

/-- sign applied to a parsed magnitude -/
def negFlt : Num → Num
  | .flt q => if q == 0 then .nzero else .flt (-q)
  | .inf neg => .inf (!neg)
  | n => n

/-- the float64 a non-integer literal denotes (strconv.ParseFloat: the magnitude correctly
    rounded, then the sign); overflow is ±inf here -/
def litToFloat (neg : Bool) (mant : Nat) (scale : Int) : Num :=
  let r := roundRat ((mant : Rat) * pow10 scale)
  if neg then negFlt r else r

def parseSign : Bytes → Bool × Bytes
  | [] => (false, [])
  | b :: r => if b = cMinus then (true, r) else (false, b :: r)

/-- `[ frac ]`: `none` = malformed, `some (none, _)` = no fraction -/
def parseFrac : Bytes → Option (Option Bytes × Bytes)
  | [] => some (none, [])
  | b :: r =>
    if b = cDot then
      let (fp, r') := spanDigits r
      if fp.isEmpty then none else some (some fp, r')
    else some (none, b :: r)

def parseExpSign : Bytes → Bool × Bytes
  | [] => (false, [])
  | c :: r => if c = cMinus then (true, r) else if c = cPlus then (false, r) else (false, c :: r)

/-- `[ exp ]` -/
def parseExp : Bytes → Option (Option Int × Bytes)
  | [] => some (none, [])
  | b :: r =>
    if b = 0x65 ∨ b = 0x45 then
      let (eneg, r1) := parseExpSign r
      let (ed, r2) := spanDigits r1
      if ed.isEmpty then none
      else some (some (if eneg then -(digitsVal 0 ed : Int) else (digitsVal 0 ed : Int)), r2)
    else some (none, b :: r)

/-- integer literals keep their exact value (`Num.int`, as gojq's number normalisation does),
    others are rounded to float64 -/
def mkNum (neg : Bool) (ip : Bytes) (fp : Option Bytes) (ev : Option Int) : Num :=
  match fp, ev with
  | none, none =>
    let n : Int := digitsVal 0 ip
    .int (if neg then -n else n)
  | _, _ =>
    let fpd := fp.getD []
    litToFloat neg (digitsVal 0 (ip ++ fpd)) (ev.getD 0 - (fpd.length : Int))

/-- `number = [ minus ] int [ frac ] [ exp ]` -/
def parseNumber (s : Bytes) : Option (Num × Bytes) :=
  let (neg, s1) := parseSign s
  let (ip, s2) := spanDigits s1
  if ip.isEmpty then none
  else if ip.length > 1 ∧ ip.head? = some cZero then none
  else
    match parseFrac s2 with
    | none => none
    | some (fp, s3) =>
      match parseExp s3 with
      | none => none
      | some (ev, s4) => some (mkNum neg ip fp ev, s4)

def skipWs : Bytes → Bytes
  | [] => []
  | b :: rest => if isWs b then skipWs rest else b :: rest

mutual
  /-- one JSON value (leading white space allowed) and the remaining input -/
  def parseValue : Nat → Bytes → Option (JV × Bytes)
    | 0, _ => none
    | fuel + 1, s =>
      match skipWs s with
      | [] => none
      | b :: r =>
        if b = 0x6e then
          match r with
          | 0x75 :: 0x6c :: 0x6c :: r' => some (.null, r')
          | _ => none
        else if b = 0x74 then
          match r with
          | 0x72 :: 0x75 :: 0x65 :: r' => some (.bool true, r')
          | _ => none
        else if b = 0x66 then
          match r with
          | 0x61 :: 0x6c :: 0x73 :: 0x65 :: r' => some (.bool false, r')
          | _ => none
        else if b = cQuote then
          (parseStrAux none r).map fun (str, r') => (.str str, r')
        else if b = cLBrack then
          match skipWs r with
          | [] => none
          | c :: r' =>
            if c = cRBrack then some (.arr [], r')
            else (parseElems fuel (c :: r')).map fun (xs, r'') => (.arr xs, r'')
        else if b = cLBrace then
          match skipWs r with
          | [] => none
          | c :: r' =>
            if c = cRBrace then some (.obj [], r')
            else (parseMembers fuel (c :: r')).map fun (kvs, r'') => (.obj kvs, r'')
        else (parseNumber (b :: r)).map fun (n, r') => (.num n, r')
  /-- `value (ws , value)* ws ]` -/
  def parseElems : Nat → Bytes → Option (List JV × Bytes)
    | 0, _ => none
    | fuel + 1, s =>
      match parseValue fuel s with
      | none => none
      | some (v, r) =>
        match skipWs r with
        | [] => none
        | c :: r' =>
          if c = cComma then (parseElems fuel r').map fun (vs, r'') => (v :: vs, r'')
          else if c = cRBrack then some ([v], r')
          else none
  /-- `ws string ws : value (ws , member)* ws }` — members in text order, duplicates kept -/
  def parseMembers : Nat → Bytes → Option (List (Bytes × JV) × Bytes)
    | 0, _ => none
    | fuel + 1, s =>
      match skipWs s with
      | [] => none
      | q :: r0 =>
        if q = cQuote then
          match parseStrAux none r0 with
          | none => none
          | some (k, r1) =>
            match skipWs r1 with
            | [] => none
            | c :: r2 =>
              if c = cColon then
                match parseValue fuel r2 with
                | none => none
                | some (v, r3) =>
                  match skipWs r3 with
                  | [] => none
                  | c' :: r4 =>
                    if c' = cComma then (parseMembers fuel r4).map fun (kvs, r5) => ((k, v) :: kvs, r5)
                    else if c' = cRBrace then some ([(k, v)], r4)
                    else none
              else none
        else none
end

/-- a complete JSON text: one value, optional surrounding white space, nothing else -/
def parseJson (s : Bytes) : Option JV :=
  match parseValue (2 * s.length + 1) s with
  | some (v, r) => if (skipWs r).isEmpty then some v else none
  | none => none

/-! ### what reading back is expected to give -/

/-- copy-based sanitisation: valid sequences are copied, every other byte ↦ U+FFFD
    (equal to `Utf8.sanitize`, proved in Proofs/Encode.lean) -/
def sanitizeAux : Nat → Bytes → Bytes
  | 0, _ => []
  | _, [] => []
  | fuel + 1, b :: rest =>
    let (_, size, ok) := Utf8.decodeRune (b :: rest)
    if ok then (b :: rest).take size ++ sanitizeAux fuel ((b :: rest).drop size)
    else fffd ++ sanitizeAux fuel rest

def sanitizeBytes (s : Bytes) : Bytes := sanitizeAux s.length s

/-- what a reader gets from the text of the finite non-zero double `q`: the double itself, except
    that an integral double below 1e21 prints without fraction and exponent and so reads back
    as the integer literal `±m·10^k` (whose float64 value is `q`: `readsBack`) -/
def readBackFlt (q : Rat) : Num :=
  if q == 0 then .int 0
  else
    let a := if q < 0 then -q else q
    match shortestDigits a with
    | none => .int 0
    | some (m, k) =>
      if ¬ (a < f64_1e_6 ∨ f64_1e21 ≤ a) ∧ 0 ≤ k then
        .int (if q < 0 then -((m * 10 ^ k.toNat : Nat) : Int) else ((m * 10 ^ k.toNat : Nat) : Int))
      else .flt q

/-- what a reader gets from `encodeNum n` -/
def readBackNum : Num → JV
  | .int z => .num (.int z)
  | .nan => .null
  | .nzero => .num (.int 0)
  | .inf neg => .num (readBackFlt (if neg then -maxFloat64 else maxFloat64))
  | .flt q => .num (readBackFlt q)

mutual
  /-- exactly what a reader gets from `encodeValue v`: strings and keys sanitised, NaN ↦ null,
      ±inf ↦ ±MaxFloat64, numbers as `readBackNum` -/
  def readBack : JV → JV
    | .num n => readBackNum n
    | .str s => .str (Utf8.sanitize s)
    | .arr xs => .arr (readBackList xs)
    | .obj kvs => .obj (readBackKvs kvs)
    | v => v
  def readBackList : List JV → List JV
    | [] => []
    | x :: xs => readBack x :: readBackList xs
  def readBackKvs : List (Bytes × JV) → List (Bytes × JV)
    | [] => []
    | (k, x) :: xs => (Utf8.sanitize k, readBack x) :: readBackKvs xs
end

mutual
  /-- the value a reader is expected to get back: strings and keys sanitised, NaN ↦ null,
      ±inf ↦ ±MaxFloat64; other numbers unchanged -/
  def sanitizeJV : JV → JV
    | .num .nan => .null
    | .num (.inf neg) => .num (.flt (if neg then -maxFloat64 else maxFloat64))
    | .str s => .str (Utf8.sanitize s)
    | .arr xs => .arr (sanitizeList xs)
    | .obj kvs => .obj (sanitizeKvs kvs)
    | v => v
  def sanitizeList : List JV → List JV
    | [] => []
    | x :: xs => sanitizeJV x :: sanitizeList xs
  def sanitizeKvs : List (Bytes × JV) → List (Bytes × JV)
    | [] => []
    | (k, x) :: xs => (Utf8.sanitize k, sanitizeJV x) :: sanitizeKvs xs
end

/-! ### the string conversions of func.go -/

/-- `funcToJSON` (also `@json`) -/
def tojson (v : JV) : JV := .str (encodeValue v)
/-- `funcToString` (also `@text`): strings are kept, everything else is `tojson` -/
def tostring : JV → JV
  | .str s => .str s
  | v => tojson v
/-- `funcFromJSON` with the reader standing for `json.Decoder`; `none` = any error -/
def fromjson : JV → Option JV
  | .str s => parseJson s
  | _ => none

/-- numbers are "equal" when they convert to the same float64 and integers are exactly equal
    (an integral double prints without a fraction and reads back as an integer literal) -/
def numSame (a b : Num) : Bool :=
  match a, b with
  | .int x, .int y => x == y
  | a, b => a.toFlt == b.toFlt || (a.toFlt == .flt 0 && b == .nzero)

mutual
  /-- equality of JSON values up to `numSame` on numbers -/
  def sameJV : JV → JV → Bool
    | .null, .null => true
    | .bool a, .bool b => a == b
    | .num a, .num b => numSame a b
    | .str a, .str b => a == b
    | .arr a, .arr b => sameList a b
    | .obj a, .obj b => sameKvs a b
    | _, _ => false
  def sameList : List JV → List JV → Bool
    | [], [] => true
    | x :: xs, y :: ys => sameJV x y && sameList xs ys
    | _, _ => false
  def sameKvs : List (Bytes × JV) → List (Bytes × JV) → Bool
    | [], [] => true
    | (k, x) :: xs, (l, y) :: ys => k == l && sameJV x y && sameKvs xs ys
    | _, _ => false
end

end Gojq.Encode

/-
  `opforklabel` and the value beneath the label (C07, "after an error").  Core Lean only.

  execute.go:
      case opforklabel:
          if backtrack {
              label := env.pop()
              if e, ok := err.(*breakError); ok && e.v == label { err = nil }
              break loop
          }
          env.push(env.label); env.pushfork(pc); env.pop(); …

  Forward, `opforklabel` leaves the data stack as it found it and pushes a fork whose saved stack
  has the label number on top.  Backtracking into it restores that stack and pops the label — one
  pop, always possible.  But when that fork was the LAST pending one and the error is not a `break`
  to this label, `Next` returns the error with the saved pc at the `opforklabel`, and the following
  `Next` call re-enters it with `backtrack = true`: it pops AGAIN.  This second pop takes the value
  that was on top of the stack when `opforklabel` was executed — in compiled code the input of the
  `label $l | body` expression (compileLabel emits `opforklabel` where a query starts: its input is
  on top).  With an empty stack beneath the label the second pop is Go's `index out of range [-1]`.

  So the re-entry after an error is safe exactly when this run satisfied, at every turn,

      `labelGuard`: the VM is not about to execute `opforklabel` FORWARD with NO PENDING FORK on
                    an EMPTY data stack.

  That is a fact about ordinary forward execution (a stack height), not about the neighbourhood of
  the instruction: compileLabel's `opforklabel` may directly follow `opscope`, `opstore`,
  `opjumpifnot`, a call … (`def f: label $l | 1; f` is `scope; forklabel; …`: the value beneath is
  the caller's), and in the hand-written `_modify` (compileModify) the stack CAN be empty at
  `opforklabel` for a top-level `.a |= f` — there the re-entry never happens because the `opfork`
  of the enclosing `reduce` is always pending beneath.  `labelGuard` covers both (no pending fork
  AND empty stack is what is excluded).  `loopGuard` / `nextGuard` / `historyGuard` evaluate the
  guard along a run of the model (decidable on concrete runs; a driver can report it per run).

  The only LOCAL static fact is `labelFree` (no `opforklabel` at all: the guard is vacuous).  The
  static discharge of the guard for code WITH labels is a height analysis of the whole code: the
  clause `1 ≤ a.h ∨ a.pend` of `opforklabel` in `SafeVM.step1` (Model/SafeVM.lean, C08).
-/
import Gojq.Model.VM
import Gojq.Model.OptVM
namespace Gojq.VM

def isLabel : Instr → Bool
  | .forklabel _ _ => true
  | _ => false

/-- the instruction at `pc` is `opforklabel` -/
def isLabelPc (code : Array Instr) (pc : Int) : Bool :=
  decide (0 ≤ pc) && (match code[pc.toNat]? with | some i => isLabel i | none => false)

/-- NOT (about to execute `opforklabel` forward, no pending fork, empty data stack) -/
def labelGuard (code : Array Instr) (l : L) (e : Env) : Bool :=
  !(isLabelPc code l.pc && !l.backtrack && e.forks.isEmpty) || decide (0 ≤ e.stack.index)

/-- the guard holds at every turn of this run of the loop of `Next` -/
def loopGuard (P : Params) : Nat → L → St → Bool
  | fuel, l, s =>
    labelGuard P.code l s.env &&
    match step P l s with
    | .fin _ _ => true
    | .cont l' s' =>
      match fuel with
      | 0 => true
      | fuel + 1 => loopGuard P fuel l' s'

def nextGuard (P : Params) (fuel : Nat) (s : St) : Bool := loopGuard P fuel (entry P s) s

/-- the guard holds at every turn of the first `n` calls of `Next` -/
def historyGuard (P : Params) (fuel : Nat) : Nat → St → Bool
  | 0, _ => true
  | n + 1, s => nextGuard P fuel s && historyGuard P fuel n (next P fuel s).2

/-- some turn of this run of the loop satisfies `p` (used to exhibit runs in which `opforklabel` IS
    executed on an empty data stack, with a fork pending) -/
def loopAny (P : Params) (p : L → Env → Bool) : Nat → L → St → Bool
  | fuel, l, s =>
    p l s.env ||
    match step P l s with
    | .fin _ _ => false
    | .cont l' s' =>
      match fuel with
      | 0 => false
      | fuel + 1 => loopAny P p fuel l' s'

/-- about to execute `opforklabel` forward on an empty data stack -/
def labelOnEmpty (code : Array Instr) (l : L) (e : Env) : Bool :=
  isLabelPc code l.pc && !l.backtrack && decide (e.stack.index < 0)

/-- the code contains no `opforklabel` -/
def labelFree (code : Array Instr) : Bool := code.all fun i => !isLabel i

/-- the same on the dumped instruction list (`OptVM.view`) -/
def labelFreeView (code : Array Opt.Instr) : Bool := code.all fun i => !(i.op == "forklabel")

end Gojq.VM

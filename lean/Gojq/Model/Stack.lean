/-
  stack.go / scope_stack.go, transliterated literally (DESIGN §3.3, C01.1).

      type stack struct { data []block; index int; limit int }
      type block struct { value any; next int }

  `index` is the position of the top block (-1: empty), every block points to the block below
  it through `next`, and `limit` protects the positions `≤ limit` from being overwritten:
  `save` raises it to the current top, `push` writes at `max(index, limit) + 1`.  This is what
  lets `pushfork`/`popfork` (execute.go) snapshot a stack as two integers.

  Go panics (index out of range) are the explicit outcome `none`, never a default value.
  `scope_stack.go` is the same text with `scope` for `any` (and no `top`): it is the instance
  `ScopeStack := Stack Scope`.

  Also here, because the driver and the theorems share them: the abstraction function
  (`chain`, the values along the `next` chain — what the hook `VerifStack.Chain` returns), the
  operation alphabet, and the two step functions (Go structure / immutable list).
  Core Lean only.
-/
namespace Gojq.Stack

structure Block (α : Type) where
  value : α
  next : Int
  deriving Repr

structure Stack (α : Type) where
  data : Array (Block α)
  index : Int
  limit : Int
  deriving Repr

variable {α : Type}

/-- `newStack()` -/
def Stack.new : Stack α := { data := #[], index := -1, limit := -1 }

/-- the Go read `data[i]`: a run-time panic unless `0 ≤ i < len(data)` -/
def getBlock? (data : Array (Block α)) (i : Int) : Option (Block α) :=
  if i < 0 then none else data[i.toNat]?

/-- ```
    func (s *stack) push(v any) {
        b := block{v, s.index}
        s.index = max(s.index, s.limit) + 1
        if s.index < len(s.data) { s.data[s.index] = b } else { s.data = append(s.data, b) }
    }
    ``` -/
def Stack.push (s : Stack α) (v : α) : Option (Stack α) :=
  let b : Block α := { value := v, next := s.index }
  let index := max s.index s.limit + 1
  if index < s.data.size then
    if index < 0 then none     -- `s.data[s.index] = b` with a negative index panics
    else some { data := s.data.setIfInBounds index.toNat b, index := index, limit := s.limit }
  else some { data := s.data.push b, index := index, limit := s.limit }

/-- ```
    func (s *stack) pop() any { b := s.data[s.index]; s.index = b.next; return b.value }
    ``` -/
def Stack.pop (s : Stack α) : Option (α × Stack α) :=
  match getBlock? s.data s.index with
  | none => none
  | some b => some (b.value, { s with index := b.next })

/-- `func (s *stack) top() any { return s.data[s.index].value }` -/
def Stack.top (s : Stack α) : Option α :=
  match getBlock? s.data s.index with
  | none => none
  | some b => some b.value

/-- `func (s *stack) empty() bool { return s.index < 0 }` -/
def Stack.empty (s : Stack α) : Bool := decide (s.index < 0)

/-- ```
    func (s *stack) save() (index, limit int) {
        index, limit = s.index, s.limit
        if s.index > s.limit { s.limit = s.index }
        return
    }
    ``` -/
def Stack.save (s : Stack α) : (Int × Int) × Stack α :=
  ((s.index, s.limit), if s.index > s.limit then { s with limit := s.index } else s)

/-- `func (s *stack) restore(index, limit int) { s.index, s.limit = index, limit }` -/
def Stack.restore (s : Stack α) (index limit : Int) : Stack α :=
  { s with index := index, limit := limit }

/-! ### scope_stack.go -/

/-- `type scope struct { id, offset, pc, saveindex, outerindex int }` (execute.go / env.go) -/
structure Scope where
  id : Int
  offset : Int
  pc : Int
  saveindex : Int
  outerindex : Int
  deriving Repr, DecidableEq

/-- `scopeStack`: the same code at element type `scope` -/
abbrev ScopeStack := Stack Scope

/-! ### abstraction: the values along the `next` chain, top first -/

/-- follow `next` from position `i` for at most `fuel` blocks (`for i := index; i >= 0; i = data[i].next`) -/
def chain (data : Array (Block α)) : Nat → Int → List α
  | 0, _ => []
  | fuel + 1, i =>
    match getBlock? data i with
    | none => []
    | some b => b.value :: chain data fuel b.next

/-- the chain from `i`, with exactly the fuel a well-formed structure (`next < position`) needs -/
def chainFrom (data : Array (Block α)) (i : Int) : List α := chain data (i + 1).toNat i

/-- the list the Go structure denotes -/
def Stack.abs (s : Stack α) : List α := chainFrom s.data s.index

/-! ### operation sequences -/

/-- what the VM does to one stack: `push`, `pop`, `save` (in `pushfork`) and `restore` of the
    most recent outstanding snapshot (in `popfork`: forks are popped last-in first-out) -/
inductive Op (α : Type) where
  | push (v : α) | pop | save | restore
  deriving Repr

/-- reference: an immutable list and the stack of saved lists -/
def specStep : List α × List (List α) → Op α → Option (List α × List (List α))
  | (cur, sv), .push v => some (v :: cur, sv)
  | (_ :: cur, sv), .pop => some (cur, sv)
  | ([], _), .pop => none
  | (cur, sv), .save => some (cur, cur :: sv)
  | (_, s :: sv), .restore => some (s, sv)
  | (_, []), .restore => none

/-- the Go structure with the snapshots handed out by `save` (most recent first); `none` is a
    Go panic or a `restore` without outstanding snapshot -/
def implStep : Stack α × List (Int × Int) → Op α → Option (Stack α × List (Int × Int))
  | (s, sn), .push v => (s.push v).map fun s' => (s', sn)
  | (s, sn), .pop => (s.pop).map fun r => (r.2, sn)
  | (s, sn), .save => let r := s.save; some (r.2, r.1 :: sn)
  | (s, p :: sn), .restore => some (s.restore p.1 p.2, sn)
  | (_, []), .restore => none

/-- restore an ARBITRARY outstanding snapshot (the `k`-th most recent) and forget the more
    recent ones — NOT what the VM does; used for `restore_non_lifo_counterexample` -/
def implRestoreNth (s : Stack α) (sn : List (Int × Int)) (k : Nat) : Option (Stack α) :=
  match sn[k]? with
  | some p => some (s.restore p.1 p.2)
  | none => none

end Gojq.Stack

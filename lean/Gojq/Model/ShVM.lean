/-
  ShVM — the gojq VM with JSON data forgotten (C20).

  A second, data-forgetting transliteration of `(*env).Next` (execute.go) together with
  `stack.go` / `scope_stack.go` / `env.go`.  Everything the interpreter *footprint* and the
  control flow depend on is kept concrete:

    pc, backtrack, err != nil, the locals `callpc` / `index` of Next,
    the three persistent stacks as their real block arrays (`data` with `next` links,
    `index`, `limit`), closure pairs `[pc, scopeindex]`, scope records, the fork list with
    its nine saved integers, `offset`, `len(values)`, `expdepth`, the expdepth markers and
    the root / step distinction on the path stack.

  Every other datum is `AV.any`; every data-dependent branch is nondeterministic
  (`jumpifnot`, iterating 0/1/many elements, iterator exhausted or not, native ok/error,
  object key not a string, label match, try catches or propagates, pathIntact).
  `env.label` is dropped (labels are data).

  Go panics (`env.index`, pop of an empty stack, out-of-range block access, failed type
  assertions) and the one construct with an unbounded data-dependent number of pushes
  (`getpath` in path mode) are the explicit outcome `Out.stuck`, never a default value.

  Canonicalisation (`Shape.canon`, applied to every successor).  Blocks above
  `max index limit` of a stack are overwritten by the next `push` before anything can read
  them through the stack discipline, and variable slots at or above `offset` are
  re-initialised by the next `scope`; the model erases both (`none` / `AV.dead`) so that
  shapes recur exactly, and makes *reading* an erased block or slot a `stuck` outcome.
  The erasure therefore cannot hide a behaviour: a run on which the real VM reads such a
  block is a run on which the model gets stuck, and a certificate (Props/C20) only exists
  if no reachable shape has a stuck outcome.  `len(data)` (the high-water mark that the Go
  slices never give back) is kept: erased blocks still count in the footprint.
-/
namespace Gojq.ShVM

/-! ## Instructions (operands as far as the shape depends on them) -/

/-- how a native callee matters to the shape -/
inductive NativeKind where
  | plain      -- result is a JSON value or an error
  | index      -- `_index`: pushes a path step in path mode
  | slice      -- `_slice`: pushes a path step in path mode
  | getpath    -- `getpath`: pushes len(path) steps in path mode (unbounded: unmodelled there)
  | never      -- `_break`: always returns an error (compiler.go funcBreak)
  deriving Repr, BEq, DecidableEq, Inhabited, Hashable

inductive Instr where
  | nop | push | pop | dup | const
  | load (id i : Nat) | store (id i : Nat) | object (n : Nat) | append (id i : Nat)
  | fork (t : Nat) | forktrybegin (t : Nat) | forktryend | forkalt (t : Nat)
  | forklabel (id i : Nat) | backtrack | jump (t : Nat) | jumpifnot (t : Nat)
  | index | indexarray
  | call (t : Nat)
  | callnative (argc : Nat) (kind : NativeKind) (iter : Bool)
  | callrec (t : Nat) | pushpc (t : Nat) | callpc
  | scope (id vars args : Nat) | ret | iter | expbegin | expend | pathbegin | pathend
  deriving Repr, BEq, DecidableEq, Inhabited

abbrev Code := List Instr

/-! ## Abstract values -/

/-- what is left of a value on the data stack / in a variable slot -/
inductive AV where
  | any                            -- a JSON datum
  | clo (pc : Nat) (sidx : Int)    -- `[2]int{pc, scopeindex}` pushed by oppushpc
  | iter                           -- a Go `Iter` (result of an iter native, emptyIter)
  | rest                           -- `[]pathValue`: the non-empty remainder pushed by opiter
  | dead                           -- erased variable slot (values only)
  deriving Repr, BEq, DecidableEq, Inhabited, Hashable

/-- what is left of a value on the path stack -/
inductive PV where
  | marker (expdepth : Int)        -- the saved `env.expdepth` (an int)
  | root                           -- `pathValue{path: nil}` pushed by oppathbegin
  | step                           -- `pathValue{path: p}` with p non-nil
  deriving Repr, BEq, DecidableEq, Inhabited, Hashable

/-- env.go `scope` -/
structure Scope where
  id : Nat
  offset : Nat
  pc : Int
  saveindex : Int
  outerindex : Int
  deriving Repr, BEq, DecidableEq, Inhabited, Hashable

/-- env.go `fork` -/
structure Fork where
  pc : Nat
  stackindex : Int
  stacklimit : Int
  scopeindex : Int
  scopelimit : Int
  pathindex : Int
  pathlimit : Int
  offset : Nat
  expdepth : Int
  deriving Repr, BEq, DecidableEq, Inhabited, Hashable

/-! ## stack.go / scope_stack.go -/

/-- `stack` / `scopeStack`: `data[i] = some (value, next)`; `none` = erased (see header). -/
structure PS (α : Type) where
  data : List (Option (α × Int))
  index : Int
  limit : Int
  deriving Repr, BEq, DecidableEq, Hashable, Inhabited

namespace PS
variable {α : Type}

def new : PS α := { data := [], index := -1, limit := -1 }

/-- `data[i]` as Go reads it: out of range (a Go panic) and erased are both `none`. -/
def block (s : PS α) (i : Int) : Option (α × Int) :=
  if i < 0 then none else
  match s.data[i.toNat]? with
  | some (some b) => some b
  | _ => none

def setAt : List (Option (α × Int)) → Nat → (α × Int) → List (Option (α × Int))
  | [], _, _ => []
  | _ :: xs, 0, b => some b :: xs
  | x :: xs, n+1, b => x :: setAt xs n b

/-- func (s *stack) push(v any) -/
def push (s : PS α) (v : α) : PS α :=
  let b := (v, s.index)
  let idx := max s.index s.limit + 1
  let i := idx.toNat
  { data := if i < s.data.length then setAt s.data i b else s.data ++ [some b],
    index := idx, limit := s.limit }

/-- func (s *stack) pop() any -/
def pop? (s : PS α) : Option (α × PS α) :=
  match s.block s.index with
  | some (v, nxt) => some (v, { s with index := nxt })
  | none => none

/-- func (s *stack) top() any -/
def top? (s : PS α) : Option α := (s.block s.index).map (·.1)

/-- func (s *stack) empty() bool -/
def empty (s : PS α) : Bool := s.index < 0

/-- func (s *stack) save() (index, limit int) -/
def save (s : PS α) : (Int × Int) × PS α :=
  ((s.index, s.limit), if s.index > s.limit then { s with limit := s.index } else s)

/-- func (s *stack) restore(index, limit int) -/
def restore (s : PS α) (index limit : Int) : PS α := { s with index := index, limit := limit }

def eraseFrom : Nat → List (Option (α × Int)) → List (Option (α × Int))
  | _, [] => []
  | 0, _ :: xs => none :: eraseFrom 0 xs
  | n+1, x :: xs => x :: eraseFrom n xs

/-- erase the blocks above `max index limit` (the next push overwrites the first of them) -/
def canon (s : PS α) : PS α :=
  { s with data := eraseFrom (max s.index s.limit + 1).toNat s.data }

end PS

/-! ## The shape of an `env` plus the locals of `Next` -/

structure Shape where
  pc : Nat
  bt : Bool               -- backtrack
  err : Bool              -- err != nil
  stack : PS AV
  scopes : PS Scope
  paths : PS PV
  values : List AV        -- len = len(env.values)
  forks : List Fork       -- head = last element of env.forks
  offset : Nat
  expdepth : Int
  callpc : Int            -- local of Next
  index : Int             -- local of Next
  deriving Repr, BEq, DecidableEq, Hashable, Inhabited

def eraseVals : Nat → List AV → List AV
  | _, [] => []
  | 0, _ :: xs => .dead :: eraseVals 0 xs
  | n+1, x :: xs => x :: eraseVals n xs

def Shape.canon (s : Shape) : Shape :=
  { s with stack := s.stack.canon, scopes := s.scopes.canon, paths := s.paths.canon,
           values := eraseVals s.offset s.values }

/-- VM footprint of a live iterator (the `state` anchor of C20): `len(env.forks)`,
    `len(stack.data)`, `len(scopes.data)`, `len(paths.data)`, `len(env.values)`. -/
def footprint (s : Shape) : Nat :=
  s.forks.length + s.stack.data.length + s.scopes.data.length + s.paths.data.length + s.values.length

/-- state on entry of the first `Next` after `execute` (no `$`-variables: one pushed input) -/
def init (code : Code) : Shape :=
  { pc := 0, bt := false, err := false,
    stack := (PS.new : PS AV).push .any, scopes := PS.new, paths := PS.new,
    values := [], forks := [], offset := 0, expdepth := 0,
    callpc := (code.length : Int) - 1, index := -1 }

/-! ## One instruction -/

inductive Out where
  | next (s : Shape)      -- the loop continues
  | emit (s : Shape)      -- `return env.pop(), true`; `s` is the state on entry of the next `Next`
  | halt                  -- `return err, true` / `return nil, false` with no fork left
  | stuck (site : String) -- Go panic or unmodelled
  deriving Repr

/-- func (env *env) pushfork(pc int) -/
def pushfork (s : Shape) (pc : Nat) : Shape :=
  let (a, st) := s.stack.save
  let (b, sc) := s.scopes.save
  let (c, pa) := s.paths.save
  { s with stack := st, scopes := sc, paths := pa,
           forks := { pc := pc, stackindex := a.1, stacklimit := a.2, scopeindex := b.1, scopelimit := b.2,
                      pathindex := c.1, pathlimit := c.2, offset := s.offset, expdepth := s.expdepth } :: s.forks }

/-- `break loop`: popfork and go on backtracking, or return -/
def fail (s : Shape) : List Out :=
  match s.forks with
  | [] => [.halt]
  | f :: fs =>
    [.next { s with pc := f.pc, bt := true, forks := fs, offset := f.offset, expdepth := f.expdepth,
                    stack := s.stack.restore f.stackindex f.stacklimit,
                    scopes := s.scopes.restore f.scopeindex f.scopelimit,
                    paths := s.paths.restore f.pathindex f.pathlimit }]

/-- fall out of the `switch`: `pc++` -/
def adv (s : Shape) : Out := .next { s with pc := s.pc + 1 }

/-- func (env *env) index(v [2]int) int -/
def envIndexGo (sc : PS Scope) (id i : Nat) : Nat → Int → Option Nat
  | 0, _ => none
  | fuel+1, pos =>
    if pos < 0 then none else
    match sc.block pos with
    | none => none
    | some (s, _) => if s.id == id then some (s.offset + i) else envIndexGo sc id i fuel s.outerindex

def envIndex (s : Shape) (id i : Nat) : Option Nat :=
  envIndexGo s.scopes id i (s.scopes.data.length + 1) s.scopes.index

/-- func (env *env) popscope() (int, int) -/
def popscope (s : Shape) : Option (Scope × Shape) :=
  let free := s.scopes.index > s.scopes.limit
  match s.scopes.pop? with
  | none => none
  | some (sc, scs) => some (sc, { s with scopes := scs, offset := if free then sc.offset else s.offset })

def popN : Nat → PS AV → Option (PS AV)
  | 0, st => some st
  | k+1, st => match st.pop? with
    | some (_, st') => popN k st'
    | none => none

def setVal : List AV → Nat → AV → Option (List AV)
  | [], _, _ => none
  | _ :: xs, 0, v => some (v :: xs)
  | x :: xs, n+1, v => (setVal xs n v).map (x :: ·)

/-- a live variable slot -/
def getVal (vals : List AV) (i : Nat) : Option AV :=
  match vals[i]? with
  | some .dead => none
  | r => r

/-- `!env.paths.empty() && env.expdepth == 0` -/
def pathMode (s : Shape) : Bool := !s.paths.empty && s.expdepth == 0

/-- `env.pathIntact(v)` reads `env.paths.top().(pathValue)` -/
def pathTopOk (s : Shape) : Bool :=
  match s.paths.top? with
  | some .root | some .step => true
  | _ => false

/-- after a value was pushed in path mode: `pathIntact` fails (error) or a step is recorded -/
def recordStep (s : Shape) : List Out :=
  if pathMode s then
    if pathTopOk s then fail { s with err := true } ++ [adv { s with paths := s.paths.push .step }]
    else [.stuck "pathIntact"]
  else [adv s]

/-- func (env *env) poppaths() []any, then `env.paths.pop().(int)` -/
def poppaths : Nat → PS PV → Option (PS PV)
  | 0, _ => none
  | f+1, p => match p.pop? with
    | some (.step, p') => poppaths f p'
    | some (.root, p') => some p'
    | _ => none

/-- the error exits of opobject: after popping the k-th pair the key is not a string -/
def objectPops (s : Shape) : Nat → PS AV → List Out × Option (PS AV)
  | 0, st => ([], some st)
  | k+1, st => match popN 2 st with
    | none => ([.stuck "object"], none)
    | some st' =>
      let (errs, r) := objectPops s k st'
      (fail { s with stack := st', err := true } ++ errs, r)

/-- all outcomes of the instruction at `s.pc` followed, if it breaks the loop, by the code
    after the loop (popfork or return) -/
def stepOut (code : Code) (s : Shape) : List Out :=
  match code[s.pc]? with
  | none => fail s              -- `pc < len(env.codes)` is false
  | some op =>
    match op with
    | .nop => [adv s]
    | .push => [adv { s with stack := s.stack.push .any }]
    | .pop => match s.stack.pop? with
      | some (_, st) => [adv { s with stack := st }]
      | none => [.stuck "pop"]
    | .dup => match s.stack.pop? with
      | some (v, st) => [adv { s with stack := (st.push v).push v }]
      | none => [.stuck "dup"]
    | .const => match s.stack.pop? with
      | some (_, st) => [adv { s with stack := st.push .any }]
      | none => [.stuck "const"]
    | .load id i => match envIndex s id i with
      | some a => match getVal s.values a with
        | some v => [adv { s with stack := s.stack.push v }]
        | none => [.stuck "load:slot"]
      | none => [.stuck "load:env.index"]
    | .store id i => match envIndex s id i, s.stack.pop? with
      | some a, some (v, st) => match setVal s.values a v with
        | some vals => [adv { s with stack := st, values := vals }]
        | none => [.stuck "store:slot"]
      | _, _ => [.stuck "store"]
    | .object n =>
      if s.bt then fail s else
      match objectPops s n s.stack with
      | (errs, some st) => errs ++ [adv { s with stack := st.push .any }]
      | (errs, none) => errs
    | .append id i => match envIndex s id i with
      | some a => match getVal s.values a, s.stack.pop? with
        | some .any, some (_, st) => [adv { s with stack := st }]
        | _, _ => [.stuck "append"]
      | none => [.stuck "append:env.index"]
    | .fork t =>
      if s.bt then (if s.err then fail s else [.next { s with pc := t, bt := false }])
      else [adv (pushfork s s.pc)]
    | .forktrybegin t =>
      if s.bt then
        if !s.err then fail s else
        -- tryEndError / breakError / HaltError propagate; anything else is caught
        fail s ++ (match s.stack.pop? with
          | some (_, st) => [.next { s with pc := t, bt := false, err := false, stack := st.push .any }]
          | none => [.stuck "forktrybegin"])
      else [adv (pushfork s s.pc)]
    | .forktryend => if s.bt then fail s else [adv (pushfork s s.pc)]
    | .forkalt t =>
      if s.bt then (if !s.err then fail s else [.next { s with pc := t, bt := false, err := false }])
      else [adv (pushfork s s.pc)]
    | .forklabel id i =>
      if s.bt then
        match s.stack.pop? with
        | some (_, st) =>
          -- a matching breakError is cleared, any other error stays
          (if s.err then fail { s with stack := st, err := false } else []) ++ fail { s with stack := st }
        | none => [.stuck "forklabel:pop"]
      else
        let s1 := pushfork { s with stack := s.stack.push .any } s.pc
        match s1.stack.pop?, envIndex s1 id i with
        | some (_, st), some a => match setVal s1.values a .any with
          | some vals => [adv { s1 with stack := st, values := vals }]
          | none => [.stuck "forklabel:slot"]
        | _, _ => [.stuck "forklabel"]
    | .backtrack => fail s
    | .jump t => [.next { s with pc := t }]
    | .jumpifnot t => match s.stack.pop? with
      | some (_, st) => [adv { s with stack := st }, .next { s with pc := t, stack := st }]
      | none => [.stuck "jumpifnot"]
    | .index | .indexarray =>
      if s.bt then fail s else
      match s.stack.pop? with
      | some (_, st) =>
        -- expectedArrayError / funcIndex2 error, or a value
        fail { s with stack := st, err := true } ++ recordStep { s with stack := st.push .any }
      | none => [.stuck "index"]
    | .call t =>
      if s.bt then fail s else [.next { s with pc := t, callpc := s.pc, index := s.scopes.index }]
    | .callnative argc kind isIter =>
      if s.bt then fail s else
      match popN (argc + 1) s.stack with
      | some st =>
        let s1 := { s with stack := st.push (if isIter then .iter else .any) }
        fail { s with stack := st, err := true } ++
          (match kind with
           | .never => []
           | .plain => [adv s1]
           | .index | .slice => recordStep s1
           | .getpath => if pathMode s1 then [.stuck "getpath in path mode"] else [adv s1])
      | none => [.stuck "callnative"]
    | .callrec t => [.next { s with pc := t, callpc := -1, index := s.scopes.index }]
    | .pushpc t => [adv { s with stack := s.stack.push (.clo t s.scopes.index) }]
    | .callpc => match s.stack.pop? with
      | some (.clo t i, st) => [.next { s with pc := t, callpc := s.pc, index := i, stack := st }]
      | _ => [.stuck "callpc"]
    | .scope id vars _ =>
      let r : Option (Int × Int × Shape) :=
        if s.index == s.scopes.index then
          if s.callpc ≥ 0 then some (s.callpc, s.index, s)
          else match popscope s with
            | some (sc, s') => some (sc.pc, sc.saveindex, s')
            | none => none
        else some (s.callpc, s.scopes.index, s)
      match r with
      | none => [.stuck "scope:popscope"]
      | some (cpc, saveindex, s1) =>
        let outer : Option Int :=
          if s.index ≥ 0 then
            match s1.scopes.block s.index with
            | some (sc, _) => some (if sc.id == id then sc.outerindex else s.index)
            | none => none
          else some s.index
        match outer with
        | none => [.stuck "scope:outerindex"]
        | some outerindex =>
          let sc : Scope := { id := id, offset := s1.offset, pc := cpc, saveindex := saveindex, outerindex := outerindex }
          let off := s1.offset + vars
          let vals := if off > s1.values.length
            then s1.values ++ List.replicate (off * 2 - s1.values.length) .dead else s1.values
          [adv { s1 with scopes := s1.scopes.push sc, offset := off, values := vals, callpc := cpc }]
    | .ret =>
      if s.bt then fail s else
      match popscope s with
      | none => [.stuck "ret:popscope"]
      | some (sc, s1) =>
        let s2 := { s1 with scopes := { s1.scopes with index := sc.saveindex } }
        if s2.scopes.empty then
          match s2.stack.pop? with
          | some (_, st) =>
            [.emit { s2 with stack := st, pc := sc.pc.toNat, bt := true, err := false,
                             callpc := (code.length : Int) - 1, index := -1 }]
          | none => [.stuck "ret:pop"]
        else [.next { s2 with pc := (sc.pc + 1).toNat }]
    | .iter =>
      if s.err then fail s else
      match s.stack.pop? with
      | none => [.stuck "iter"]
      | some (v, st) =>
        let s0 := { s with bt := false, stack := st }
        -- `push(xs[0].value)` and, in path mode, `paths.push(xs[0])`
        let first (t : Shape) : Out :=
          let t1 := { t with stack := t.stack.push .any }
          adv (if pathMode t1 then { t1 with paths := t1.paths.push .step } else t1)
        -- `push(carrier); pushfork(pc); pop()`
        let forked (carrier : AV) : Option Shape :=
          let t := pushfork { s0 with stack := st.push carrier } s.pc
          match t.stack.pop? with
          | some (_, st1) => some { t with stack := st1 }
          | none => none
        let many : List Out := match forked .rest with
          | some t => [first t]
          | none => [.stuck "iter:many"]
        match v with
        | .rest => [first s0] ++ many
        | .any =>
          -- invalidPathIterError; empty; not iterable (pushes emptyIter, breaks); one; many
          (if pathMode s0 then (if pathTopOk s0 then fail { s0 with err := true } else [.stuck "iter:pathIntact"]) else [])
            ++ fail s0
            ++ fail { s0 with err := true, stack := st.push .iter }
            ++ [first s0] ++ many
        | .iter =>
          -- Next() = (_, false); Next() = (error, true); Next() = (value, true)
          fail s0 ++ (match forked .iter with
            | some t => fail { t with err := true } ++ [adv { t with stack := t.stack.push .any }]
            | none => [.stuck "iter:iter"])
        | .clo _ _ | .dead =>
          fail { s0 with err := true, stack := st.push .iter }
    | .expbegin => [adv { s with expdepth := s.expdepth + 1 }]
    | .expend => [adv { s with expdepth := s.expdepth - 1 }]
    | .pathbegin =>
      match s.stack.top? with
      | some _ =>
        let p1 := s.paths.push (.marker s.expdepth)
        [adv { s with paths := p1.push .root, expdepth := 0 }]
      | none => [.stuck "pathbegin"]
    | .pathend =>
      if s.bt then fail s else
      match popN 2 s.stack with
      | none => [.stuck "pathend:pop"]
      | some st =>
        if !pathTopOk s then [.stuck "pathend:pathIntact"] else
        fail { s with stack := st, err := true } ++
          (match poppaths (s.paths.data.length + 1) s.paths with
           | some p' => match p'.pop? with
             | some (.marker n, p'') => [adv { s with stack := st.push .any, paths := p'', expdepth := n }]
             | _ => [.stuck "pathend:marker"]
           | none => [.stuck "pathend:poppaths"])

def Out.shape? : Out → Option Shape
  | .next s | .emit s => some s
  | _ => none

def Out.isStuck : Out → Bool
  | .stuck _ => true
  | _ => false

def succs : List Out → List Shape
  | [] => []
  | o :: os => match o.shape? with
    | some s => s.canon :: succs os
    | none => succs os

/-- all nondeterministic successors of a shape (canonicalised) -/
def step (code : Code) (s : Shape) : List Shape := succs (stepOut code s)

/-- does some outcome of this shape leave the model (Go panic / unmodelled)? -/
def stuckFree (code : Code) (s : Shape) : Bool := (stepOut code s).all (fun o => !o.isStuck)

def stuckSites (code : Code) (s : Shape) : List String :=
  (stepOut code s).filterMap fun | .stuck w => some w | _ => none

/-- `ReachN code n s`: some run of ShVM on `code`, started in the state in which the real VM
    enters its first `Next`, is in shape `s` after exactly `n` instructions (emissions and
    re-entries of `Next` included, whatever the data made every branch do). -/
inductive ReachN (code : Code) : Nat → Shape → Prop where
  | zero : ReachN code 0 (init code)
  | succ {n : Nat} {s t : Shape} : ReachN code n s → t ∈ step code s → ReachN code (n + 1) t

/-! ## What the step hook of the real VM shows (`VerifState`) -/

structure Obs where
  pc : Nat
  bt : Bool
  err : Bool
  forks : Nat
  stack : Int × Int × Nat     -- index, limit, len(data)
  scopes : Int × Int × Nat
  paths : Int × Int × Nat
  offset : Nat
  values : Nat
  expdepth : Int
  deriving Repr, BEq, DecidableEq

def Shape.obs (s : Shape) : Obs :=
  { pc := s.pc, bt := s.bt, err := s.err, forks := s.forks.length,
    stack := (s.stack.index, s.stack.limit, s.stack.data.length),
    scopes := (s.scopes.index, s.scopes.limit, s.scopes.data.length),
    paths := (s.paths.index, s.paths.limit, s.paths.data.length),
    offset := s.offset, values := s.values.length, expdepth := s.expdepth }

def Obs.footprint (o : Obs) : Nat := o.forks + o.stack.2.2 + o.scopes.2.2 + o.paths.2.2 + o.values

/-! ## Untrusted worklist: the reachable shapes with, per shape, the indices of its successors -/

structure Explored where
  shapes : Array Shape
  succ : Array (List Nat)      -- only meaningful when `closed`
  closed : Bool                -- the worklist ran empty below the cap
  stuck : List String          -- stuck sites met
  maxFootprint : Nat
  deriving Inhabited

private structure Tab where
  shapes : Array Shape := #[]
  buckets : Array (List Nat)

private def Tab.find (t : Tab) (s : Shape) : Option Nat :=
  let b := t.buckets[(hash s).toNat % t.buckets.size]!
  b.find? fun i => t.shapes[i]! == s

private def Tab.add (t : Tab) (s : Shape) : Tab × Nat :=
  let k := (hash s).toNat % t.buckets.size
  let i := t.shapes.size
  ({ shapes := t.shapes.push s, buckets := t.buckets.modify k (i :: ·) }, i)

/-- breadth-first closure of `init code` under `step code`, giving up above `cap` shapes -/
partial def explore (code : Code) (cap : Nat) : Explored :=
  let rec go (t : Tab) (next : Nat) (succ : Array (List Nat)) (stuck : List String) (mx : Nat) : Explored :=
    if h : next < t.shapes.size then
      if t.shapes.size > cap then
        { shapes := t.shapes, succ := succ, closed := false, stuck := stuck, maxFootprint := mx }
      else
        let s := t.shapes[next]
        let outs := stepOut code s
        let stuck := outs.foldl (fun acc o => match o with
          | .stuck w => if acc.contains w then acc else w :: acc
          | _ => acc) stuck
        let (t, idxs) := (succs outs).foldl (fun (acc : Tab × List Nat) u =>
          match acc.1.find u with
          | some i => (acc.1, i :: acc.2)
          | none => let (t', i) := acc.1.add u; (t', i :: acc.2)) (t, [])
        go t (next + 1) (succ.push idxs.reverse) stuck (max mx (footprint s))
    else
      { shapes := t.shapes, succ := succ, closed := true, stuck := stuck, maxFootprint := mx }
  let t0 : Tab := { buckets := Array.replicate 4093 [] }
  let (t1, _) := t0.add (init code)
  go t1 0 #[] [] 0

end Gojq.ShVM

/-
  Native functions, part 2: indexing and slicing (func.go: funcIndex2, index, indexString,
  funcSlice, slice, sliceString, indices / funcIndices / funcIndex / funcRindex through indexFunc).

  Go slice expressions `vs[a:b]` are written `(vs.drop a).take (b - a)`; the obligations
  `a ≤ b ≤ len` (no panic) are theorems of Props/C03 (`slice_bounds_ok`, `sliceString_bounds_ok`).
-/
import Gojq.Model.Native.Base
import Gojq.Model.Sort
namespace Gojq

/-- `index(vs, i)` -/
def indexArr (vs : List JV) (i : Int) : JV :=
  let i := clampIndex i (-1) vs.length
  if 0 ≤ i ∧ i < vs.length then vs.getD i.toNat .null else .null

/-- `indexString(s, i)`: the i-th code point, re-encoded (`string(r)`) -/
def indexStr (s : Bytes) (i : Int) : JV :=
  let rs := Utf8.runes s
  let i := clampIndex i (-1) rs.length
  if 0 ≤ i ∧ i < rs.length then .str (Utf8.encodeRune (rs.getD i.toNat 0)) else .null

/-- `start = clampIndex(toInt(s), 0, len)`, 0 for null; a non-number is the error `mkErr` -/
def sliceStart (len : Nat) (s : JV) (mkErr : JV → Err) : Except Err Int :=
  match s with
  | .null => .ok 0
  | s => match toInt? s with
    | some i => .ok (clampIndex i 0 len)
    | none => .error (mkErr s)

/-- `end = clampIndex(toIntCeil(e), start, len)`, len for null -/
def sliceEnd (len : Nat) (start : Int) (e : JV) (mkErr : JV → Err) : Except Err Int :=
  match e with
  | .null => .ok (len : Int)
  | e => match toIntCeil? e with
    | some i => .ok (clampIndex i start len)
    | none => .error (mkErr e)

/-- the `start`/`end` computation shared by `slice`, `sliceString`, `updateArraySlice`
    (the start is examined first, as in the Go code) -/
def sliceBounds (len : Nat) (e s : JV) (mkErr : JV → Err) : Except Err (Nat × Nat) :=
  match sliceStart len s mkErr with
  | .error err => .error err
  | .ok start =>
    match sliceEnd len start e mkErr with
    | .error err => .error err
    | .ok end_ => .ok (start.toNat, end_.toNat)

/-- `for i := range s { if k--; k < 0 { return i } }`: byte offset of the `k`-th decoded rune -/
def runeOffsetAux : Nat → Bytes → Nat → Nat → Nat
  | 0, _, _, off => off
  | _, _, 0, off => off
  | _, [], _, off => off
  | fuel + 1, s, k + 1, off =>
    let w := max (Utf8.decodeRune s).2.1 1
    runeOffsetAux fuel (s.drop w) k (off + w)

/-- byte offset of the `k`-th rune boundary of `s` (k ≤ number of runes) -/
def runeOffset (s : Bytes) (k : Nat) : Nat := runeOffsetAux (s.length + 1) s k 0

/-- `slice(vs, e, s)`: `vs[start:end]` -/
def sliceArr (vs : List JV) (e s : JV) : NRes :=
  match sliceBounds vs.length e s (fun x => .builtin "arrayIndexNotNumber" [x]) with
  | .error err => .error err
  | .ok ab => .ok (.arr ((vs.drop ab.1).take (ab.2 - ab.1)))

/-- the byte offset `sliceString` turns a code point position into: the offset of the `k`-th
    code point while `k < l`, else `len(v)` -/
def byteOffset (str : Bytes) (k : Nat) : Nat :=
  if k < (Utf8.runes str).length then runeOffset str k else str.length

/-- `sliceString(v, e, s)`: positions count code points, the result is `v[start:end]` on bytes -/
def sliceStr (str : Bytes) (e s : JV) : NRes :=
  match sliceBounds (Utf8.runes str).length e s (fun x => .builtin "stringIndexNotNumber" [x]) with
  | .error err => .error err
  | .ok ab => .ok (.str ((str.drop (byteOffset str ab.1)).take (byteOffset str ab.2 - byteOffset str ab.1)))

/-- `funcSlice(_, v, e, s)` -/
def funcSlice (v e s : JV) : NRes :=
  match v with
  | .null => pure .null
  | .arr vs => sliceArr vs e s
  | .str str => sliceStr str e s
  | v => throw (errExpectedArray v)

/-- positions at which `xs` occurs in `vs` (`indices`), as JSON numbers -/
def indicesArr (vs xs : List JV) : List JV := (indicesList vs xs).map fun (i : Nat) => jvInt (i : Int)

/-- `funcIndex2(_, v, x)`: `v[x]` -/
def funcIndex2 (v x : JV) : NRes :=
  match x with
  | .str k =>
    match v with
    | .null => pure .null
    | .obj kvs => pure ((kvLookup k kvs).getD .null)
    | v => throw (errExpectedObject v)
  | .num _ =>
    let i := (toInt? x).getD 0
    match v with
    | .null => pure .null
    | .arr vs => pure (indexArr vs i)
    | .str s => pure (indexStr s i)
    | v => throw (errExpectedArray v)
  | .arr xs =>
    match v with
    | .null => pure .null
    | .arr vs => pure (.arr (indicesArr vs xs))
    | v => throw (errExpectedArray v)
  | .obj kvs =>
    match v with
    | .null => pure .null
    | v =>
      match kvLookup (B "start") kvs, kvLookup (B "end") kvs with
      | some s, some e => funcSlice v e s
      | _, _ => throw (.builtin "expectedStartEnd" [x])
  | x =>
    match v with
    | .arr _ => throw (.builtin "arrayIndexNotNumber" [x])
    | .str _ => throw (.builtin "stringIndexNotNumber" [x])
    | _ => throw (.builtin "objectKeyNotString" [x])

/-- which of the three searches `indexFunc` is called with -/
inductive IndexKind where | all | first | last
  deriving Repr, DecidableEq

def IndexKind.name : IndexKind → String
  | .all => "indices" | .first => "index" | .last => "rindex"

/-- the three callbacks of `indexFunc` on exploded arguments:
    all positions / the first / the last (null when there is none or the needle is empty) -/
def searchList (k : IndexKind) (vs xs : List JV) : JV :=
  match k with
  | .all => .arr (indicesArr vs xs)
  | .first => match (indicesList vs xs).head? with
    | some i => jvInt (i : Int)
    | none => .null
  | .last => match (indicesList vs xs).getLast? with
    | some i => jvInt (i : Int)
    | none => .null

def explodeJV (s : Bytes) : List JV := (Utf8.runes s).map fun (r : Nat) => jvInt (r : Int)

/-- `indexFunc(name, v, x, f)`: `indices` / `index` / `rindex` -/
def indexFunc (k : IndexKind) (v x : JV) : NRes :=
  match v with
  | .null => pure .null
  | .arr vs =>
    match x with
    | .arr xs => pure (searchList k vs xs)
    | x => pure (searchList k vs [x])
  | .str s =>
    match x with
    | .str t => pure (searchList k (explodeJV s) (explodeJV t))
    | x => throw (errFunc1 k.name v x)
  | v => throw (errFunc1 k.name v x)

end Gojq

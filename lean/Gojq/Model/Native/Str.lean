/-
  Native functions, part 4: strings (func.go: funcStartsWith … funcTrim, funcExplode/Implode,
  funcSplit, funcJoin, funcASCIIDowncase/Upcase, funcToBoolean, funcToNumber with the
  `validNumber` scanner of lexer.go and `parseNumber`, funcToString/ToJSON/FromJSON, funcFormat
  and the `@format` natives, funcCaptures).
-/
import Gojq.Model.Native.Ops
namespace Gojq

/-! ### startswith / endswith / ltrimstr / rtrimstr / trimstr -/

/-- the shared shape `s, ok := v.(string); t, ok := x.(string)` else func1TypeError{name, v, x} -/
def strStr (name : String) (f : Bytes → Bytes → JV) (v x : JV) : NRes :=
  match v, x with
  | .str s, .str t => pure (f s t)
  | v, x => throw (errFunc1 name v x)

def funcStartsWith := strStr "startswith" fun s t => .bool (hasPrefix s t)
def funcEndsWith := strStr "endswith" fun s t => .bool (hasSuffix s t)
def funcLtrimstr := strStr "ltrimstr" fun s t => .str (trimPrefix s t)
def funcRtrimstr := strStr "rtrimstr" fun s t => .str (trimSuffix s t)
def funcTrimstr := strStr "trimstr" fun s t => .str (trimSuffix (trimPrefix s t) t)

/-! ### ltrim / rtrim / trim (strings.TrimLeftFunc / TrimRightFunc / TrimSpace with unicode.IsSpace) -/

/-- `unicode.IsSpace` -/
def isSpaceRune (r : Nat) : Bool :=
  r == 0x20 || (0x09 ≤ r && r ≤ 0x0d) || r == 0x85 || r == 0xA0 || r == 0x1680 ||
  (0x2000 ≤ r && r ≤ 0x200a) || r == 0x2028 || r == 0x2029 || r == 0x202f || r == 0x205f || r == 0x3000

/-- drop leading white-space runes (an invalid byte decodes to U+FFFD, which is not a space) -/
def ltrimAux : Nat → Bytes → Bytes
  | 0, s => s
  | _, [] => []
  | fuel + 1, s =>
    let d := Utf8.decodeRune s
    if isSpaceRune d.1 then ltrimAux fuel (s.drop (max d.2.1 1)) else s

def ltrimBytes (s : Bytes) : Bytes := ltrimAux s.length s

/-- number of bytes kept by `TrimRightFunc`: the end of the last rune that is not a space.
    (`DecodeLastRune` going backwards meets exactly the forward decoding's rune boundaries as long
    as it sees validly encoded runes, and white space is only ever recognised in those.) -/
def rtrimLen : Nat → Bytes → Nat → Nat → Nat
  | 0, _, _, keep => keep
  | _, [], _, keep => keep
  | fuel + 1, s, off, keep =>
    let d := Utf8.decodeRune s
    let w := max d.2.1 1
    rtrimLen fuel (s.drop w) (off + w) (if isSpaceRune d.1 then keep else off + w)

def rtrimBytes (s : Bytes) : Bytes := s.take (rtrimLen s.length s 0 0)

def trimBytes (s : Bytes) : Bytes := ltrimBytes (rtrimBytes s)

def str0 (name : String) (f : Bytes → JV) : JV → NRes
  | .str s => pure (f s)
  | v => throw (errFunc0 name v)

def funcLtrim := str0 "ltrim" fun s => .str (ltrimBytes s)
def funcRtrim := str0 "rtrim" fun s => .str (rtrimBytes s)
def funcTrim := str0 "trim" fun s => .str (trimBytes s)

/-! ### ascii_downcase / ascii_upcase (strings.Map over runes: invalid bytes become U+FFFD) -/

def mapRunes (f : Nat → Nat) (s : Bytes) : Bytes := Utf8.encodeRunes ((Utf8.runes s).map f)
def downRune (r : Nat) : Nat := if 65 ≤ r ∧ r ≤ 90 then r + 32 else r
def upRune (r : Nat) : Nat := if 97 ≤ r ∧ r ≤ 122 then r - 32 else r

def funcAsciiDowncase := str0 "ascii_downcase" fun s => .str (mapRunes downRune s)
def funcAsciiUpcase := str0 "ascii_upcase" fun s => .str (mapRunes upRune s)

/-! ### explode / implode / utf8bytelength / split/1 / join -/

def funcExplode := str0 "explode" fun s => .arr (explodeJV s)
def funcUtf8ByteLength := str0 "utf8bytelength" fun s => jvInt s.length

/-- the runes of funcImplode's loop; `none` when an element is not a number -/
def implodeInts : List JV → Option (List Int)
  | [] => some []
  | x :: rest =>
    match toInt? x, implodeInts rest with
    | some r, some rs => some (r :: rs)
    | _, _ => none

def funcImplode (v : JV) : NRes :=
  match v with
  | .arr vs =>
    match implodeInts vs with
    | some rs => pure (.str (Codec.implode rs))
    | none => throw (errFunc0 "implode" v)
  | v => throw (errFunc0 "implode" v)

/-- `funcSplit` (the one-argument `split`): both type errors are func0TypeError{"split", _} -/
def funcSplit (v x : JV) : NRes :=
  match v with
  | .str s =>
    match x with
    | .str t => pure (.arr ((Codec.splitOn t s).map .str))
    | x => throw (errFunc0 "split" x)
  | v => throw (errFunc0 "split" v)

/-- `tostring` on a non-string / `tojson`: the library encoder (none: float digits unmodelled) -/
def toJsonBytes (v : JV) : Option Bytes :=
  if Encode.modelled v then some (Encode.encodeValue v) else none

/-- the sequence funcJoin hands to `add`: `"" v0 x v1 x v2 …`, booleans and numbers marshalled -/
def joinSeq (x : JV) : List JV → Bool → Option (List JV)
  | [], _ => some []
  | v :: rest, first =>
    let s : JV := if first then .str [] else x
    let v' : Option JV := match v with
      | .bool _ | .num _ => (toJsonBytes v).map .str
      | v => some v
    match v', joinSeq x rest false with
    | some w, some tl => some (s :: w :: tl)
    | _, _ => none

def funcJoin (v x : JV) : NRes :=
  match valuesOf v with
  | none => throw (errFunc1 "join" v x)
  | some [] => pure (.str [])
  | some vs =>
    match joinSeq x vs true with
    | some seq => addAll seq
    | none => throw errUnmodelled

/-! ### toboolean / tonumber -/

def funcToBoolean (v : JV) : NRes :=
  match v with
  | .bool _ => pure v
  | .str s =>
    if s == B "true" then pure (.bool true)
    else if s == B "false" then pure (.bool false)
    else throw (errFunc0Wrap "toboolean" v (.builtin "text" [.str (B "invalid boolean")]))
  | v => throw (errFunc0 "toboolean" v)

/-- maximal run of decimal digits and the rest (the reader of Model/Encode.lean has the function) -/
abbrev spanDigitsB : Bytes → Bytes × Bytes := Encode.spanDigits

def stripSign : Bytes → Bool × Bytes
  | c :: rest => if c.toNat = 45 then (true, rest) else if c.toNat = 43 then (false, rest) else (false, c :: rest)
  | [] => (false, [])

/-- the pieces of a string `validNumber` accepts:
    `[+-]? ( digits ( '.' digits? )? | '.' digits ) ( [eE] [+-]? digits )?`, nothing after.
    Result: negative?, integer digits, fraction digits, has a '.', exponent (sign, digits) -/
structure NumLit where
  neg : Bool
  ip : Bytes
  fp : Bytes
  dot : Bool
  exp : Option (Bool × Bytes)

/-- the exponent part and end of input (`numberStateExpLead` / `numberStateExp`) -/
def scanExp : Bytes → Option (Option (Bool × Bytes))
  | [] => some none
  | c :: rest =>
    if c.toNat = 101 ∨ c.toNat = 69 then
      let sr := stripSign rest
      let dr := spanDigitsB sr.2
      if !dr.1.isEmpty && dr.2.isEmpty then some (some (sr.1, dr.1)) else none
    else none

/-- `newLexer(v).validNumber()` together with the pieces found (lexer.go: validNumber, scanNumber) -/
def scanNumLit (s : Bytes) : Option NumLit :=
  let sr := stripSign s
  match sr.2 with
  | [] => none
  | c :: rest =>
    if c.toNat = 46 then
      -- leading '.': a digit must follow (numberStateFloat)
      let fr := spanDigitsB rest
      if fr.1.isEmpty then none else
      (scanExp fr.2).map fun e => ⟨sr.1, [], fr.1, true, e⟩
    else
      let ir := spanDigitsB (c :: rest)
      if ir.1.isEmpty then none else
      match ir.2 with
      | d :: rest' =>
        if d.toNat = 46 then
          let fr := spanDigitsB rest'
          (scanExp fr.2).map fun e => ⟨sr.1, ir.1, fr.1, true, e⟩
        else (scanExp (d :: rest')).map fun e => ⟨sr.1, ir.1, [], false, e⟩
      | [] => some ⟨sr.1, ir.1, [], false, none⟩

def validNumber (s : Bytes) : Bool := (scanNumLit s).isSome

/-- the float64 nearest to `±mant·10^scale` (strconv.ParseFloat; ±Inf beyond the range, which is
    also what `parseNumber` returns when ParseFloat reports a range error). Exponents whose
    power of ten need not be computed are cut off: the result is ±0 or ±Inf anyway. -/
def decimalToFloat (neg : Bool) (mant : Nat) (ndigits : Nat) (scale : Int) : Num :=
  if mant == 0 then (if neg then .nzero else .flt 0)
  else if scale > 400 then .inf neg
  else if scale < -800 - (ndigits : Int) then (if neg then .nzero else .flt 0)
  else
    let q : Rat := (mant : Rat) * (10 : Rat) ^ scale
    roundRat (if neg then -q else q)

/-- `toNumber(v) = parseNumber(json.Number(v))` on a scanned literal: no `.`/exponent — the exact
    integer (int or *big.Int); otherwise the float64 -/
def NumLit.value (l : NumLit) : Num :=
  if !l.dot && l.exp.isNone then
    let z : Int := Encode.digitsVal 0 l.ip
    .int (if l.neg then -z else z)
  else
    let ds := l.ip ++ l.fp
    let e : Int := match l.exp with
      | some (eneg, ed) => if eneg then -(Encode.digitsVal 0 ed : Int) else (Encode.digitsVal 0 ed : Int)
      | none => 0
    decimalToFloat l.neg (Encode.digitsVal 0 ds) ds.length (e - (l.fp.length : Int))

/-- exponents beyond this many digits are not evaluated by the model -/
def expDigitsOk (l : NumLit) : Bool :=
  match l.exp with
  | some (_, ed) => (ed.dropWhile (fun c => c.toNat = 48)).length ≤ 6
  | none => true

def funcToNumber (v : JV) : NRes :=
  match v with
  | .num _ => pure v
  | .str s =>
    match scanNumLit s with
    | none => throw (errFunc0Wrap "tonumber" v (.builtin "text" [.str (B "invalid number")]))
    | some l => if expDigitsOk l then pure (.num l.value) else throw errUnmodelled
  | v => throw (errFunc0 "tonumber" v)

/-! ### tostring / tojson / fromjson -/

def funcToJSON (v : JV) : NRes :=
  match toJsonBytes v with
  | some b => pure (.str b)
  | none => throw errUnmodelled

def funcToString (v : JV) : NRes :=
  match v with
  | .str _ => pure v
  | v => funcToJSON v

mutual
  /-- what encoding/json makes of the parsed text: invalid UTF-8 in strings and keys becomes
      U+FFFD, duplicate keys: the last one wins (Go map assignment) -/
  def decodedJV : JV → JV
    | .str s => .str (Utf8.sanitize s)
    | .arr xs => .arr (decodedList xs)
    | .obj kvs => JV.mkObj (decodedKvs kvs)
    | v => v
  def decodedList : List JV → List JV
    | [] => []
    | x :: xs => decodedJV x :: decodedList xs
  def decodedKvs : List (Bytes × JV) → List (Bytes × JV)
    | [] => []
    | (k, x) :: xs => (Utf8.sanitize k, decodedJV x) :: decodedKvs xs
end

/-- does the text contain an exponent of more than four digits (the reader of Model/Encode.lean
    would compute that power of ten)? -/
def hugeExponent : Bytes → Bool
  | [] => false
  | c :: rest =>
    ((c.toNat = 101 ∨ c.toNat = 69) &&
      decide ((spanDigitsB (stripSign rest).2).1.length > 4)) || hugeExponent rest

/-- `funcFromJSON`: `Decode` reads the first value (its syntax error is a func0WrapError whose
    text — encoding/json's — is not modelled), then `dec.Token()` must report EOF -/
def funcFromJSON (v : JV) : NRes :=
  match v with
  | .str s =>
    if hugeExponent s then throw errUnmodelled else
    match Encode.parseValue (2 * s.length + 1) s with
    | none => throw (errFunc0Wrap "fromjson" v (.builtin "goError" [.str (B "encoding/json")]))
    | some (w, rest) =>
      if (Encode.skipWs rest).isEmpty then pure (decodedJV w) else throw (errFunc0 "fromjson" v)
  | v => throw (errFunc0 "fromjson" v)

/-! ### `@format` natives -/

/-- a `strings.NewReplacer` whose old strings are single bytes -/
def replaceBytes (table : List (Nat × Bytes)) (s : Bytes) : Bytes :=
  s.flatMap fun c => match table.lookup c.toNat with
    | some r => r
    | none => [c]

def htmlTable : List (Nat × Bytes) :=
  [(60, B "&lt;"), (62, B "&gt;"), (38, B "&amp;"), (39, B "&apos;"), (34, B "&quot;")]
def csvTable : List (Nat × Bytes) := [(34, B "\"\""), (0, B "\\0")]
def tsvTable : List (Nat × Bytes) := [(9, B "\\t"), (13, B "\\r"), (10, B "\\n"), (92, B "\\\\"), (0, B "\\0")]
def shTable : List (Nat × Bytes) := [(39, B "'\\''"), (0, B "\\0")]

/-- `funcToString(v)` as bytes (`none`: float digits unmodelled) -/
def toStringBytes : JV → Option Bytes
  | .str s => some s
  | v => toJsonBytes v

def viaString (f : Bytes → NRes) (v : JV) : NRes :=
  match toStringBytes v with
  | some s => f s
  | none => throw errUnmodelled

def funcToHTML := viaString fun s => pure (.str (replaceBytes htmlTable s))
def funcToURI := viaString fun s => pure (.str (Codec.uriEnc s))
def funcToBase64 := viaString fun s => pure (.str (Codec.b64enc s))

/-- the first `%` that is not followed by two hex digits, cut to three bytes (url.EscapeError);
    the test `i+2 >= len(s)` of net/url -/
def firstBadEscape : Bytes → Option Bytes
  | [] => none
  | c :: rest =>
    if c.toNat = 37 then
      match rest with
      | h :: l :: _ =>
        if (Codec.unhex h).isSome && (Codec.unhex l).isSome then firstBadEscape rest
        else some [c, h, l]
      | _ => some (c :: rest)
    else firstBadEscape rest

def funcToURId (v : JV) : NRes :=
  viaString (fun s =>
    match Codec.uriDec s with
    | some r => pure (.str r)
    | none =>
      match firstBadEscape s with
      | some e => throw (errFunc0Wrap "@urid" v (.builtin "urlEscape" [.str e]))
      | none => throw errUnmodelled) v

def funcToBase64d (v : JV) : NRes :=
  viaString (fun s =>
    match Codec.b64dec s with
    | some r => pure (.str r)
    | none => throw (errFunc0Wrap "@base64d" v (.builtin "goError" [.str (B "encoding/base64")]))) v

/-- one cell of `formatJoin`: `none` inside = jsonMarshal not modelled -/
def formatCell (typ : String) (escape : Bytes → Bytes) (v : JV) : Except Err Bytes :=
  match v with
  | .arr _ | .obj _ => throw (.builtin "formatRow" [.str (B typ), v])
  | .str s => pure (escape s)
  | v =>
    match toJsonBytes v with
    | none => throw errUnmodelled
    | some s => if s != B "null" || typ == "sh" then pure s else pure []

def formatCells (typ : String) (escape : Bytes → Bytes) : List JV → Except Err (List Bytes)
  | [] => pure []
  | v :: rest => do
    let c ← formatCell typ escape v
    let cs ← formatCells typ escape rest
    pure (c :: cs)

/-- `formatJoin(typ, v, sep, escape)` -/
def formatJoin (typ : String) (sep : Bytes) (escape : Bytes → Bytes) (v : JV) : NRes :=
  match v with
  | .arr vs =>
    match formatCells typ escape vs with
    | .ok cs => pure (.str (Codec.join sep cs))
    | .error e => throw e
  | v => throw (errFunc0 ("@" ++ typ) v)

def funcToCSV := formatJoin "csv" (B ",") fun s => B "\"" ++ replaceBytes csvTable s ++ B "\""
def funcToTSV := formatJoin "tsv" (B "\t") (replaceBytes tsvTable)
def funcToSh (v : JV) : NRes :=
  let v' := match v with | .arr _ => v | v => .arr [v]
  formatJoin "sh" (B " ") (fun s => B "'" ++ replaceBytes shTable s ++ B "'") v'

/-- `funcFormat(v, x)`: `formatToFunc("@" + x)` then the native of that name -/
def funcFormat (v x : JV) : NRes :=
  match x with
  | .str s =>
    if s == B "text" then funcToString v
    else if s == B "json" then funcToJSON v
    else if s == B "html" then funcToHTML v
    else if s == B "uri" then funcToURI v
    else if s == B "urid" then funcToURId v
    else if s == B "csv" then funcToCSV v
    else if s == B "tsv" then funcToTSV v
    else if s == B "sh" then funcToSh v
    else if s == B "base64" then funcToBase64 v
    else if s == B "base64d" then funcToBase64d v
    else throw (.builtin "formatNotFound" [.str (B "@" ++ s)])
  | x => throw (errFunc0 "format" x)

/-! ### _captures -/

/-- `funcCaptures`: `{name: string}` for the captures that have a string name -/
def capturesObj : List JV → List (Bytes × JV) → List (Bytes × JV)
  | [], acc => acc
  | .obj c :: rest, acc =>
    match kvLookup (B "name") c with
    | some (.str name) => capturesObj rest (kvInsert name ((kvLookup (B "string") c).getD .null) acc)
    | _ => capturesObj rest acc
  | _ :: rest, acc => capturesObj rest acc

def funcCaptures (v : JV) : NRes :=
  match v with
  | .arr cs => pure (.obj (capturesObj cs []))
  | v => throw (errExpectedArray v)

end Gojq

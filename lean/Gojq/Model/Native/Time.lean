/-
  Native functions, part 7: gmtime / mktime (func.go: funcGmtime, epochToArray, funcMktime,
  arrayToTime, timeToEpoch) on top of the civil-calendar model of Model/Calendar.lean.
  Formatting and parsing (strftime, strptime: timefmt-go), `now` and everything that reads
  `time.Local` stay outside the model; only their type dispatch is modelled.
  Magnitudes for which Go's `int64(v)` is platform-defined or `time` wraps around are outside
  the model (`none`): |epoch| ≤ 2^53, |field| ≤ 2^31.
-/
import Gojq.Model.Native.Math
import Gojq.Model.Calendar
namespace Gojq

/-- the float64 constant `1e9` -/
def f1e9 : Num := .flt 1000000000

/-- `int((v - math.Floor(v)) * 1e9)`: the nanoseconds gojq derives from a float64 (two roundings) -/
def fracNanos (v : Num) : Int :=
  match fmul (fsub v (ffloor v)) f1e9 with
  | .flt q => truncRat q
  | _ => 0

/-- `float64(sec) + float64(nsec)/1e9` -/
def secondsFloat (sec nsec : Int) : Num := fadd (roundInt sec) (fdiv (roundInt nsec) f1e9)

/-- the instant `epochToArray` hands to `time.Unix`: `s := math.Floor(v)` seconds and
    `int64((v-s)*1e9)` nanoseconds, normalised by `time.Unix` into `[0, 1e9)` nanoseconds;
    `none` outside |v| ≤ 2^53 (and for NaN/±Inf) -/
def epochParts? (v : Num) : Option (Int × Int) :=
  match v with
  | .nan | .inf _ | .int _ => none
  | v =>
    let q : Rat := (v.toRat?).getD 0
    if q < -(two53 : Rat) ∨ (two53 : Rat) < q then none else
    let ns0 := fracNanos v
    some (q.floor + ns0 / 1000000000, ns0 % 1000000000)

/-- `epochToArray(v, time.UTC)` -/
def epochToArray? (v : Num) : Option JV :=
  (epochParts? v).map fun p =>
    let b := Calendar.gmtime p.1
    .arr [jvInt b.year, jvInt b.month0, jvInt b.day, jvInt b.hour, jvInt b.minute,
          .num (secondsFloat b.second p.2), jvInt b.weekday, jvInt b.yearday]

def funcGmtime (v : JV) : NRes :=
  match v with
  | .num n =>
    match epochToArray? n.toFlt with
    | some a => pure a
    | none => throw errUnmodelled
  | v => throw (errFunc0 "gmtime" v)

/-- the loop of `arrayToTime`: the first eight elements, `toInt` except the seconds (`toFloat`);
    outer `none` = timeArrayError, inner field `none` = outside the model -/
def timeFields : List JV → Nat → Option (List (Option (Int × Int)))
  | [], _ => some []
  | x :: rest, i =>
    if i ≥ 8 then some [] else
    let f : Option (Option (Int × Int)) :=
      if i == 5 then
        (toFloat? x).map fun v =>
          (floatToIntExact? v).map fun s => (s, fracNanos v)
      else (toInt? x).map fun z => some (z, 0)
    match f, timeFields rest (i + 1) with
    | some fld, some flds => some (fld :: flds)
    | _, _ => none

def fieldBound : Int := 2147483648

/-- `funcMktime` -/
def funcMktime (v : JV) : NRes :=
  match v with
  | .arr a =>
    match timeFields a 0 with
    | none => throw (errFunc0Wrap "mktime" v (.builtin "timeArray" []))
    | some flds =>
      if flds.any (fun f => match f with
          | none => true
          | some (z, _) => decide (z < -fieldBound ∨ fieldBound < z)) then throw errUnmodelled else
      let g (i : Nat) : Int := match flds.getD i none with | some (z, _) => z | none => 0
      let ns0 : Int := match flds.getD 5 none with | some (_, n) => n | none => 0
      let unix := Calendar.mktimeFields (g 0) (g 1) (g 2) (g 3) (g 4) (g 5) + ns0 / 1000000000
      pure (.num (secondsFloat unix (ns0 % 1000000000)))
  | v => throw (errFunc0 "mktime" v)

/-- type dispatch of `funcStrftime` / `funcStrflocaltime` up to the call of timefmt:
    `some err` = the error raised before formatting, `none` = formatting reached (unmodelled) -/
def strftimeDispatch (name : String) (utc : Bool) (v x : JV) : Option Err :=
  -- `if w, ok := toFloat(v); ok { v = epochToArray(w, loc) }`
  let v' : Option JV := match v with
    | .num n => if utc then epochToArray? n.toFlt else none
    | v => some v
  match v, v' with
  | .num _, none => some errUnmodelled
  | _, none => some errUnmodelled
  | _, some w =>
    match w with
    | .arr _ =>
      match x with
      | .str _ => none
      | x => some (errFunc1 name w x)
    | w => some (errFunc1 name w x)

end Gojq

/-
  Native functions, part 5: getpath / setpath / delpaths at value level (func.go: funcGetpath,
  setpath, delpaths, update, updateObject, updateArrayIndex, updateArraySlice, deleteEmpty).

  `delpaths` first writes the marker `struct{}{}` at every path ("fills the paths with an empty
  value") and then sweeps the markers (`deleteEmpty`), so that array indices refer to the
  ORIGINAL positions.  The model runs `update` on marked values `MV`: a JSON value in which some
  positions hold the marker.  `MV.val v` is an untouched subtree (the code never looks into it
  again except through `update`, which opens it one level at a time).  The allocator only decides
  whether a container is copied or written in place; at value level (this file) both give the
  same result — the aliasing side is C02/C05's heap model.
-/
import Gojq.Model.Native.Ops
namespace Gojq

/-- `funcGetpath(v, p)` on an array path: errors as raised (`u` is the original input) -/
def getpathLoop (u p : JV) : JV → List JV → NRes
  | v, [] => pure v
  | v, x :: rest =>
    match v with
    | .null | .arr _ | .obj _ =>
      match funcIndex2 v x with
      | .ok w => getpathLoop u p w rest
      | .error e => throw (errFunc1Wrap "getpath" u p e)
    | _ => throw (errFunc1 "getpath" u p)

def funcGetpath (v p : JV) : NRes :=
  match p with
  | .arr path => getpathLoop v p v path
  | p => throw (errFunc1 "getpath" v p)

/-- value-level `getpath` (any error collapsed; kept for the evaluator) -/
def getpath (v : JV) (path : List JV) : NRes :=
  path.foldlM (fun cur x =>
    match cur with
    | .null | .arr _ | .obj _ => funcIndex2 cur x
    | _ => throw (.builtin "getpathType" [])) v

/-- a value in which some positions hold delpaths' marker `struct{}{}` -/
inductive MV where
  | val (v : JV)
  | del
  | arr (xs : List MV)
  | obj (kvs : List (Bytes × MV))
  deriving Inhabited

namespace MV

def kvLookupM (k : Bytes) : List (Bytes × MV) → Option MV
  | [] => none
  | (k', v') :: rest => if k == k' then some v' else kvLookupM k rest

def kvInsertM (k : Bytes) (v : MV) : List (Bytes × MV) → List (Bytes × MV)
  | [] => [(k, v)]
  | (k', v') :: rest =>
    match Bytes.cmp k k' with
    | .lt => (k, v) :: (k', v') :: rest
    | .eq => (k, v) :: rest
    | .gt => (k', v') :: kvInsertM k v rest

def isDel : MV → Bool
  | .del => true
  | _ => false

/-- the shape `update` switches on -/
inductive Shape where
  | null | del | arr (xs : List MV) | obj (kvs : List (Bytes × MV)) | other (v : JV)

def shape : MV → Shape
  | .del => .del
  | .arr xs => .arr xs
  | .obj kvs => .obj kvs
  | .val .null => .null
  | .val (.arr xs) => .arr (xs.map .val)
  | .val (.obj kvs) => .obj (kvs.map fun kv => (kv.1, .val kv.2))
  | .val v => .other v

mutual
  /-- the JSON value, when no marker is left inside -/
  def toJV? : MV → Option JV
    | .val v => some v
    | .del => none
    | .arr xs => (toJVList? xs).map .arr
    | .obj kvs => (toJVKvs? kvs).map .obj
  def toJVList? : List MV → Option (List JV)
    | [] => some []
    | x :: xs => match toJV? x, toJVList? xs with
      | some v, some vs => some (v :: vs)
      | _, _ => none
  def toJVKvs? : List (Bytes × MV) → Option (List (Bytes × JV))
    | [] => some []
    | (k, x) :: xs => match toJV? x, toJVKvs? xs with
      | some v, some vs => some ((k, v) :: vs)
      | _, _ => none
end

mutual
  /-- `deleteEmpty`: drop marked members and elements (a marked root is null) -/
  def sweep : MV → JV
    | .val v => v
    | .del => .null
    | .arr xs => .arr (sweepList xs)
    | .obj kvs => .obj (sweepKvs kvs)
  def sweepList : List MV → List JV
    | [] => []
    | .del :: xs => sweepList xs
    | x :: xs => sweep x :: sweepList xs
  def sweepKvs : List (Bytes × MV) → List (Bytes × JV)
    | [] => []
    | (_, .del) :: xs => sweepKvs xs
    | (k, x) :: xs => (k, sweep x) :: sweepKvs xs
end

end MV

open MV in
/-- the value an error of `update` blames; unmodelled if it still holds a marker (the real
    `Preview` then recovers from the encoder's panic and prints a truncated text) -/
def blame (mk : JV → Err) (v : MV) : Err :=
  match v.toJV? with
  | some w => mk w
  | none => errUnmodelled

open MV in
/-- `update(v, path, n, a)` at value level; `n = .del` is `struct{}{}` -/
def update (n : MV) : MV → List JV → Except Err MV
  | _, [] => pure n
  | v, p :: rest =>
    match p with
    | .str k =>
      match v.shape with
      | .del => pure v
      | .other w => throw (errExpectedObject w)
      | .arr _ => throw (blame errExpectedObject v)
      | sh =>
        -- updateObject (v nil or a map)
        let kvs := match sh with | .obj kvs => kvs | _ => []
        match kvLookupM k kvs with
        | none =>
          if n.isDel then pure v
          else do
            let u ← update n (.val .null) rest
            pure (.obj (kvInsertM k u kvs))
        | some x => do
          let u ← update n x rest
          pure (.obj (kvInsertM k u kvs))
    | .num _ =>
      let i := (toInt? p).getD 0
      match v.shape with
      | .del => pure v
      | .other w => throw (errExpectedArray w)
      | .obj _ => throw (blame errExpectedArray v)
      | sh =>
        -- updateArrayIndex (v nil or an array)
        let xs := match sh with | .arr xs => xs | _ => []
        let j := clampIndex i (-1) xs.length
        if j < 0 then
          if n.isDel then pure v else throw (.builtin "arrayIndexNegative" [jvInt i])
        else if j < xs.length then do
          let u ← update n (xs.getD j.toNat (.val .null)) rest
          pure (.arr (xs.set j.toNat u))
        else if n.isDel then pure v
        else if i ≥ 536870912 then throw (.builtin "arrayIndexTooLarge" [jvInt i])
        else do
          let u ← update n (.val .null) rest
          pure (.arr (xs ++ List.replicate (i.toNat - xs.length) (.val .null) ++ [u]))
    | .obj m =>
      match v.shape with
      | .del => pure v
      | .other w => throw (errExpectedArray w)
      | .obj _ => throw (blame errExpectedArray v)
      | sh =>
        -- updateArraySlice (v nil or an array)
        let xs := match sh with | .arr xs => xs | _ => []
        match kvLookup (B "start") m, kvLookup (B "end") m with
        | some s, some e =>
          match sliceBounds xs.length e s (fun x => .builtin "arrayIndexNotNumber" [x]) with
          | .error err => throw err
          | .ok (a, b) =>
            if a == b && n.isDel then pure v
            else do
              let u ← update n (.arr ((xs.drop a).take (b - a))) rest
              match u.shape with
              | .arr us => pure (.arr (xs.take a ++ us ++ xs.drop b))
              | .del => pure (.arr (xs.take a ++ List.replicate (b - a) .del ++ xs.drop b))
              | .null => throw (errExpectedArray .null)
              | .other w => throw (errExpectedArray w)
              | .obj _ => throw (blame errExpectedArray u)
        | _, _ => throw (.builtin "expectedStartEnd" [p])
    | p =>
      match v.shape with
      | .arr _ => throw (.builtin "arrayIndexNotNumber" [p])
      | _ => throw (.builtin "objectKeyNotString" [p])

/-- `funcSetpath(v, p, n)` -/
def funcSetpath (v p n : JV) : NRes :=
  match p with
  | .arr path =>
    match update (.val n) (.val v) path with
    | .ok u =>
      match u.toJV? with
      | some w => pure w
      | none => throw errUnmodelled   -- cannot happen: no marker is ever inserted
    | .error e => throw (errFunc2Wrap "setpath" v p n e)
  | p => throw (errFunc1 "setpath" v p)

/-- the marking loop of `delpaths` -/
def markPaths (v p : JV) : MV → List JV → Except Err MV
  | u, [] => pure u
  | u, q :: rest =>
    match q with
    | .arr path =>
      match update .del u path with
      | .ok u' => markPaths v p u' rest
      | .error e => throw (errFunc1Wrap "delpaths" v p e)
    | q => throw (errFunc1Wrap "delpaths" v p (errExpectedArray q))

/-- `funcDelpaths(v, p)` -/
def funcDelpaths (v p : JV) : NRes :=
  match p with
  | .arr [] => pure v
  | .arr paths =>
    match markPaths v p (.val v) paths with
    | .ok u => pure u.sweep
    | .error e => throw e
  | p => throw (errFunc1 "delpaths" v p)

end Gojq

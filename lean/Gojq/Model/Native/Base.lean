/-
  Native functions of func.go / operator.go at value level (DESIGN §3.2, C03) — part 1:
  error values and their texts (error.go, preview.go), numeric conversions (toInt, toIntCeil,
  toFloat, floatToInt) and `clampIndex`.

  Error representation: `Err.builtin kind args` is open-ended by design.  Kinds used by the
  natives (each is the Go error type of the same name, `args` = its fields):

    expectedObject [v]      expectedArray [v]        iterator [v]
    objectKeyNotString [v]  arrayIndexNotNumber [v]  stringIndexNotNumber [v]
    expectedStartEnd [v]    invalidPath [v]          invalidPathIter [v]
    arrayIndexNegative [i]  arrayIndexTooLarge [i]   repeatStringTooLarge [s, n]
    lengthMismatch []       timeArray []             flattenDepth [d]
    unary [name, v]         binop [name, l, r]       zeroDivision [l, r]     zeroModulo [l, r]
    func0 [name, v]         func1 [name, v, w]       func2 [name, v, w, x]
    formatNotFound [name]   formatRow [typ, v]
    text [msg]              an `errors.New(msg)` (only ever wrapped)
    goError [what]          an error of a Go library whose text is not modelled (only ever wrapped)
    urlEscape [s]           net/url `EscapeError(s)`
    func0Wrap (name :: v :: .str kind :: args)           func0WrapError{name, v, <kind args>}
    func1Wrap (name :: v :: w :: .str kind :: args)      func1WrapError{name, v, w, <kind args>}
    func2Wrap (name :: v :: w :: x :: .str kind :: args) func2WrapError{name, v, w, x, <kind args>}
    UNMODELLED []           not an error of the code: the model does not cover this input
-/
import Gojq.Model.Arith
import Gojq.Model.Compare
import Gojq.Model.Utf8
import Gojq.Model.Encode
namespace Gojq

/-- errors as values flowing through the evaluator -/
inductive Err where
  /-- `error(v)`: an `exitCodeError` (a `ValueError`; `catch` yields `v`) -/
  | user (v : JV)
  /-- a built-in error: class plus the values its message is built from -/
  | builtin (kind : String) (args : List JV)
  /-- `break $label` with the identity of the label instance -/
  | brk (id : Nat)
  /-- `halt` / `halt_error` -/
  | halt (v : JV) (code : Int)
  deriving Inhabited

abbrev NRes := Except Err JV

def B (s : String) : Bytes := Bytes.ofString s

/-! ### Preview / error messages (preview.go, error.go) -/

/-- `utf8.DecodeLastRune(bs)`'s size: the width of a validly encoded rune ending the slice, else 1 -/
def lastRuneSize (bs : Bytes) : Nat :=
  let n := bs.length
  let tryW (w : Nat) : Bool :=
    w ≤ n && (let t := bs.drop (n - w); let (_, w', ok) := Utf8.decodeRune t; ok && w' == w)
  if tryW 1 then 1 else if tryW 2 then 2 else if tryW 3 then 3 else if tryW 4 then 4 else 1

/-- the loop `for len(bs) > limit { _, size := utf8.DecodeLastRune(bs); bs = bs[:len(bs)-size] }` -/
def previewCut (limit : Nat) : Nat → Bytes → Bytes
  | 0, bs => bs
  | fuel + 1, bs =>
    if bs.length ≤ limit then bs else previewCut limit fuel (bs.take (bs.length - lastRuneSize bs))

/-- `Preview(v)`: the encoder's output cut at 32 bytes, truncated to 30 with a trailing marker.
    `none` when the value contains a float whose digits the encoder model does not produce. -/
def preview (v : JV) : Option Bytes :=
  if !Encode.modelled v then none else
  let full := Encode.encodeValue v
  let bs := full.take 32
  if bs.length ≤ 30 then some bs else
  let trailing : Bytes := match v with
    | .str _ => B " ...\""
    | .arr _ => B " ...]"
    | .obj _ => B " ...}"
    | _ => B " ..."
  some (previewCut (30 - trailing.length) 40 bs ++ trailing)

def typeErrorPreview (v : JV) : Option Bytes :=
  match v with
  | .null => some (B "null")
  | v => (preview v).map fun p => B v.typeName ++ B " (" ++ p ++ B ")"

/-- `strconv.Quote(s)` for a string of printable ASCII; `none` otherwise (not modelled) -/
def goQuoteAscii (s : Bytes) : Option Bytes :=
  if s.all (fun c => 0x20 ≤ c.toNat && c.toNat ≤ 0x7e) then
    some (B "\"" ++ s.flatMap (fun c => if c.toNat = 0x22 ∨ c.toNat = 0x5c then [0x5c, c] else [c]) ++ B "\"")
  else none

/-- the text of the non-wrapping error kinds -/
def baseMessage (kind : String) (args : List JV) : Option Bytes :=
  let tp (v : JV) := typeErrorPreview v
  match kind, args with
  | "expectedObject", [v] => (tp v).map (B "expected an object but got: " ++ ·)
  | "expectedArray", [v] => (tp v).map (B "expected an array but got: " ++ ·)
  | "iterator", [v] => (tp v).map (B "cannot iterate over: " ++ ·)
  | "objectKeyNotString", [v] => (tp v).map (B "expected a string for object key but got: " ++ ·)
  | "arrayIndexNotNumber", [v] => (tp v).map (B "expected a number for indexing an array but got: " ++ ·)
  | "stringIndexNotNumber", [v] => (tp v).map (B "expected a number for indexing a string but got: " ++ ·)
  | "expectedStartEnd", [v] => (tp v).map (B "expected \"start\" and \"end\" for slicing but got: " ++ ·)
  | "invalidPath", [v] => (tp v).map (B "invalid path against: " ++ ·)
  | "invalidPathIter", [v] => (tp v).map (B "invalid path on iterating against: " ++ ·)
  | "arrayIndexNegative", [v] => (preview v).map (B "array index should not be negative: " ++ ·)
  | "arrayIndexTooLarge", [v] => (preview v).map (B "array index too large: " ++ ·)
  | "repeatStringTooLarge", [s, n] => do
    let a ← preview s; let b ← preview n
    pure (B "repeat string result too large: " ++ a ++ B " * " ++ b)
  | "lengthMismatch", [] => some (B "length mismatch")
  | "timeArray", [] => some (B "expected an array of 8 numbers")
  | "flattenDepth", [v] => (preview v).map (B "flatten depth should not be negative: " ++ ·)
  | "unary", [.str name, v] => (tp v).map (B "cannot " ++ name ++ B ": " ++ ·)
  | "binop", [.str name, l, r] => do
    let a ← tp l; let b ← tp r
    pure (B "cannot " ++ name ++ B ": " ++ a ++ B " and " ++ b)
  | "zeroDivision", [l, r] => do
    let a ← tp l; let b ← tp r
    pure (B "cannot divide " ++ a ++ B " by: " ++ b)
  | "zeroModulo", [l, r] => do
    let a ← tp l; let b ← tp r
    pure (B "cannot modulo " ++ a ++ B " by: " ++ b)
  | "func0", [.str name, v] => (tp v).map (name ++ B " cannot be applied to: " ++ ·)
  | "func1", [.str name, v, w] => do
    let a ← tp v; let p ← preview w
    pure (name ++ B "(" ++ p ++ B ") cannot be applied to: " ++ a)
  | "func2", [.str name, v, w, x] => do
    let a ← tp v; let p ← preview w; let q ← preview x
    pure (name ++ B "(" ++ p ++ B "; " ++ q ++ B ") cannot be applied to: " ++ a)
  | "formatNotFound", [.str n] => some (B "format not defined: " ++ n)
  | "formatRow", [.str typ, v] => (tp v).map (B "@" ++ typ ++ B " cannot format an array including: " ++ ·)
  | "text", [.str msg] => some msg
  | "urlEscape", [.str s] => (goQuoteAscii s).map (B "invalid URL escape " ++ ·)
  | _, _ => none

/-- the kinds `baseMessage` knows (a wrapped error stores its kind as a byte string) -/
def baseKinds : List String :=
  ["expectedObject", "expectedArray", "iterator", "objectKeyNotString", "arrayIndexNotNumber",
   "stringIndexNotNumber", "expectedStartEnd", "invalidPath", "invalidPathIter", "arrayIndexNegative",
   "arrayIndexTooLarge", "repeatStringTooLarge", "lengthMismatch", "timeArray", "flattenDepth", "unary",
   "binop", "zeroDivision", "zeroModulo", "func0", "func1", "func2", "formatNotFound", "formatRow",
   "text", "urlEscape", "goError"]

def kindOfBytes (b : Bytes) : String := (baseKinds.find? (fun k => B k == b)).getD ""

/-- the text of a built-in error (`Error()`), when the model computes it -/
def Err.message : Err → Option Bytes
  | .builtin kind args =>
    match kind, args with
    | "func0Wrap", .str name :: v :: .str ik :: iargs => do
      let p ← preview v; let m ← baseMessage (kindOfBytes ik) iargs
      pure (name ++ B " cannot be applied to " ++ p ++ B ": " ++ m)
    | "func1Wrap", .str name :: v :: w :: .str ik :: iargs => do
      let p ← preview v; let q ← preview w; let m ← baseMessage (kindOfBytes ik) iargs
      pure (name ++ B "(" ++ q ++ B ") cannot be applied to " ++ p ++ B ": " ++ m)
    | "func2Wrap", .str name :: v :: w :: x :: .str ik :: iargs => do
      let p ← preview v; let q ← preview w; let r ← preview x; let m ← baseMessage (kindOfBytes ik) iargs
      pure (name ++ B "(" ++ q ++ B "; " ++ r ++ B ") cannot be applied to " ++ p ++ B ": " ++ m)
    -- the evaluator's own rendering of a failed `setpath` (Model/Spec.lean): message precomputed
    | "func2wrap:setpath", [v, p, n, .str msg] => do
      let a ← preview v; let q ← preview p; let r ← preview n
      if msg.isEmpty then none else
      pure (B "setpath(" ++ q ++ B "; " ++ r ++ B ") cannot be applied to " ++ a ++ B ": " ++ msg)
    | k, a => baseMessage k a
  | _ => none

def errExpectedObject (v : JV) : Err := .builtin "expectedObject" [v]
def errExpectedArray (v : JV) : Err := .builtin "expectedArray" [v]
def errFunc0 (name : String) (v : JV) : Err := .builtin "func0" [.str (B name), v]
def errFunc1 (name : String) (v w : JV) : Err := .builtin "func1" [.str (B name), v, w]
def errFunc2 (name : String) (v w x : JV) : Err := .builtin "func2" [.str (B name), v, w, x]
def errBinop (name : String) (l r : JV) : Err := .builtin "binop" [.str (B name), l, r]
def errUnary (name : String) (v : JV) : Err := .builtin "unary" [.str (B name), v]
def errUnmodelled : Err := .builtin "UNMODELLED" []

/-- wrap a built-in error: `&func0WrapError{name, v, err}` -/
def errFunc0Wrap (name : String) (v : JV) : Err → Err
  | .builtin "UNMODELLED" a => .builtin "UNMODELLED" a
  | .builtin k a => .builtin "func0Wrap" (.str (B name) :: v :: .str (B k) :: a)
  | e => e
def errFunc1Wrap (name : String) (v w : JV) : Err → Err
  | .builtin "UNMODELLED" a => .builtin "UNMODELLED" a
  | .builtin k a => .builtin "func1Wrap" (.str (B name) :: v :: w :: .str (B k) :: a)
  | e => e
def errFunc2Wrap (name : String) (v w x : JV) : Err → Err
  | .builtin "UNMODELLED" a => .builtin "UNMODELLED" a
  | .builtin k a => .builtin "func2Wrap" (.str (B name) :: v :: w :: x :: .str (B k) :: a)
  | e => e

/-- is the outcome "this input is outside the model" (never an outcome of the code) -/
def Err.isUnmodelled : Err → Bool
  | .builtin "UNMODELLED" _ => true
  | _ => false

/-! ### numeric conversions (func.go: toInt, toIntCeil, toFloat) -/

/-- `toInt`: saturating conversion to Go `int` -/
def toInt? : JV → Option Int
  | .num (.int z) => some (if z < minInt then minInt else if z > maxInt then maxInt else z)
  | .num n => some (floatToInt n)
  | _ => none

/-- `math.Ceil` on a float carrier -/
def fceil : Num → Num
  | .flt q => let c := q.ceil; if c == 0 && q < 0 then .nzero else .flt (c : Rat)
  | n => n

def ffloor : Num → Num
  | .flt q => .flt (q.floor : Rat)
  | n => n

def toIntCeil? : JV → Option Int
  | .num (.int z) => toInt? (.num (.int z))
  | .num n => some (floatToInt (fceil n))
  | _ => none

def toFloat? : JV → Option Num
  | .num n => some n.toFlt
  | _ => none

/-- `clampIndex(i, minimum, maximum)` -/
def clampIndex (i minimum maximum : Int) : Int :=
  let i := if i < 0 then wrap64 (i + maximum) else i
  if i < minimum then minimum else if i < maximum then i else maximum

def jvInt (z : Int) : JV := .num (.int z)

def isNumber : JV → Bool
  | .num _ => true
  | _ => false

end Gojq

/-
  Native functions, part 3: the operators of operator.go through `binopTypeSwitch`
  (funcOpAdd/Sub/Mul/Div/Mod, funcOpPlus/Negate, funcOpAlt, deepMergeObjects, repeatString)
  and the container natives built on them (keys, values, add, flatten, contains/inside, has,
  reverse, transpose, min/max/sort/group/unique with their error shapes, bsearch).

  `binopTypeSwitch` first replaces json.Number operands by `parseNumber`; the model has that
  normal form only (`Num.int` for int / *big.Int / integer literals, float carriers otherwise).
  Its cells: numbers × numbers (ints / bigs / floats: `Arith`), string × string, array × array,
  object × object, everything else the `fallback`.
-/
import Gojq.Model.Native.Index
import Gojq.Model.Codec
namespace Gojq

def isFalsy : JV → Bool
  | .null => true | .bool false => true | _ => false

/-! ### `*` on objects: deepMergeObjects -/

mutual
  /-- the value stored under a key of the right operand: merged recursively when both the value
      already there (`lv`) and the new one are objects -/
  def mergeVal (lv : Option JV) : JV → JV
    | .obj rv =>
      match lv with
      | some (.obj lk) => .obj (deepMerge lk rv)
      | _ => .obj rv
    | v => v
  /-- `deepMergeObjects(l, r)`: `m := copy(l); for k, v := range r { … m[k] = v }` -/
  def deepMerge (l : List (Bytes × JV)) : List (Bytes × JV) → List (Bytes × JV)
    | [] => l
    | (k, v) :: rest => deepMerge (kvInsert k (mergeVal (kvLookup k l) v) l) rest
end

/-! ### `*` on a string and a number: repeatString -/

def maxInt32 : Int := 2147483647

/-- `c := int(min(n, math.MaxInt32))` for `n` not below zero and not NaN -/
def repeatCount (n : Num) : Int :=
  match n with
  | .inf _ => maxInt32
  | n => let i := floatToInt n; if i > maxInt32 then maxInt32 else i

/-- `repeatString(s, n)`; `n` is the float64 the number converts to -/
def repeatString (s : Bytes) (n : Num) : NRes :=
  -- lt(n, 0): n < 0 || isNaN(n)
  if fltLt n (.flt 0) || n.isNaN then pure .null else
  let c := repeatCount n
  if (s.length : Int) * c ≥ maxInt32 then throw (.builtin "repeatStringTooLarge" [.str s, .num n])
  else if s.isEmpty then pure (.str [])   -- strings.Repeat("", c): nothing to replicate
  else pure (.str (List.replicate c.toNat s).flatten)

/-- bytes `repeatString` would produce (`none`: null or error); used by callers that must not
    materialise huge strings -/
def repeatSize (s : Bytes) (n : Num) : Nat :=
  if fltLt n (.flt 0) || n.isNaN then 0 else
  let c := repeatCount n
  if (s.length : Int) * c ≥ maxInt32 then 0 else s.length * c.toNat

/-! ### the five arithmetic operators -/

/-- `maps.Copy(m, r)` on top of `l` -/
def objMerge (l r : List (Bytes × JV)) : List (Bytes × JV) :=
  r.foldl (fun acc kv => kvInsert kv.1 kv.2 acc) l

def opAdd (l r : JV) : NRes :=
  match l, r with
  | .num a, .num b => pure (.num (opAddNum a b))
  | .str a, .str b => pure (.str (a ++ b))
  | .arr a, .arr b => pure (.arr (a ++ b))
  | .obj a, .obj b => pure (.obj (objMerge a b))
  | .null, r => pure r
  | l, .null => pure l
  | l, r => throw (errBinop "add" l r)

def opSub (l r : JV) : NRes :=
  match l, r with
  | .num a, .num b => pure (.num (opSubNum a b))
  | .arr a, .arr b => pure (.arr (arraySub a b))
  | l, r => throw (errBinop "subtract" l r)

def opMul (l r : JV) : NRes :=
  match l, r with
  | .num a, .num b => pure (.num (opMulNum a b))
  | .obj a, .obj b => pure (.obj (deepMerge a b))
  | .str s, .num n => repeatString s n.toFlt
  | .num n, .str s => repeatString s n.toFlt
  | l, r => throw (errBinop "multiply" l r)

/-- the operands as the selected callback of `binopTypeSwitch` received them (they are the
    fields of `zeroDivisionError` / `zeroModuloError`): unchanged on the int and big paths,
    converted to float64 on the float path -/
def numOperands (a b : Num) : JV × JV :=
  match a, b with
  | .int _, .int _ => (.num a, .num b)
  | a, b => (.num a.toFlt, .num b.toFlt)

def opDiv (l r : JV) : NRes :=
  match l, r with
  | .num a, .num b =>
    match opDivNum a b with
    | .ok n => pure (.num n)
    | .error _ => throw (.builtin "zeroDivision" [(numOperands a b).1, (numOperands a b).2])
  | .str a, .str b => if a.isEmpty then pure (.arr []) else pure (.arr ((Codec.splitOn b a).map .str))
  | l, r => throw (errBinop "divide" l r)

def opMod (l r : JV) : NRes :=
  match l, r with
  | .num a, .num b =>
    match opModNum a b with
    | .ok n => pure (.num n)
    | .error _ => throw (.builtin "zeroModulo" [(numOperands a b).1, (numOperands a b).2])
  | l, r => throw (errBinop "modulo" l r)

/-- `funcOpPlus` -/
def opPlus : JV → NRes
  | .num n => pure (.num n)
  | v => throw (errUnary "plus" v)

/-- `funcOpNegate` -/
def opNegate : JV → NRes
  | .num n => pure (.num (opNegNum n))
  | v => throw (errUnary "negate" v)

/-- `funcOpAlt` -/
def opAlt (l r : JV) : JV := if isFalsy l then r else l

/-! ### keys, values, has, add, flatten -/

def keysOf : JV → Option (List JV)
  | .arr vs => some ((List.range vs.length).map fun i => jvInt (i : Nat))
  | .obj kvs => some (kvs.map fun (k, _) => .str k)
  | _ => none

def valuesOf : JV → Option (List JV)
  | .arr vs => some vs
  | .obj kvs => some (kvs.map (·.2))
  | _ => none

def funcKeys (v : JV) : NRes :=
  match keysOf v with
  | some ks => pure (.arr ks)
  | none => throw (errFunc0 "keys" v)

/-- `funcHas` -/
def funcHas (v x : JV) : NRes :=
  match v, x with
  | .arr vs, x =>
    match toInt? x with
    | some i => pure (.bool (0 ≤ i ∧ i < vs.length))
    | none => throw (errFunc1 "has" v x)
  | .obj kvs, .str k => pure (.bool (kvLookup k kvs).isSome)
  | .null, _ => pure (.bool false)
  | v, x => throw (errFunc1 "has" v x)

/-- `add` (func.go): a left fold with `funcOpAdd`, nulls skipped (the strings.Builder / append /
    maps.Copy fast paths compute the same values) -/
def addAll (xs : List JV) : NRes :=
  xs.foldlM (fun acc x => match x with
    | .null => pure acc
    | x => opAdd acc x) .null

def funcAdd (v : JV) : NRes :=
  match valuesOf v with
  | some xs => addAll xs
  | none => throw (errFunc0 "add" v)

mutual
  /-- what one element contributes to `flatten(xs, vs, depth)` -/
  def flattenVal (depth : Rat) : JV → List JV
    | .arr vs => if depth != 0 then flattenList (depth - 1) vs else [.arr vs]
    | v => [v]
  /-- `flatten(xs, vs, depth)` with the depth as an exact rational (−1 = unlimited: it never
      reaches 0 by subtracting 1) -/
  def flattenList (depth : Rat) : List JV → List JV
    | [] => []
    | v :: rest => flattenVal depth v ++ flattenList depth rest
end

/-- `funcFlatten(v, args)` -/
def funcFlatten (v : JV) (args : List JV) : NRes :=
  match valuesOf v with
  | none => throw (errFunc0 "flatten" v)
  | some xs =>
    match args with
    | [] => pure (.arr (flattenList (-1) xs))
    | d :: _ =>
      match toFloat? d with
      | none => throw (errFunc0 "flatten" d)
      | some f =>
        -- lt(depth, 0): depth < 0 || isNaN(depth)
        if fltLt f (.flt 0) || f.isNaN then throw (.builtin "flattenDepth" [.num f]) else
        match f with
        | .flt q => pure (.arr (flattenList q xs))
        | .nzero => pure (.arr (flattenList 0 xs))
        | _ => pure (.arr (flattenList (-1) xs))   -- +Inf: never reaches 0

/-! ### contains / inside -/

/-- `strings.Contains(l, r)` -/
def bytesContains (l r : Bytes) : Bool :=
  r.isEmpty || (List.range (l.length + 1)).any fun i => (l.drop i).take r.length == r

mutual
  /-- `funcContains(l, r)`: `some b` = the boolean, `none` = the `func1TypeError` of the fallback
      (`l == r` holds for null/null and equal booleans only) -/
  def contains : JV → JV → Option Bool
    | .num a, .num b => some (cmpNum a b == .eq)
    | .str l, .str r => some (bytesContains l r)
    | .arr l, .arr r => some (r.all fun x => containsAny l x)
    | .obj l, .obj r => some (!(decide (l.length < r.length)) && r.all fun kv => containsKey l kv.1 kv.2)
    | .null, .null => some true
    | .bool a, .bool b => if a == b then some true else none
    | _, _ => none
  /-- `for _, l := range l { if funcContains(l, r) == true { continue R } }` -/
  def containsAny : List JV → JV → Bool
    | [], _ => false
    | x :: xs, r => (contains x r == some true) || containsAny xs r
  /-- `if l, ok := l[k]; !ok || funcContains(l, r) != true { return false }` -/
  def containsKey : List (Bytes × JV) → Bytes → JV → Bool
    | [], _, _ => false
    | (k', lv) :: rest, k, rv => if k == k' then contains lv rv == some true else containsKey rest k rv
end

def funcContains (v x : JV) : NRes :=
  match contains v x with
  | some b => pure (.bool b)
  | none => throw (errFunc1 "contains" v x)

/-- `funcInside(v, x) = funcContains(x, v)` -/
def funcInside (v x : JV) : NRes := funcContains x v

/-! ### prefixes and suffixes (strings.HasPrefix / HasSuffix / TrimPrefix / TrimSuffix) -/

def hasPrefix (s p : Bytes) : Bool := s.take p.length == p
def hasSuffix (s p : Bytes) : Bool := p.length ≤ s.length && s.drop (s.length - p.length) == p
def trimPrefix (s p : Bytes) : Bytes := if hasPrefix s p then s.drop p.length else s
def trimSuffix (s p : Bytes) : Bytes := if hasSuffix s p then s.take (s.length - p.length) else s

/-! ### reverse, transpose -/

def funcReverse : JV → NRes
  | .arr xs => pure (.arr xs.reverse)
  | v => throw (errFunc0 "reverse" v)

/-- the rows of `transpose`'s input, when every element is an array -/
def rowsOf : List JV → Option (List (List JV))
  | [] => some []
  | .arr r :: rest => (rowsOf rest).map (r :: ·)
  | _ :: _ => none

/-- `funcTranspose`: `l` = the longest row; `result[j][i] = rows[i][j]`, null where the row is short -/
def transposeRows (rows : List (List JV)) : List JV :=
  let l := rows.foldl (fun m r => max m r.length) 0
  (List.range l).map fun j => .arr (rows.map fun r => r.getD j .null)

def funcTranspose (v : JV) : NRes :=
  match v with
  | .arr vss =>
    match rowsOf vss with
    | some rows => pure (.arr (transposeRows rows))
    | none => throw (errFunc0 "transpose" v)
  | v => throw (errFunc0 "transpose" v)

/-! ### min/max/sort/group/unique: error shapes of sortItems / funcMinBy -/

/-- turn `Sort.lean`'s error classes into the errors of `sortItems(name, v, x)`:
    a non-array input is func0TypeError for `sort`/`unique` (name without `_by`) and
    func1TypeError otherwise; a non-array key list func1TypeError; unequal lengths
    func1WrapError{lengthMismatchError} -/
def sortErr (name : String) (by_ : Bool) (v x : JV) : SortErr → Err
  | .length => errFunc1Wrap name v x (.builtin "lengthMismatch" [])
  | .type =>
    match v with
    | .arr _ => errFunc1 name v x
    | _ => if by_ then errFunc1 name v x else errFunc0 name v

def liftSort (name : String) (by_ : Bool) (v x : JV) (r : Except SortErr JV) : NRes :=
  match r with
  | .ok w => pure w
  | .error e => throw (sortErr name by_ v x e)

def funcMin (v : JV) : NRes :=
  match v with
  | .arr _ => liftSort "min" false v v (minMaxBy true v v)
  | v => throw (errFunc0 "min" v)

def funcMax (v : JV) : NRes :=
  match v with
  | .arr _ => liftSort "max" false v v (minMaxBy false v v)
  | v => throw (errFunc0 "max" v)

def funcBsearch (v t : JV) : NRes :=
  match v with
  | .arr vs => pure (.num (.int (bsearchList vs t)))
  | v => throw (errFunc1 "bsearch" v t)

end Gojq
